use std::sync::Arc;
use arrow_array::*;
use arrow_schema::{DataType, Field, Schema};
use futures::TryStreamExt;
use lance::dataset::WriteParams;
use lance::Dataset;
use lance_encoding::version::LanceFileVersion;
#[tokio::main]
async fn main() {
    for (name, n) in [("small", 4usize), ("big", 5000)] {
        let a: Int32Array = (0..n).map(|i| if i % 2 == 0 { None } else { Some(i as i32) }).collect();
        let all_null: Int32Array = (0..n).map(|_| None::<i32>).collect();
        let schema = Arc::new(Schema::new(vec![Field::new("a", DataType::Int32, true), Field::new("n", DataType::Int32, true)]));
        let b = RecordBatch::try_new(schema.clone(), vec![Arc::new(a.clone()), Arc::new(all_null.clone())]).unwrap();
        for g in [10usize, 1024] {
            let params = WriteParams { data_storage_version: Some(LanceFileVersion::Legacy), max_rows_per_group: g, ..Default::default() };
            let ds = Dataset::write(RecordBatchIterator::new(vec![Ok(b.clone())], schema.clone()), &format!("memory://leg{name}{g}"), Some(params)).await.unwrap();
            let got: Vec<RecordBatch> = ds.scan().try_into_stream().await.unwrap().try_collect().await.unwrap();
            let got = arrow::compute::concat_batches(&got[0].schema(), got.iter()).unwrap();
            let ga = got.column(0).as_any().downcast_ref::<Int32Array>().unwrap();
            let gn = got.column(1).as_any().downcast_ref::<Int32Array>().unwrap();
            println!("{name} group {g}: a nulls {} (expected {}), n nulls {} (expected {}), first a {:?}", ga.null_count(), a.null_count(), gn.null_count(), all_null.null_count(), (0..4).map(|i| if ga.is_null(i) { None } else { Some(ga.value(i)) }).collect::<Vec<_>>());
        }
    }
}
