// Scratch experiments, round 3: C24 race, C16 limit pushdown with refine, C36 names, C38 recreate.
use std::sync::Arc;

use arrow_array::{Array, Int32Array, RecordBatch, RecordBatchIterator};
use arrow_schema::{DataType, Field, Schema as ArrowSchema};
use futures::TryStreamExt;
use lance::dataset::{MergeInsertBuilder, WhenMatched, WhenNotMatched, WriteMode, WriteParams};
use lance::Dataset;
use lance_index::scalar::ScalarIndexParams;
use lance_index::{DatasetIndexExt, IndexType};

fn batch3(ids: Vec<i32>, xs: Vec<Option<i32>>, ys: Vec<i32>) -> (Arc<ArrowSchema>, RecordBatch) {
    let schema = Arc::new(ArrowSchema::new(vec![
        Field::new("id", DataType::Int32, false),
        Field::new("x", DataType::Int32, true),
        Field::new("y", DataType::Int32, false),
    ]));
    let b = RecordBatch::try_new(
        schema.clone(),
        vec![Arc::new(Int32Array::from(ids)), Arc::new(Int32Array::from(xs)), Arc::new(Int32Array::from(ys))],
    )
    .unwrap();
    (schema, b)
}

async fn ids(ds: &Dataset, filter: &str, use_index: bool, limit: Option<(i64, i64)>) -> Vec<i32> {
    let mut sc = ds.scan();
    sc.filter(filter).unwrap();
    sc.use_scalar_index(use_index);
    if let Some((l, o)) = limit {
        sc.limit(Some(l), Some(o)).unwrap();
    }
    let batches: Vec<RecordBatch> = sc.try_into_stream().await.unwrap().try_collect().await.unwrap();
    let mut out = vec![];
    for b in batches {
        let a = b.column_by_name("id").unwrap().as_any().downcast_ref::<Int32Array>().unwrap().clone();
        out.extend(a.values().iter().copied());
    }
    out
}

async fn e15_limit_refine() {
    println!("== E15: LIMIT pushdown with exact index + refine filter");
    let n = 20;
    let (schema, b) = batch3(
        (0..n).collect(),
        (0..n).map(Some).collect(),
        (0..n).map(|i| if i >= 15 { 1 } else { 0 }).collect(),
    );
    let reader = RecordBatchIterator::new(vec![Ok(b)], schema);
    let mut ds = Dataset::write(reader, "memory://e15", None).await.unwrap();
    ds.create_index(&["x"], IndexType::BTree, None, &ScalarIndexParams::default(), true).await.unwrap();
    for (f, lim) in [("x >= 0 AND y = 1", Some((2, 0))), ("x >= 0 AND y = 1", Some((2, 1))), ("x >= 3 AND y = 1", Some((3, 0))), ("x >= 0 AND y = 1", None)] {
        let a = ids(&ds, f, true, lim).await;
        let b = ids(&ds, f, false, lim).await;
        println!("  {:22} limit {:?}: index={:?} noindex={:?} {}", f, lim, a, b, if a == b { "same" } else { "DIFF" });
    }
}

async fn e16_index_race() {
    println!("== E16: create_index on stale handle after a concurrent partial-schema merge_insert (RewriteColumns)");
    let (schema, b) = batch3((0..6).collect(), (0..6).map(Some).collect(), vec![0; 6]);
    let reader = RecordBatchIterator::new(vec![Ok(b)], schema);
    let ds = Dataset::write(reader, "memory://e16", None).await.unwrap();
    let mut stale = ds.clone();
    // concurrent writer: partial schema update of x for ids 1,2 -> x=100,200
    let src_schema = Arc::new(ArrowSchema::new(vec![
        Field::new("id", DataType::Int32, false),
        Field::new("x", DataType::Int32, true),
    ]));
    let src = RecordBatch::try_new(
        src_schema.clone(),
        vec![Arc::new(Int32Array::from(vec![1, 2])), Arc::new(Int32Array::from(vec![Some(100), Some(200)]))],
    )
    .unwrap();
    let mut mb = MergeInsertBuilder::try_new(Arc::new(ds.clone()), vec!["id".to_string()]).unwrap();
    mb.when_matched(WhenMatched::UpdateAll).when_not_matched(WhenNotMatched::DoNothing);
    let job = mb.try_build().unwrap();
    let reader = RecordBatchIterator::new(vec![Ok(src)], src_schema);
    let (ds2, stats) = job.execute_reader(Box::new(reader)).await.unwrap();
    println!("  merge committed v{} stats {:?}", ds2.version().version, stats);
    let tx = ds2.read_transaction().await.unwrap();
    println!("  txn op = {}", tx.map(|t| format!("{}", t.operation)).unwrap_or_default());
    // now the stale handle builds + commits an index trained on v1
    let r = stale.create_index(&["x"], IndexType::BTree, None, &ScalarIndexParams::default(), true).await;
    println!("  create_index on stale handle: {:?}; now at v{}", r.map_err(|e| e.to_string()), stale.version().version);
    let mut latest = stale.clone();
    latest.checkout_latest().await.unwrap();
    println!("  latest v{}", latest.version().version);
    for f in ["x = 100", "x = 1", "x >= 100"] {
        let a = ids(&latest, f, true, None).await;
        let b = ids(&latest, f, false, None).await;
        println!("  {:10}: index={:?} noindex={:?} {}", f, a, b, if a == b { "same" } else { "DIFF" });
    }
    let idx = latest.load_indices().await.unwrap();
    for i in idx.iter() {
        println!("  index {} bitmap {:?}", i.name, i.fragment_bitmap.as_ref().map(|b| b.iter().collect::<Vec<_>>()));
    }
}

async fn e19_cache_recreate() {
    println!("== E19: drop and recreate at same path with shared session");
    let dir = "/var/tmp/lvx/e19ds";
    let _ = std::fs::remove_dir_all(dir);
    let (schema, b) = batch3(vec![1, 2, 3], vec![Some(1), Some(2), Some(3)], vec![0; 3]);
    let reader = RecordBatchIterator::new(vec![Ok(b)], schema.clone());
    let mut ds = Dataset::write(reader, dir, None).await.unwrap();
    ds.delete("id = 2").await.unwrap();
    let session = ds.session();
    println!("  first incarnation v{} rows {:?}", ds.version().version, ids(&ds, "true", false, None).await);
    std::fs::remove_dir_all(dir).unwrap();
    // recreate with different data, same number of versions, through same session
    let (_, b2) = batch3(vec![7, 8, 9], vec![Some(7), Some(8), Some(9)], vec![0; 3]);
    let reader = RecordBatchIterator::new(vec![Ok(b2)], schema.clone());
    let params = WriteParams { session: Some(session.clone()), ..Default::default() };
    let mut ds2 = Dataset::write(reader, dir, Some(params.clone())).await.unwrap();
    ds2.delete("id = 9").await.unwrap();
    let via_session = lance::dataset::builder::DatasetBuilder::from_uri(dir).with_session(session.clone()).load().await.unwrap();
    let fresh = Dataset::open(dir).await.unwrap();
    println!("  shared session: v{} rows {:?} txn {:?}", via_session.version().version, ids(&via_session, "true", false, None).await, via_session.read_transaction().await.map(|t| t.map(|t| t.operation.to_string())).map_err(|e| e.to_string()));
    println!("  fresh session : v{} rows {:?} txn {:?}", fresh.version().version, ids(&fresh, "true", false, None).await, fresh.read_transaction().await.map(|t| t.map(|t| t.operation.to_string())).map_err(|e| e.to_string()));
    let v1s = via_session.checkout_version(1).await.unwrap();
    let v1f = fresh.checkout_version(1).await.unwrap();
    println!("  v1 shared rows {:?} ; v1 fresh rows {:?}", ids(&v1s, "true", false, None).await, ids(&v1f, "true", false, None).await);
    let _ = WriteMode::Append;
}

#[tokio::main]
async fn main() {
    let which: Vec<String> = std::env::args().skip(1).collect();
    let has = |n: &str| which.is_empty() || which.iter().any(|w| w == n);
    if has("e15") { e15_limit_refine().await; }
    if has("e16") { e16_index_race().await; }
    if has("e19") { e19_cache_recreate().await; }
}
