// Scratch: external manifest store with "applied but reply lost" fault on put_if_not_exists.
use std::collections::HashMap;
use std::sync::atomic::{AtomicBool, Ordering};
use std::sync::Arc;

use arrow_array::{Int32Array, RecordBatch, RecordBatchIterator};
use arrow_schema::{DataType, Field, Schema as ArrowSchema};
use async_trait::async_trait;
use lance::dataset::builder::DatasetBuilder;
use lance::dataset::{WriteMode, WriteParams};
use lance::Dataset;
use lance_core::{Error, Result};
use lance_table::io::commit::external_manifest::{ExternalManifestCommitHandler, ExternalManifestStore};
use lance_table::io::commit::CommitHandler;
use tokio::sync::Mutex;

#[derive(Debug)]
struct Ext {
    store: Mutex<HashMap<(String, u64), String>>,
    lose_next_ack: AtomicBool,
}

#[async_trait]
impl ExternalManifestStore for Ext {
    async fn get(&self, uri: &str, version: u64) -> Result<String> { eprintln!("  ext.get {version}");
        self.store.lock().await.get(&(uri.to_string(), version)).cloned().ok_or(Error::NotFound { uri: uri.to_string(), location: snafu_loc() })
    }
    async fn get_latest_version(&self, uri: &str) -> Result<Option<(u64, String)>> { eprintln!("  ext.get_latest");
        let s = self.store.lock().await;
        Ok(s.iter().filter(|((u, _), _)| u == uri).max_by_key(|((_, v), _)| *v).map(|((_, v), p)| (*v, p.clone())))
    }
    async fn put_if_not_exists(&self, uri: &str, version: u64, path: &str, _size: u64, _e: Option<String>) -> Result<()> { eprintln!("  ext.put_if_not_exists {version} {path}");
        let mut s = self.store.lock().await;
        if s.contains_key(&(uri.to_string(), version)) {
            return Err(Error::io("exists".to_string(), snafu_loc()));
        }
        s.insert((uri.to_string(), version), path.to_string());
        if self.lose_next_ack.swap(false, Ordering::SeqCst) {
            return Err(Error::io("timeout: reply lost (write was applied)".to_string(), snafu_loc()));
        }
        Ok(())
    }
    async fn put_if_exists(&self, uri: &str, version: u64, path: &str, _size: u64, _e: Option<String>) -> Result<()> { eprintln!("  ext.put_if_exists {version} {path}");
        let mut s = self.store.lock().await;
        if !s.contains_key(&(uri.to_string(), version)) {
            return Err(Error::io("missing".to_string(), snafu_loc()));
        }
        s.insert((uri.to_string(), version), path.to_string());
        Ok(())
    }
}

fn snafu_loc() -> snafu::Location {
    snafu::Location::new(file!(), line!(), 0)
}

fn batch(ids: Vec<i32>) -> (Arc<ArrowSchema>, RecordBatch) {
    let schema = Arc::new(ArrowSchema::new(vec![Field::new("id", DataType::Int32, false)]));
    let b = RecordBatch::try_new(schema.clone(), vec![Arc::new(Int32Array::from(ids))]).unwrap();
    (schema, b)
}

#[tokio::main]
async fn main() {
    let dir = "/var/tmp/lvx/e18ds";
    let _ = std::fs::remove_dir_all(dir);
    let ext = Arc::new(Ext { store: Mutex::new(HashMap::new()), lose_next_ack: AtomicBool::new(false) });
    let handler: Arc<dyn CommitHandler> = Arc::new(ExternalManifestCommitHandler { external_manifest_store: ext.clone() });
    let params = WriteParams { commit_handler: Some(handler.clone()), ..Default::default() };
    let (schema, b) = batch(vec![1, 2]);
    let reader = RecordBatchIterator::new(vec![Ok(b)], schema.clone());
    let mut ds = Dataset::write(reader, dir, Some(params.clone())).await.unwrap();
    println!("created v{}", ds.version().version);
    ext.lose_next_ack.store(true, Ordering::SeqCst);
    let (_, b2) = batch(vec![3]);
    let reader = RecordBatchIterator::new(vec![Ok(b2)], schema.clone());
    let p2 = params.clone();
    let r = tokio::time::timeout(std::time::Duration::from_secs(5), async move { ds.append(reader, Some(WriteParams { mode: WriteMode::Append, ..p2 })).await.map_err(|e| e.to_string().chars().take(200).collect::<String>()) }).await;
    println!("append with lost ack (5s timeout): {:?}", r);
    println!("external store: {:?}", ext.store.lock().await);
    let opened = DatasetBuilder::from_uri(dir).with_commit_handler(handler.clone()).load().await;
    match opened {
        Ok(d) => println!("reopen: v{} rows {:?}", d.version().version, d.count_rows(None).await.map_err(|e| e.to_string())),
        Err(e) => println!("reopen FAILED: {}", e.to_string().chars().take(300).collect::<String>()),
    }
    let v = std::fs::read_dir(format!("{dir}/_versions")).unwrap().map(|e| e.unwrap().file_name().into_string().unwrap()).collect::<Vec<_>>();
    println!("_versions: {:?}", v);
}
