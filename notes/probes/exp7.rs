// Scratch: stale-handle append racing with drop column / add column.
use std::sync::Arc;
use arrow_array::{Array, Int32Array, RecordBatch, RecordBatchIterator};
use arrow_schema::{DataType, Field, Schema as ArrowSchema};
use futures::TryStreamExt;
use lance::dataset::{NewColumnTransform, WriteMode, WriteParams};
use lance::Dataset;

fn batch(ids: Vec<i32>) -> (Arc<ArrowSchema>, RecordBatch) {
    let schema = Arc::new(ArrowSchema::new(vec![
        Field::new("id", DataType::Int32, false),
        Field::new("x", DataType::Int32, true),
    ]));
    let xs: Vec<i32> = ids.iter().map(|i| i * 10).collect();
    let b = RecordBatch::try_new(schema.clone(), vec![Arc::new(Int32Array::from(ids)), Arc::new(Int32Array::from(xs))]).unwrap();
    (schema, b)
}
async fn dump(ds: &Dataset) {
    println!("    schema: {:?}", ds.schema().fields.iter().map(|f| (f.name.clone(), f.id)).collect::<Vec<_>>());
    match ds.scan().try_into_stream().await {
        Ok(s) => match s.try_collect::<Vec<RecordBatch>>().await {
            Ok(bs) => for b in bs { println!("    batch cols {:?} rows {}: {:?}", b.schema().fields().iter().map(|f| f.name().clone()).collect::<Vec<_>>(), b.num_rows(), (0..b.num_columns()).map(|c| { let a = b.column(c).as_any().downcast_ref::<Int32Array>().unwrap(); (0..a.len()).map(|i| if a.is_null(i) { None } else { Some(a.value(i)) }).collect::<Vec<_>>() }).collect::<Vec<_>>()); },
            Err(e) => println!("    scan error: {}", e.to_string().chars().take(300).collect::<String>()),
        },
        Err(e) => println!("    scan plan error: {}", e.to_string().chars().take(300).collect::<String>()),
    }
    println!("    validate: {:?}", ds.validate().await.map_err(|e| e.to_string().chars().take(200).collect::<String>()));
}
#[tokio::main]
async fn main() {
    for scenario in ["drop", "add"] {
        let dir = format!("/var/tmp/lvx/e20_{scenario}");
        let _ = std::fs::remove_dir_all(&dir);
        let (schema, b) = batch(vec![1, 2]);
        let mut ds = Dataset::write(RecordBatchIterator::new(vec![Ok(b)], schema.clone()), &dir, None).await.unwrap();
        let mut stale = ds.clone();
        if scenario == "drop" {
            ds.drop_columns(&["x"]).await.unwrap();
        } else {
            ds.add_columns(NewColumnTransform::SqlExpressions(vec![("z".into(), "id + 1".into())]), None, None).await.unwrap();
        }
        println!("== scenario {scenario}: concurrent op committed v{}", ds.version().version);
        let (_, b2) = batch(vec![3]);
        let r = stale.append(RecordBatchIterator::new(vec![Ok(b2)], schema.clone()), Some(WriteParams { mode: WriteMode::Append, ..Default::default() })).await;
        println!("  stale append: {:?}", r.map_err(|e| e.to_string().chars().take(200).collect::<String>()));
        let latest = Dataset::open(&dir).await.unwrap();
        println!("  latest v{}", latest.version().version);
        dump(&latest).await;
    }
}
