// Scratch: full-text search match sets vs naive tokenised evaluation.
use std::sync::Arc;
use arrow_array::*;
use arrow_schema::{DataType, Field, Schema};
use futures::TryStreamExt;
use lance::dataset::{WriteMode, WriteParams};
use lance::Dataset;
use lance_index::scalar::inverted::query::{FtsQuery, MatchQuery, Operator, PhraseQuery};
use lance_index::scalar::{FullTextSearchQuery, InvertedIndexParams};
use lance_index::{DatasetIndexExt, IndexType};

struct Rng(u64);
impl Rng { fn next(&mut self) -> u64 { self.0 = self.0.wrapping_add(0x9E3779B97F4A7C15); let mut z = self.0; z = (z ^ (z >> 30)).wrapping_mul(0xBF58476D1CE4E5B9); z = (z ^ (z >> 27)).wrapping_mul(0x94D049BB133111EB); z ^ (z >> 31) } fn below(&mut self, n: u64) -> u64 { self.next() % n.max(1) } }
const VOCAB: [&str; 6] = ["zeta", "kappa", "omega", "quux", "blorp", "émile"];
fn make(r: &mut Rng, n: usize, base: i32) -> (Arc<Schema>, RecordBatch, Vec<Option<Vec<&'static str>>>) {
    let docs: Vec<Option<Vec<&'static str>>> = (0..n).map(|_| match r.below(10) { 0 => None, 1 => Some(vec![]), _ => Some((0..1 + r.below(5)).map(|_| VOCAB[r.below(6) as usize]).collect()) }).collect();
    let text: StringArray = docs.iter().map(|d| d.as_ref().map(|t| t.join(if r.below(2) == 0 { " " } else { ", " }))).collect();
    let id: Int32Array = (0..n as i32).map(|i| Some(base + i)).collect();
    let schema = Arc::new(Schema::new(vec![Field::new("id", DataType::Int32, false), Field::new("text", DataType::Utf8, true)]));
    (schema.clone(), RecordBatch::try_new(schema, vec![Arc::new(id), Arc::new(text)]).unwrap(), docs)
}
async fn search(ds: &Dataset, q: FtsQuery) -> Result<Vec<(i32, f32)>, String> {
    let mut sc = ds.scan();
    sc.full_text_search(FullTextSearchQuery::new_query(q).limit(Some(100000))).map_err(|e| e.to_string())?;
    let bs: Vec<RecordBatch> = sc.try_into_stream().await.map_err(|e| e.to_string())?.try_collect().await.map_err(|e| e.to_string())?;
    let mut out = vec![];
    for b in bs { let id = b.column_by_name("id").unwrap().as_any().downcast_ref::<Int32Array>().unwrap(); let s = b.column_by_name("_score").unwrap().as_any().downcast_ref::<Float32Array>().unwrap(); for i in 0..b.num_rows() { out.push((id.value(i), s.value(i))); } }
    Ok(out)
}
#[tokio::main]
async fn main() {
    let mut r = Rng(5);
    let (schema, b, mut docs) = make(&mut r, 400, 0);
    let mut ds = Dataset::write(RecordBatchIterator::new(vec![Ok(b)], schema.clone()), "memory://fts", Some(WriteParams { max_rows_per_file: 150, ..Default::default() })).await.unwrap();
    let params = InvertedIndexParams::default().with_position(true).stem(false).remove_stop_words(false);
    ds.create_index(&["text"], IndexType::Inverted, None, &params, true).await.unwrap();
    let mut total = 0; let mut bad = 0;
    for phase in ["indexed", "append+delete"] {
        if phase == "append+delete" {
            let (_, b2, d2) = make(&mut r, 80, 400); docs.extend(d2);
            ds.append(RecordBatchIterator::new(vec![Ok(b2)], schema.clone()), Some(WriteParams { mode: WriteMode::Append, ..Default::default() })).await.unwrap();
            ds.delete("id % 9 = 0").await.unwrap();
        }
        let live = |i: usize| !(phase == "append+delete" && i % 9 == 0);
        for _ in 0..40 {
            let nt = 1 + r.below(3) as usize; let terms: Vec<&str> = (0..nt).map(|_| VOCAB[r.below(6) as usize]).collect();
            let qs = terms.join(" ");
            for kind in ["or", "and", "phrase"] {
                let q = match kind { "or" => FtsQuery::Match(MatchQuery::new(qs.clone()).with_column(Some("text".into())).with_operator(Operator::Or)), "and" => FtsQuery::Match(MatchQuery::new(qs.clone()).with_column(Some("text".into())).with_operator(Operator::And)), _ => FtsQuery::Phrase(PhraseQuery::new(qs.clone()).with_column(Some("text".into()))) };
                let exp: Vec<i32> = docs.iter().enumerate().filter(|(i, d)| live(*i) && d.as_ref().map(|t| match kind { "or" => terms.iter().any(|x| t.contains(x)), "and" => terms.iter().all(|x| t.contains(x)), _ => t.windows(nt).any(|w| w == &terms[..]) }).unwrap_or(false)).map(|(i, _)| i as i32).collect();
                total += 1;
                match search(&ds, q).await {
                    Ok(got) => { let mut ids: Vec<i32> = got.iter().map(|x| x.0).collect(); let sorted_scores = got.windows(2).all(|w| w[0].1 >= w[1].1); ids.sort(); if ids != exp || !sorted_scores { bad += 1; if bad <= 8 { let only_g: Vec<_> = ids.iter().filter(|x| !exp.contains(x)).take(4).collect(); let only_e: Vec<_> = exp.iter().filter(|x| !ids.contains(x)).take(4).collect(); println!("  BAD {phase} {kind} {:?}: got {} exp {} only-got {:?} only-exp {:?} scores-sorted={}", qs, ids.len(), exp.len(), only_g, only_e, sorted_scores); } } }
                    Err(e) => { bad += 1; if bad <= 8 { println!("  ERR {phase} {kind} {:?}: {}", qs, e.chars().take(160).collect::<String>()); } }
                }
            }
        }
    }
    println!("fts: queries={total} bad={bad}");
}
