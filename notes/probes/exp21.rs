// Scratch: C01 crash/failure injection at every mutating store call, via lance_core's ProxyObjectStore.
use std::sync::atomic::{AtomicI64, AtomicUsize, Ordering};
use std::sync::{Arc, Mutex};
use arrow_array::*;
use arrow_schema::{DataType, Field, Schema};
use futures::TryStreamExt;
use lance::dataset::builder::DatasetBuilder;
use lance::dataset::optimize::{compact_files, CompactionOptions};
use lance::dataset::{UpdateBuilder, WriteMode, WriteParams};
use lance::Dataset;
use lance_core::utils::testing::{ProxyObjectStore, ProxyObjectStorePolicy};
use lance_index::scalar::ScalarIndexParams;
use lance_index::{DatasetIndexExt, IndexType};
use lance_io::object_store::{ObjectStoreParams, WrappingObjectStore};
use object_store::ObjectStore as OSObjectStore;

#[derive(Debug)]
struct Wrapper { policy: Arc<Mutex<ProxyObjectStorePolicy>> }
impl WrappingObjectStore for Wrapper {
    fn wrap(&self, _prefix: &str, original: Arc<dyn OSObjectStore>) -> Arc<dyn OSObjectStore> { Arc::new(ProxyObjectStore::new(original, self.policy.clone())) }
}
fn batch(lo: i32, hi: i32) -> (Arc<Schema>, RecordBatch) {
    let schema = Arc::new(Schema::new(vec![Field::new("id", DataType::Int32, false), Field::new("x", DataType::Int32, true)]));
    (schema.clone(), RecordBatch::try_new(schema, vec![Arc::new(Int32Array::from_iter_values(lo..hi)), Arc::new(Int32Array::from_iter((lo..hi).map(|i| Some(i * 10))))]).unwrap())
}
async fn snapshot_all(dir: &str) -> Result<Vec<(u64, usize, u64)>, String> {
    let ds = Dataset::open(dir).await.map_err(|e| format!("open: {e}"))?;
    let mut out = vec![];
    for v in ds.versions().await.map_err(|e| e.to_string())? {
        let d = ds.checkout_version(v.version).await.map_err(|e| format!("checkout {}: {e}", v.version))?;
        d.validate().await.map_err(|e| format!("validate v{}: {e}", v.version))?;
        let bs: Vec<RecordBatch> = d.scan().try_into_stream().await.map_err(|e| e.to_string())?.try_collect().await.map_err(|e| format!("scan v{}: {}", v.version, e.to_string().chars().take(150).collect::<String>()))?;
        let mut h = 0u64; let mut n = 0; for b in &bs { for r in 0..b.num_rows() { n += 1; for c in 0..b.num_columns() { let a = b.column(c).as_any().downcast_ref::<Int32Array>().unwrap(); h = h.wrapping_mul(1000003).wrapping_add(if a.is_null(r) { 77 } else { a.value(r) as u64 }); } } }
        out.push((v.version, n, h));
    }
    Ok(out)
}
#[tokio::main]
async fn main() {
    let ops = ["append", "delete", "update", "create_index", "compact", "overwrite", "restore", "drop_column"];
    let mut total = 0; let mut bad = 0;
    for op in ops {
        // determine number of mutating calls with a counting run, then fail at each k
        let mut max_k = 1usize; let mut k = 0usize; // k = 0: counting run
        loop {
            let dir = format!("/var/tmp/lvx/c01_{op}"); let _ = std::fs::remove_dir_all(&dir);
            let (schema, b) = batch(0, 30);
            let mut base = Dataset::write(RecordBatchIterator::new(vec![Ok(b)], schema.clone()), &dir, Some(WriteParams { max_rows_per_file: 10, ..Default::default() })).await.unwrap();
            base.delete("id = 3").await.unwrap();
            let before = snapshot_all(&dir).await.unwrap();
            let counter = Arc::new(AtomicUsize::new(0)); let fail_at = Arc::new(AtomicI64::new(if k == 0 { -1 } else { k as i64 }));
            let policy = Arc::new(Mutex::new(ProxyObjectStorePolicy::new()));
            { let counter = counter.clone(); let fail_at = fail_at.clone();
              policy.lock().unwrap().set_before_policy("inject", Arc::new(move |method: &str, path: &object_store::path::Path| {
                let mutating = matches!(method, "put" | "put_opts" | "put_multipart" | "put_multipart_opts" | "copy" | "rename" | "copy_if_not_exists" | "rename_if_not_exists" | "delete");
                if mutating { let n = counter.fetch_add(1, Ordering::SeqCst) + 1; if fail_at.load(Ordering::SeqCst) >= 0 && n as i64 >= fail_at.load(Ordering::SeqCst) { return Err(lance_core::Error::io(format!("injected failure at call {n} {method} {path}"), snafu::Location::new(file!(), line!(), 0))); } }
                Ok(()) })); }
            let os_params = ObjectStoreParams { object_store_wrapper: Some(Arc::new(Wrapper { policy: policy.clone() })), ..Default::default() };
            let mut ds = DatasetBuilder::from_uri(&dir).with_read_params(lance::dataset::ReadParams { store_options: Some(os_params.clone()), ..Default::default() }).load().await.unwrap();
            let wp = WriteParams { store_params: Some(os_params.clone()), max_rows_per_file: 10, ..Default::default() };
            let res: Result<(), String> = match op {
                "append" => { let (_, b2) = batch(30, 45); ds.append(RecordBatchIterator::new(vec![Ok(b2)], schema.clone()), Some(WriteParams { mode: WriteMode::Append, ..wp.clone() })).await.map_err(|e| e.to_string()) }
                "delete" => ds.delete("id % 2 = 0").await.map_err(|e| e.to_string()),
                "update" => UpdateBuilder::new(Arc::new(ds.clone())).update_where("id < 5").unwrap().set("x", "x + 1").unwrap().build().unwrap().execute().await.map(|_| ()).map_err(|e| e.to_string()),
                "create_index" => ds.create_index(&["x"], IndexType::BTree, None, &ScalarIndexParams::default(), true).await.map_err(|e| e.to_string()),
                "compact" => compact_files(&mut ds, CompactionOptions { target_rows_per_fragment: 100, ..Default::default() }, None).await.map(|_| ()).map_err(|e| e.to_string()),
                "overwrite" => { let (_, b2) = batch(100, 110); Dataset::write(RecordBatchIterator::new(vec![Ok(b2)], schema.clone()), &dir, Some(WriteParams { mode: WriteMode::Overwrite, ..wp.clone() })).await.map(|_| ()).map_err(|e| e.to_string()) }
                "restore" => { let mut old = ds.checkout_version(1).await.unwrap(); old.restore().await.map_err(|e| e.to_string()) }
                _ => ds.drop_columns(&["x"]).await.map_err(|e| e.to_string()),
            };
            let calls = counter.load(Ordering::SeqCst);
            if k == 0 { max_k = calls; if res.is_err() { println!("  {op}: baseline op failed?! {:?}", res); } k = 1; continue; }
            total += 1;
            let after = snapshot_all(&dir).await;
            let verdict = match (&res, &after) {
                (Err(_), Ok(a)) => if *a == before { "ok-invisible" } else if a.len() == before.len() + 1 && a[..before.len()] == before[..] { "FAILED-BUT-COMMITTED" } else { "CHANGED" },
                (Ok(()), Ok(a)) => if a.len() > before.len() && a[..before.len()] == before[..] { "ok-committed" } else { "CHANGED-after-success" },
                (_, Err(_)) => "UNREADABLE",
            };
            if !verdict.starts_with("ok") { bad += 1; println!("  {op} fail_at={k}/{max_k}: op={:?} verdict={verdict} after={:?}", res.as_ref().map_err(|e| e.chars().take(90).collect::<String>()), after.as_ref().map(|a| a.len()).map_err(|e| e.chars().take(120).collect::<String>())); }
            k += 1; if k > max_k { break; }
        }
        println!("{op}: mutating calls {max_k}, crash points tried {}", max_k);
    }
    println!("C01 injection: runs={total} bad={bad}");
}
