// Scratch: C41 replay spill with readers at different points; C29 legacy stats pruning vs no stats.
use std::sync::Arc;
use arrow_array::*;
use arrow_schema::{DataType, Field, Schema};
use futures::{StreamExt, TryStreamExt};
use lance::dataset::WriteParams;
use lance::Dataset;
use lance_datafusion::spill::create_replay_spill;
use lance_encoding::version::LanceFileVersion;

struct Rng(u64);
impl Rng { fn next(&mut self) -> u64 { self.0 = self.0.wrapping_add(0x9E3779B97F4A7C15); let mut z = self.0; z = (z ^ (z >> 30)).wrapping_mul(0xBF58476D1CE4E5B9); z = (z ^ (z >> 27)).wrapping_mul(0x94D049BB133111EB); z ^ (z >> 31) } fn below(&mut self, n: u64) -> u64 { self.next() % n.max(1) } }

fn vals(b: &RecordBatch) -> Vec<i32> { b.column(0).as_any().downcast_ref::<Int32Array>().unwrap().values().to_vec() }

#[tokio::main]
async fn main() {
    let mut r = Rng(9);
    // ---- C41 spill
    let schema = Arc::new(Schema::new(vec![Field::new("v", DataType::Int32, false)]));
    let mut bad = 0; let mut total = 0;
    for case in 0..60 {
        let path = std::path::PathBuf::from(format!("/var/tmp/lvx/spill_{case}.arrow")); let _ = std::fs::remove_file(&path);
        let limit = [0usize, 100, 1000, 1 << 30][r.below(4) as usize];
        let nb = r.below(8) as usize;
        let batches: Vec<RecordBatch> = (0..nb).map(|i| { let n = r.below(60) as i32; RecordBatch::try_new(schema.clone(), vec![Arc::new(Int32Array::from_iter_values((0..n).map(|x| i as i32 * 1000 + x)))]).unwrap() }).collect();
        let expected: Vec<Vec<i32>> = batches.iter().map(vals).collect();
        let (mut tx, rx) = create_replay_spill(path.clone(), schema.clone(), limit);
        // readers started before, during (after k writes), after finish; each fully drained concurrently
        let starts: Vec<usize> = vec![0, r.below(nb as u64 + 1) as usize, nb, nb + 1, nb + 1];
        let mut handles = vec![];
        let mut pending_readers: Vec<(usize, usize)> = starts.iter().copied().enumerate().collect();
        for step in 0..=nb + 1 {
            // start readers scheduled at this step
            for (ri, st) in pending_readers.clone() { if st == step { let s = rx.read(); handles.push((ri, tokio::spawn(async move { s.try_collect::<Vec<RecordBatch>>().await.map(|v| v.iter().map(vals).collect::<Vec<_>>()).map_err(|e| e.to_string()) }))); pending_readers.retain(|x| x.0 != ri); } }
            if step < nb { tx.write(batches[step].clone()).await.unwrap(); tokio::task::yield_now().await; }
            if step == nb { tx.finish().await.unwrap(); }
        }
        for (ri, h) in handles { total += 1; match tokio::time::timeout(std::time::Duration::from_secs(20), h).await { Ok(Ok(Ok(got))) => { if got != expected { bad += 1; println!("  spill case {case} limit {limit} reader {ri}: got {} batches exp {}", got.len(), expected.len()); } } Ok(Ok(Err(e))) => { bad += 1; println!("  spill case {case} reader {ri} error {e}"); } Ok(Err(e)) => { bad += 1; println!("  spill case {case} reader {ri} panic {e}"); } Err(_) => { bad += 1; println!("  spill case {case} limit {limit} reader {ri}: TIMEOUT (never completed)"); } } }
        drop(tx); let _ = std::fs::remove_file(&path);
    }
    println!("spill: readers={total} bad={bad}");
    // ---- C29 legacy stats pruning
    let fvals = [f32::NAN, -0.0, 0.0, 1.5, -1.5, f32::INFINITY, f32::NEG_INFINITY, 2.0, 1e30, -1e30];
    let words = ["", "a", "ab", "abc", "b", "zzzzzzzzzzzzzzzzzzzzzzzzzzzzzzzzzzzzzzzzzzzzzzzzzzzzzzzzzzzzzzzzzzzzzzzzzzzzzzzz", "zzzzzzzzzzzzzzzzzzzzzzzzzzzzzzzzzzzzzzzzzzzzzzzzzzzzzzzzzzzzzzzzzzzzzzzzzzzzzzzy", "é", "\u{10FFFF}\u{10FFFF}"];
    let n = 3000;
    let schema = Arc::new(Schema::new(vec![Field::new("id", DataType::Int32, false), Field::new("i", DataType::Int32, true), Field::new("f", DataType::Float32, true), Field::new("s", DataType::Utf8, true)]));
    // clustered so that stats can prune: sort-ish by chunk
    let b = RecordBatch::try_new(schema.clone(), vec![
        Arc::new(Int32Array::from_iter_values(0..n)),
        Arc::new(Int32Array::from_iter((0..n).map(|k| if r.below(9) == 0 { None } else { Some(k / 100 + r.below(3) as i32) }))),
        Arc::new(Float32Array::from_iter((0..n).map(|k| if r.below(9) == 0 { None } else { Some(fvals[((k / 300) as usize + r.below(2) as usize) % fvals.len()]) }))),
        Arc::new(StringArray::from_iter((0..n).map(|k| if r.below(9) == 0 { None } else { Some(words[((k / 300) as usize + r.below(2) as usize) % words.len()]) }))),
    ]).unwrap();
    let ds = Dataset::write(RecordBatchIterator::new(vec![Ok(b)], schema.clone()), "memory://stats", Some(WriteParams { data_storage_version: Some(LanceFileVersion::Legacy), max_rows_per_group: 100, max_rows_per_file: 1000, ..Default::default() })).await.unwrap();
    let preds = ["i = 7", "i < 3", "i >= 28", "i > 100", "i BETWEEN 10 AND 12", "i IS NULL", "i != 5", "f = 1.5", "f < 0", "f <= 0", "f > 0", "f >= 1e30", "f < -1e29", "f = 0", "f IS NULL", "f > 1.0 AND f < 3", "s = ''", "s = 'abc'", "s < 'b'", "s > 'zzzzzzzzzzzzzzzzzzzzzzzzzzzzzzzzzzzzzzzzzzzzzzzzzzzzzzzzzzzzzzzzzzzzzzzzzzzzzzzy'", "s >= 'é'", "s = 'zzzzzzzzzzzzzzzzzzzzzzzzzzzzzzzzzzzzzzzzzzzzzzzzzzzzzzzzzzzzzzzzzzzzzzzzzzzzzzzz'", "s IS NULL", "i = 7 OR s = 'a'", "NOT (i < 20)"];
    let mut total = 0; let mut bad = 0;
    for p in preds {
        let mut res = vec![];
        for stats in [true, false] {
            let mut sc = ds.scan(); sc.filter(p).unwrap(); sc.use_stats(stats); sc.project(&["id"]).unwrap();
            let out: Result<Vec<RecordBatch>, _> = match sc.try_into_stream().await { Ok(s) => s.try_collect().await, Err(e) => Err(e) };
            res.push(out.map(|bs| { let mut v: Vec<i32> = bs.iter().flat_map(vals).collect(); v.sort(); v }).map_err(|e| e.to_string().chars().take(100).collect::<String>()));
        }
        if let (Ok(a), Ok(bv)) = (&res[0], &res[1]) { if a != bv { let fcol = ds.scan().try_into_stream().await.unwrap().try_collect::<Vec<RecordBatch>>().await.unwrap(); let all = arrow::compute::concat_batches(&fcol[0].schema(), fcol.iter()).unwrap(); let f = all.column_by_name("f").unwrap().as_any().downcast_ref::<Float32Array>().unwrap().clone(); let idc = all.column_by_name("id").unwrap().as_any().downcast_ref::<Int32Array>().unwrap().clone(); let look = |id: i32| { let pos = idc.values().iter().position(|x| *x == id).unwrap(); if f.is_null(pos) { "NULL".to_string() } else { format!("{:?}", f.value(pos)) } }; let mut only_a: Vec<String> = a.iter().filter(|x| !bv.contains(x)).map(|x| look(*x)).collect(); only_a.sort(); only_a.dedup(); let mut only_b: Vec<String> = bv.iter().filter(|x| !a.contains(x)).map(|x| look(*x)).collect(); only_b.sort(); only_b.dedup(); println!("      values only with stats: {:?}; only without: {:?}", only_a, only_b); } }
        total += 1; if res[0] != res[1] { bad += 1; println!("  stats DIFF {p}: with={:?} without={:?}", res[0].as_ref().map(|v| v.len()), res[1].as_ref().map(|v| v.len())); }
    }
    println!("legacy stats pruning: predicates={total} diffs={bad}");
    let _ = futures::stream::empty::<i32>().boxed();
}
