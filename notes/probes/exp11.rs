use lance_core::utils::mask::RowIdTreeMap;
fn main() {
    let mut t = RowIdTreeMap::new();
    let c = t.insert_range(0u64..0u64);
    println!("insert_range(0..0): count={} len={:?} contains(0)={}", c, t.len(), t.contains(0));
    let mut t = RowIdTreeMap::new();
    let c = t.insert_range(5u64..5u64);
    println!("insert_range(5..5): count={} len={:?} is_empty={}", c, t.len(), t.is_empty());
    let t2 = RowIdTreeMap::from(0u64..0u64);
    println!("From(0..0): len={:?}", t2.len());
}
