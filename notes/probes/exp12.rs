// Scratch: kernels (exact-integer mode), argmin, chunker/break_stream.
use std::sync::Arc;
use arrow_array::{Int32Array, RecordBatch};
use arrow_schema::{DataType, Field, Schema};
use lance::deps::datafusion::physical_plan::stream::RecordBatchStreamAdapter;
use lance::deps::datafusion::physical_plan::SendableRecordBatchStream;
use futures::{StreamExt, TryStreamExt};
use half::{bf16, f16};
use lance_datafusion::chunker::{break_stream, chunk_stream, chunk_concat_stream};
use lance_linalg::distance::{cosine_distance, dot, hamming::hamming, l2};
use lance_linalg::kernels::{argmin, argmin_value_float};

struct Rng(u64);
impl Rng { fn next(&mut self) -> u64 { self.0 = self.0.wrapping_add(0x9E3779B97F4A7C15); let mut z = self.0; z = (z ^ (z >> 30)).wrapping_mul(0xBF58476D1CE4E5B9); z = (z ^ (z >> 27)).wrapping_mul(0x94D049BB133111EB); z ^ (z >> 31) } fn below(&mut self, n: u64) -> u64 { self.next() % n.max(1) } }

fn stream_of(sizes: &[usize]) -> (SendableRecordBatchStream, Vec<i32>) {
    let schema = Arc::new(Schema::new(vec![Field::new("v", DataType::Int32, false)]));
    let mut all = vec![]; let mut batches = vec![]; let mut c = 0i32;
    for s in sizes { let v: Vec<i32> = (0..*s as i32).map(|i| c + i).collect(); c += *s as i32; all.extend(v.iter().copied()); batches.push(Ok(RecordBatch::try_new(schema.clone(), vec![Arc::new(Int32Array::from(v))]).unwrap())); }
    (Box::pin(RecordBatchStreamAdapter::new(schema, futures::stream::iter(batches))), all)
}
fn vals(b: &RecordBatch) -> Vec<i32> { b.column(0).as_any().downcast_ref::<Int32Array>().unwrap().values().to_vec() }

#[tokio::main]
async fn main() {
    let mut r = Rng(7);
    // kernels, exact mode
    let mut bad = vec![]; let mut n = 0;
    for len in 0..=1100usize {
        let x: Vec<i64> = (0..len).map(|_| r.below(9) as i64 - 4).collect();
        let y: Vec<i64> = (0..len).map(|_| r.below(9) as i64 - 4).collect();
        let l2m: i64 = x.iter().zip(&y).map(|(a, b)| (a - b) * (a - b)).sum();
        let dm: i64 = x.iter().zip(&y).map(|(a, b)| a * b).sum();
        let xf: Vec<f32> = x.iter().map(|v| *v as f32).collect(); let yf: Vec<f32> = y.iter().map(|v| *v as f32).collect();
        let xd: Vec<f64> = x.iter().map(|v| *v as f64).collect(); let yd: Vec<f64> = y.iter().map(|v| *v as f64).collect();
        let xh: Vec<f16> = x.iter().map(|v| f16::from_f32(*v as f32)).collect(); let yh: Vec<f16> = y.iter().map(|v| f16::from_f32(*v as f32)).collect();
        let xb: Vec<bf16> = x.iter().map(|v| bf16::from_f32(*v as f32)).collect(); let yb: Vec<bf16> = y.iter().map(|v| bf16::from_f32(*v as f32)).collect();
        let checks = [("l2 f32", l2(&xf, &yf), l2m), ("l2 f64", l2(&xd, &yd), l2m), ("l2 f16", l2(&xh, &yh), l2m), ("l2 bf16", l2(&xb, &yb), l2m), ("dot f32", dot(&xf, &yf), dm), ("dot f64", dot(&xd, &yd), dm), ("dot f16", dot(&xh, &yh), dm), ("dot bf16", dot(&xb, &yb), dm)];
        for (name, got, exp) in checks { n += 1; if got != exp as f32 { if bad.len() < 6 { bad.push(format!("{name} len={len} got={got} exp={exp}")); } } }
        let xu: Vec<u8> = (0..len).map(|_| r.below(256) as u8).collect(); let yu: Vec<u8> = (0..len).map(|_| r.below(256) as u8).collect();
        let hm: u32 = xu.iter().zip(&yu).map(|(a, b)| (a ^ b).count_ones()).sum();
        n += 1; if hamming(&xu, &yu) != hm as f32 { bad.push(format!("hamming len={len}")); }
        if len > 0 { let c = cosine_distance(&xf, &yf); let nx: f64 = x.iter().map(|v| (v * v) as f64).sum::<f64>().sqrt(); let ny: f64 = y.iter().map(|v| (v * v) as f64).sum::<f64>().sqrt(); if nx > 0.0 && ny > 0.0 { let e = 1.0 - dm as f64 / (nx * ny); n += 1; if (c as f64 - e).abs() > 1e-4 { if bad.len() < 8 { bad.push(format!("cosine len={len} got={c} exp={e}")); } } } }
    }
    println!("kernels exact-mode: checks={} bad={} {:?}", n, bad.len(), bad);
    // argmin
    let mut badm = 0; for _ in 0..20000 { let l = 1 + r.below(12) as usize; let v: Vec<f32> = (0..l).map(|_| match r.below(8) { 0 => f32::NAN, 1 => f32::INFINITY, 2 => f32::MAX, _ => r.below(5) as f32 }).collect(); let exp = v.iter().cloned().enumerate().filter(|(_, x)| !x.is_nan()).fold(None::<(usize, f32)>, |acc, (i, x)| match acc { None => Some((i, x)), Some((_, m)) if x < m => Some((i, x)), a => a }); let got = argmin_value_float(v.iter().copied()); let got2 = argmin(v.iter().copied()); let ok = match (exp, got) { (Some((i, _)), Some((j, _))) => v[j as usize] == v[i], (None, None) => true, (None, Some(_)) => true, _ => false }; if !ok { badm += 1; if badm < 4 { println!("  argmin_value_float v={:?} got={:?} exp={:?} argmin={:?}", v, got, exp, got2); } } }
    println!("argmin_value_float: bad={}", badm);
    // chunker
    let mut badc = vec![]; let mut nc = 0;
    for _ in 0..3000 {
        let k = r.below(7) as usize; let sizes: Vec<usize> = (0..k).map(|_| r.below(9) as usize).collect(); let chunk = 1 + r.below(7) as usize;
        let (s, all) = stream_of(&sizes);
        let out: Vec<RecordBatch> = break_stream(s, chunk).try_collect().await.unwrap();
        let cat: Vec<i32> = out.iter().flat_map(vals).collect();
        // every emitted batch must not cross a multiple of chunk
        let mut pos = 0usize; let mut cross = false; for b in &out { let l = b.num_rows(); if l > 0 && pos / chunk != (pos + l - 1) / chunk { cross = true; } pos += l; }
        nc += 1; if cat != all || cross { if badc.len() < 4 { badc.push(format!("break_stream sizes={:?} chunk={} out={:?}", sizes, chunk, out.iter().map(|b| b.num_rows()).collect::<Vec<_>>())); } else { badc.push(String::new()); } }
        let (s, all) = stream_of(&sizes);
        let out: Vec<Vec<RecordBatch>> = chunk_stream(s, chunk).try_collect().await.unwrap();
        let lens: Vec<usize> = out.iter().map(|c| c.iter().map(|b| b.num_rows()).sum()).collect();
        let cat: Vec<i32> = out.iter().flatten().flat_map(vals).collect();
        let okl = lens.iter().enumerate().all(|(i, l)| if i + 1 < lens.len() { *l == chunk } else { *l > 0 && *l <= chunk });
        nc += 1; if cat != all || !okl { if badc.len() < 8 { badc.push(format!("chunk_stream sizes={:?} chunk={} lens={:?}", sizes, chunk, lens)); } else { badc.push(String::new()); } }
        let (s, all) = stream_of(&sizes);
        let out: Vec<RecordBatch> = chunk_concat_stream(s, chunk).try_collect().await.unwrap();
        let lens: Vec<usize> = out.iter().map(|b| b.num_rows()).collect(); let cat: Vec<i32> = out.iter().flat_map(vals).collect();
        let okl = lens.iter().enumerate().all(|(i, l)| if i + 1 < lens.len() { *l == chunk } else { *l > 0 && *l <= chunk });
        nc += 1; if cat != all || !okl { if badc.len() < 12 { badc.push(format!("chunk_concat sizes={:?} chunk={} lens={:?}", sizes, chunk, lens)); } else { badc.push(String::new()); } }
    }
    println!("chunker: checks={} bad={} {:?}", nc, badc.len(), badc.iter().filter(|s| !s.is_empty()).collect::<Vec<_>>());
    let _ = StreamExt::boxed(futures::stream::empty::<i32>());
}
