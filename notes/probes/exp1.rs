// Scratch experiments (not part of /verif): probe suspected defects on the real code.
use std::sync::Arc;

use arrow_array::{Int32Array, RecordBatch, RecordBatchIterator, UInt64Array};
use arrow_schema::{DataType, Field, Schema as ArrowSchema};
use futures::TryStreamExt;
use lance::dataset::{WriteMode, WriteParams};
use lance_index::DatasetIndexExt;
use lance::Dataset;
use lance_index::scalar::ScalarIndexParams;
use lance_index::IndexType;

fn batch(ids: Vec<i32>, xs: Vec<Option<i32>>) -> (Arc<ArrowSchema>, RecordBatch) {
    let schema = Arc::new(ArrowSchema::new(vec![
        Field::new("id", DataType::Int32, false),
        Field::new("x", DataType::Int32, true),
    ]));
    let b = RecordBatch::try_new(
        schema.clone(),
        vec![Arc::new(Int32Array::from(ids)), Arc::new(Int32Array::from(xs))],
    )
    .unwrap();
    (schema, b)
}

async fn scan_ids(ds: &Dataset, filter: &str, use_index: bool) -> Vec<i32> {
    let mut sc = ds.scan();
    sc.filter(filter).unwrap();
    sc.use_scalar_index(use_index);
    let batches: Vec<RecordBatch> = sc.try_into_stream().await.unwrap().try_collect().await.unwrap();
    let mut out = vec![];
    for b in batches {
        let a = b.column_by_name("id").unwrap().as_any().downcast_ref::<Int32Array>().unwrap().clone();
        out.extend(a.values().iter().copied());
    }
    out.sort();
    out
}

async fn e2_not_null() {
    println!("== E2: NOT with NULLs through BTree index");
    let (schema, b) = batch(vec![0, 1, 2, 3, 4, 5], vec![Some(1), Some(5), None, Some(7), None, Some(5)]);
    let reader = RecordBatchIterator::new(vec![Ok(b)], schema);
    let mut ds = Dataset::write(reader, "memory://e2", None).await.unwrap();
    ds.create_index(&["x"], IndexType::BTree, None, &ScalarIndexParams::default(), true)
        .await
        .unwrap();
    for f in ["x != 5", "NOT (x = 5)", "NOT (x = 5 AND NOT (x = 7))", "NOT (x < 6)", "x NOT IN (5)", "NOT (x = 5 OR x = 1)", "NOT (x IS NULL)", "x = 5 OR NOT (x = 5)"] {
        let a = scan_ids(&ds, f, true).await;
        let b = scan_ids(&ds, f, false).await;
        println!("  filter {:40} index={:?} noindex={:?} {}", f, a, b, if a == b { "same" } else { "DIFF" });
    }
}

async fn e1_detached() {
    println!("== E1: detached commit on memory store with V2 naming");
    let (schema, b) = batch(vec![0, 1], vec![Some(1), Some(2)]);
    let reader = RecordBatchIterator::new(vec![Ok(b.clone())], schema.clone());
    let params = WriteParams { enable_v2_manifest_paths: true, ..Default::default() };
    let ds = Dataset::write(reader, "memory://e1", Some(params.clone())).await.unwrap();
    let session = ds.session();
    // append normally once
    let reader = RecordBatchIterator::new(vec![Ok(b.clone())], schema.clone());
    let mut ds2 = ds.clone();
    ds2.append(reader, Some(WriteParams { mode: WriteMode::Append, ..params.clone() })).await.unwrap();
    println!("  latest before detached = {}", ds2.version().version);
    // detached commit: append op built from uncommitted fragments
    let reader = RecordBatchIterator::new(vec![Ok(b.clone())], schema.clone());
    let tx = lance::dataset::InsertBuilder::new(Arc::new(ds2.clone()))
        .with_params(&WriteParams { mode: WriteMode::Append, ..params.clone() })
        .execute_uncommitted(vec![b.clone()])
        .await
        .unwrap();
    let _ = reader;
    let det = Dataset::commit_detached(
        Arc::new(ds2.clone()),
        tx.operation,
        Some(ds2.version().version),
        None,
        None,
        session.clone(),
        true,
    )
    .await;
    match det {
        Ok(d) => println!("  detached version = {} (high bit set: {})", d.version().version, d.version().version >> 63),
        Err(e) => println!("  detached commit error: {e}"),
    }
    let r = tokio::spawn(async move {
        let mut d = ds2.clone();
        d.checkout_latest().await.map(|_| d.version().version)
    })
    .await;
    println!("  checkout_latest after detached: {:?}", r.map(|x| x.map_err(|e| e.to_string())));
}

async fn rowids(ds: &Dataset) -> Vec<(i32, u64)> {
    let mut sc = ds.scan();
    sc.with_row_id();
    let batches: Vec<RecordBatch> = sc.try_into_stream().await.unwrap().try_collect().await.unwrap();
    let mut out = vec![];
    for b in batches {
        let a = b.column_by_name("id").unwrap().as_any().downcast_ref::<Int32Array>().unwrap().clone();
        let r = b.column_by_name("_rowid").unwrap().as_any().downcast_ref::<UInt64Array>().unwrap().clone();
        for i in 0..b.num_rows() {
            out.push((a.value(i), r.value(i)));
        }
    }
    out
}

async fn e4_restore_rowids() {
    println!("== E4: restore then append: stable row id reuse?");
    let params = WriteParams { enable_stable_row_ids: true, ..Default::default() };
    let (schema, b) = batch(vec![0, 1], vec![Some(1), Some(2)]);
    let reader = RecordBatchIterator::new(vec![Ok(b)], schema.clone());
    let mut ds = Dataset::write(reader, "memory://e4", Some(params.clone())).await.unwrap();
    let (_, b2) = batch(vec![10, 11], vec![Some(1), Some(2)]);
    let reader = RecordBatchIterator::new(vec![Ok(b2)], schema.clone());
    ds.append(reader, Some(WriteParams { mode: WriteMode::Append, ..params.clone() })).await.unwrap();
    println!("  v2 rowids {:?} next_row_id={}", rowids(&ds).await, ds.manifest().next_row_id);
    let mut old = ds.checkout_version(1).await.unwrap();
    old.restore().await.unwrap();
    println!("  after restore: version {} next_row_id={}", old.version().version, old.manifest().next_row_id);
    let (_, b3) = batch(vec![20, 21], vec![Some(1), Some(2)]);
    let reader = RecordBatchIterator::new(vec![Ok(b3)], schema.clone());
    old.append(reader, Some(WriteParams { mode: WriteMode::Append, ..params.clone() })).await.unwrap();
    println!("  v4 rowids {:?}", rowids(&old).await);
    let v2 = old.checkout_version(2).await.unwrap();
    println!("  v2 rowids {:?}", rowids(&v2).await);
}

#[tokio::main]
async fn main() {
    let which: Vec<String> = std::env::args().skip(1).collect();
    let all = which.is_empty();
    if all || which.iter().any(|w| w == "e2") {
        e2_not_null().await;
    }
    if all || which.iter().any(|w| w == "e1") {
        e1_detached().await;
    }
    if all || which.iter().any(|w| w == "e4") {
        e4_restore_rowids().await;
    }
}
