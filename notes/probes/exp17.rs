// Scratch: vector search exactness (flat and IVF_FLAT with all probes) vs brute force.
use std::sync::Arc;
use arrow_array::types::Float32Type;
use arrow_array::*;
use arrow_schema::{DataType, Field, Schema};
use futures::TryStreamExt;
use lance::dataset::{WriteMode, WriteParams};
use lance::index::vector::VectorIndexParams;
use lance::Dataset;
use lance_index::{DatasetIndexExt, IndexType};
use lance_linalg::distance::MetricType;

struct Rng(u64);
impl Rng { fn next(&mut self) -> u64 { self.0 = self.0.wrapping_add(0x9E3779B97F4A7C15); let mut z = self.0; z = (z ^ (z >> 30)).wrapping_mul(0xBF58476D1CE4E5B9); z = (z ^ (z >> 27)).wrapping_mul(0x94D049BB133111EB); z ^ (z >> 31) } fn below(&mut self, n: u64) -> u64 { self.next() % n.max(1) } }

fn make(r: &mut Rng, n: usize, dim: usize, base: i32) -> (Arc<Schema>, RecordBatch, Vec<Vec<f32>>) {
    let vecs: Vec<Vec<f32>> = (0..n).map(|_| (0..dim).map(|_| r.below(9) as f32 - 4.0).collect()).collect();
    let fsl = FixedSizeListArray::from_iter_primitive::<Float32Type, _, _>(vecs.iter().map(|v| Some(v.iter().map(|x| Some(*x)).collect::<Vec<_>>())), dim as i32);
    let id: Int32Array = (0..n as i32).map(|i| Some(base + i)).collect();
    let tag: Int32Array = (0..n as i32).map(|i| Some(i % 3)).collect();
    let schema = Arc::new(Schema::new(vec![Field::new("id", DataType::Int32, false), Field::new("tag", DataType::Int32, false), Field::new("vec", fsl.data_type().clone(), true)]));
    (schema.clone(), RecordBatch::try_new(schema, vec![Arc::new(id), Arc::new(tag), Arc::new(fsl)]).unwrap(), vecs)
}
fn dist(m: MetricType, a: &[f32], b: &[f32]) -> f32 {
    match m {
        MetricType::L2 => a.iter().zip(b).map(|(x, y)| (x - y) * (x - y)).sum(),
        MetricType::Dot => 1.0 - a.iter().zip(b).map(|(x, y)| x * y).sum::<f32>(),
        MetricType::Cosine => { let d: f32 = a.iter().zip(b).map(|(x, y)| x * y).sum(); let na: f32 = a.iter().map(|x| x * x).sum::<f32>().sqrt(); let nb: f32 = b.iter().map(|x| x * x).sum::<f32>().sqrt(); 1.0 - d / (na * nb) }
        _ => unreachable!(),
    }
}

#[tokio::main]
async fn main() {
    let mut r = Rng(11);
    let mut total = 0; let mut bad = 0;
    for (mi, metric) in [MetricType::L2, MetricType::Cosine, MetricType::Dot].into_iter().enumerate() {
        for dim in [3usize, 8, 13] {
            let uri = format!("memory://v{mi}_{dim}");
            let (schema, b, mut vecs) = make(&mut r, 400, dim, 0);
            let mut ds = Dataset::write(RecordBatchIterator::new(vec![Ok(b)], schema.clone()), &uri, Some(WriteParams { max_rows_per_file: 150, ..Default::default() })).await.unwrap();
            for phase in ["flat", "ivf_all_probes", "ivf+append+delete"] {
                if phase == "ivf_all_probes" { ds.create_index(&["vec"], IndexType::Vector, None, &VectorIndexParams::ivf_flat(4, metric), true).await.unwrap(); }
                if phase == "ivf+append+delete" {
                    let (_, b2, v2) = make(&mut r, 60, dim, 400); vecs.extend(v2);
                    ds.append(RecordBatchIterator::new(vec![Ok(b2)], schema.clone()), Some(WriteParams { mode: WriteMode::Append, ..Default::default() })).await.unwrap();
                    ds.delete("id % 7 = 0").await.unwrap();
                }
                let live: Vec<usize> = (0..vecs.len()).filter(|i| !(phase == "ivf+append+delete" && i % 7 == 0)).collect();
                for (k, filter) in [(1usize, None), (5, None), (10, Some("tag = 1")), (1000, Some("tag = 2")), (7, None)] {
                    let q: Vec<f32> = (0..dim).map(|_| r.below(9) as f32 - 4.0).collect();
                    if metric == MetricType::Cosine && q.iter().all(|x| *x == 0.0) { continue; }
                    let qa = Float32Array::from(q.clone());
                    let mut sc = ds.scan();
                    sc.nearest("vec", &qa, k).unwrap().distance_metric(metric).nprobs(4).minimum_nprobes(4);
                    if let Some(f) = filter { sc.filter(f).unwrap(); sc.prefilter(true); }
                    let res: Result<Vec<RecordBatch>, _> = match sc.try_into_stream().await { Ok(s) => s.try_collect().await, Err(e) => Err(e) };
                    total += 1;
                    let batches = match res { Ok(b) => b, Err(e) => { bad += 1; println!("  ERR {phase} {metric:?} dim{dim} k{k} {:?}: {}", filter, e.to_string().chars().take(150).collect::<String>()); continue; } };
                    let mut got: Vec<(i32, f32)> = vec![];
                    for b in &batches { let id = b.column_by_name("id").unwrap().as_any().downcast_ref::<Int32Array>().unwrap(); let d = b.column_by_name("_distance").unwrap().as_any().downcast_ref::<Float32Array>().unwrap(); for i in 0..b.num_rows() { got.push((id.value(i), d.value(i))); } }
                    let cands: Vec<usize> = live.iter().copied().filter(|i| match filter { Some("tag = 1") => (i % 400 % 3 == 1 && *i < 400) || (*i >= 400 && (i - 400) % 3 == 1), Some("tag = 2") => (*i < 400 && i % 3 == 2) || (*i >= 400 && (i - 400) % 3 == 2), _ => true }).filter(|i| !(metric == MetricType::Cosine && vecs[*i].iter().all(|x| *x == 0.0))).collect();
                    let mut exp: Vec<f32> = cands.iter().map(|i| dist(metric, &q, &vecs[*i])).collect(); exp.sort_by(|a, b| a.partial_cmp(b).unwrap()); exp.truncate(k);
                    let gotd: Vec<f32> = got.iter().map(|x| x.1).collect();
                    let sorted = gotd.windows(2).all(|w| w[0] <= w[1] || w[0].is_nan());
                    let dist_ok = got.iter().all(|(id, d)| { let idx = *id as usize; let e = dist(metric, &q, &vecs[idx]); (d - e).abs() <= 1e-3 * (1.0 + e.abs()) });
                    let same = gotd.len() == exp.len() && gotd.iter().zip(&exp).all(|(a, b)| (a - b).abs() <= 1e-3 * (1.0 + b.abs()));
                    let no_deleted = got.iter().all(|(id, _)| live.contains(&(*id as usize)));
                    if !(sorted && dist_ok && same && no_deleted) { bad += 1; println!("  BAD {phase} {metric:?} dim{dim} k{k} {:?}: got {} exp {} sorted={} dist_ok={} same={} no_deleted={} got[..3]={:?} exp[..3]={:?}", filter, gotd.len(), exp.len(), sorted, dist_ok, same, no_deleted, &gotd[..gotd.len().min(3)], &exp[..exp.len().min(3)]); }
                }
            }
        }
    }
    println!("vector exactness: queries={total} bad={bad}");
}
