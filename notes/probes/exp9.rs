// Scratch experiments, round 2.
use std::sync::Arc;

use arrow_array::{Array, Int32Array, RecordBatch, RecordBatchIterator, UInt64Array};
use arrow_schema::{DataType, Field, Schema as ArrowSchema};
use futures::TryStreamExt;
use lance::dataset::{
    MergeInsertBuilder, UpdateBuilder, WhenMatched, WhenNotMatched, WhenNotMatchedBySource,
    WriteMode, WriteParams,
};
use lance::Dataset;
use lance_core::utils::mask::{RowIdMask, RowIdTreeMap};
use lance_io::object_store::ObjectStore;
use lance_io::scheduler::{ScanScheduler, SchedulerConfig};
use lance_io::utils::CachedFileSize;
use lance_table::rowids::RowIdSequence;

fn batch(ids: Vec<i32>, xs: Vec<Option<i32>>) -> (Arc<ArrowSchema>, RecordBatch) {
    let schema = Arc::new(ArrowSchema::new(vec![
        Field::new("id", DataType::Int32, false),
        Field::new("x", DataType::Int32, true),
    ]));
    let b = RecordBatch::try_new(
        schema.clone(),
        vec![Arc::new(Int32Array::from(ids)), Arc::new(Int32Array::from(xs))],
    )
    .unwrap();
    (schema, b)
}

async fn all_rows(ds: &Dataset) -> Vec<(i32, Option<i32>)> {
    let batches: Vec<RecordBatch> = ds.scan().try_into_stream().await.unwrap().try_collect().await.unwrap();
    let mut out = vec![];
    for b in batches {
        let a = b.column_by_name("id").unwrap().as_any().downcast_ref::<Int32Array>().unwrap().clone();
        let x = b.column_by_name("x").unwrap().as_any().downcast_ref::<Int32Array>().unwrap().clone();
        for i in 0..b.num_rows() {
            out.push((a.value(i), if x.is_null(i) { None } else { Some(x.value(i)) }));
        }
    }
    out.sort();
    out
}

async fn e3_mask_not() {
    println!("== E3: RowIdMask Not");
    let all = RowIdMask::all_rows();
    let n = !all;
    println!("  !all_rows selects 7? {} (expected false)", n.selected(7));
    let m = RowIdMask {
        allow_list: Some(RowIdTreeMap::from_iter([1u64, 2, 3])),
        block_list: Some(RowIdTreeMap::from_iter([2u64])),
    };
    let sel: Vec<bool> = (0..5).map(|i| m.selected(i)).collect();
    let n = !m;
    let nsel: Vec<bool> = (0..5).map(|i| n.selected(i)).collect();
    println!("  m={:?} !m={:?} (expected pointwise negation)", sel, nsel);
}

fn e8_mask_to_offset_ranges() {
    println!("== E8: mask_to_offset_ranges with RangeWithBitmap not first");
    // build a sequence: Range(0..10) then a holey sorted segment
    let mut seq = RowIdSequence::from(0u64..10);
    // choose ids so that from_slice picks RangeWithBitmap: many holes in moderately dense range
    let ids: Vec<u64> = (100u64..200).filter(|i| i % 3 != 0).collect();
    let second = RowIdSequence::from(ids.as_slice());
    println!("  second = {}", second);
    seq.extend(second);
    let all: Vec<u64> = seq.iter().collect();
    // mask: allow ids divisible by 5
    let allow: RowIdTreeMap = all.iter().copied().filter(|i| i % 5 == 0).collect();
    let mask = RowIdMask::from_allowed(allow);
    let r = std::panic::catch_unwind(|| seq.mask_to_offset_ranges(&mask));
    let expected: Vec<u64> = all.iter().enumerate().filter(|(_, id)| mask.selected(**id)).map(|(i, _)| i as u64).collect();
    match r {
        Ok(ranges) => {
            let got: Vec<u64> = ranges.into_iter().flatten().collect();
            println!("  got {:?}\n  exp {:?} {}", got, expected, if got == expected { "same" } else { "DIFF" });
        }
        Err(_) => println!("  PANIC; expected {:?}", expected),
    }
}

async fn e12_scheduler() {
    println!("== E12: FileScheduler empty / unsorted / contained ranges");
    let store = Arc::new(ObjectStore::memory());
    let path = object_store::path::Path::from("f.bin");
    let data: Vec<u8> = (0..=255u8).cycle().take(4096).collect();
    store.put(&path, &data).await.unwrap();
    let sched = ScanScheduler::new(store.clone(), SchedulerConfig::default_for_testing());
    let f = sched.open_file(&path, &CachedFileSize::unknown()).await.unwrap();
    for req in [
        vec![5u64..5],
        vec![10..20, 15..18],
        vec![100..200, 0..50],
        vec![0..50, 20..30, 40..60],
        vec![0..10, 10..10, 10..20],
        vec![3000..3100, 10..20, 3050..3060],
    ] {
        let f2 = f.clone();
        let req2 = req.clone();
        let r = tokio::spawn(async move { f2.submit_request(req2, 0).await }).await;
        match r {
            Ok(Ok(bufs)) => {
                let ok = bufs.len() == req.len()
                    && bufs.iter().zip(req.iter()).all(|(b, r)| b.as_ref() == &data[r.start as usize..r.end as usize]);
                println!("  req {:?} -> {} buffers, lens {:?} {}", req, bufs.len(), bufs.iter().map(|b| b.len()).collect::<Vec<_>>(), if ok { "ok" } else { "WRONG" });
            }
            Ok(Err(e)) => println!("  req {:?} -> error {}", req, e),
            Err(e) => println!("  req {:?} -> PANIC {}", req, e),
        }
    }
}

async fn e11_merge_insert() {
    println!("== E11: merge_insert when_matched=DoNothing, not-matched-by-source=Delete");
    let (schema, b) = batch(vec![1, 2, 3, 4], vec![Some(10), Some(20), Some(30), Some(40)]);
    let reader = RecordBatchIterator::new(vec![Ok(b)], schema.clone());
    let ds = Dataset::write(reader, "memory://e11", None).await.unwrap();
    let (_, src) = batch(vec![2, 3, 9], vec![Some(200), Some(300), Some(900)]);
    let mut builder = MergeInsertBuilder::try_new(Arc::new(ds), vec!["id".to_string()]).unwrap();
    builder
        .when_matched(WhenMatched::DoNothing)
        .when_not_matched(WhenNotMatched::InsertAll)
        .when_not_matched_by_source(WhenNotMatchedBySource::Delete);
    let job = builder.try_build().unwrap();
    let reader = RecordBatchIterator::new(vec![Ok(src)], schema.clone());
    let (ds2, stats) = job.execute_reader(Box::new(reader)).await.unwrap();
    println!("  result rows {:?}", all_rows(&ds2).await);
    println!("  expected    [(2, Some(20)), (3, Some(30)), (9, Some(900))]  stats={:?}", stats);
}

async fn e5_created_at() {
    println!("== E5: created_at version after update on multi-fragment table (stable row ids)");
    let params = WriteParams { enable_stable_row_ids: true, ..Default::default() };
    let (schema, b) = batch(vec![0, 1], vec![Some(1), Some(2)]);
    let reader = RecordBatchIterator::new(vec![Ok(b)], schema.clone());
    let mut ds = Dataset::write(reader, "memory://e5", Some(params.clone())).await.unwrap();
    for v in 0..2 {
        let (_, b2) = batch(vec![10 + 2 * v, 11 + 2 * v], vec![Some(1), Some(2)]);
        let reader = RecordBatchIterator::new(vec![Ok(b2)], schema.clone());
        ds.append(reader, Some(WriteParams { mode: WriteMode::Append, ..params.clone() })).await.unwrap();
    }
    // version 3 now; rows 12,13 created at version 3; update row id=13 and id=0
    let res = UpdateBuilder::new(Arc::new(ds.clone()))
        .update_where("id = 13 OR id = 0")
        .unwrap()
        .set("x", "x + 100")
        .unwrap()
        .build()
        .unwrap()
        .execute()
        .await
        .unwrap();
    let ds = res.new_dataset;
    let mut sc = ds.scan();
    sc.project(&["id", "_rowid", "_row_created_at_version", "_row_last_updated_at_version"]).unwrap();
    let batches: Vec<RecordBatch> = sc.try_into_stream().await.unwrap().try_collect().await.unwrap();
    for b in batches {
        let a = b.column_by_name("id").unwrap().as_any().downcast_ref::<Int32Array>().unwrap().clone();
        let r = b.column_by_name("_rowid").unwrap().as_any().downcast_ref::<UInt64Array>().unwrap().clone();
        let c = b.column_by_name("_row_created_at_version").unwrap().as_any().downcast_ref::<UInt64Array>().unwrap().clone();
        let u = b.column_by_name("_row_last_updated_at_version").unwrap().as_any().downcast_ref::<UInt64Array>().unwrap().clone();
        for i in 0..b.num_rows() {
            println!("  id={} rowid={} created={} updated={}", a.value(i), r.value(i), c.value(i), u.value(i));
        }
    }
    println!("  expected: id=0 created=1 updated=4; id=13 created=3 updated=4; others created=updated=(1,2,3)");
}

async fn e9_branch_delete() {
    let _ = std::fs::remove_dir_all("/var/tmp/lvx/e9b"); println!("== E9b: delete branch 'abc' while 'ab' and 'ab/c' exist");
    let (schema, b) = batch(vec![1, 2], vec![Some(10), Some(20)]);
    let reader = RecordBatchIterator::new(vec![Ok(b.clone())], schema.clone());
    let mut ds = Dataset::write(reader, "/var/tmp/lvx/e9b", None).await.unwrap();
    for name in ["a", "a_versions"] {
        match ds.create_branch(name, 1u64, None).await {
            Ok(mut bds) => {
                let reader = RecordBatchIterator::new(vec![Ok(b.clone())], schema.clone());
                bds.append(reader, Some(WriteParams { mode: WriteMode::Append, ..Default::default() })).await.unwrap();
                println!("  created branch {} now at v{} rows {}", name, bds.version().version, bds.count_rows(None).await.unwrap());
            }
            Err(e) => println!("  create_branch {} failed: {}", name, e),
        }
    }
    println!("  delete 'a_versions': {:?}", ds.delete_branch("a_versions").await.map_err(|e| e.to_string()));
    for name in ["a"] {
        match ds.checkout_branch(name).await {
            Ok(b) => println!("  branch {} still reads {:?} rows", name, b.count_rows(None).await.map_err(|e| e.to_string())),
            Err(e) => println!("  branch {} unreadable: {}", name, e),
        }
    }
}

async fn e6_cleanup_branch() {
    println!("== E6: cleanup on main after branching from an old version"); let _ = std::fs::remove_dir_all("/var/tmp/lvx/e6ds");
    let (schema, b) = batch(vec![1, 2], vec![Some(10), Some(20)]);
    let reader = RecordBatchIterator::new(vec![Ok(b.clone())], schema.clone());
    let mut ds = Dataset::write(reader, "/var/tmp/lvx/e6ds", None).await.unwrap();
    let bds = ds.create_branch("dev", 1u64, None).await.unwrap();
    println!("  branch dev rows {}", bds.count_rows(None).await.unwrap());
    // overwrite main so v1 files are unreferenced by main's latest
    let (_, b2) = batch(vec![7], vec![Some(70)]);
    let reader = RecordBatchIterator::new(vec![Ok(b2)], schema.clone());
    let mut ds = Dataset::write(reader, "/var/tmp/lvx/e6ds", Some(WriteParams { mode: WriteMode::Overwrite, ..Default::default() })).await.unwrap();
    let stats = ds.cleanup_old_versions(chrono::Duration::zero(), Some(false), Some(false)).await;
    println!("  cleanup stats {:?}", stats.map_err(|e| e.to_string()));
    let _ = &mut ds;
    match ds.checkout_branch("dev").await {
        Ok(b) => println!("  branch dev scan after main cleanup: {:?}", b.count_rows(None).await.map_err(|e| e.to_string())),
        Err(e) => println!("  branch dev unreadable: {}", e),
    }
    match ds.checkout_branch("dev").await {
        Ok(b) => println!("  branch dev rows: {:?}", async { Ok::<_, String>(all_rows(&b).await) }.await),
        Err(_) => {}
    }
}

#[tokio::main]
async fn main() {
    let which: Vec<String> = std::env::args().skip(1).collect();
    let has = |n: &str| which.is_empty() || which.iter().any(|w| w == n);
    if has("e3") { e3_mask_not().await; }
    if has("e8") { e8_mask_to_offset_ranges(); }
    if has("e12") { e12_scheduler().await; }
    if has("e11") { e11_merge_insert().await; }
    if has("e5") { e5_created_at().await; }
    if has("e9") { e9_branch_delete().await; }
    if has("e6") { e6_cleanup_branch().await; }
}
