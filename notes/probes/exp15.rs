// Scratch: C15 take vs scan under deletions; C13 compaction invariance (stable row ids); C12 NULL semantics.
use std::sync::Arc;
use arrow_array::*;
use arrow_schema::{DataType, Field, Schema};
use futures::TryStreamExt;
use lance::dataset::optimize::{compact_files, CompactionOptions};
use lance::dataset::{MergeInsertBuilder, ProjectionRequest, UpdateBuilder, WhenMatched, WhenNotMatched, WriteMode, WriteParams};
use lance::Dataset;

fn batch(ids: Vec<Option<i32>>, xs: Vec<Option<i32>>) -> (Arc<Schema>, RecordBatch) {
    let schema = Arc::new(Schema::new(vec![Field::new("k", DataType::Int32, true), Field::new("x", DataType::Int32, true)]));
    (schema.clone(), RecordBatch::try_new(schema, vec![Arc::new(Int32Array::from(ids)), Arc::new(Int32Array::from(xs))]).unwrap())
}
async fn rows(ds: &Dataset, with_meta: bool) -> Vec<Vec<Option<i64>>> {
    let mut sc = ds.scan(); sc.scan_in_order(true);
    if with_meta { sc.project(&["k", "x", "_rowid", "_row_created_at_version", "_row_last_updated_at_version"]).unwrap(); }
    let bs: Vec<RecordBatch> = sc.try_into_stream().await.unwrap().try_collect().await.unwrap();
    let mut out = vec![];
    for b in bs { for r in 0..b.num_rows() { out.push((0..b.num_columns()).map(|c| { let a = b.column(c); if a.is_null(r) { None } else if let Some(i) = a.as_any().downcast_ref::<Int32Array>() { Some(i.value(r) as i64) } else { Some(a.as_any().downcast_ref::<UInt64Array>().unwrap().value(r) as i64) } }).collect()); } }
    out
}
#[tokio::main]
async fn main() {
    // ---------- build a multi-fragment table with deletions
    let params = WriteParams { max_rows_per_file: 10, enable_stable_row_ids: true, ..Default::default() };
    let n = 45;
    let (schema, b) = batch((0..n).map(Some).collect(), (0..n).map(|i| if i % 7 == 0 { None } else { Some(i * 10) }).collect());
    let mut ds = Dataset::write(RecordBatchIterator::new(vec![Ok(b)], schema.clone()), "memory://c15", Some(params.clone())).await.unwrap();
    ds.delete("k % 3 = 0 OR (k >= 20 AND k < 30)").await.unwrap();
    println!("fragments {} rows {} deleted {}", ds.count_fragments(), ds.count_rows(None).await.unwrap(), ds.count_deleted_rows().await.unwrap());
    let all = rows(&ds, false).await;
    // C15: take by offsets
    let m = all.len() as u64;
    let offs: Vec<u64> = vec![m - 1, 0, 5, 5, 17, 3, m / 2, 1, 0];
    let got = ds.take(&offs, ProjectionRequest::from_schema(ds.schema().clone())).await.unwrap();
    let gk = got.column_by_name("k").unwrap().as_any().downcast_ref::<Int32Array>().unwrap();
    let exp: Vec<i64> = offs.iter().map(|o| all[*o as usize][0].unwrap()).collect();
    let gotk: Vec<i64> = (0..gk.len()).map(|i| gk.value(i) as i64).collect();
    println!("C15 take offsets {:?}: {}", offs, if gotk == exp { "ok".to_string() } else { format!("DIFF got {:?} exp {:?}", gotk, exp) });
    // out of range offset
    // take_rows by _rowid
    let meta = rows(&ds, true).await;
    let ids: Vec<u64> = vec![meta[3][2].unwrap() as u64, meta[0][2].unwrap() as u64, meta[3][2].unwrap() as u64, meta[meta.len() - 1][2].unwrap() as u64];
    let got = ds.take_rows(&ids, ProjectionRequest::from_schema(ds.schema().clone())).await.unwrap();
    let gk = got.column_by_name("k").unwrap().as_any().downcast_ref::<Int32Array>().unwrap();
    let exp: Vec<i64> = vec![meta[3][0].unwrap(), meta[0][0].unwrap(), meta[3][0].unwrap(), meta[meta.len() - 1][0].unwrap()];
    let gotk: Vec<i64> = (0..gk.len()).map(|i| gk.value(i) as i64).collect();
    println!("C15 take_rows {:?}: {}", ids, if gotk == exp { "ok".to_string() } else { format!("DIFF got {:?} exp {:?}", gotk, exp) });
    // ---------- C13: update a few rows then compact; compare rows+meta as multiset
    let res = UpdateBuilder::new(Arc::new(ds.clone())).update_where("k = 31 OR k = 7").unwrap().set("x", "x + 1").unwrap().build().unwrap().execute().await.unwrap();
    let mut ds = (*res.new_dataset).clone();
    let mut before = rows(&ds, true).await; before.sort();
    {
        let ids0: Vec<u64> = before.iter().take(5).map(|r| r[2].unwrap() as u64).collect();
        let d2 = ds.clone();
        let r = tokio::spawn(async move { d2.take_rows(&ids0, ProjectionRequest::from_schema(d2.schema().clone())).await.map(|b| b.num_rows()).map_err(|e| e.to_string()) }).await;
        println!("C18 take_rows after update, before compaction: {:?}", r.map_err(|e| e.to_string().chars().take(200).collect::<String>()));
    }
    let metrics = compact_files(&mut ds, CompactionOptions { target_rows_per_fragment: 20, ..Default::default() }, None).await.unwrap();
    let mut after = rows(&ds, true).await; after.sort();
    println!("C13 compaction removed {} added {} fragments now {}: {}", metrics.fragments_removed, metrics.fragments_added, ds.count_fragments(), if before == after { "rows+rowid+versions identical".to_string() } else { let d: Vec<_> = before.iter().zip(after.iter()).filter(|(a, b)| a != b).take(4).collect(); format!("DIFF {:?} (len {} vs {})", d, before.len(), after.len()) });
    let ids2: Vec<u64> = after.iter().take(5).map(|r| r[2].unwrap() as u64).collect();
    {
        let d2 = ds.clone(); let ids2c = ids2.clone();
        let r = tokio::spawn(async move { d2.take_rows(&ids2c, ProjectionRequest::from_schema(d2.schema().clone())).await.map(|b| b.num_rows()).map_err(|e| e.to_string()) }).await;
        println!("C13/C18 take_rows after compaction: {:?}", r.map_err(|e| e.to_string().chars().take(300).collect::<String>()));
        for f in ds.get_fragments() { println!("    frag {} rows {:?}", f.id(), f.metadata().physical_rows); }
    }
    // ---------- C12: NULL semantics
    let (schema, b) = batch(vec![Some(1), Some(2), None, Some(4), None], vec![Some(10), None, Some(30), Some(40), None]);
    let mut t = Dataset::write(RecordBatchIterator::new(vec![Ok(b)], schema.clone()), "memory://c12", None).await.unwrap();
    t.delete("x > 15").await.unwrap(); // removes x=30,40 ; keeps x NULL rows and 10
    println!("C12 delete x > 15 -> {:?} (expected k=1/x=10, k=2/x=NULL, k=NULL/x=NULL)", rows(&t, false).await);
    let res = UpdateBuilder::new(Arc::new(t.clone())).update_where("NOT (x = 10)").unwrap().set("x", "99").unwrap().build().unwrap().execute().await.unwrap();
    println!("C12 update where NOT (x = 10) set x=99 -> {:?} rows_updated={} (expected none updated)", rows(&res.new_dataset, false).await, res.rows_updated);
    // merge with NULL keys on both sides
    let (_, src) = batch(vec![Some(1), None, Some(7), None], vec![Some(100), Some(200), Some(700), Some(201)]);
    let mut mb = MergeInsertBuilder::try_new(res.new_dataset.clone(), vec!["k".to_string()]).unwrap();
    mb.when_matched(WhenMatched::UpdateAll).when_not_matched(WhenNotMatched::InsertAll);
    let (t2, stats) = mb.try_build().unwrap().execute_reader(Box::new(RecordBatchIterator::new(vec![Ok(src)], schema.clone()))).await.unwrap();
    let mut r2 = rows(&t2, false).await; r2.sort();
    println!("C12 merge upsert with NULL keys -> {:?} stats ins={} upd={}", r2, stats.num_inserted_rows, stats.num_updated_rows);
    println!("    SQL MERGE expectation: k=1 updated to 100; k=7 inserted; both NULL-key source rows inserted (NULL never matches); target NULL-key row kept -> 6 rows");
    // duplicate source keys
    let (_, src) = batch(vec![Some(1), Some(1)], vec![Some(5), Some(6)]);
    let mut mb = MergeInsertBuilder::try_new(t2.clone(), vec!["k".to_string()]).unwrap();
    mb.when_matched(WhenMatched::UpdateAll).when_not_matched(WhenNotMatched::InsertAll);
    let r = mb.try_build().unwrap().execute_reader(Box::new(RecordBatchIterator::new(vec![Ok(src)], schema.clone()))).await;
    println!("C12 merge with duplicate source key -> {:?}", r.map(|(d, s)| (d.version().version, s.num_updated_rows)).map_err(|e| e.to_string().chars().take(160).collect::<String>()));
    let t3 = Dataset::open("memory://c12").await; let _ = t3; let _ = WriteMode::Append;
}
