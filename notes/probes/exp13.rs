// Scratch: end-to-end write/scan/take round trip with nested random data across storage versions.
use std::sync::Arc;

use arrow_array::builder::*;
use arrow_array::types::Int32Type;
use arrow_array::*;
use arrow::buffer::{NullBuffer, OffsetBuffer};
use arrow_schema::{DataType, Field, Fields, Schema};
use futures::TryStreamExt;
use lance::dataset::{ProjectionRequest, WriteMode, WriteParams};
use lance::Dataset;
use lance_encoding::version::LanceFileVersion;

struct Rng(u64);
impl Rng { fn next(&mut self) -> u64 { self.0 = self.0.wrapping_add(0x9E3779B97F4A7C15); let mut z = self.0; z = (z ^ (z >> 30)).wrapping_mul(0xBF58476D1CE4E5B9); z = (z ^ (z >> 27)).wrapping_mul(0x94D049BB133111EB); z ^ (z >> 31) } fn below(&mut self, n: u64) -> u64 { self.next() % n.max(1) } fn null(&mut self, p: u64) -> bool { self.below(100) < p } }

fn gen_batch(r: &mut Rng, n: usize, nullp: u64, mode: u64) -> RecordBatch {
    // mode: 0 random, 1 all null, 2 constant/runs, 3 wide strings
    let a: Int32Array = (0..n).map(|i| if mode == 1 || r.null(nullp) { None } else { Some(match mode { 2 => (i / 300) as i32, _ => r.next() as i32 }) }).collect();
    let s: StringArray = (0..n).map(|i| if mode == 1 || r.null(nullp) { None } else { Some(match mode { 2 => "same".to_string(), 3 => "x".repeat(r.below(300) as usize), _ => format!("s{}é{}", r.below(50), i % 7) }) }).collect();
    let l = ListArray::from_iter_primitive::<Int32Type, _, _>((0..n).map(|_| if mode == 1 || r.null(nullp) { None } else { Some((0..r.below(4)).map(|_| if r.null(nullp) { None } else { Some(r.below(100) as i32) }).collect::<Vec<_>>()) }));
    // struct
    let p: Int64Array = (0..n).map(|_| if r.null(nullp) { None } else { Some(r.next() as i64 >> (r.below(60))) }).collect();
    let q: StringArray = (0..n).map(|_| if r.null(nullp) { None } else { Some(format!("q{}", r.below(5))) }).collect();
    let st_fields: Fields = vec![Field::new("p", DataType::Int64, true), Field::new("q", DataType::Utf8, true)].into();
    let st_nulls = NullBuffer::from((0..n).map(|_| !(mode == 1 || r.null(nullp))).collect::<Vec<bool>>());
    let st = StructArray::try_new(st_fields.clone(), vec![Arc::new(p), Arc::new(q)], Some(st_nulls)).unwrap();
    // list<list<int>>
    let mut llb = ListBuilder::new(ListBuilder::new(Int32Builder::new()));
    for _ in 0..n { if mode == 1 || r.null(nullp) { llb.append(false); } else { for _ in 0..r.below(3) { if r.null(nullp) { llb.values().append(false); } else { for _ in 0..r.below(3) { if r.null(nullp) { llb.values().values().append_null(); } else { llb.values().values().append_value(r.below(9) as i32); } } llb.values().append(true); } } llb.append(true); } }
    let ll = llb.finish();
    // fsl<f32,3>
    let mut fb = FixedSizeListBuilder::new(Float32Builder::new(), 3);
    for _ in 0..n { for _ in 0..3 { fb.values().append_value(r.below(1000) as f32 / 8.0); } fb.append(!(mode == 1 || r.null(nullp))); }
    let fsl = fb.finish();
    // list<struct{p,q}>
    let lens: Vec<usize> = (0..n).map(|_| r.below(3) as usize).collect();
    let tot: usize = lens.iter().sum();
    let ip: Int64Array = (0..tot).map(|_| if r.null(nullp) { None } else { Some(r.below(1000) as i64) }).collect();
    let iq: StringArray = (0..tot).map(|_| if r.null(nullp) { None } else { Some(format!("z{}", r.below(3))) }).collect();
    let inner_nulls = NullBuffer::from((0..tot).map(|_| !r.null(nullp)).collect::<Vec<bool>>());
    let inner = StructArray::try_new(st_fields.clone(), vec![Arc::new(ip), Arc::new(iq)], Some(inner_nulls)).unwrap();
    let ls_nulls = NullBuffer::from((0..n).map(|i| !(mode == 1 || (lens[i] == 0 && r.null(nullp)))).collect::<Vec<bool>>());
    let ls = ListArray::try_new(Arc::new(Field::new("item", DataType::Struct(st_fields.clone()), true)), OffsetBuffer::from_lengths(lens.clone()), Arc::new(inner), Some(ls_nulls)).unwrap();
    let b: BooleanArray = (0..n).map(|_| if mode == 1 || r.null(nullp) { None } else { Some(r.below(2) == 0) }).collect();
    let schema = Arc::new(Schema::new(vec![
        Field::new("a", DataType::Int32, true),
        Field::new("s", DataType::Utf8, true),
        Field::new("l", l.data_type().clone(), true),
        Field::new("st", st.data_type().clone(), true),
        Field::new("ll", ll.data_type().clone(), true),
        Field::new("fsl", fsl.data_type().clone(), true),
        Field::new("ls", ls.data_type().clone(), true),
        Field::new("b", DataType::Boolean, true),
    ]));
    let full = RecordBatch::try_new(schema, vec![Arc::new(a), Arc::new(s), Arc::new(l), Arc::new(st), Arc::new(ll), Arc::new(fsl), Arc::new(ls), Arc::new(b)]).unwrap();
    if let Ok(cols) = std::env::var("COLS") { let idx: Vec<usize> = cols.split(',').map(|c| full.schema().index_of(c).unwrap()).collect(); full.project(&idx).unwrap() } else { full }
}

fn eq_batches(a: &RecordBatch, b: &RecordBatch) -> Option<String> {
    if a.num_rows() != b.num_rows() { return Some(format!("rows {} vs {}", a.num_rows(), b.num_rows())); }
    for (i, f) in a.schema().fields().iter().enumerate() {
        let Some(bc) = b.column_by_name(f.name()) else { return Some(format!("missing col {}", f.name())) };
        let ac = a.column(i);
        if ac.data_type() != bc.data_type() { return Some(format!("col {} type {:?} vs {:?}", f.name(), ac.data_type(), bc.data_type())); }
        if ac.to_data() != bc.to_data() {
            // find first differing row
            for r in 0..ac.len() { if ac.slice(r, 1).to_data() != bc.slice(r, 1).to_data() { return Some(format!("col {} row {} : {} vs {}", f.name(), r, format!("{:?}", ac.slice(r, 1)).replace("\n", " ").chars().take(160).collect::<String>(), format!("{:?}", bc.slice(r, 1)).replace("\n", " ").chars().take(160).collect::<String>())); } }
            return Some(format!("col {} differs (no single row)", f.name()));
        }
    }
    None
}

#[tokio::main]
async fn main() {
    let mut r = Rng(std::env::args().nth(1).and_then(|s| s.parse().ok()).unwrap_or(1));
    let mut cases = 0; let mut fails = 0;
    let only: Option<usize> = std::env::var("ROUND").ok().and_then(|s| s.parse().ok());
    for round in 0..24 {
        let version = [LanceFileVersion::Legacy, LanceFileVersion::V2_0, LanceFileVersion::V2_1, LanceFileVersion::V2_2][round % 4];
        let mode = (round / 4) as u64 % 4;
        let nullp = [0, 10, 50, 90][r.below(4) as usize];
        let nb = 1 + r.below(3) as usize;
        let batches: Vec<RecordBatch> = (0..nb).map(|_| { let n = [0usize, 1, 7, 100, 1025, 2500, 5000][r.below(7) as usize]; gen_batch(&mut r, n, nullp, mode) }).collect();
        let schema = batches[0].schema();
        let expected = arrow::compute::concat_batches(&schema, batches.iter()).unwrap();
        let params = WriteParams { max_rows_per_file: [100, 1000, 1 << 20][r.below(3) as usize], max_rows_per_group: [10, 1024][r.below(2) as usize], data_storage_version: Some(version), mode: WriteMode::Create, ..Default::default() };
        if let Some(o) = only { if o != round { continue; } }
        let uri = format!("memory://rt{round}");
        let desc = format!("round {round} version {version} mode {mode} nullp {nullp} rows {:?} max_rows_per_file {}", batches.iter().map(|b| b.num_rows()).collect::<Vec<_>>(), params.max_rows_per_file);
        let reader = RecordBatchIterator::new(batches.clone().into_iter().map(Ok), schema.clone());
        let res = tokio::spawn(async move {
            let ds = Dataset::write(reader, &uri, Some(params)).await.map_err(|e| format!("write error: {}", e.to_string().chars().take(300).collect::<String>()))?;
            let mut out = vec![];
            for bs in [None, Some(1usize), Some(33), Some(4096)] {
                let mut sc = ds.scan(); sc.scan_in_order(true); if let Some(bs) = bs { sc.batch_size(bs); }
                let got: Vec<RecordBatch> = sc.try_into_stream().await.map_err(|e| format!("scan plan error {e}"))?.try_collect().await.map_err(|e| format!("scan error: {}", e.to_string().chars().take(300).collect::<String>()))?;
                let got = arrow::compute::concat_batches(&got.first().map(|b| b.schema()).unwrap_or(expected.schema()), got.iter()).unwrap();
                if let Some(d) = eq_batches(&expected, &got) { out.push(format!("scan(batch_size={:?}): {}", bs, d)); }
            }
            if expected.num_rows() > 0 {
                let n = expected.num_rows() as u64;
                let idx: Vec<u64> = vec![0, n - 1, n / 2, n / 3, n / 3, (n * 7) / 8, 1.min(n - 1)];
                let got = ds.take(&idx, ProjectionRequest::from_schema(ds.schema().clone())).await.map_err(|e| format!("take error: {}", e.to_string().chars().take(300).collect::<String>()))?;
                let idx32 = UInt64Array::from(idx.clone());
                let exp_cols: Vec<ArrayRef> = expected.columns().iter().map(|c| arrow::compute::take(c, &idx32, None).unwrap()).collect();
                let exp = RecordBatch::try_new(expected.schema(), exp_cols).unwrap();
                if let Some(d) = eq_batches(&exp, &got) { out.push(format!("take {:?}: {}", idx, d)); }
            }
            Ok::<_, String>(out)
        }).await;
        cases += 1;
        match res {
            Ok(Ok(v)) if v.is_empty() => {}
            Ok(Ok(v)) => { fails += 1; println!("FAIL {desc}\n   {}", v.iter().take(3).cloned().collect::<Vec<_>>().join("\n   ").chars().take(900).collect::<String>()); }
            Ok(Err(e)) => { fails += 1; println!("ERR  {desc}\n   {e}"); }
            Err(e) => { fails += 1; println!("PANIC {desc}\n   {}", e.to_string().chars().take(300).collect::<String>()); }
        }
    }
    println!("round-trip cases={cases} fails={fails}");
}
