// Scratch: scalar-index differential (index vs no index) over index kinds, types and predicates.
use std::sync::Arc;
use arrow_array::*;
use arrow_schema::{DataType, Field, Schema};
use futures::TryStreamExt;
use lance::dataset::{WriteMode, WriteParams};
use lance::Dataset;
use lance_index::scalar::ScalarIndexParams;
use lance_index::{DatasetIndexExt, IndexType};

struct Rng(u64);
impl Rng { fn next(&mut self) -> u64 { self.0 = self.0.wrapping_add(0x9E3779B97F4A7C15); let mut z = self.0; z = (z ^ (z >> 30)).wrapping_mul(0xBF58476D1CE4E5B9); z = (z ^ (z >> 27)).wrapping_mul(0x94D049BB133111EB); z ^ (z >> 31) } fn below(&mut self, n: u64) -> u64 { self.next() % n.max(1) } }

async fn ids(ds: &Dataset, filter: &str, use_index: bool) -> Result<Vec<i32>, String> {
    let mut sc = ds.scan();
    sc.filter(filter).map_err(|e| format!("filter parse: {e}"))?;
    sc.use_scalar_index(use_index);
    sc.project(&["id"]).unwrap();
    let batches: Vec<RecordBatch> = sc.try_into_stream().await.map_err(|e| e.to_string())?.try_collect().await.map_err(|e| e.to_string())?;
    let mut out = vec![];
    for b in batches { let a = b.column_by_name("id").unwrap().as_any().downcast_ref::<Int32Array>().unwrap().clone(); out.extend(a.values().iter().copied()); }
    out.sort();
    Ok(out)
}

fn make(r: &mut Rng, n: usize, base: i32, nulls: bool) -> (Arc<Schema>, RecordBatch) {
    let fvals = [f32::NAN, -0.0, 0.0, 1.5, -1.5, f32::INFINITY, f32::NEG_INFINITY, 2.0, 3.0];
    let words = ["", "apple", "apple pie", "banana", "Ünïcode", "pineapple", "app", "ppl"];
    let id: Int32Array = (0..n as i32).map(|i| Some(base + i)).collect();
    let i: Int32Array = (0..n).map(|_| if nulls && r.below(5) == 0 { None } else { Some(r.below(7) as i32 - 3) }).collect();
    let u: UInt8Array = (0..n).map(|_| if nulls && r.below(5) == 0 { None } else { Some(r.below(5) as u8 * 60) }).collect();
    let f: Float32Array = (0..n).map(|_| if nulls && r.below(5) == 0 { None } else { Some(fvals[r.below(fvals.len() as u64) as usize]) }).collect();
    let s: StringArray = (0..n).map(|_| if nulls && r.below(5) == 0 { None } else { Some(words[r.below(words.len() as u64) as usize]) }).collect();
    let b: BooleanArray = (0..n).map(|_| if nulls && r.below(4) == 0 { None } else { Some(r.below(2) == 0) }).collect();
    let schema = Arc::new(Schema::new(vec![
        Field::new("id", DataType::Int32, false), Field::new("i", DataType::Int32, true), Field::new("u", DataType::UInt8, true),
        Field::new("f", DataType::Float32, true), Field::new("s", DataType::Utf8, true), Field::new("b", DataType::Boolean, true)]));
    (schema.clone(), RecordBatch::try_new(schema, vec![Arc::new(id), Arc::new(i), Arc::new(u), Arc::new(f), Arc::new(s), Arc::new(b)]).unwrap())
}

#[tokio::main]
async fn main() {
    let mut r = Rng(std::env::args().nth(1).and_then(|s| s.parse().ok()).unwrap_or(3));
    let nulls_allowed = std::env::var("NONULL").is_err();
    let preds: Vec<(&str, Vec<&str>)> = vec![
        ("i", vec!["i = 2", "i < 0", "i <= -3", "i > 3", "i >= 3", "i BETWEEN -1 AND 1", "i IN (1, 2, 99)", "i IS NULL", "i IS NOT NULL", "i = 300000000000", "i < 2.5", "i > -100 AND i < 100", "i = 1 OR i = -1", "i = 1 AND i = 2", "i > 1 OR i IS NULL"]),
        ("u", vec!["u = 120", "u < 61", "u >= 240", "u = 300", "u > -1", "u IN (0, 60)", "u BETWEEN 60 AND 180", "u IS NULL"]),
        ("f", vec!["f = 1.5", "f < 0", "f <= 0", "f > 0", "f >= 2", "f BETWEEN -1.5 AND 1.5", "f IS NULL", "f > 1e30", "f < -1e30", "f = 0"]),
        ("s", vec!["s = 'apple'", "s = ''", "s < 'b'", "s >= 'banana'", "s IN ('app', 'ppl')", "s IS NULL", "s > 'Z'"]),
        ("b", vec!["b", "b IS TRUE", "b IS FALSE", "b = true", "b = false", "b IS NULL"]),
    ];
    let ngram_preds = vec!["contains(s, 'app')", "contains(s, 'ppl')", "contains(s, 'apple pie')", "contains(s, 'nï')", "contains(s, 'zzz')", "contains(s, 'ap')", "contains(s, '')"];
    let kinds = [(IndexType::BTree, "btree"), (IndexType::Bitmap, "bitmap"), (IndexType::ZoneMap, "zonemap"), (IndexType::BloomFilter, "bloom")];
    let mut total = 0; let mut diffs = 0;
    for (kind, kname) in kinds {
        for (col, ps) in &preds {
            if kname == "bloom" && *col == "b" { continue; }
            let uri = format!("memory://ix_{kname}_{col}");
            let (schema, b1) = make(&mut r, 300, 0, nulls_allowed);
            let mut ds = Dataset::write(RecordBatchIterator::new(vec![Ok(b1)], schema.clone()), &uri, Some(WriteParams { max_rows_per_file: 100, ..Default::default() })).await.unwrap();
            if let Err(e) = ds.create_index(&[*col], kind, None, &ScalarIndexParams::default(), true).await { println!("  [{kname}/{col}] create_index: {}", e.to_string().chars().take(100).collect::<String>()); continue; }
            // history: append unindexed, delete some
            let (_, b2) = make(&mut r, 50, 1000, nulls_allowed);
            ds.append(RecordBatchIterator::new(vec![Ok(b2)], schema.clone()), Some(WriteParams { mode: WriteMode::Append, ..Default::default() })).await.unwrap();
            ds.delete("id % 11 = 0").await.unwrap();
            for p in ps {
                total += 1;
                let a = ids(&ds, p, true).await; let b = ids(&ds, p, false).await;
                if a != b { diffs += 1; println!("  DIFF [{kname}/{col}] {p}: index={} noindex={}", match &a { Ok(v) => format!("{} rows", v.len()), Err(e) => format!("ERR {}", e.chars().take(80).collect::<String>()) }, match &b { Ok(v) => format!("{} rows", v.len()), Err(e) => format!("ERR {}", e.chars().take(80).collect::<String>()) });
                    if let (Ok(x), Ok(y)) = (&a, &b) { let only_i: Vec<_> = x.iter().filter(|v| !y.contains(v)).take(5).collect(); let only_n: Vec<_> = y.iter().filter(|v| !x.contains(v)).take(5).collect(); println!("        only-index {:?} only-noindex {:?}", only_i, only_n); } }
            }
        }
    }
    // ngram
    {
        let (schema, b1) = make(&mut r, 300, 0, nulls_allowed);
        let mut ds = Dataset::write(RecordBatchIterator::new(vec![Ok(b1)], schema.clone()), "memory://ix_ngram", None).await.unwrap();
        match ds.create_index(&["s"], IndexType::NGram, None, &ScalarIndexParams::default(), true).await { Ok(_) => {
            ds.delete("id % 11 = 0").await.unwrap();
            for p in &ngram_preds { total += 1; let a = ids(&ds, p, true).await; let b = ids(&ds, p, false).await; if a != b { diffs += 1; println!("  DIFF [ngram/s] {p}: index={:?} noindex={:?}", a.as_ref().map(|v| v.len()), b.as_ref().map(|v| v.len())); } }
        } Err(e) => println!("  ngram create_index: {e}") }
    }
    println!("index differential: predicates={total} diffs={diffs} (nulls in data: {nulls_allowed})");
}
