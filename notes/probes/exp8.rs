use lance_core::utils::mask::{RowIdMask, RowIdTreeMap};
fn main() {
    let all = RowIdMask::all_rows();
    let blk = RowIdMask::from_block(RowIdTreeMap::from_iter([0u64]));
    let o1 = all.clone() | blk.clone();
    let o2 = blk.clone() | all.clone();
    println!("(all | block{{0}}).selected(0) = {} (expected true)", o1.selected(0));
    println!("(block{{0}} | all).selected(0) = {} (expected true)", o2.selected(0));
}
