// Scratch: C39 MemWAL state machine with stale handles (concurrent writers).
use std::sync::Arc;
use arrow_array::*;
use arrow_schema::{DataType, Field, Schema};
use lance::index::mem_wal::*;
use lance::Dataset;
use lance::index::DatasetIndexInternalExt;
use lance_index::metrics::NoOpMetricsCollector;

async fn dump(ds: &Dataset) -> String {
    let mut d = ds.clone(); d.checkout_latest().await.unwrap();
    match d.open_mem_wal_index(&NoOpMetricsCollector).await { Ok(Some(ix)) => { let mut v: Vec<String> = vec![]; for (region, gens) in ix.mem_wal_map.iter() { for (g, m) in gens.iter() { v.push(format!("{region}/{g}:{:?}:{}:{:?}", m.state, m.owner_id, m.wal_entries().iter().collect::<Vec<_>>())); } } format!("v{} [{}]", d.version().version, v.join(", ")) } Ok(None) => format!("v{} <no index>", d.version().version), Err(e) => format!("ERR {e}") }
}
fn short<T>(r: lance::Result<T>) -> String { match r { Ok(_) => "Ok".into(), Err(e) => format!("Err({})", e.to_string().chars().take(110).collect::<String>()) } }
#[tokio::main]
async fn main() {
    let schema = Arc::new(Schema::new(vec![Field::new("id", DataType::Int32, false)]));
    let b = RecordBatch::try_new(schema.clone(), vec![Arc::new(Int32Array::from(vec![1, 2, 3]))]).unwrap();
    let dir = "/var/tmp/lvx/memwal"; let _ = std::fs::remove_dir_all(dir);
    let mut ds = Dataset::write(RecordBatchIterator::new(vec![Ok(b)], schema.clone()), dir, None).await.unwrap();
    println!("advance (create gen0): {}", short(advance_mem_wal_generation(&mut ds, "R", "mt0", "wal0", None, "ownerA").await));
    println!("  state {}", dump(&ds).await);
    // two stale handles race on gen 0
    let mut a = ds.clone(); let mut b2 = ds.clone();
    println!("A append entry 1: {}", short(append_mem_wal_entry(&mut a, "R", 0, 1, "ownerA").await));
    println!("B (stale) seal gen0: {}", short(mark_mem_wal_as_sealed(&mut b2, "R", 0, "ownerA").await));
    println!("  state {}", dump(&ds).await);
    // owner change vs append race
    let mut a = ds.clone(); a.checkout_latest().await.unwrap(); let mut b2 = a.clone();
    println!("A owner A->B: {}", short(update_mem_wal_owner(&mut a, "R", 0, "ownerB", None).await));
    println!("B (stale, old owner) append entry 2: {}", short(append_mem_wal_entry(&mut b2, "R", 0, 2, "ownerA").await));
    println!("  state {}", dump(&ds).await);
    // advance races: two writers both advance from same read version
    let mut a = ds.clone(); a.checkout_latest().await.unwrap(); let mut b2 = a.clone();
    println!("A advance -> gen1: {}", short(advance_mem_wal_generation(&mut a, "R", "mt1", "wal1", Some("ownerB"), "ownerB").await));
    println!("B (stale) advance -> gen1: {}", short(advance_mem_wal_generation(&mut b2, "R", "mt1b", "wal1b", Some("ownerB"), "ownerC").await));
    println!("  state {}", dump(&ds).await);
    // different regions concurrently
    let mut a = ds.clone(); a.checkout_latest().await.unwrap(); let mut b2 = a.clone();
    println!("A advance region S: {}", short(advance_mem_wal_generation(&mut a, "S", "smt0", "swal0", None, "o1").await));
    println!("B (stale) flush R/0: {}", short(mark_mem_wal_as_flushed(&mut b2, "R", 0, "ownerB").await));
    println!("  state {}", dump(&ds).await);
    // merged + trim, then stale writer tries to touch trimmed generation
    let mut a = ds.clone(); a.checkout_latest().await.unwrap();
    println!("merge R/0: {}", short(mark_mem_wal_as_merged(&mut a, "R", 0, "ownerB").await));
    let mut stale = a.clone();
    println!("trim: {}", short(trim_mem_wal_index(&mut a).await));
    println!("  state {}", dump(&ds).await);
    println!("stale: re-merge R/0 after trim: {}", short(mark_mem_wal_as_merged(&mut stale, "R", 0, "ownerB").await));
    println!("stale: append to R/1 while trim committed: {}", short(append_mem_wal_entry(&mut stale, "R", 1, 9, "ownerB").await));
    println!("  state {}", dump(&ds).await);
}
