use lance_table::rowids::{RowIdSequence, segment::U64Segment};
fn try_<T: std::fmt::Debug>(name: &str, f: impl FnOnce() -> T + std::panic::UnwindSafe) {
    match std::panic::catch_unwind(f) { Ok(v) => println!("  {name}: {:?}", v), Err(_) => println!("  {name}: PANIC") }
}
fn main() {
    std::panic::set_hook(Box::new(|_| {}));
    try_("from_slice [5,5]", || U64Segment::from_slice(&[5,5]));
    try_("from_slice [5,5,7]", || { let s = U64Segment::from_slice(&[5,5,7]); (s.iter().collect::<Vec<_>>(), s.len(), s) });
    try_("from_slice [MAX-1,MAX]", || U64Segment::from_slice(&[u64::MAX-1,u64::MAX]));
    try_("from_slice [0,MAX]", || U64Segment::from_slice(&[0,u64::MAX]));
    try_("from_slice [MAX-5,MAX-3,MAX]", || { let s = U64Segment::from_slice(&[u64::MAX-5,u64::MAX-3,u64::MAX]); (s.iter().collect::<Vec<_>>(), s) });
    try_("seq holes mask", || {
        let ids: Vec<u64> = vec![1,2,3,5,6,7,9,10,11,20];
        let mut s = RowIdSequence::from(ids.as_slice());
        s.mask([0u32, 3, 9]).unwrap();
        s.iter().collect::<Vec<_>>()
    });
    try_("seq delete unsorted", || {
        let ids: Vec<u64> = vec![10,3,7,1,8];
        let mut s = RowIdSequence::from(ids.as_slice());
        s.delete([1u64, 10]);
        s.iter().collect::<Vec<_>>()
    });
    try_("slice", || {
        let mut s = RowIdSequence::from(0u64..5);
        s.extend(RowIdSequence::from([10u64, 12, 14].as_slice()));
        (s.slice(3, 4).iter().collect::<Vec<_>>(), s.slice(5, 0).iter().collect::<Vec<_>>(), s.slice(0, 8).iter().collect::<Vec<_>>())
    });
}
