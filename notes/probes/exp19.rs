// Scratch: C14 (drop/re-add, alter), C42 (copy root), C08 (cleanup with tags/policies), C06 (old versions stable).
use std::sync::Arc;
use arrow_array::*;
use arrow_schema::{DataType, Field, Schema};
use futures::TryStreamExt;
use lance::dataset::optimize::{compact_files, CompactionOptions};
use lance::dataset::{ColumnAlteration, NewColumnTransform, WriteMode, WriteParams};
use lance::Dataset;
use lance_index::scalar::ScalarIndexParams;
use lance_index::{DatasetIndexExt, IndexType};

fn batch(lo: i32, hi: i32) -> (Arc<Schema>, RecordBatch) {
    let schema = Arc::new(Schema::new(vec![Field::new("id", DataType::Int32, false), Field::new("x", DataType::Int32, true), Field::new("s", DataType::Utf8, true)]));
    let b = RecordBatch::try_new(schema.clone(), vec![Arc::new(Int32Array::from_iter_values(lo..hi)), Arc::new(Int32Array::from_iter((lo..hi).map(|i| if i % 5 == 0 { None } else { Some(i * 10) }))), Arc::new(StringArray::from_iter((lo..hi).map(|i| Some(format!("s{i}")))))]).unwrap();
    (schema, b)
}
async fn snapshot(ds: &Dataset) -> String {
    let names: Vec<String> = ds.schema().fields.iter().map(|f| format!("{}#{}", f.name, f.id)).collect();
    let bs: Result<Vec<RecordBatch>, _> = match ds.scan().try_into_stream().await { Ok(s) => s.try_collect().await, Err(e) => Err(e) };
    match bs { Err(e) => format!("SCAN-ERR {}", e.to_string().chars().take(120).collect::<String>()), Ok(bs) => {
        let mut rows: Vec<String> = vec![];
        for b in &bs { for r in 0..b.num_rows() { rows.push((0..b.num_columns()).map(|c| arrow::util::display::array_value_to_string(b.column(c), r).unwrap()).collect::<Vec<_>>().join("|")); } }
        format!("{:?} rows={} h={:x}", names, rows.len(), rows.iter().fold(0u64, |h, s| s.bytes().fold(h.wrapping_mul(31).wrapping_add(7), |h, b| h.wrapping_mul(131).wrapping_add(b as u64))))
    } }
}
#[tokio::main]
async fn main() {
    let dir = "/var/tmp/lvx/e30"; let _ = std::fs::remove_dir_all(dir); let _ = std::fs::remove_dir_all("/var/tmp/lvx/e30copy");
    let (schema, b) = batch(0, 30);
    let mut ds = Dataset::write(RecordBatchIterator::new(vec![Ok(b)], schema.clone()), dir, Some(WriteParams { max_rows_per_file: 10, ..Default::default() })).await.unwrap();
    let mut snaps: Vec<(u64, String)> = vec![(1, snapshot(&ds).await)];
    macro_rules! step { ($name:expr, $e:expr) => {{ let r = $e; println!("step {:28} -> v{} {:?}", $name, ds.version().version, r.map(|_| ()).map_err(|e| e.to_string().chars().take(150).collect::<String>())); snaps.push((ds.version().version, snapshot(&ds).await)); }} }
    step!("delete id%4=1", ds.delete("id % 4 = 1").await);
    let (_, b2) = batch(30, 45);
    step!("append", ds.append(RecordBatchIterator::new(vec![Ok(b2)], schema.clone()), Some(WriteParams { mode: WriteMode::Append, max_rows_per_file: 10, ..Default::default() })).await);
    step!("create btree(x)", ds.create_index(&["x"], IndexType::BTree, None, &ScalarIndexParams::default(), true).await);
    ds.tags().create("t_old", 2).await.unwrap();
    step!("drop x", ds.drop_columns(&["x"]).await);
    step!("add x = id * 2", ds.add_columns(NewColumnTransform::SqlExpressions(vec![("x".into(), "id * 2".into())]), None, None).await);
    println!("   after re-add: first rows {:?}", { let b: Vec<RecordBatch> = ds.scan().try_into_stream().await.unwrap().try_collect().await.unwrap(); (0..3).map(|r| (0..b[0].num_columns()).map(|c| arrow::util::display::array_value_to_string(b[0].column(c), r).unwrap()).collect::<Vec<_>>()).collect::<Vec<_>>() });
    step!("alter rename s->name", ds.alter_columns(&[ColumnAlteration::new("s".into()).rename("name".into())]).await);
    step!("alter cast x->int64", ds.alter_columns(&[ColumnAlteration::new("x".into()).cast_to(DataType::Int64)]).await);
    step!("compact", compact_files(&mut ds, CompactionOptions { target_rows_per_fragment: 25, ..Default::default() }, None).await);
    step!("update config", ds.update_config([("k", "v")]).await);
    {
        let mut old = ds.checkout_version(3).await.unwrap();
        let r = old.restore().await; println!("step restore v3 -> {:?}", r.map_err(|e| e.to_string()));
        ds.checkout_latest().await.unwrap(); snaps.push((ds.version().version, snapshot(&ds).await));
    }
    // C06: all old versions still equal their snapshot
    let mut bad = 0;
    for (v, s) in &snaps { let d = ds.checkout_version(*v).await.unwrap(); let now = snapshot(&d).await; if &now != s { bad += 1; println!("  C06 DIFF v{v}: was {s} now {now}"); } }
    println!("C06: versions checked {} changed {}", snaps.len(), bad);
    // C42: copy root
    let st = std::process::Command::new("cp").args(["-r", dir, "/var/tmp/lvx/e30copy"]).status().unwrap(); assert!(st.success());
    let copy = Dataset::open("/var/tmp/lvx/e30copy").await.unwrap();
    let mut bad = 0; for (v, s) in &snaps { match copy.checkout_version(*v).await { Ok(d) => { let now = snapshot(&d).await; if &now != s { bad += 1; println!("  C42 DIFF v{v}: orig {s} copy {now}"); } } Err(e) => { bad += 1; println!("  C42 v{v} open error {e}"); } } }
    println!("C42: copy latest v{} tags {:?}; versions differing {}", copy.version().version, copy.tags().list().await.map(|t| t.into_iter().map(|(k, v)| (k, v.version)).collect::<Vec<_>>()).map_err(|e| e.to_string()), bad);
    // C08: cleanup keeping tagged v2; everything else old removed
    let stats = ds.cleanup_old_versions(chrono::Duration::zero(), Some(false), Some(false)).await;
    println!("C08 cleanup: {:?}", stats.map_err(|e| e.to_string()));
    let vs: Vec<u64> = ds.versions().await.unwrap().iter().map(|v| v.version).collect();
    println!("C08 remaining versions {:?}", vs);
    let mut bad = 0; for (v, s) in &snaps { if vs.contains(v) { let d = ds.checkout_version(*v).await.unwrap(); let now = snapshot(&d).await; if &now != s { bad += 1; println!("  C08 DIFF v{v}: was {s} now {now}"); } } }
    println!("C08: retained versions readable & unchanged: bad={}", bad);
    let idx_ok = { let mut sc = ds.scan(); sc.filter("x > 10").unwrap(); sc.try_into_stream().await.unwrap().try_collect::<Vec<RecordBatch>>().await.map(|b| b.iter().map(|x| x.num_rows()).sum::<usize>()).map_err(|e| e.to_string()) };
    println!("C08: latest filtered scan after cleanup: {:?}", idx_ok);
}
