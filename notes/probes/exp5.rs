// Scratch: namespace names with '$' and quote.
use lance_namespace::models::*;
use lance_namespace::LanceNamespace;
use lance_namespace_impls::DirectoryNamespaceBuilder;

fn s(v: &[&str]) -> Option<Vec<String>> {
    Some(v.iter().map(|x| x.to_string()).collect())
}

#[tokio::main]
async fn main() {
    let dir = "/var/tmp/lvx/nsdir";
    let _ = std::fs::remove_dir_all(dir);
    std::fs::create_dir_all(dir).unwrap();
    let ns = DirectoryNamespaceBuilder::new(dir).build().await.unwrap();

    macro_rules! mk_ns { ($id:expr) => {{ let mut r = CreateNamespaceRequest::new(); r.id = s($id); println!("  create_namespace {:?}: {:?}", $id, ns.create_namespace(r).await.map(|_| ()).map_err(|e| e.to_string())); }} }
    macro_rules! ex_ns { ($id:expr) => {{ let mut r = NamespaceExistsRequest::new(); r.id = s($id); println!("  namespace_exists {:?}: {:?}", $id, ns.namespace_exists(r).await.map_err(|e| e.to_string())); }} }
    macro_rules! mk_tb { ($id:expr) => {{ let mut r = CreateEmptyTableRequest::new(); r.id = s($id); println!("  create_empty_table {:?}: {:?}", $id, ns.create_empty_table(r).await.map(|x| x.location).map_err(|e| e.to_string())); }} }
    macro_rules! ex_tb { ($id:expr) => {{ let mut r = TableExistsRequest::new(); r.id = s($id); println!("  table_exists {:?}: {:?}", $id, ns.table_exists(r).await.map_err(|e| e.to_string())); }} }
    macro_rules! ls_tb { ($id:expr) => {{ let mut r = ListTablesRequest::new(); r.id = s($id); println!("  list_tables {:?}: {:?}", $id, ns.list_tables(r).await.map(|x| x.tables).map_err(|e| e.to_string())); }} }
    macro_rules! ls_ns { ($id:expr) => {{ let mut r = ListNamespacesRequest::new(); r.id = s($id); println!("  list_namespaces {:?}: {:?}", $id, ns.list_namespaces(r).await.map(|x| x.namespaces).map_err(|e| e.to_string())); }} }

    println!("== E17a: '$' aliasing");
    mk_ns!(&["a"]);
    mk_ns!(&["a", "b"]);
    mk_tb!(&["a", "b$c"]);
    ex_tb!(&["a", "b", "c"]);   // never created: should be Err
    ex_tb!(&["a", "b$c"]);
    ls_tb!(&["a"]);
    ls_tb!(&["a", "b"]);
    mk_ns!(&["x$y"]);
    ex_ns!(&["x", "y"]);        // never created: should be Err
    { let mut r = ListNamespacesRequest::new(); r.id = Some(vec![]); println!("  list_namespaces []: {:?}", ns.list_namespaces(r).await.map(|x| x.namespaces).map_err(|e| e.to_string())); }
    ls_ns!(&["x"]);
    println!("== E17b: quote in names");
    mk_ns!(&["o'k"]);
    ex_ns!(&["o'k"]);
    mk_tb!(&["t' OR object_type = 'table"]);
    ex_tb!(&["zzz' OR object_type = 'table"]); // never created
    { let mut r = ListTablesRequest::new(); r.id = Some(vec![]); println!("  list_tables []: {:?}", ns.list_tables(r).await.map(|x| x.tables).map_err(|e| e.to_string())); }
}
