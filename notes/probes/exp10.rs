// Scratch fuzz/sweep of pure cores against list/set semantics. Prints first few failures per area.
use std::collections::BTreeSet;
use std::panic::{catch_unwind, AssertUnwindSafe};

use lance_core::utils::mask::RowIdTreeMap;
use lance_table::io::commit::ManifestNamingScheme;
use lance_table::rowids::{rechunk_sequences, RowIdSequence};
use lance_table::rowids::segment::U64Segment;

struct Rng(u64);
impl Rng {
    fn next(&mut self) -> u64 { self.0 = self.0.wrapping_add(0x9E3779B97F4A7C15); let mut z = self.0; z = (z ^ (z >> 30)).wrapping_mul(0xBF58476D1CE4E5B9); z = (z ^ (z >> 27)).wrapping_mul(0x94D049BB133111EB); z ^ (z >> 31) }
    fn below(&mut self, n: u64) -> u64 { self.next() % n.max(1) }
}

struct Report { name: &'static str, cases: u64, fails: Vec<String> }
impl Report {
    fn new(name: &'static str) -> Self { Self { name, cases: 0, fails: vec![] } }
    fn check(&mut self, ok: bool, desc: impl FnOnce() -> String) { self.cases += 1; if !ok && self.fails.len() < 4 { self.fails.push(desc()); } else if !ok { self.fails.push(String::new()); } }
    fn done(&self) { println!("{:34} cases={:7} failures={:6} {}", self.name, self.cases, self.fails.len(), self.fails.iter().filter(|s| !s.is_empty()).take(3).cloned().collect::<Vec<_>>().join(" || ")); }
}

fn gen_ids(r: &mut Rng) -> Vec<u64> {
    let n = 1 + r.below(8) as usize;
    let kind = r.below(5);
    let base = match r.below(4) { 0 => 0, 1 => 65530, 2 => (1u64 << 32) - 4, _ => r.below(50) };
    let mut v: Vec<u64> = match kind {
        0 => (0..n as u64).map(|i| base + i).collect(),                       // dense
        1 => { let mut s = BTreeSet::new(); while s.len() < n { s.insert(base + r.below(14)); } s.into_iter().collect() } // sorted with holes
        2 => { let mut s = BTreeSet::new(); while s.len() < n { s.insert(base + r.below(200)); } s.into_iter().collect() } // sparse sorted
        3 => { let mut s = BTreeSet::new(); while s.len() < n { s.insert(base + r.below(5000) * 97); } s.into_iter().collect() } // very sparse
        _ => { let mut s = BTreeSet::new(); while s.len() < n { s.insert(base + r.below(30)); } let mut v: Vec<u64> = s.into_iter().collect(); for i in (1..v.len()).rev() { let j = r.below(i as u64 + 1) as usize; v.swap(i, j); } v } // unsorted distinct
    };
    if kind != 4 { v.sort(); }
    v
}

fn seq_from_parts(parts: &[Vec<u64>]) -> RowIdSequence {
    let mut s = RowIdSequence::new();
    for p in parts { s.extend(RowIdSequence::from(p.as_slice())); }
    s
}

fn rowid_sequences(r: &mut Rng) {
    let mut rep_iter = Report::new("rowids: iter/len/get");
    let mut rep_del = Report::new("rowids: delete");
    let mut rep_mask = Report::new("rowids: mask(positions)");
    let mut rep_slice = Report::new("rowids: slice");
    let mut rep_sel = Report::new("rowids: select");
    let mut rep_m2o = Report::new("rowids: mask_to_offset_ranges");
    let mut rep_rechunk = Report::new("rowids: rechunk_sequences");
    let mut rep_treemap = Report::new("rowids: into RowIdTreeMap");
    for _ in 0..20000 {
        // parts with globally distinct ids: shift each part
        let nparts = 1 + r.below(3) as usize;
        let mut parts = vec![];
        let mut shift = 0u64;
        for _ in 0..nparts { let p: Vec<u64> = gen_ids(r).into_iter().map(|x| x + shift).collect(); shift += 10_000_000_000; parts.push(p); }
        let flat: Vec<u64> = parts.iter().flatten().copied().collect();
        let res = catch_unwind(AssertUnwindSafe(|| {
            let s = seq_from_parts(&parts);
            (s.iter().collect::<Vec<_>>(), s.len(), (0..flat.len() + 1).map(|i| s.get(i)).collect::<Vec<_>>())
        }));
        match res {
            Ok((it, len, gets)) => rep_iter.check(it == flat && len == flat.len() as u64 && gets == (0..flat.len() + 1).map(|i| flat.get(i).copied()).collect::<Vec<_>>(), || format!("parts={:?} iter={:?}", parts, it)),
            Err(_) => rep_iter.check(false, || format!("PANIC parts={:?}", parts)),
        }
        if flat.is_empty() { continue; }
        // delete a random subset (any order)
        let del: Vec<u64> = flat.iter().copied().filter(|_| r.below(3) == 0).collect();
        let mut del_shuf = del.clone(); if r.below(2) == 0 { del_shuf.reverse(); }
        let exp: Vec<u64> = flat.iter().copied().filter(|x| !del.contains(x)).collect();
        let res = catch_unwind(AssertUnwindSafe(|| { let mut s = seq_from_parts(&parts); s.delete(del_shuf.clone()); s.iter().collect::<Vec<_>>() }));
        match res { Ok(got) => rep_del.check(got == exp, || format!("parts={:?} del={:?} got={:?}", parts, del_shuf, got)), Err(_) => rep_del.check(false, || format!("PANIC parts={:?} del={:?}", parts, del_shuf)) }
        // mask positions (sorted)
        let pos: Vec<u32> = (0..flat.len() as u32).filter(|_| r.below(3) == 0).collect();
        let exp: Vec<u64> = flat.iter().enumerate().filter(|(i, _)| !pos.contains(&(*i as u32))).map(|(_, x)| *x).collect();
        let res = catch_unwind(AssertUnwindSafe(|| { let mut s = seq_from_parts(&parts); s.mask(pos.clone()).unwrap(); s.iter().collect::<Vec<_>>() }));
        match res { Ok(got) => rep_mask.check(got == exp, || format!("parts={:?} pos={:?} got={:?}", parts, pos, got)), Err(_) => rep_mask.check(false, || format!("PANIC parts={:?} pos={:?}", parts, pos)) }
        // slice
        let off = r.below(flat.len() as u64 + 1) as usize; let len = r.below((flat.len() - off) as u64 + 1) as usize;
        let res = catch_unwind(AssertUnwindSafe(|| { let s = seq_from_parts(&parts); s.slice(off, len).iter().collect::<Vec<_>>() }));
        match res { Ok(got) => rep_slice.check(got == flat[off..off + len].to_vec(), || format!("parts={:?} off={} len={} got={:?}", parts, off, len, got)), Err(_) => rep_slice.check(false, || format!("PANIC parts={:?} off={} len={}", parts, off, len)) }
        // select sorted offsets incl out of bounds and dups
        let mut selv: Vec<usize> = (0..r.below(6)).map(|_| r.below(flat.len() as u64 + 3) as usize).collect(); selv.sort();
        let exp: Vec<u64> = selv.iter().filter_map(|i| flat.get(*i).copied()).collect();
        let res = catch_unwind(AssertUnwindSafe(|| { let s = seq_from_parts(&parts); s.select(selv.clone().into_iter()).collect::<Vec<_>>() }));
        match res { Ok(got) => rep_sel.check(got == exp, || format!("parts={:?} sel={:?} got={:?}", parts, selv, got)), Err(_) => rep_sel.check(false, || format!("PANIC parts={:?} sel={:?}", parts, selv)) }
        // mask_to_offset_ranges with allow list / block list
        let chosen: Vec<u64> = flat.iter().copied().filter(|_| r.below(2) == 0).collect();
        let tm: RowIdTreeMap = chosen.iter().copied().collect();
        let (mask, is_allow) = if r.below(2) == 0 { (lance_core::utils::mask::RowIdMask::from_allowed(tm), true) } else { (lance_core::utils::mask::RowIdMask::from_block(tm), false) };
        let exp: Vec<u64> = flat.iter().enumerate().filter(|(_, x)| chosen.contains(x) == is_allow).map(|(i, _)| i as u64).collect();
        let res = catch_unwind(AssertUnwindSafe(|| { let s = seq_from_parts(&parts); s.mask_to_offset_ranges(&mask).into_iter().flatten().collect::<Vec<_>>() }));
        match res { Ok(got) => rep_m2o.check(got == exp, || format!("parts={:?} chosen={:?} allow={} got={:?} exp={:?}", parts, chosen, is_allow, got, exp)), Err(_) => rep_m2o.check(false, || format!("PANIC parts={:?} chosen={:?}", parts, chosen)) }
        // rechunk
        let mut sizes = vec![]; let mut left = flat.len() as u64; while left > 0 { let c = 1 + r.below(left); sizes.push(c); left -= c; }
        let res = catch_unwind(AssertUnwindSafe(|| { let seqs: Vec<RowIdSequence> = parts.iter().map(|p| RowIdSequence::from(p.as_slice())).collect(); rechunk_sequences(seqs, sizes.clone(), false).map(|v| v.iter().map(|s| s.iter().collect::<Vec<_>>()).collect::<Vec<_>>()) }));
        let mut exp = vec![]; let mut o = 0usize; for c in &sizes { exp.push(flat[o..o + *c as usize].to_vec()); o += *c as usize; }
        match res { Ok(Ok(got)) => rep_rechunk.check(got == exp, || format!("parts={:?} sizes={:?} got={:?}", parts, sizes, got)), Ok(Err(e)) => rep_rechunk.check(false, || format!("ERR {} parts={:?} sizes={:?}", e, parts, sizes)), Err(_) => rep_rechunk.check(false, || format!("PANIC parts={:?} sizes={:?}", parts, sizes)) }
        // to treemap
        let res = catch_unwind(AssertUnwindSafe(|| { let s = seq_from_parts(&parts); let t = RowIdTreeMap::from(&s); flat.iter().all(|x| t.contains(*x)) && t.len() == Some(flat.len() as u64) }));
        match res { Ok(ok) => rep_treemap.check(ok, || format!("parts={:?}", parts)), Err(_) => rep_treemap.check(false, || format!("PANIC parts={:?}", parts)) }
    }
    for rp in [&rep_iter, &rep_del, &rep_mask, &rep_slice, &rep_sel, &rep_m2o, &rep_rechunk, &rep_treemap] { rp.done(); }
    // segment-level: with_new_high, position, contains
    let mut rep_seg = Report::new("segment: position/contains/new_high");
    for _ in 0..20000 {
        let ids = gen_ids(r);
        let res = catch_unwind(AssertUnwindSafe(|| {
            let s = U64Segment::from_slice(&ids);
            let probe: Vec<u64> = ids.iter().flat_map(|x| [x.wrapping_sub(1), *x, x + 1]).collect();
            let okp = probe.iter().all(|p| s.position(*p) == ids.iter().position(|x| x == p) && s.contains(*p) == ids.contains(p));
            let sorted = ids.windows(2).all(|w| w[0] < w[1]);
            let oknh = if sorted { let hi = ids.iter().max().map(|m| m + 1 + (ids.len() as u64 % 3)).unwrap_or(7); let t = s.clone().with_new_high(hi).unwrap(); let mut e = ids.clone(); e.push(hi); t.iter().collect::<Vec<_>>() == e } else { true };
            okp && oknh
        }));
        match res { Ok(ok) => rep_seg.check(ok, || format!("ids={:?}", ids)), Err(_) => rep_seg.check(false, || format!("PANIC ids={:?}", ids)) }
    }
    rep_seg.done();
}

fn treemap(r: &mut Rng) {
    let mut rep = Report::new("treemap: set algebra");
    let mut rep_rng = Report::new("treemap: insert_range");
    let mut rep_ser = Report::new("treemap: serialize roundtrip");
    let uni: Vec<u64> = [0u64, 1, 2, (1 << 32) - 1, 1 << 32, (1 << 32) + 1, (2u64 << 32) + 5].to_vec();
    let gen = |r: &mut Rng| -> (RowIdTreeMap, BTreeSet<u64>, BTreeSet<u32>) {
        let mut t = RowIdTreeMap::new(); let mut s = BTreeSet::new(); let mut full = BTreeSet::new();
        for x in &uni { if r.below(2) == 0 { t.insert(*x); s.insert(*x); } }
        if r.below(4) == 0 { let f = r.below(3) as u32; t.insert_fragment(f); full.insert(f); }
        (t, s, full)
    };
    let member = |s: &BTreeSet<u64>, f: &BTreeSet<u32>, x: u64| s.contains(&x) || f.contains(&((x >> 32) as u32));
    for _ in 0..120 {
        let (a, sa, fa) = gen(r); let (b, sb, fb) = gen(r);
        let probe: Vec<u64> = uni.iter().copied().chain([7u64, (1u64 << 32) + 9, (2u64 << 32) + 1]).collect();
        let res = catch_unwind(AssertUnwindSafe(|| {
            let u = a.clone() | b.clone(); let i = a.clone() & b.clone(); let d = a.clone() - b.clone();
            probe.iter().all(|x| {
                let (ma, mb) = (member(&sa, &fa, *x), member(&sb, &fb, *x));
                u.contains(*x) == (ma || mb) && i.contains(*x) == (ma && mb) && d.contains(*x) == (ma && !mb)
            })
        }));
        match res { Ok(ok) => rep.check(ok, || format!("a={:?}/{:?} b={:?}/{:?}", sa, fa, sb, fb)), Err(_) => rep.check(false, || format!("PANIC a={:?}/{:?} b={:?}/{:?}", sa, fa, sb, fb)) }
        // serialization
        let res = catch_unwind(AssertUnwindSafe(|| { let mut buf = vec![]; a.serialize_into(&mut buf).unwrap(); let ok_size = buf.len() == a.serialized_size(); let back = RowIdTreeMap::deserialize_from(&buf[..]).unwrap(); ok_size && back == a }));
        match res { Ok(ok) => rep_ser.check(ok, || format!("a={:?}/{:?}", sa, fa)), Err(_) => rep_ser.check(false, || format!("PANIC ser a={:?}/{:?}", sa, fa)) }
        // insert_range near boundaries
        let lo = match r.below(4) { 0 => r.below(5), 1 => (1u64 << 32) - 3 + r.below(6), 2 => u64::MAX - r.below(4), _ => (3u64 << 32) - 2 + r.below(4) };
        let len = r.below(6); let hi = lo.saturating_add(len);
        let incl = r.below(2) == 0;
        let res = catch_unwind(AssertUnwindSafe(|| { let mut t = RowIdTreeMap::new(); let c = if incl { t.insert_range(lo..=hi) } else { t.insert_range(lo..hi) }; let exp: Vec<u64> = if incl { (lo..=hi).collect() } else { (lo..hi).collect() }; (c, t.len(), exp.iter().all(|x| t.contains(*x)), exp.len() as u64, t.contains(lo.wrapping_sub(1)) && lo > 0, if incl { hi < u64::MAX && t.contains(hi + 1) } else { t.contains(hi) }) }));
        match res { Ok((c, l, allin, n, below, above)) => rep_rng.check(c == n && l == Some(n) && allin && !below && !above, || format!("lo={} hi={} incl={} count={} len={:?} n={} below={} above={}", lo, hi, incl, c, l, n, below, above)), Err(_) => rep_rng.check(false, || format!("PANIC lo={} hi={} incl={}", lo, hi, incl)) }
    }
    rep.done(); rep_ser.done(); rep_rng.done();
}

fn naming() {
    let mut rep = Report::new("naming: parse(name v) = v");
    let base = object_store::path::Path::from("t");
    let mut vs: Vec<u64> = vec![0, 1, 9, 10, 99, 100, u64::MAX, u64::MAX - 1, (1 << 63) - 1, 1 << 63, (1 << 63) + 1, 9_999_999_999_999_999_999, 10_000_000_000_000_000_000];
    for k in 0..64 { vs.push(1u64 << k); vs.push((1u64 << k) - 1); }
    for v in vs {
        for scheme in [ManifestNamingScheme::V1, ManifestNamingScheme::V2] {
            let p = scheme.manifest_path(&base, v);
            let name = p.filename().unwrap().to_string();
            let detached = v >> 63 == 1;
            let det = ManifestNamingScheme::detect_scheme(&name);
            let parsed = det.and_then(|s| s.parse_version(&name));
            let ok = if detached { parsed.is_none() } else { parsed == Some(v) && det == Some(scheme) };
            rep.check(ok, || format!("v={} scheme={:?} name={} det={:?} parsed={:?}", v, scheme, name, det, parsed));
        }
    }
    // odd names
    for name in ["+5.manifest", "05.manifest", " 5.manifest", "5.manifest.tmp", ".tmp_5.manifest_uuid", "5.manifest-uuid", "d5.manifest-uuid", "data.manifest", "18446744073709551616.manifest", "00000000000000000000.manifest"] {
        let det = ManifestNamingScheme::detect_scheme(name);
        let parsed = det.and_then(|s| s.parse_version(name));
        println!("    name {:40} detect={:?} parsed={:?}", name, det, parsed);
    }
    rep.done();
}

fn field_paths(r: &mut Rng) {
    use lance_core::datatypes::{format_field_path, parse_field_path};
    let mut rep = Report::new("schema: parse(format path) = path");
    let alpha = ['a', 'b', '.', '`', ' ', 'é'];
    for _ in 0..50000 {
        let n = 1 + r.below(3) as usize;
        let segs: Vec<String> = (0..n).map(|_| { let l = 1 + r.below(4); (0..l).map(|_| alpha[r.below(alpha.len() as u64) as usize]).collect() }).collect();
        let refs: Vec<&str> = segs.iter().map(|s| s.as_str()).collect();
        let f = format_field_path(&refs);
        let p = parse_field_path(&f);
        rep.check(matches!(&p, Ok(v) if *v == segs), || format!("segs={:?} formatted={:?} parsed={:?}", segs, f, p.as_ref().map_err(|e| e.to_string())));
    }
    rep.done();
}

fn bitpack(r: &mut Rng) {
    use lance_bitpacking::BitPacking;
    let mut rep = Report::new("bitpacking: unpack(pack v) = v");
    macro_rules! go { ($t:ty, $bits:expr) => {
        for w in 0..=$bits {
            for _ in 0..3 {
                let mask: u128 = if w == 0 { 0 } else { (1u128 << w) - 1 };
                let input: Vec<$t> = (0..1024).map(|i| { let x = match r.below(4) { 0 => u64::MAX, 1 => 0, _ => r.next() }; ((x as u128) & mask) as $t + 0 * i as $t }).collect();
                let mut packed = vec![0 as $t; 1024 * w / $bits];
                let mut out = vec![0 as $t; 1024];
                unsafe { <$t as BitPacking>::unchecked_pack(w, &input, &mut packed); <$t as BitPacking>::unchecked_unpack(w, &packed, &mut out); }
                rep.check(out == input, || format!("T={} W={}", $bits, w));
            }
        }
    }}
    go!(u8, 8); go!(u16, 16); go!(u32, 32); go!(u64, 64);
    rep.done();
}

fn fsst_rt(r: &mut Rng) {
    let mut rep = Report::new("fsst: decompress(compress s) = s");
    for case in 0..60 {
        let n = if case % 3 == 0 { 50 } else { 3000 };
        let mut data: Vec<u8> = vec![]; let mut offs: Vec<i32> = vec![0];
        let vocab: Vec<Vec<u8>> = (0..8).map(|_| (0..1 + r.below(9)).map(|_| r.below(256) as u8).collect()).collect();
        for _ in 0..n {
            let kind = (case / 3) % 5;
            let l = match kind { 0 => r.below(4), 1 => r.below(40), 2 => 0, _ => r.below(25) };
            for _ in 0..l { match kind { 3 => data.extend_from_slice(&vocab[r.below(8) as usize]), 4 => data.push(255 - r.below(3) as u8), _ => data.push(r.below(256) as u8) } }
            offs.push(data.len() as i32);
        }
        let res = catch_unwind(AssertUnwindSafe(|| {
            let mut table = vec![0u8; fsst::fsst::FSST_SYMBOL_TABLE_SIZE];
            let mut out = vec![0u8; data.len() * 2 + 1024]; let mut out_offs = vec![0i32; offs.len()];
            match fsst::fsst::compress(&mut table, &data, &offs, &mut out, &mut out_offs) {
                Err(e) => Err(format!("compress error {e}")),
                Ok(()) => {
                    let mut dec = vec![0u8; out.len() * 8 + 1024]; let mut dec_offs = vec![0i32; out_offs.len()];
                    match fsst::fsst::decompress(&table, &out, &out_offs, &mut dec, &mut dec_offs) {
                        Err(e) => Err(format!("decompress error {e}")),
                        Ok(()) => { let end = *dec_offs.last().unwrap() as usize; Ok(dec_offs == offs && dec[..end] == data[..]) }
                    }
                }
            }
        }));
        match res { Ok(Ok(ok)) => rep.check(ok, || format!("case {case} len {}", data.len())), Ok(Err(e)) => { rep.cases += 1; if rep.fails.len() < 2 { println!("    fsst case {case} (len {}): {e} (errors are allowed by the statement)", data.len()); } } Err(_) => rep.check(false, || format!("PANIC case {case} len {}", data.len())) }
    }
    rep.done();
}

fn main() {
    std::panic::set_hook(Box::new(|_| {}));
    let mut r = Rng(42);
    let which: Vec<String> = std::env::args().skip(1).collect();
    let has = |n: &str| which.is_empty() || which.iter().any(|w| w == n);
    if has("rowids") { rowid_sequences(&mut r); }
    if has("treemap") { treemap(&mut r); }
    if has("naming") { naming(); }
    if has("paths") { field_paths(&mut r); }
    if has("bitpack") { bitpack(&mut r); }
    if has("fsst") { fsst_rt(&mut r); }
}
