(* Lemmas about Table/Model_Refs.v: the name grammar, get_cleanup_path, the tag map, shallow_clone,
   and the object-store model (isolation). *)
From LanceV Require Import Common.Base Table.Model_Refs.
Local Open Scope N_scope.

(* ------------------------------------------------------------------------------------------------ *)
(* strings *)

Lemma str_eqb_eq : forall a b : str, str_eqb a b = true <-> a = b.
Proof. apply list_eqb_eq. intros x y. apply N.eqb_eq. Qed.
Lemma str_eqb_refl : forall a, str_eqb a a = true.
Proof. intro a. apply str_eqb_eq. reflexivity. Qed.
Lemma str_eqb_neq : forall a b : str, str_eqb a b = false <-> a <> b.
Proof.
  intros a b. split.
  - intros H E. apply str_eqb_eq in E. congruence.
  - intro H. destruct (str_eqb a b) eqn:E; [apply str_eqb_eq in E; contradiction | reflexivity].
Qed.
Lemma str_eqb_sym : forall a b, str_eqb a b = str_eqb b a.
Proof.
  intros a b. destruct (str_eqb a b) eqn:E.
  - apply str_eqb_eq in E. subst. symmetry. apply str_eqb_refl.
  - symmetry. apply str_eqb_neq. apply str_eqb_neq in E. congruence.
Qed.

Lemma starts_with_spec : forall p s, starts_with p s = true <-> exists t, s = p ++ t.
Proof.
  induction p as [|a p IH]; intros s; cbn [starts_with].
  - split; [intros _; exists s; reflexivity | reflexivity].
  - destruct s as [|b s].
    + split; [discriminate | intros [t H]; discriminate].
    + rewrite andb_true_iff, N.eqb_eq, IH. split.
      * intros [E [t H]]. subst. exists t. reflexivity.
      * intros [t H]. inversion H; subst. split; [reflexivity | exists t; reflexivity].
Qed.

Lemma ends_with_spec : forall p s, ends_with p s = true <-> exists t, s = t ++ p.
Proof.
  intros p s. unfold ends_with. rewrite starts_with_spec. split.
  - intros [t H]. exists (rev t). apply (f_equal (@rev N)) in H. rewrite rev_involutive, rev_app_distr, rev_involutive in H. exact H.
  - intros [t H]. exists (rev t). subst. rewrite rev_app_distr. reflexivity.
Qed.

Lemma contains_spec : forall p s, contains p s = true <-> exists u w, s = u ++ p ++ w.
Proof.
  intros p s. induction s as [|c s IH]; cbn [contains].
  - rewrite orb_false_r, starts_with_spec. split.
    + intros [t H]. exists [], t. exact H.
    + intros [u [w H]]. destruct u as [|x u]; [exists w; exact H | discriminate].
  - rewrite orb_true_iff, starts_with_spec, IH. split.
    + intros [[t H] | [u [w H]]].
      * exists [], t. exact H.
      * exists (c :: u), w. rewrite H. reflexivity.
    + intros [u [w H]]. destruct u as [|x u].
      * left. exists w. exact H.
      * right. inversion H; subst. exists u, w. reflexivity.
Qed.

(* split / join *)
Lemma split_nonempty : forall sep s, split sep s <> [].
Proof.
  intros sep s. induction s as [|c t IH]; cbn [split]; [discriminate|].
  destruct (c =? sep); [discriminate|]. destruct (split sep t); discriminate.
Qed.

Lemma join_cons : forall sep x y r, join sep (x :: y :: r) = x ++ sep :: join sep (y :: r).
Proof. reflexivity. Qed.

Lemma join_split : forall sep s, join sep (split sep s) = s.
Proof.
  intros sep s. induction s as [|c t IH]; cbn [split]; [reflexivity|].
  destruct (c =? sep) eqn:E.
  - apply N.eqb_eq in E. subst c. pose proof (split_nonempty sep t) as NE.
    destruct (split sep t) as [|h r] eqn:S; [contradiction|].
    rewrite join_cons. cbn [app]. rewrite IH. reflexivity.
  - pose proof (split_nonempty sep t) as NE.
    destruct (split sep t) as [|h r] eqn:S; [contradiction|].
    destruct r as [|y r].
    + cbn [join] in *. rewrite IH. reflexivity.
    + rewrite join_cons in *. cbn [app]. rewrite IH. reflexivity.
Qed.

Lemma split_no_sep : forall sep s seg, In seg (split sep s) -> ~ In sep seg.
Proof.
  intros sep s. induction s as [|c t IH]; cbn [split]; intros seg H.
  - destruct H as [H | []]. subst. intros [].
  - destruct (c =? sep) eqn:E.
    + destruct H as [H | H]; [subst; intros [] | apply IH; exact H].
    + pose proof (split_nonempty sep t) as NE.
      destruct (split sep t) as [|h r] eqn:S; [contradiction|].
      destruct H as [H | H].
      * subst seg. intros [H | H]; [subst; rewrite N.eqb_refl in E; discriminate | exact (IH h (or_introl eq_refl) H)].
      * apply IH. right. exact H.
Qed.

(* the segments of a string without separator *)
Lemma split_none : forall sep s, ~ In sep s -> split sep s = [s].
Proof.
  intros sep s. induction s as [|c t IH]; intro H; cbn [split]; [reflexivity|].
  destruct (c =? sep) eqn:E.
  - apply N.eqb_eq in E. subst. exfalso. apply H. left. reflexivity.
  - rewrite IH; [reflexivity | intro K; apply H; right; exact K].
Qed.

Lemma split_app_sep : forall sep a b, ~ In sep a -> split sep (a ++ sep :: b) = a :: split sep b.
Proof.
  intros sep a. induction a as [|c a IH]; intros b H; cbn [app split].
  - rewrite N.eqb_refl. reflexivity.
  - destruct (c =? sep) eqn:E.
    + apply N.eqb_eq in E. subst. exfalso. apply H. left. reflexivity.
    + rewrite IH; [reflexivity | intro K; apply H; right; exact K].
Qed.

Lemma split_join : forall sep l, l <> [] -> (forall seg, In seg l -> ~ In sep seg) -> split sep (join sep l) = l.
Proof.
  intros sep l. induction l as [|x r IH]; intros NE H; [contradiction|].
  destruct r as [|y r].
  - cbn [join]. apply split_none. apply H. left. reflexivity.
  - rewrite join_cons, split_app_sep by (apply H; left; reflexivity).
    rewrite IH; [reflexivity | discriminate | intros seg K; apply H; right; exact K].
Qed.

(* every character of s is the separator or occurs in a segment, and conversely *)
Lemma in_join : forall sep l c, In c (join sep l) -> c = sep \/ exists seg, In seg l /\ In c seg.
Proof.
  intros sep l. induction l as [|x r IH]; intros c H; [destruct H|].
  destruct r as [|y r].
  - right. exists x. split; [left; reflexivity | exact H].
  - rewrite join_cons in H. apply in_app_or in H. destruct H as [H | [H | H]].
    + right. exists x. split; [left; reflexivity | exact H].
    + left. symmetry. exact H.
    + destruct (IH c H) as [E | [seg [I J]]]; [left; exact E | right; exists seg; split; [right; exact I | exact J]].
Qed.
Lemma in_seg_in_join : forall sep l seg c, In seg l -> In c seg -> In c (join sep l).
Proof.
  intros sep l. induction l as [|x r IH]; intros seg c H K; [destruct H|].
  destruct r as [|y r].
  - destruct H as [H | []]. subst. exact K.
  - rewrite join_cons. apply in_or_app. destruct H as [H | H].
    + subst. left. exact K.
    + right. right. apply (IH seg c H K).
Qed.

(* an empty segment shows in the string *)
Lemma empty_segment : forall sep l, In [] l ->
  join sep l = [] \/ (exists t, join sep l = sep :: t) \/ (exists t, join sep l = t ++ [sep]) \/
  (exists u w, join sep l = u ++ [sep; sep] ++ w).
Proof.
  intros sep l. induction l as [|x r IH]; intro H; [destruct H|].
  destruct r as [|y r].
  - destruct H as [H | []]. subst. left. reflexivity.
  - rewrite join_cons. destruct H as [H | H].
    + subst x. right. left. eexists. reflexivity.
    + destruct (IH H) as [E | [[t E] | [[t E] | [u [w E]]]]]; rewrite E.
      * right. right. left. exists x. reflexivity.
      * right. right. right. exists x, t. reflexivity.
      * right. right. left. exists (x ++ sep :: t). rewrite <- app_assoc. reflexivity.
      * right. right. right. exists (x ++ sep :: u), w. rewrite <- app_assoc. reflexivity.
Qed.

(* ------------------------------------------------------------------------------------------------ *)
(* the name grammar, written from docs/src/format/table/branch_tag.md *)

(* "Branch Name" rules 1-7 *)
Definition Grammar_branch (ext : N -> bool) (s : str) : Prop :=
  s <> [] /\                                                                  (* 1 cannot be empty *)
  ((forall t, s <> c_slash :: t) /\ (forall t, s <> t ++ [c_slash])) /\       (* 2 cannot start or end with / *)
  (forall u w, s <> u ++ [c_slash; c_slash] ++ w) /\                          (* 3 no consecutive // *)
  ((forall u w, s <> u ++ [c_dot; c_dot] ++ w) /\ ~ In c_bslash s) /\         (* 4 no .. and no \ *)
  (forall c, In c s -> c = c_slash \/ allowed ext c = true) /\                (* 5 segments: alphanumeric . - _ only *)
  (forall t, s <> t ++ s_lock) /\                                             (* 6 cannot end with .lock *)
  s <> s_main.                                                                (* 7 cannot be main *)

(* "Tag Name" rules 1-5 *)
Definition Grammar_tag (ext : N -> bool) (s : str) : Prop :=
  s <> [] /\
  (forall c, In c s -> allowed ext c = true) /\
  ((forall t, s <> c_dot :: t) /\ (forall t, s <> t ++ [c_dot])) /\
  (forall t, s <> t ++ s_lock) /\
  (forall u w, s <> u ++ [c_dot; c_dot] ++ w).

Lemma not_starts : forall p s, starts_with p s = false <-> forall t, s <> p ++ t.
Proof.
  intros p s. split.
  - intros H t E. assert (K : starts_with p s = true) by (apply starts_with_spec; exists t; exact E). congruence.
  - intro H. destruct (starts_with p s) eqn:E; [|reflexivity]. apply starts_with_spec in E. destruct E as [t E]. exfalso. exact (H t E).
Qed.
Lemma not_ends : forall p s, ends_with p s = false <-> forall t, s <> t ++ p.
Proof.
  intros p s. split.
  - intros H t E. assert (K : ends_with p s = true) by (apply ends_with_spec; exists t; exact E). congruence.
  - intro H. destruct (ends_with p s) eqn:E; [|reflexivity]. apply ends_with_spec in E. destruct E as [t E]. exfalso. exact (H t E).
Qed.
Lemma not_contains : forall p s, contains p s = false <-> forall u w, s <> u ++ p ++ w.
Proof.
  intros p s. split.
  - intros H u w E. assert (K : contains p s = true) by (apply contains_spec; exists u, w; exact E). congruence.
  - intro H. destruct (contains p s) eqn:E; [|reflexivity]. apply contains_spec in E. destruct E as [u [w E]]. exfalso. exact (H u w E).
Qed.
Lemma contains_single : forall c s, contains [c] s = false <-> ~ In c s.
Proof.
  intros c s. rewrite not_contains. split.
  - intros H K. apply in_split in K. destruct K as [u [w K]]. apply (H u w). exact K.
  - intros H u w E. apply H. rewrite E. apply in_or_app. right. left. reflexivity.
Qed.

Lemma seg_check_none : forall ext segs,
  seg_check ext segs = None <-> (~ In [] segs /\ forall seg c, In seg segs -> In c seg -> allowed ext c = true).
Proof.
  intros ext segs. induction segs as [|seg r IH]; cbn [seg_check].
  - split; [intros _; split; [intros [] | intros ? ? []] | reflexivity].
  - destruct seg as [|c0 seg0]; cbn [is_empty].
    + split; [discriminate | intros [H _]; exfalso; apply H; left; reflexivity].
    + destruct (forallb (allowed ext) (c0 :: seg0)) eqn:F; cbn [negb].
      * rewrite IH. rewrite forallb_forall in F. split.
        -- intros [H1 H2]. split.
           ++ intros [K | K]; [discriminate | exact (H1 K)].
           ++ intros seg c [K | K] J; [subst; apply F; exact J | exact (H2 seg c K J)].
        -- intros [H1 H2]. split.
           ++ intro K. apply H1. right. exact K.
           ++ intros seg c K J. apply (H2 seg c); [right; exact K | exact J].
      * split; [discriminate|]. intros [_ H2]. exfalso.
        assert (forallb (allowed ext) (c0 :: seg0) = true); [|congruence].
        apply forallb_forall. intros c J. apply (H2 (c0 :: seg0) c); [left; reflexivity | exact J].
Qed.

Lemma seg_check_codes : forall ext segs k, seg_check ext segs = Some k -> k = 5 \/ k = 6.
Proof.
  intros ext segs. induction segs as [|seg r IH]; cbn [seg_check]; intros k H; [discriminate|].
  destruct (is_empty seg); [inversion H; left; reflexivity|].
  destruct (negb (forallb (allowed ext) seg)); [inversion H; right; reflexivity | exact (IH k H)].
Qed.

Lemma allowed_not_slash : forall ext, allowed ext c_slash = false.
Proof. intro ext. reflexivity. Qed.

Theorem check_valid_branch_grammar : forall ext s, check_valid_branch ext s = None <-> Grammar_branch ext s.
Proof.
  intros ext s. unfold check_valid_branch, Grammar_branch. split.
  - intro H.
    destruct s as [|c0 s0] eqn:Es; [discriminate|]. cbn [is_empty] in H. rewrite <- Es in *.
    destruct (starts_with [c_slash] s) eqn:H2a; [discriminate|].
    destruct (ends_with [c_slash] s) eqn:H2b; [discriminate|]. cbn [orb] in H.
    destruct (contains [c_slash; c_slash] s) eqn:H3; [discriminate|].
    destruct (contains [c_dot; c_dot] s) eqn:H4a; [discriminate|].
    destruct (contains [c_bslash] s) eqn:H4b; [discriminate|]. cbn [orb] in H.
    destruct (seg_check ext (split c_slash s)) eqn:H5; [discriminate|].
    destruct (ends_with s_lock s) eqn:H6; [discriminate|].
    destruct (str_eqb s s_main) eqn:H7; [discriminate|].
    apply seg_check_none in H5. destruct H5 as [_ H5].
    repeat split.
    + rewrite Es. discriminate.
    + intros t E. apply (proj1 (not_starts _ _) H2a t). exact E.
    + apply not_ends. exact H2b.
    + apply not_contains. exact H3.
    + apply not_contains. exact H4a.
    + apply contains_single. exact H4b.
    + intros c K. rewrite <- (join_split c_slash s) in K. apply in_join in K.
      destruct K as [K | [seg [I J]]]; [left; exact K | right; exact (H5 seg c I J)].
    + apply not_ends. exact H6.
    + apply str_eqb_neq. exact H7.
  - intros [G1 [[G2a G2b] [G3 [[G4a G4b] [G5 [G6 G7]]]]]].
    destruct s as [|c0 s0] eqn:Es; [contradiction|]. cbn [is_empty]. rewrite <- Es in *.
    assert (H2a : starts_with [c_slash] s = false) by (apply not_starts; intros t E; exact (G2a t E)).
    assert (H2b : ends_with [c_slash] s = false) by (apply not_ends; exact G2b).
    rewrite H2a, H2b. cbn [orb].
    rewrite (proj2 (not_contains _ _) G3).
    rewrite (proj2 (not_contains _ _) G4a), (proj2 (contains_single _ _) G4b). cbn [orb].
    assert (H5 : seg_check ext (split c_slash s) = None).
    { apply seg_check_none. split.
      - intro K. apply (empty_segment c_slash) in K. rewrite join_split in K.
        destruct K as [K | [[t K] | [[t K] | [u [w K]]]]].
        + exact (G1 K).
        + exact (G2a t K).
        + exact (G2b t K).
        + exact (G3 u w K).
      - intros seg c I J. destruct (G5 c) as [K | K].
        + apply (in_seg_in_join c_slash _ seg c I) in J. rewrite join_split in J. exact J.
        + subst c. exfalso. exact (split_no_sep c_slash s seg I J).
        + exact K. }
    rewrite H5. rewrite (proj2 (not_ends _ _) G6). rewrite (proj2 (str_eqb_neq _ _) G7). reflexivity.
Qed.

Theorem check_valid_tag_grammar : forall ext s, check_valid_tag ext s = None <-> Grammar_tag ext s.
Proof.
  intros ext s. unfold check_valid_tag, Grammar_tag. split.
  - intro H.
    destruct s as [|c0 s0] eqn:Es; [discriminate|]. cbn [is_empty] in H. rewrite <- Es in *.
    destruct (forallb (allowed ext) s) eqn:H2; [|discriminate]. cbn [negb] in H.
    destruct (starts_with [c_dot] s) eqn:H3a; [discriminate|].
    destruct (ends_with [c_dot] s) eqn:H3b; [discriminate|].
    destruct (ends_with s_lock s) eqn:H4; [discriminate|].
    destruct (contains [c_dot; c_dot] s) eqn:H5; [discriminate|].
    repeat split.
    + rewrite Es. discriminate.
    + intros c K. rewrite forallb_forall in H2. exact (H2 c K).
    + intros t E. exact (proj1 (not_starts _ _) H3a t E).
    + apply not_ends. exact H3b.
    + apply not_ends. exact H4.
    + apply not_contains. exact H5.
  - intros [G1 [G2 [[G3a G3b] [G4 G5]]]].
    destruct s as [|c0 s0] eqn:Es; [contradiction|]. cbn [is_empty]. rewrite <- Es in *.
    assert (H2 : forallb (allowed ext) s = true) by (apply forallb_forall; exact G2).
    rewrite H2. cbn [negb].
    assert (H3a : starts_with [c_dot] s = false) by (apply not_starts; intros t E; exact (G3a t E)).
    rewrite H3a, (proj2 (not_ends _ _) G3b), (proj2 (not_ends _ _) G4), (proj2 (not_contains _ _) G5). reflexivity.
Qed.

(* ------------------------------------------------------------------------------------------------ *)
(* get_cleanup_path *)

Lemma seg_prefix_refl : forall a, seg_prefix a a = true.
Proof. induction a as [|x a IH]; cbn [seg_prefix]; [reflexivity | rewrite str_eqb_refl, IH; reflexivity]. Qed.

Lemma seg_prefix_spec : forall p q, seg_prefix p q = true <-> exists t, q = p ++ t.
Proof.
  induction p as [|a p IH]; intros q; cbn [seg_prefix].
  - split; [intros _; exists q; reflexivity | reflexivity].
  - destruct q as [|b q].
    + split; [discriminate | intros [t H]; discriminate].
    + rewrite andb_true_iff, str_eqb_eq, IH. split.
      * intros [E [t H]]. subst. exists t. reflexivity.
      * intros [t H]. inversion H; subst. split; [reflexivity | exists t; reflexivity].
Qed.

Lemma common_len_le_l : forall a b, (common_len a b <= length a)%nat.
Proof.
  induction a as [|x a IH]; intros b; cbn [common_len length]; [lia|].
  destruct b as [|y b]; [lia|]. destruct (str_eqb x y); [specialize (IH b); lia | lia].
Qed.

Lemma common_len_prefix : forall a b, seg_prefix (firstn (common_len a b) a) b = true.
Proof.
  induction a as [|x a IH]; intros b; cbn [common_len]; [reflexivity|].
  destruct b as [|y b]; [reflexivity|].
  destruct (str_eqb x y) eqn:E; [|reflexivity].
  cbn [firstn seg_prefix]. rewrite E, IH. reflexivity.
Qed.

Lemma common_len_max : forall a b n, (n <= length a)%nat -> seg_prefix (firstn n a) b = true -> (n <= common_len a b)%nat.
Proof.
  induction a as [|x a IH]; intros b n L H; cbn [length] in L.
  - lia.
  - destruct n as [|n]; [lia|]. cbn [firstn seg_prefix] in H.
    destruct b as [|y b]; [discriminate|]. apply andb_true_iff in H. destruct H as [E H].
    cbn [common_len]. rewrite E. specialize (IH b n ltac:(lia) H). lia.
Qed.

Definition lu_step (segs : list (list N)) (acc : nat) (cand : list N) : nat :=
  let c := common_len segs (split c_slash cand) in if Nat.ltb acc c then c else acc.

Lemma longest_used_fold : forall segs R, longest_used segs R = fold_left (lu_step segs) R O.
Proof. reflexivity. Qed.

Lemma lu_fold_ge : forall segs R acc,
  (acc <= fold_left (lu_step segs) R acc)%nat /\
  forall r, In r R -> (common_len segs (split c_slash r) <= fold_left (lu_step segs) R acc)%nat.
Proof.
  intros segs R. induction R as [|x R IH]; intros acc; cbn [fold_left].
  - split; [lia | intros r []].
  - destruct (IH (lu_step segs acc x)) as [A B]. unfold lu_step in A at 1.
    destruct (Nat.ltb acc (common_len segs (split c_slash x))) eqn:E.
    + apply Nat.ltb_lt in E. split; [lia|]. intros r [K | K].
      * subst. unfold lu_step in A at 1. exact A.
      * exact (B r K).
    + apply Nat.ltb_ge in E. split; [exact A|]. intros r [K | K]; [subst; lia | exact (B r K)].
Qed.

Lemma lu_fold_attained : forall segs R acc,
  fold_left (lu_step segs) R acc = acc \/
  exists r, In r R /\ fold_left (lu_step segs) R acc = common_len segs (split c_slash r).
Proof.
  intros segs R. induction R as [|x R IH]; intros acc; cbn [fold_left]; [left; reflexivity|].
  destruct (IH (lu_step segs acc x)) as [A | [r [I A]]].
  - rewrite A. unfold lu_step. destruct (Nat.ltb acc (common_len segs (split c_slash x))).
    + right. exists x. split; [left; reflexivity | reflexivity].
    + left. reflexivity.
  - right. exists r. split; [right; exact I | exact A].
Qed.

Lemma longest_used_le : forall segs R, (longest_used segs R <= length segs)%nat.
Proof.
  intros segs R. rewrite longest_used_fold. destruct (lu_fold_attained segs R O) as [A | [r [_ A]]]; rewrite A; [lia | apply common_len_le_l].
Qed.

(* what cleanup_segs returns, for every input *)
Lemma cleanup_segs_spec : forall segs R, segs <> [] ->
  match cleanup_segs segs R with
  | Panic | Err => False
  | Ok None => exists r, In r R /\ seg_prefix segs (split c_slash r) = true
  | Ok (Some rel) =>
    exists k, (k < length segs)%nat /\ rel = firstn (S k) segs /\
              (forall r, In r R -> seg_prefix rel (split c_slash r) = false) /\
              (forall r, In r R -> seg_prefix segs (split c_slash r) = false) /\
              (k = O \/ exists r, In r R /\ seg_prefix (firstn k segs) (split c_slash r) = true)
  end.
Proof.
  intros segs R NE. unfold cleanup_segs.
  pose proof (longest_used_le segs R) as LE.
  set (k := longest_used segs R) in *.
  destruct (Nat.eqb k (length segs)) eqn:E1.
  - apply Nat.eqb_eq in E1. unfold k in E1. rewrite longest_used_fold in E1.
    destruct (lu_fold_attained segs R O) as [A | [r [I A]]].
    + rewrite A in E1. destruct segs; [contradiction | discriminate].
    + exists r. split; [exact I|]. rewrite A in E1.
      pose proof (common_len_prefix segs (split c_slash r)) as P. rewrite E1, firstn_all in P. exact P.
  - apply Nat.eqb_neq in E1.
    destruct (Nat.ltb (length segs) (S k)) eqn:E2; [apply Nat.ltb_lt in E2; lia|].
    exists k. split; [lia|]. split; [reflexivity|].
    assert (B : forall r, In r R -> (common_len segs (split c_slash r) <= k)%nat).
    { intros r I. unfold k. rewrite longest_used_fold. apply (proj2 (lu_fold_ge segs R O)). exact I. }
    split; [|split].
    + intros r I. destruct (seg_prefix (firstn (S k) segs) (split c_slash r)) eqn:P; [|reflexivity].
      apply common_len_max in P; [|lia]. specialize (B r I). lia.
    + intros r I. destruct (seg_prefix segs (split c_slash r)) eqn:P; [|reflexivity].
      rewrite <- (firstn_all segs) in P. apply common_len_max in P; [|lia]. specialize (B r I). lia.
    + unfold k. rewrite longest_used_fold. destruct (lu_fold_attained segs R O) as [A | [r [I A]]].
      * left. exact A.
      * right. exists r. split; [exact I|]. rewrite A. apply common_len_prefix.
Qed.

Lemma cleanup_segs_none_iff : forall segs R, segs <> [] ->
  (cleanup_segs segs R = Ok None <-> exists r, In r R /\ seg_prefix segs (split c_slash r) = true).
Proof.
  intros segs R NE. pose proof (cleanup_segs_spec segs R NE) as S. split.
  - intro E. rewrite E in S. exact S.
  - intros [r [I P]]. destruct (cleanup_segs segs R) as [[rel|]| |]; try contradiction; [|reflexivity].
    destruct S as [k [_ [_ [_ [Q _]]]]]. rewrite (Q r I) in P. discriminate.
Qed.

(* ---- the string level: join_str / Path::parse on well-formed segments ---- *)
Definition seg_ok (seg : list N) : Prop := seg <> [] /\ ~ In c_slash seg.

Lemma join_last : forall sep pre z, exists pfx, join sep (pre ++ [z]) = pfx ++ z.
Proof.
  intros sep pre z. induction pre as [|x pre IH]; [exists []; reflexivity|].
  destruct IH as [pfx E]. destruct pre as [|y pre].
  - exists (x ++ [sep]). cbn [app join]. rewrite <- app_assoc. reflexivity.
  - exists (x ++ sep :: pfx). change ((x :: y :: pre) ++ [z]) with (x :: (y :: pre) ++ [z]).
    cbn [app] in *. rewrite join_cons. rewrite E. rewrite <- app_assoc. reflexivity.
Qed.

Lemma join_snoc : forall sep pre z, pre <> [] -> join sep (pre ++ [z]) = join sep pre ++ sep :: z.
Proof.
  intros sep pre z. induction pre as [|x pre IH]; intro NE; [contradiction|].
  destruct pre as [|y pre]; [reflexivity|].
  change ((x :: y :: pre) ++ [z]) with (x :: y :: (pre ++ [z])). rewrite !join_cons.
  change (y :: pre ++ [z]) with ((y :: pre) ++ [z]). rewrite IH by discriminate.
  rewrite <- app_assoc. reflexivity.
Qed.

Lemma join_not_ends_sep : forall sep l, l <> [] -> (forall seg, In seg l -> seg <> [] /\ ~ In sep seg) ->
  ends_with [sep] (join sep l) = false.
Proof.
  intros sep l NE H. apply not_ends. intros t E.
  destruct (exists_last NE) as [pre [z L]]. subst l.
  destruct (join_last sep pre z) as [pfx J]. rewrite J in E.
  destruct (H z) as [Z1 Z2]; [apply in_or_app; right; left; reflexivity|].
  destruct (exists_last Z1) as [z' [c Z]]. subst z.
  rewrite app_assoc in E. apply app_inj_tail in E. destruct E as [_ E]. subst c.
  apply Z2. apply in_or_app. right. left. reflexivity.
Qed.

Lemma trim_start_id : forall c s, ~ In c s -> trim_start c s = s.
Proof.
  intros c s H. destruct s as [|x s]; [reflexivity|]. cbn [trim_start].
  destruct (x =? c) eqn:E; [|reflexivity]. apply N.eqb_eq in E. subst. exfalso. apply H. left. reflexivity.
Qed.

Lemma fold_join_str : forall l pre, pre <> [] ->
  (forall seg, In seg pre -> seg_ok seg) -> (forall seg, In seg l -> seg_ok seg) ->
  fold_left join_str l (join c_slash pre) = join c_slash (pre ++ l).
Proof.
  induction l as [|x l IH]; intros pre NE Hp Hl; cbn [fold_left]; [rewrite app_nil_r; reflexivity|].
  assert (J : join_str (join c_slash pre) x = join c_slash (pre ++ [x])).
  { unfold join_str. rewrite (join_not_ends_sep c_slash pre NE Hp).
    rewrite trim_start_id by (apply (Hl x); left; reflexivity). rewrite join_snoc by exact NE. reflexivity. }
  rewrite J. rewrite IH.
  - rewrite <- app_assoc. reflexivity.
  - destruct pre; discriminate.
  - intros seg K. apply in_app_or in K. destruct K as [K | [K | []]]; [exact (Hp seg K) | subst; apply Hl; left; reflexivity].
  - intros seg K. apply Hl. right. exact K.
Qed.

Lemma path_parse_join : forall l, l <> [] -> (forall seg, In seg l -> seg_ok seg /\ part_ok seg = true) ->
  starts_with [c_slash] (join c_slash l) = false ->
  path_parse (join c_slash l) = Ok (join c_slash l).
Proof.
  intros l NE H S. unfold path_parse, strip_prefix. rewrite S.
  assert (NEj : join c_slash l <> []).
  { destruct l as [|x l]; [contradiction|]. destruct (H x (or_introl eq_refl)) as [[X _] _].
    destruct l; [exact X|]. rewrite join_cons. destruct x; [contradiction | discriminate]. }
  destruct (join c_slash l) as [|j0 j] eqn:J; [contradiction|]. cbn [is_empty]. rewrite <- J in *.
  unfold strip_suffix. rewrite (join_not_ends_sep c_slash l NE) by (intros seg K; exact (proj1 (H seg K))).
  rewrite split_join; [|exact NE | intros seg K; exact (proj2 (proj1 (H seg K)))].
  assert (F : forallb (fun seg => negb (is_empty seg) && part_ok seg) l = true).
  { apply forallb_forall. intros seg K. destruct (H seg K) as [[X _] P]. rewrite P. destruct seg; [contradiction | reflexivity]. }
  rewrite F. reflexivity.
Qed.

Lemma seg_ok_root : seg_ok s_root /\ part_ok s_root = true.
Proof. split; [split; [discriminate | cbv; intuition discriminate] | reflexivity]. Qed.
Lemma seg_ok_tree : seg_ok s_tree /\ part_ok s_tree = true.
Proof. split; [split; [discriminate | cbv; intuition discriminate] | reflexivity]. Qed.

(* find_branch from the hook's base location, for a relative directory given as well-formed segments *)
Lemma find_branch_hook : forall rel, rel <> [] -> (forall seg, In seg rel -> seg_ok seg /\ part_ok seg = true) ->
  exists l, find_branch hook_base (Some (join c_slash rel)) = Ok l /\
            bl_path l = join c_slash (s_root :: s_tree :: rel) /\ bl_branch l = Some (join c_slash rel).
Proof.
  intros rel NE H. unfold find_branch. cbn [hook_base bl_branch option_eqb find_main bl_path bl_uri].
  assert (NEj : is_empty (join c_slash rel) = false).
  { destruct rel as [|x rel]; [contradiction|]. destruct (H x (or_introl eq_refl)) as [[X _] _].
    destruct rel; [destruct x; [contradiction | reflexivity]|]. rewrite join_cons. destruct x; [contradiction | reflexivity]. }
  rewrite NEj.
  rewrite split_join; [|exact NE | intros seg K; exact (proj2 (proj1 (H seg K)))].
  change (join_str s_root s_tree) with (join c_slash [s_root; s_tree]).
  rewrite fold_join_str.
  - cbn [app]. rewrite path_parse_join.
    + eexists. split; [reflexivity|]. split; reflexivity.
    + discriminate.
    + intros seg [K | [K | K]]; [subst; exact seg_ok_root | subst; exact seg_ok_tree | exact (H seg K)].
    + reflexivity.
  - discriminate.
  - intros seg [K | [K | []]]; subst; [exact (proj1 seg_ok_root) | exact (proj1 seg_ok_tree)].
  - intros seg K. exact (proj1 (H seg K)).
Qed.

Lemma seg_infix : forall sep l seg, In seg l -> exists u w, join sep l = u ++ seg ++ w.
Proof.
  intros sep l. induction l as [|x r IH]; intros seg H; [destruct H|].
  destruct r as [|y r].
  - destruct H as [H | []]. subst. exists [], []. rewrite app_nil_r. reflexivity.
  - rewrite join_cons. destruct H as [H | H].
    + subst. exists [], (sep :: join sep (y :: r)). reflexivity.
    + destruct (IH seg H) as [u [w E]]. rewrite E. exists (x ++ sep :: u), w. rewrite <- app_assoc. reflexivity.
Qed.

Lemma allowed_part_char : forall ext c, allowed ext c = true -> negb (is_ascii_control c || (c =? c_slash)) = true.
Proof.
  intros ext c H. unfold allowed, is_alnum, ascii_alnum, c_dot, c_dash, c_us in H. unfold is_ascii_control, c_slash.
  destruct (c <? 128) eqn:E.
  - lia.
  - apply N.ltb_ge in E. assert (c <? 32 = false) by lia. assert (c =? 127 = false) by lia. assert (c =? 47 = false) by lia.
    rewrite H0, H1, H2. reflexivity.
Qed.

Definition dot_seg : list N := [c_dot].

(* the segments of a valid branch name *)
Lemma valid_branch_segs : forall ext b, valid_branch ext b = true ->
  forall seg, In seg (split c_slash b) -> seg_ok seg /\ (seg <> dot_seg -> part_ok seg = true).
Proof.
  intros ext b V seg I. unfold valid_branch in V.
  destruct (check_valid_branch ext b) eqn:C; [discriminate|]. apply check_valid_branch_grammar in C.
  destruct C as [G1 [[G2a G2b] [G3 [[G4a G4b] [G5 [G6 G7]]]]]].
  assert (NEs : seg <> []).
  { intro E. subst seg. apply (empty_segment c_slash) in I. rewrite join_split in I.
    destruct I as [K | [[t K] | [[t K] | [u [w K]]]]]; [exact (G1 K) | exact (G2a t K) | exact (G2b t K) | exact (G3 u w K)]. }
  split; [split; [exact NEs | exact (split_no_sep c_slash b seg I)]|].
  intro ND. unfold part_ok.
  assert (A : forall c, In c seg -> allowed ext c = true).
  { intros c J. destruct (G5 c) as [K | K].
    - apply (in_seg_in_join c_slash _ seg c I) in J. rewrite join_split in J. exact J.
    - subst c. exfalso. exact (split_no_sep c_slash b seg I J).
    - exact K. }
  rewrite (proj2 (str_eqb_neq seg [c_dot]) ND). cbn [negb andb].
  assert (N2 : str_eqb seg [c_dot; c_dot] = false).
  { apply str_eqb_neq. intro E. subst seg. destruct (seg_infix c_slash _ _ I) as [u [w K]]. rewrite join_split in K. exact (G4a u w K). }
  rewrite N2. cbn [negb andb]. apply forallb_forall. intros c J. apply (allowed_part_char ext). exact (A c J).
Qed.

Lemma firstn_In : forall {A} n (l : list A) x, In x (firstn n l) -> In x l.
Proof.
  intros A n. induction n as [|n IH]; intros l x H; [destruct H|]. destruct l as [|y l]; [destruct H|].
  cbn [firstn] in H. destruct H as [H | H]; [left; exact H | right; exact (IH l x H)].
Qed.

Lemma seg_prefix_app_r : forall a b c, seg_prefix a (b ++ c) = true ->
  seg_prefix a b = true \/ exists a', a = b ++ a' /\ a' <> [] /\ seg_prefix a' c = true.
Proof.
  induction a as [|x a IH]; intros b c H; [left; reflexivity|].
  destruct b as [|y b].
  - right. exists (x :: a). split; [reflexivity | split; [discriminate | exact H]].
  - cbn [app seg_prefix] in *. apply andb_true_iff in H. destruct H as [E H]. rewrite E. cbn [andb].
    destruct (IH b c H) as [K | [a' [K1 [K2 K3]]]]; [left; exact K|].
    right. exists a'. apply str_eqb_eq in E. subst. split; [reflexivity | split; assumption].
Qed.

(* the clean-up directory Branches::delete removes, for a valid branch name, against ANY remaining names *)
Theorem get_cleanup_path_safe : forall ext b R, valid_branch ext b = true ->
  let segs := split c_slash b in
  match get_cleanup_path hook_base b R with
  | Panic => False
  | Err => In dot_seg segs
  | Ok None => exists r, In r R /\ seg_prefix segs (split c_slash r) = true
  | Ok (Some d) =>
    exists k, (k < length segs)%nat /\
      split c_slash d = s_root :: s_tree :: firstn (S k) segs /\
      d = join c_slash (s_root :: s_tree :: firstn (S k) segs) /\
      (* no remaining branch lives at or under b's directory *)
      (forall r, In r R -> seg_prefix segs (split c_slash r) = false) /\
      (* the removed directory holds no remaining branch's root *)
      (forall r, In r R -> seg_prefix (split c_slash d) (s_root :: s_tree :: split c_slash r) = false) /\
      (* ... and nothing of a remaining branch's own storage, unless b has a segment named like a dataset directory *)
      (has_reserved_segment b = false ->
       forall r p, In r R -> owns (s_root :: s_tree :: split c_slash r) p = true -> seg_prefix (split c_slash d) p = false) /\
      (* it is the largest such directory: its parent is tree/ itself or is shared with a remaining branch *)
      (k = O \/ exists r, In r R /\ seg_prefix (firstn k segs) (split c_slash r) = true)
  end.
Proof.
  intros ext b R V segs. unfold get_cleanup_path. fold segs.
  pose proof (cleanup_segs_spec segs R (split_nonempty c_slash b)) as S.
  destruct (cleanup_segs segs R) as [[rel|]| |]; try contradiction; [|exact S].
  destruct S as [k [Lk [Erel [P1 [P2 P3]]]]].
  assert (NErel : rel <> []).
  { subst rel. destruct segs; [cbn [length] in Lk; lia | discriminate]. }
  assert (Hok : forall seg, In seg rel -> seg_ok seg /\ (seg <> dot_seg -> part_ok seg = true)).
  { intros seg K. apply (valid_branch_segs ext b V). subst rel. exact (firstn_In _ _ _ K). }
  destruct (existsb (str_eqb dot_seg) rel) eqn:D.
  - (* a "." segment: Path::parse fails *)
    apply existsb_exists in D. destruct D as [seg [I E]]. apply str_eqb_eq in E. subst seg.
    assert (Iseg : In dot_seg segs) by (subst rel; exact (firstn_In _ _ _ I)).
    destruct (find_branch hook_base (Some (join c_slash rel))) as [l| |] eqn:F; [|exact Iseg|].
    + exfalso. revert F. unfold find_branch. cbn [hook_base bl_branch option_eqb find_main bl_path bl_uri].
      destruct (is_empty (join c_slash rel)) eqn:Ej.
      { (* an empty joined name would need an empty segment *)
        destruct rel as [|x rel']; [contradiction|].
        destruct (proj1 (Hok x (or_introl eq_refl))) as [X _]. destruct rel'; [destruct x; [contradiction | discriminate]|]. rewrite join_cons in Ej. destruct x; [contradiction | discriminate]. }
      rewrite split_join; [|exact NErel|].
      2:{ intros seg K. exact (proj2 (proj1 (Hok seg K))). }
      change (join_str s_root s_tree) with (join c_slash [s_root; s_tree]).
      rewrite fold_join_str; [|discriminate| |].
      2:{ intros seg [K | [K | []]]; subst; [exact (proj1 seg_ok_root) | exact (proj1 seg_ok_tree)]. }
      2:{ intros seg K. exact (proj1 (Hok seg K)). }
      cbn [app]. unfold path_parse, strip_prefix.
      change (starts_with [c_slash] (join c_slash (s_root :: s_tree :: rel))) with false. cbv iota.
      destruct (join c_slash (s_root :: s_tree :: rel)) as [|j0 j] eqn:J; [discriminate|]. cbn [is_empty]. rewrite <- J.
      unfold strip_suffix. rewrite join_not_ends_sep; [|discriminate|].
      2:{ intros seg [K | [K | K]]; [subst; exact (proj1 seg_ok_root) | subst; exact (proj1 seg_ok_tree) | exact (proj1 (Hok seg K))]. }
      rewrite split_join; [|discriminate|].
      2:{ intros seg [K | [K | K]]; [subst; exact (proj2 (proj1 seg_ok_root)) | subst; exact (proj2 (proj1 seg_ok_tree)) | exact (proj2 (proj1 (Hok seg K)))]. }
      assert (F : forallb (fun seg => negb (is_empty seg) && part_ok seg) (s_root :: s_tree :: rel) = false).
      { cbn [forallb]. change (negb (is_empty s_root) && part_ok s_root) with true. change (negb (is_empty s_tree) && part_ok s_tree) with true.
        cbn [andb]. destruct (forallb (fun seg => negb (is_empty seg) && part_ok seg) rel) eqn:FF; [|reflexivity].
        rewrite forallb_forall in FF. specialize (FF dot_seg I). discriminate. }
      rewrite F. discriminate.
    + (* find_branch never panics *)
      revert F. unfold find_branch. cbn [hook_base bl_branch option_eqb find_main bl_path bl_uri].
      destruct (is_empty (join c_slash rel)); [discriminate|]. destruct (path_parse _); discriminate.
  - (* all segments fine *)
    assert (Hrel : forall seg, In seg rel -> seg_ok seg /\ part_ok seg = true).
    { intros seg K. destruct (Hok seg K) as [A B]. split; [exact A|]. apply B. intro E. subst seg.
      assert (existsb (str_eqb dot_seg) rel = true); [|congruence]. apply existsb_exists. exists dot_seg. split; [exact K | apply str_eqb_refl]. }
    destruct (find_branch_hook rel NErel Hrel) as [l [F [Pl _]]]. rewrite F. rewrite Pl.
    assert (Sd : split c_slash (join c_slash (s_root :: s_tree :: rel)) = s_root :: s_tree :: rel).
    { apply split_join; [discriminate|]. intros seg [K | [K | K]]; [subst; exact (proj2 (proj1 seg_ok_root)) | subst; exact (proj2 (proj1 seg_ok_tree)) | exact (proj2 (proj1 (Hrel seg K)))]. }
    exists k. split; [exact Lk|]. rewrite Sd. subst rel. split; [reflexivity|]. split; [reflexivity|]. split; [exact P2|]. split; [|split].
    + intros r I. cbn [seg_prefix]. rewrite !str_eqb_refl. cbn [andb]. exact (P1 r I).
    + intros NR r p I O. unfold owns in O. apply andb_true_iff in O. destruct O as [O1 O2].
      apply seg_prefix_spec in O1. destruct O1 as [t O1]. subst p.
      rewrite skipn_app, skipn_all, Nat.sub_diag in O2. cbn [app skipn] in O2.
      destruct t as [|d t]; [discriminate|]. destruct t as [|e t]; [discriminate|].
      destruct (seg_prefix (s_root :: s_tree :: firstn (S k) segs) ((s_root :: s_tree :: split c_slash r) ++ d :: e :: t)) eqn:Q; [|reflexivity].
      exfalso. cbn [app seg_prefix] in Q. rewrite !str_eqb_refl in Q. cbn [andb] in Q.
      apply seg_prefix_app_r in Q. destruct Q as [Q | [a' [Q1 [Q2 Q3]]]].
      * rewrite (P1 r I) in Q. discriminate.
      * destruct a' as [|a0 a']; [contradiction|]. cbn [seg_prefix] in Q3. apply andb_true_iff in Q3. destruct Q3 as [Q3 _].
        apply str_eqb_eq in Q3. subst a0.
        assert (Id : In d segs). { apply (firstn_In (S k)). rewrite Q1. apply in_or_app. right. left. reflexivity. }
        unfold has_reserved_segment in NR. fold segs in NR.
        assert (existsb is_reserved segs = true); [|congruence]. apply existsb_exists. exists d. split; [exact Id | exact O2].
    + exact P3.
Qed.

(* ------------------------------------------------------------------------------------------------ *)
(* the tag map is a finite map *)

Lemma rm_get_remove_same : forall (m : list (list N * (option (list N) * N))) k, rm_get (rm_remove m k) k = None.
Proof.
  intros m k. induction m as [|[k' v] m IH]; cbn [rm_remove rm_get]; [reflexivity|].
  destruct (str_eqb k k') eqn:E; [exact IH|]. cbn [rm_get]. rewrite E. exact IH.
Qed.
Lemma rm_get_remove_other : forall (m : list (list N * (option (list N) * N))) k k', k' <> k -> rm_get (rm_remove m k) k' = rm_get m k'.
Proof.
  intros m k k' NE. induction m as [|[k0 v] m IH]; cbn [rm_remove rm_get]; [reflexivity|].
  destruct (str_eqb k k0) eqn:E.
  - apply str_eqb_eq in E. subst k0. rewrite (proj2 (str_eqb_neq k' k) NE). exact IH.
  - cbn [rm_get]. destruct (str_eqb k' k0); [reflexivity | exact IH].
Qed.
Lemma rm_get_set_same : forall (m : list (list N * (option (list N) * N))) k v, rm_get (rm_set m k v) k = Some v.
Proof. intros. unfold rm_set. cbn [rm_get]. rewrite str_eqb_refl. reflexivity. Qed.
Lemma rm_get_set_other : forall (m : list (list N * (option (list N) * N))) k v k', k' <> k -> rm_get (rm_set m k v) k' = rm_get m k'.
Proof. intros. unfold rm_set. cbn [rm_get]. rewrite (proj2 (str_eqb_neq k' k) H). apply rm_get_remove_other. exact H. Qed.

Lemma rm_remove_keys_subset : forall (m : list (list N * (option (list N) * N))) k x, In x (rm_keys (rm_remove m k)) -> In x (rm_keys m) /\ x <> k.
Proof.
  intros m k x. induction m as [|[k0 v] m IH]; cbn [rm_remove rm_keys map]; intro H; [destruct H|].
  destruct (str_eqb k k0) eqn:E.
  - destruct (IH H) as [A B]. split; [right; exact A | exact B].
  - cbn [map fst] in H. destruct H as [H | H].
    + subst x. split; [left; reflexivity|]. apply str_eqb_neq in E. congruence.
    + destruct (IH H) as [A B]. split; [right; exact A | exact B].
Qed.
Lemma rm_remove_nodup : forall (m : list (list N * (option (list N) * N))) k, NoDup (rm_keys m) -> NoDup (rm_keys (rm_remove m k)).
Proof.
  intros m k. induction m as [|[k0 v] m IH]; cbn [rm_remove rm_keys map]; intro H; [constructor|].
  inversion H as [|? ? N1 N2]; subst. destruct (str_eqb k k0); [exact (IH N2)|].
  cbn [map fst]. constructor; [|exact (IH N2)]. intro K. apply rm_remove_keys_subset in K. exact (N1 (proj1 K)).
Qed.
Lemma rm_set_nodup : forall (m : list (list N * (option (list N) * N))) k v, NoDup (rm_keys m) -> NoDup (rm_keys (rm_set m k v)).
Proof.
  intros m k v H. unfold rm_set. cbn [rm_keys map fst]. constructor; [|apply rm_remove_nodup; exact H].
  intro K. apply rm_remove_keys_subset in K. exact (proj2 K eq_refl).
Qed.
Lemma rm_get_in : forall (m : list (list N * (option (list N) * N))) k v, rm_get m k = Some v -> In (k, v) m.
Proof.
  intros m k v. induction m as [|[k0 v0] m IH]; cbn [rm_get]; [discriminate|].
  destruct (str_eqb k k0) eqn:E; [|intro H; right; exact (IH H)].
  intro H. inversion H; subst. apply str_eqb_eq in E. subst. left. reflexivity.
Qed.
Lemma rm_in_get : forall (m : list (list N * (option (list N) * N))) k v, NoDup (rm_keys m) -> In (k, v) m -> rm_get m k = Some v.
Proof.
  intros m k v. induction m as [|[k0 v0] m IH]; intros ND H; [destruct H|].
  cbn [rm_keys map fst] in ND. inversion ND as [|? ? N1 N2]; subst. cbn [rm_get]. destruct H as [H | H].
  - inversion H; subst. rewrite str_eqb_refl. reflexivity.
  - destruct (str_eqb k k0) eqn:E; [|exact (IH N2 H)].
    apply str_eqb_eq in E. subst k0. exfalso. apply N1. change (In k (map fst m)). apply in_map_iff. exists (k, v). split; [reflexivity | exact H].
Qed.

(* when a call succeeds *)
Definition rop_ok (st : refs_state) (op : rop) : bool :=
  match op with
  | TCreate t _ _ vex => valid_tag no_ext t && opt_none (rm_get (rs_tags st) t) && vex
  | TUpdate t _ _ vex => valid_tag no_ext t && negb (opt_none (rm_get (rs_tags st) t)) && vex
  | TDelete t => valid_tag no_ext t && negb (opt_none (rm_get (rs_tags st) t))
  | _ => true
  end.

(* one call: exactly the named tag changes, and only when the call succeeds *)
Lemma rstep_tags : forall st op t',
  rm_get (rs_tags (snd (rstep st op))) t' =
  match op with
  | TCreate t br v _ | TUpdate t br v _ => if rop_ok st op && str_eqb t' t then Some (br, v) else rm_get (rs_tags st) t'
  | TDelete t => if rop_ok st op && str_eqb t' t then None else rm_get (rs_tags st) t'
  | BCreate _ _ _ _ | BDelete _ _ => rm_get (rs_tags st) t'
  end.
Proof.
  intros st op t'. destruct op as [t br v vex | t br v vex | t | n src v vex | n force]; cbn [rstep rop_ok].
  - destruct (valid_tag no_ext t); cbn [negb andb snd]; [|reflexivity].
    destruct (opt_none (rm_get (rs_tags st) t)); cbn [negb andb snd]; [|reflexivity].
    destruct vex; cbn [negb andb snd rs_tags]; [|reflexivity].
    destruct (str_eqb t' t) eqn:E.
    + apply str_eqb_eq in E. subst. apply rm_get_set_same.
    + apply rm_get_set_other. apply str_eqb_neq. exact E.
  - destruct (valid_tag no_ext t); cbn [negb andb snd]; [|reflexivity].
    destruct (opt_none (rm_get (rs_tags st) t)); cbn [negb andb snd]; [reflexivity|].
    destruct vex; cbn [negb andb snd rs_tags]; [|reflexivity].
    destruct (str_eqb t' t) eqn:E.
    + apply str_eqb_eq in E. subst. apply rm_get_set_same.
    + apply rm_get_set_other. apply str_eqb_neq. exact E.
  - destruct (valid_tag no_ext t); cbn [negb andb snd]; [|reflexivity].
    destruct (opt_none (rm_get (rs_tags st) t)); cbn [negb andb snd rs_tags]; [reflexivity|].
    destruct (str_eqb t' t) eqn:E.
    + apply str_eqb_eq in E. subst. apply rm_get_remove_same.
    + apply rm_get_remove_other. apply str_eqb_neq. exact E.
  - destruct (negb (valid_branch no_ext n)); [reflexivity|].
    destruct (existsb (str_eqb n) (rs_dirs st)); [reflexivity|].
    destruct (negb vex); [reflexivity|].
    destruct (negb (opt_none (rm_get (rs_branches st) n))); reflexivity.
  - destruct (negb (valid_branch no_ext n)); [reflexivity|].
    destruct (opt_none (rm_get (rs_branches st) n) && negb force); [reflexivity|].
    destruct (cleanup_segs (split c_slash n) (rm_keys (rm_remove (rs_branches st) n))) as [[rel|]| |]; try reflexivity.
    destruct (forallb part_ok rel); reflexivity.
Qed.

Lemma rstep_code : forall st op,
  match op with
  | TCreate _ _ _ _ | TUpdate _ _ _ _ | TDelete _ => (fst (rstep st op) = 0 <-> rop_ok st op = true)
  | _ => True
  end.
Proof.
  intros st op. destruct op as [t br v vex | t br v vex | t | n src v vex | n force]; cbn [rstep rop_ok]; try exact I.
  - destruct (valid_tag no_ext t); cbn [negb andb fst]; [|split; discriminate].
    destruct (opt_none (rm_get (rs_tags st) t)); cbn [negb andb fst]; [|split; discriminate].
    destruct vex; cbn [negb fst]; split; try reflexivity; discriminate.
  - destruct (valid_tag no_ext t); cbn [negb andb fst]; [|split; discriminate].
    destruct (opt_none (rm_get (rs_tags st) t)); cbn [negb andb fst]; [split; discriminate|].
    destruct vex; cbn [negb fst]; split; try reflexivity; discriminate.
  - destruct (valid_tag no_ext t); cbn [negb andb fst]; [|split; discriminate].
    destruct (opt_none (rm_get (rs_tags st) t)); cbn [negb andb fst]; split; try reflexivity; discriminate.
Qed.

Lemma rstep_tags_nodup : forall st op, NoDup (rm_keys (rs_tags st)) -> NoDup (rm_keys (rs_tags (snd (rstep st op)))).
Proof.
  intros st op H. destruct op as [t br v vex | t br v vex | t | n src v vex | n force]; cbn [rstep].
  - destruct (negb (valid_tag no_ext t)); [exact H|]. destruct (negb (opt_none (rm_get (rs_tags st) t))); [exact H|].
    destruct (negb vex); [exact H|]. cbn [snd rs_tags]. apply rm_set_nodup. exact H.
  - destruct (negb (valid_tag no_ext t)); [exact H|]. destruct (opt_none (rm_get (rs_tags st) t)); [exact H|].
    destruct (negb vex); [exact H|]. cbn [snd rs_tags]. apply rm_set_nodup. exact H.
  - destruct (negb (valid_tag no_ext t)); [exact H|]. destruct (opt_none (rm_get (rs_tags st) t)); [exact H|].
    cbn [snd rs_tags]. apply rm_remove_nodup. exact H.
  - destruct (negb (valid_branch no_ext n)); [exact H|]. destruct (existsb (str_eqb n) (rs_dirs st)); [exact H|].
    destruct (negb vex); [exact H|]. destruct (negb (opt_none (rm_get (rs_branches st) n))); exact H.
  - destruct (negb (valid_branch no_ext n)); [exact H|].
    destruct (opt_none (rm_get (rs_branches st) n) && negb force); [exact H|].
    destruct (cleanup_segs (split c_slash n) (rm_keys (rm_remove (rs_branches st) n))) as [[rel|]| |]; try exact H.
    destruct (forallb part_ok rel); exact H.
Qed.

(* the tag map as a function of the history: the abstract finite map the calls are supposed to implement *)
Definition tfun := list N -> option (option (list N) * N).
Definition tf_ok (f : tfun) (op : rop) : bool :=
  match op with
  | TCreate t _ _ vex => valid_tag no_ext t && opt_none (f t) && vex
  | TUpdate t _ _ vex => valid_tag no_ext t && negb (opt_none (f t)) && vex
  | TDelete t => valid_tag no_ext t && negb (opt_none (f t))
  | _ => true
  end.
Definition tf_step (f : tfun) (op : rop) : tfun :=
  match op with
  | TCreate t br v _ | TUpdate t br v _ => if tf_ok f op then (fun t' => if str_eqb t' t then Some (br, v) else f t') else f
  | TDelete t => if tf_ok f op then (fun t' => if str_eqb t' t then None else f t') else f
  | _ => f
  end.
Definition tf_run (f : tfun) (ops : list rop) : tfun := fold_left tf_step ops f.

Lemma rrun_snd_cons : forall st op ops, snd (rrun st (op :: ops)) = snd (rrun (snd (rstep st op)) ops).
Proof. intros. cbn [rrun]. destruct (rstep st op) as [c st1]. cbn [snd]. destruct (rrun st1 ops). reflexivity. Qed.

Lemma tags_refine : forall ops st f, (forall t, rm_get (rs_tags st) t = f t) ->
  forall t, rm_get (rs_tags (snd (rrun st ops))) t = tf_run f ops t.
Proof.
  induction ops as [|op ops IH]; intros st f H t; [exact (H t)|].
  rewrite rrun_snd_cons. unfold tf_run. cbn [fold_left]. apply IH. clear t. intro t.
  rewrite rstep_tags.
  assert (OK : rop_ok st op = tf_ok f op).
  { destruct op; cbn [rop_ok tf_ok]; try reflexivity; rewrite H; reflexivity. }
  destruct op as [t0 br v vex | t0 br v vex | t0 | n src v vex | n force]; cbn [tf_step]; rewrite <- ?OK.
  - destruct (rop_ok st (TCreate t0 br v vex)); cbn [andb]; [destruct (str_eqb t t0); [reflexivity | apply H] | apply H].
  - destruct (rop_ok st (TUpdate t0 br v vex)); cbn [andb]; [destruct (str_eqb t t0); [reflexivity | apply H] | apply H].
  - destruct (rop_ok st (TDelete t0)); cbn [andb]; [destruct (str_eqb t t0); [reflexivity | apply H] | apply H].
  - apply H.
  - apply H.
Qed.

Lemma rrun_tags_nodup : forall ops st, NoDup (rm_keys (rs_tags st)) -> NoDup (rm_keys (rs_tags (snd (rrun st ops)))).
Proof.
  induction ops as [|op ops IH]; intros st H; [exact H|]. rewrite rrun_snd_cons. apply IH. apply rstep_tags_nodup. exact H.
Qed.

(* ------------------------------------------------------------------------------------------------ *)
(* Manifest::shallow_clone *)

Lemma base_lookup_insert_same : forall m id p, base_lookup (bases_insert m id p) id = Some p.
Proof. intros. unfold bases_insert. cbn [base_lookup]. rewrite N.eqb_refl. reflexivity. Qed.
Lemma base_lookup_filter_other : forall m id i, i <> id -> base_lookup (filter (fun e => negb (fst e =? id)) m) i = base_lookup m i.
Proof.
  intros m id i NE. induction m as [|[k p] m IH]; [reflexivity|]. cbn [filter fst].
  destruct (k =? id) eqn:E; cbn [negb base_lookup].
  - apply N.eqb_eq in E. subst k. rewrite (proj2 (N.eqb_neq id i)) by congruence. exact IH.
  - destruct (k =? i); [reflexivity | exact IH].
Qed.
Lemma base_lookup_insert_other : forall m id p i, i <> id -> base_lookup (bases_insert m id p) i = base_lookup m i.
Proof.
  intros. unfold bases_insert. cbn [base_lookup]. rewrite (proj2 (N.eqb_neq id i)) by congruence. apply base_lookup_filter_other. exact H.
Qed.
Lemma base_lookup_some_in : forall m i p, base_lookup m i = Some p -> In i (map fst m).
Proof.
  intros m i p. induction m as [|[k q] m IH]; cbn [base_lookup]; [discriminate|].
  destruct (k =? i) eqn:E; [apply N.eqb_eq in E; subst; intros _; left; reflexivity | intro H; right; exact (IH H)].
Qed.
Lemma fold_max_ge : forall l acc, acc <= fold_left N.max l acc /\ forall x, In x l -> x <= fold_left N.max l acc.
Proof.
  induction l as [|y l IH]; intros acc; cbn [fold_left]; [split; [lia | intros x []]|].
  destruct (IH (N.max acc y)) as [A B]. split; [lia|]. intros x [K | K]; [subst; lia | exact (B x K)].
Qed.
Lemma new_base_id_fresh : forall m id, new_base_id m = Ok id -> ~ In id (map fst (mn_bases m)) /\ id < two32.
Proof.
  intros m id H. unfold new_base_id in H. destruct (mn_bases m) as [|e l] eqn:E.
  - inversion H; subst. split; [intros [] | reflexivity].
  - pose proof (proj2 (fold_max_ge (map fst (e :: l)) 0)) as G.
    remember (fold_left N.max (map fst (e :: l)) 0) as mx eqn:Emx.
    destruct (mx + 1 <? two32) eqn:L; [|discriminate]. inversion H; subst id. apply N.ltb_lt in L.
    split; [|exact L]. intro K. specialize (G (mx + 1) K). lia.
Qed.

(* every data file of the clone lives where it lived for the source *)
Theorem shallow_clone_resolves : forall m src_root clone_root id d,
  ~ In id (map fst (mn_bases m)) ->
  forall loc, resolve_file src_root (mn_bases m) d = Some loc ->
  resolve_file clone_root (mn_bases (shallow_clone m src_root id)) (clone_file id d) = Some loc.
Proof.
  intros m src_root clone_root id d FR loc H. unfold resolve_file in *. cbn [shallow_clone mn_bases clone_file df_base df_path].
  destruct (df_base d) as [i|] eqn:B; cbn [set_base].
  - destruct (base_lookup (mn_bases m) i) as [r|] eqn:L; [|discriminate].
    rewrite base_lookup_insert_other; [rewrite L; exact H|]. intro E. subst i. apply FR. exact (base_lookup_some_in _ _ _ L).
  - rewrite base_lookup_insert_same. exact H.
Qed.

Lemma shallow_clone_shape : forall m p id,
  map mf_id (mn_frags (shallow_clone m p id)) = map mf_id (mn_frags m) /\
  (forall f, In f (mn_frags (shallow_clone m p id)) -> (forall d, In d (mf_files f) -> df_base d <> None) /\ mf_del f <> Some None).
Proof.
  intros m p id. cbn [shallow_clone mn_frags]. split.
  - rewrite map_map. reflexivity.
  - intros f H. apply in_map_iff in H. destruct H as [f0 [E _]]. subst f. cbn [clone_frag mf_files mf_del]. split.
    + intros d K. apply in_map_iff in K. destruct K as [d0 [E _]]. subst d. cbn [clone_file df_base]. destruct (df_base d0); discriminate.
    + destruct (mf_del f0) as [[x|]|]; discriminate.
Qed.

(* ------------------------------------------------------------------------------------------------ *)
(* the object store: isolation *)

Lemma path_eqb_eq : forall p q : list (list N), path_eqb p q = true <-> p = q.
Proof. apply list_eqb_eq. exact str_eqb_eq. Qed.
Lemma path_eqb_refl : forall p, path_eqb p p = true.
Proof. intro p. apply path_eqb_eq. reflexivity. Qed.
Lemma path_eqb_neq : forall p q : list (list N), path_eqb p q = false <-> p <> q.
Proof.
  intros p q. split.
  - intros H E. apply path_eqb_eq in E. congruence.
  - intro H. destruct (path_eqb p q) eqn:E; [apply path_eqb_eq in E; contradiction | reflexivity].
Qed.

Lemma lookup_in : forall (s : list (list (list N) * obj)) p o, lookup s p = Some o -> In (p, o) s.
Proof.
  intros s p o. induction s as [|[q o'] s IH]; cbn [lookup]; [discriminate|].
  destruct (path_eqb p q) eqn:E; [|intro H; right; exact (IH H)].
  intro H. inversion H; subst. apply path_eqb_eq in E. subst. left. reflexivity.
Qed.

(* filtering keeps what a lookup finds, when the found entry is kept *)
Lemma lookup_filter_keep : forall (f : list (list N) * obj -> bool) (s : list (list (list N) * obj)) p o,
  lookup s p = Some o -> f (p, o) = true -> lookup (filter f s) p = Some o.
Proof.
  intros f s p o. induction s as [|[q o'] s IH]; cbn [lookup filter]; [discriminate|].
  intros H K. destruct (path_eqb p q) eqn:E.
  - apply path_eqb_eq in E. subst q. inversion H; subst o'. rewrite K. cbn [lookup]. rewrite path_eqb_refl. reflexivity.
  - specialize (IH H K). destruct (f (q, o')); [cbn [lookup]; rewrite E; exact IH | exact IH].
Qed.

Lemma lookup_app_notin : forall (adds s : list (list (list N) * obj)) p,
  (forall e, In e adds -> fst e <> p) -> lookup (adds ++ s) p = lookup s p.
Proof.
  induction adds as [|[q o] adds IH]; intros s p H; [reflexivity|]. cbn [app lookup].
  rewrite (proj2 (path_eqb_neq p q)) by (intro E; apply (H (q, o) (or_introl eq_refl)); symmetry; exact E).
  apply IH. intros e K. apply H. right. exact K.
Qed.

(* a store that only gained entries at paths that were absent *)
Definition extends (s s' : list (list (list N) * obj)) : Prop := forall p o, lookup s p = Some o -> lookup s' p = Some o.

Lemma extends_add : forall (adds s : list (list (list N) * obj)),
  (forall e, In e adds -> absent s (fst e) = true) -> extends s (adds ++ s).
Proof.
  intros adds s H p o L. rewrite lookup_app_notin; [exact L|].
  intros e K E. specialize (H e K). unfold absent in H. rewrite E, L in H. discriminate.
Qed.

Lemma all_some_map_ext : forall {A B} (f g : A -> option B) l, (forall x, In x l -> f x = g x) -> all_some (map f l) = all_some (map g l).
Proof.
  intros A B f g l H. induction l as [|x l IH]; [reflexivity|]. cbn [map all_some].
  rewrite (H x (or_introl eq_refl)). destruct (g x); [|reflexivity]. rewrite IH; [reflexivity | intros y K; apply H; right; exact K].
Qed.
Lemma all_some_in : forall {A} (l : list (option A)) r, all_some l = Some r -> forall x, In x l -> x <> None.
Proof.
  intros A l. induction l as [|[a|] l IH]; cbn [all_some]; intros r H x K; [destruct K | | discriminate].
  destruct (all_some l) as [r'|] eqn:E; [|discriminate]. destruct K as [K | K]; [subst; discriminate | exact (IH r' eq_refl x K)].
Qed.

(* what a scan of (L, v) depends on *)
Lemma open_same : forall (s s' : list (list (list N) * obj)) L v r, open s L v = Some r ->
  lookup s' (manifest_path L v) = lookup s (manifest_path L v) ->
  (forall f, In f (manifest_files s L v) -> lookup s' f = lookup s f) ->
  open s' L v = Some r.
Proof.
  intros s s' L v r O M F. unfold open in *. rewrite M. unfold manifest_files in F.
  destruct (lookup s (manifest_path L v)) as [[fs| | |]|]; try discriminate.
  rewrite <- O. apply all_some_map_ext. intros f K. unfold lookup_data. rewrite (F f K). reflexivity.
Qed.

(* the files of a readable version are data files that exist *)
Lemma open_files_present : forall (s : list (list (list N) * obj)) L v r, open s L v = Some r ->
  (exists fs, lookup s (manifest_path L v) = Some (OManifest fs)) /\
  forall f, In f (manifest_files s L v) -> exists c, lookup s f = Some (OData c).
Proof.
  intros s L v r O. unfold open, manifest_files in *.
  destruct (lookup s (manifest_path L v)) as [[fs| | |]|]; try discriminate. split; [exists fs; reflexivity|].
  intros f K. pose proof (all_some_in _ _ O (lookup_data s f) (in_map _ _ _ K)) as NN.
  unfold lookup_data in NN. destruct (lookup s f) as [[| c | |]|]; try contradiction. exists c. reflexivity.
Qed.

Lemma open_extends : forall s s' L v r, extends s s' -> open s L v = Some r -> open s' L v = Some r.
Proof.
  intros s s' L v r E O. destruct (open_files_present s L v r O) as [[fs M] F].
  apply (open_same s s' L v r O).
  - rewrite M. apply E. exact M.
  - intros f K. destruct (F f K) as [c C]. rewrite C. apply E. exact C.
Qed.

(* paths *)
Lemma manifest_not_tag : forall L v t, manifest_path L v <> tag_path t.
Proof.
  intros L v t H. unfold manifest_path, tag_path in H.
  change [s_root; s_refs; s_tags; t] with ([s_root; s_refs] ++ [s_tags] ++ [t]) in H.
  change (L ++ [s_versions; ver_seg v]) with (L ++ [s_versions] ++ [ver_seg v]) in H.
  rewrite !app_assoc in H. apply app_inj_tail in H. destruct H as [H _]. apply app_inj_tail in H. destruct H as [_ H]. discriminate.
Qed.
Lemma manifest_not_branch_file : forall L v b, manifest_path L v <> branch_file b.
Proof.
  intros L v t H. unfold manifest_path, branch_file in H.
  change [s_root; s_refs; s_branches; t] with ([s_root; s_refs] ++ [s_branches] ++ [t]) in H.
  change (L ++ [s_versions; ver_seg v]) with (L ++ [s_versions] ++ [ver_seg v]) in H.
  rewrite !app_assoc in H. apply app_inj_tail in H. destruct H as [H _]. apply app_inj_tail in H. destruct H as [_ H]. discriminate.
Qed.

Lemma lookup_remove_path_other : forall (s : list (list (list N) * obj)) q p, p <> q -> lookup (remove_path s q) p = lookup s p.
Proof.
  intros s q p NE. induction s as [|[x o] s IH]; [reflexivity|]. unfold remove_path in *. cbn [filter fst lookup].
  destruct (path_eqb q x) eqn:E; cbn [negb].
  - apply path_eqb_eq in E. subst x. rewrite (proj2 (path_eqb_neq p q) NE). exact IH.
  - cbn [lookup]. destruct (path_eqb p x); [reflexivity | exact IH].
Qed.
Lemma lookup_remove_dir_other : forall (s : list (list (list N) * obj)) d p, seg_prefix d p = false -> lookup (remove_dir s d) p = lookup s p.
Proof.
  intros s d p NP. induction s as [|[x o] s IH]; [reflexivity|]. unfold remove_dir in *. cbn [filter fst lookup].
  destruct (seg_prefix d x) eqn:E; cbn [negb].
  - assert (NE : path_eqb p x = false) by (apply path_eqb_neq; intro K; subst; congruence). rewrite NE. exact IH.
  - cbn [lookup]. destruct (path_eqb p x); [reflexivity | exact IH].
Qed.
Lemma lookup_put_other : forall (s : list (list (list N) * obj)) q o p, p <> q -> lookup (put s q o) p = lookup s p.
Proof. intros. unfold put. cbn [lookup]. rewrite (proj2 (path_eqb_neq p q) H). apply lookup_remove_path_other. exact H. Qed.

(* the directory removed by deleting b, against the branches R that remain listed *)
Lemma cleanup_dir_safe : forall b R d, cleanup_dir b R = Some d ->
  exists rel, d = s_root :: s_tree :: rel /\ rel <> [] /\
    (forall r, In r R -> seg_prefix rel (split c_slash r) = false) /\
    (has_reserved_segment b = false ->
     forall r p, In r R -> owns (s_root :: s_tree :: split c_slash r) p = true -> seg_prefix d p = false).
Proof.
  intros b R d H. unfold cleanup_dir in H.
  pose proof (cleanup_segs_spec (split c_slash b) R (split_nonempty c_slash b)) as S.
  destruct (cleanup_segs (split c_slash b) R) as [[rel|]| |]; try discriminate. inversion H; subst d. clear H.
  destruct S as [k [Lk [Erel [P1 [P2 P3]]]]]. exists rel. split; [reflexivity|]. split.
  { subst rel. destruct (split c_slash b); [cbn [length] in Lk; lia | discriminate]. }
  split; [exact P1|].
  intros NR r p I O. unfold owns in O. apply andb_true_iff in O. destruct O as [O1 O2].
  apply seg_prefix_spec in O1. destruct O1 as [t O1]. subst p.
  rewrite skipn_app, skipn_all, Nat.sub_diag in O2. cbn [app skipn] in O2.
  destruct t as [|d0 t]; [discriminate|]. destruct t as [|e t]; [discriminate|].
  destruct (seg_prefix (s_root :: s_tree :: rel) ((s_root :: s_tree :: split c_slash r) ++ d0 :: e :: t)) eqn:Q; [|reflexivity].
  exfalso. cbn [app seg_prefix] in Q. rewrite !str_eqb_refl in Q. cbn [andb] in Q.
  apply seg_prefix_app_r in Q. destruct Q as [Q | [a' [Q1 [Q2 Q3]]]].
  - rewrite (P1 r I) in Q. discriminate.
  - destruct a' as [|a0 a']; [contradiction|]. cbn [seg_prefix] in Q3. apply andb_true_iff in Q3. destruct Q3 as [Q3 _].
    apply str_eqb_eq in Q3. subst a0.
    assert (Id : In d0 (split c_slash b)). { apply (firstn_In (S k)). rewrite <- Erel, Q1. apply in_or_app. right. left. reflexivity. }
    unfold has_reserved_segment in NR.
    assert (existsb is_reserved (split c_slash b) = true); [|congruence]. apply existsb_exists. exists d0. split; [exact Id | exact O2].
Qed.

Lemma owns_manifest : forall L v, owns L (manifest_path L v) = true.
Proof.
  intros L v. unfold owns, manifest_path. rewrite (proj2 (seg_prefix_spec L (L ++ [s_versions; ver_seg v]))) by (eexists; reflexivity).
  rewrite skipn_app, skipn_all, Nat.sub_diag. reflexivity.
Qed.

(* one step, outside the known classes, does not change what a spared reference reads *)
Lemma step_isolation : forall s op L v r, open s L v = Some r ->
  step_known s op = false -> step_spares s op L v = true -> open (sstep s op) L v = Some r.
Proof.
  intros s op L v r O NK SP.
  destruct (open_files_present s L v r O) as [[fs M] F].
  destruct op as [L0 v0 drop news | b src v0 srcname | dst src v0 | b | t br v0 | t | L0 keep]; cbn [sstep].
  - (* SWrite *)
    destruct (lookup s (manifest_path L0 v0)) as [[fs0| | |]|]; try exact O.
    destruct (absent s (manifest_path L0 (v0 + 1)) && forallb (absent s) (map (fun e => data_path L0 (fst e)) news)) eqn:A; [|exact O].
    apply andb_true_iff in A. destruct A as [A1 A2]. rewrite forallb_forall in A2.
    apply (open_extends s); [|exact O].
    change ((manifest_path L0 (v0 + 1), OManifest ((if drop then [] else fs0) ++ map (fun e => data_path L0 (fst e)) news))
            :: map (fun e => (data_path L0 (fst e), OData (snd e))) news ++ s)
      with (((manifest_path L0 (v0 + 1), OManifest ((if drop then [] else fs0) ++ map (fun e => data_path L0 (fst e)) news))
            :: map (fun e => (data_path L0 (fst e), OData (snd e))) news) ++ s).
    apply extends_add. intros e [K | K]; [subst e; exact A1|].
    apply in_map_iff in K. destruct K as [e0 [E K]]. subst e. cbn [fst]. apply A2. apply in_map_iff. exists e0. split; [reflexivity | exact K].
  - (* SBranch *)
    destruct (lookup s (manifest_path src v0)) as [[fs0| | |]|]; try exact O.
    destruct (absent s (manifest_path (loc_of (Some b)) v0) && absent s (branch_file b)) eqn:A; [|exact O].
    apply andb_true_iff in A. destruct A as [A1 A2].
    apply (open_extends s); [|exact O].
    change ((branch_file b, OBranch srcname v0) :: (manifest_path (loc_of (Some b)) v0, OManifest fs0) :: s)
      with ([(branch_file b, OBranch srcname v0); (manifest_path (loc_of (Some b)) v0, OManifest fs0)] ++ s).
    apply extends_add. intros e [K | [K | []]]; subst e; assumption.
  - (* SClone *)
    destruct (lookup s (manifest_path src v0)) as [[fs0| | |]|]; try exact O.
    destruct (absent s (manifest_path dst v0)) eqn:A; [|exact O].
    apply (open_extends s); [|exact O].
    change ((manifest_path dst v0, OManifest fs0) :: s) with ([(manifest_path dst v0, OManifest fs0)] ++ s).
    apply extends_add. intros e [K | []]; subst e; exact A.
  - (* SDeleteBranch *)
    cbn [step_known] in NK. apply orb_false_iff in NK. destruct NK as [NR ND].
    destruct (lookup s (branch_file b)) as [[| |par pv|]|] eqn:B; try exact O.
    set (s1 := remove_path s (branch_file b)) in *.
    assert (S1 : forall p o, lookup s p = Some o -> (forall par' v', o <> OBranch par' v') -> lookup s1 p = Some o).
    { intros p o P NB. unfold s1. rewrite lookup_remove_path_other; [exact P|]. intro E. subst p. rewrite B in P. inversion P. subst o. exact (NB par pv eq_refl). }
    destruct (cleanup_dir b (listed_branches s1)) as [d|] eqn:CD.
    + destruct (cleanup_dir_safe b (listed_branches s1) d CD) as [rel [Ed [NErel [P1 P4]]]].
      (* the manifest of (L, v) is outside d *)
      assert (MO : seg_prefix d (manifest_path L v) = false).
      { cbn [step_spares] in SP. apply orb_true_iff in SP. destruct SP as [SP | SP]; [apply orb_true_iff in SP; destruct SP as [SP | SP]|].
        - apply path_eqb_eq in SP. subst L d. reflexivity.
        - subst d. destruct L as [|x L]; [reflexivity|]. cbn [seg_prefix andb] in SP. cbn [manifest_path app seg_prefix].
          destruct (str_eqb s_root x) eqn:E; [discriminate | reflexivity].
        - apply existsb_exists in SP. destruct SP as [r0 [I E]]. apply path_eqb_eq in E. subst L.
          apply (P4 NR r0 _ I). apply (owns_manifest (loc_of (Some r0)) v). }
      apply (open_same s); [exact O | |].
      * rewrite lookup_remove_dir_other by exact MO. rewrite M. apply S1; [exact M | discriminate].
      * intros f K. destruct (F f K) as [c C]. rewrite C.
        assert (FO : seg_prefix d f = false).
        { unfold Known_C09_delete_ignores_dependent_refs in ND. fold s1 in ND. rewrite CD in ND.
          destruct (seg_prefix d f) eqn:Q; [|reflexivity]. exfalso.
          assert (existsb (fun e => match snd e with OManifest fs' => negb (seg_prefix d (fst e)) && existsb (seg_prefix d) fs' | _ => false end) s = true); [|congruence].
          apply existsb_exists. exists (manifest_path L v, OManifest fs). split; [apply lookup_in; exact M|]. cbn [fst snd]. rewrite MO. cbn [negb andb].
          apply existsb_exists. exists f. split; [|exact Q]. unfold manifest_files in K. rewrite M in K. exact K. }
        rewrite lookup_remove_dir_other by exact FO. apply S1; [exact C | discriminate].
    + apply (open_same s); [exact O | |].
      * rewrite M. apply S1; [exact M | discriminate].
      * intros f K. destruct (F f K) as [c C]. rewrite C. apply S1; [exact C | discriminate].
  - (* STagSet *)
    destruct (absent s (manifest_path (loc_of br) v0)); [exact O|].
    assert (P : forall p o, lookup s p = Some o -> (forall b' v', o <> OTag b' v') ->
                (match lookup s (tag_path t) with None | Some (OTag _ _) => True | _ => False end) ->
                lookup (put s (tag_path t) (OTag br v0)) p = Some o).
    { intros p o P NT TT. rewrite lookup_put_other; [exact P|]. intro E. subst p. rewrite P in TT. destruct o; try contradiction. exact (NT br0 v1 eq_refl). }
    destruct (lookup s (tag_path t)) as [[| | |tb tv]|] eqn:T; try exact O.
    + apply (open_same s); [exact O | |].
      * rewrite M. apply P; [exact M | discriminate | exact I].
      * intros f K. destruct (F f K) as [c C]. rewrite C. apply P; [exact C | discriminate | exact I].
    + apply (open_same s); [exact O | |].
      * rewrite M. apply P; [exact M | discriminate | exact I].
      * intros f K. destruct (F f K) as [c C]. rewrite C. apply P; [exact C | discriminate | exact I].
  - (* STagDelete *)
    destruct (lookup s (tag_path t)) as [[| | |tb tv]|] eqn:T; try exact O.
    assert (P : forall p o, lookup s p = Some o -> (forall b' v', o <> OTag b' v') -> lookup (remove_path s (tag_path t)) p = Some o).
    { intros p o P NT. rewrite lookup_remove_path_other; [exact P|]. intro E. subst p. rewrite T in P. inversion P. subst o. exact (NT tb tv eq_refl). }
    apply (open_same s); [exact O | |].
    + rewrite M. apply P; [exact M | discriminate].
    + intros f K. destruct (F f K) as [c C]. rewrite C. apply P; [exact C | discriminate].
  - (* SCleanup *)
    cbn [step_known] in NK. cbn [step_spares] in SP.
    set (kept := flat_map (manifest_files s L0) keep) in *.
    assert (MK : removes_manifest L0 keep (manifest_path L v) = false).
    { destruct (removes_manifest L0 keep (manifest_path L v)) eqn:Q; [|reflexivity]. exfalso.
      unfold removes_manifest in Q. apply andb_true_iff in Q. destruct Q as [Q1 Q2].
      apply seg_prefix_spec in Q1. destruct Q1 as [tl Q1]. rewrite Q1 in Q2. rewrite skipn_app, skipn_all, Nat.sub_diag in Q2. cbn [app skipn] in Q2.
      destruct tl as [|d0 [|vs [|? ?]]]; try discriminate. apply andb_true_iff in Q2. destruct Q2 as [Q2 Q3]. apply str_eqb_eq in Q2. subst d0.
      unfold manifest_path in Q1.
      assert (exists v', vs = ver_seg v' /\ L = L0 /\ v = v') as [v' [Ev [EL Evv]]].
      { change (L0 ++ [s_versions; vs]) with (L0 ++ [s_versions] ++ [vs]) in Q1. change (L ++ [s_versions; ver_seg v]) with (L ++ [s_versions] ++ [ver_seg v]) in Q1.
        rewrite !app_assoc in Q1. apply app_inj_tail in Q1. destruct Q1 as [Q1 E]. apply app_inj_tail in Q1. destruct Q1 as [Q1 _]. exists v. repeat split; [symmetry; exact E | exact Q1]. }
      subst vs L v'. rewrite path_eqb_refl in SP. cbn [negb orb] in SP.
      apply existsb_exists in SP. destruct SP as [v1 [I1 E1]]. apply N.eqb_eq in E1. subst v1.
      apply negb_true_iff in Q3. assert (existsb (fun v' => str_eqb (ver_seg v') (ver_seg v)) keep = true); [|congruence].
      apply existsb_exists. exists v. split; [exact I1 | apply str_eqb_refl]. }
    apply (open_same s); [exact O | |].
    + rewrite M. apply lookup_filter_keep; [exact M|]. unfold cleanup_drops. cbn [fst snd]. rewrite MK. reflexivity.
    + intros f K. destruct (F f K) as [c C]. rewrite C. apply lookup_filter_keep; [exact C|].
      unfold cleanup_drops. cbn [fst snd]. apply negb_true_iff.
      destruct (removes_data L0 kept f) eqn:Q; [|reflexivity]. exfalso.
      unfold Known_C09_cleanup_ignores_branch_refs in NK. fold kept in NK.
      assert (existsb (fun e => match snd e with OManifest fs' => negb (removes_manifest L0 keep (fst e)) && existsb (removes_data L0 kept) fs' | _ => false end) s = true); [|congruence].
      apply existsb_exists. exists (manifest_path L v, OManifest fs). split; [apply lookup_in; exact M|]. cbn [fst snd]. rewrite MK. cbn [negb andb].
      apply existsb_exists. exists f. split; [|exact Q]. unfold manifest_files in K. rewrite M in K. exact K.
Qed.

(* a whole history *)
Theorem run_isolation : forall ops s L v r, open s L v = Some r -> safe_run s ops L v = true -> open (srun s ops) L v = Some r.
Proof.
  induction ops as [|op ops IH]; intros s L v r O SR; [exact O|].
  cbn [safe_run] in SR. apply andb_true_iff in SR. destruct SR as [SR S3]. apply andb_true_iff in SR. destruct SR as [S1 S2].
  apply negb_true_iff in S1. unfold srun. cbn [fold_left]. apply IH; [|exact S3]. apply step_isolation; assumption.
Qed.

(* a tag resolves to exactly the (branch, version) it was set to, and reads that version *)
Lemma tag_set_resolves : forall s t br v,
  absent s (manifest_path (loc_of br) v) = false ->
  (match lookup s (tag_path t) with None | Some (OTag _ _) => True | _ => False end) ->
  tag_get (sstep s (STagSet t br v)) t = Some (br, v) /\
  open_tag (sstep s (STagSet t br v)) t = open (sstep s (STagSet t br v)) (loc_of br) v.
Proof.
  intros s t br v A T. cbn [sstep]. rewrite A.
  assert (G : tag_get (put s (tag_path t) (OTag br v)) t = Some (br, v)).
  { unfold tag_get, put. cbn [lookup]. rewrite path_eqb_refl. reflexivity. }
  destruct (lookup s (tag_path t)) as [[| | |tb tv]|]; try contradiction; (split; [exact G | unfold open_tag; rewrite G; reflexivity]).
Qed.

(* the three store-level classes are inhabited: the faithful model violates isolation there *)
Definition w_f1 : list N := [102; 49].   (* "f1" *)
Definition w_f2 : list N := [102; 50].
Definition w_g : list N := [103].
Definition w_init : list (list (list N) * obj) :=
  [(manifest_path droot 1, OManifest [data_path droot w_f1]); (data_path droot w_f1, OData 7)].
Definition w_dev : list N := [100; 101; 118].
Definition w_x : list N := [120].
Definition w_c : list N := [99].
Definition w_a : list N := [97].
Definition w_a_data : list N := [97; 47; 100; 97; 116; 97].   (* "a/data" *)

Definition w_cleanup_before := srun w_init [SBranch w_dev droot 1 None; SWrite droot 1 true [(w_f2, 8)]].
Definition w_dependents_before :=
  srun w_init [SBranch w_x droot 1 None; SWrite (loc_of (Some w_x)) 1 false [(w_g, 9)]; SBranch w_c (loc_of (Some w_x)) 2 (Some w_x)].
Definition w_reserved_before :=
  srun w_init [SBranch w_a droot 1 None; SWrite (loc_of (Some w_a)) 1 false [(w_g, 9)]; SBranch w_a_data droot 1 None;
               SWrite (loc_of (Some w_a_data)) 1 false [(w_g, 5)]].

Lemma cleanup_ignores_branch_refs_witness :
  Known_C09_cleanup_ignores_branch_refs w_cleanup_before droot [2] = true /\
  step_spares w_cleanup_before (SCleanup droot [2]) (loc_of (Some w_dev)) 1 = true /\
  open w_cleanup_before (loc_of (Some w_dev)) 1 = Some [7] /\
  open (sstep w_cleanup_before (SCleanup droot [2])) (loc_of (Some w_dev)) 1 = None /\
  open (sstep w_cleanup_before (SCleanup droot [2])) droot 2 = Some [8].
Proof. vm_compute. repeat split. Qed.

Lemma delete_ignores_dependent_refs_witness :
  Known_C09_delete_ignores_dependent_refs w_dependents_before w_x = true /\
  has_reserved_segment w_x = false /\
  step_spares w_dependents_before (SDeleteBranch w_x) (loc_of (Some w_c)) 2 = true /\
  open w_dependents_before (loc_of (Some w_c)) 2 = Some [7; 9] /\
  open (sstep w_dependents_before (SDeleteBranch w_x)) (loc_of (Some w_c)) 2 = None.
Proof. vm_compute. repeat split. Qed.

Lemma reserved_dir_segment_witness :
  has_reserved_segment w_a_data = true /\
  valid_branch no_ext w_a_data = true /\
  step_spares w_reserved_before (SDeleteBranch w_a_data) (loc_of (Some w_a)) 2 = true /\
  open w_reserved_before (loc_of (Some w_a)) 2 = Some [7; 9] /\
  open (sstep w_reserved_before (SDeleteBranch w_a_data)) (loc_of (Some w_a)) 2 = None /\
  (* the same nesting seen from the clean-up of the outer branch *)
  open w_reserved_before (loc_of (Some w_a_data)) 2 = Some [7; 5] /\
  open (sstep w_reserved_before (SCleanup (loc_of (Some w_a)) [2])) (loc_of (Some w_a_data)) 2 = None.
Proof. vm_compute. repeat split. Qed.

(* non-vacuity of the isolation theorem: a history with writes on two branches, a tag, a clone, a branch deletion
   and a clean-up that satisfies safe_run for a reference that stays readable *)
Definition w_hist : list sop :=
  [SBranch w_x droot 1 None; SBranch w_c droot 1 None; SWrite (loc_of (Some w_x)) 1 false [(w_g, 9)];
   STagSet w_f1 (Some w_c) 1; SWrite droot 1 false [(w_f2, 8)]; SClone [w_dev] (loc_of (Some w_c)) 1;
   SDeleteBranch w_x; SWrite (loc_of (Some w_c)) 1 true [(w_g, 4)]; SCleanup (loc_of (Some w_c)) [1; 2]; STagDelete w_f1].
Lemma isolation_nonvacuous :
  safe_run w_init w_hist droot 1 = true /\ open (srun w_init w_hist) droot 1 = Some [7] /\
  safe_run (srun w_init [SBranch w_x droot 1 None; SBranch w_c droot 1 None]) (skipn 2 w_hist) (loc_of (Some w_c)) 1 = true /\
  open (srun w_init w_hist) (loc_of (Some w_c)) 1 = Some [7] /\ open (srun w_init w_hist) (loc_of (Some w_c)) 2 = Some [4] /\
  open (srun w_init w_hist) (loc_of (Some w_x)) 2 = None /\ open (srun w_init w_hist) [w_dev] 1 = Some [7].
Proof. vm_compute. repeat split. Qed.

(* the model on the inputs of the Rust unit tests and of finding F6 *)
Definition str_of (l : list N) := l.
Lemma unit_test_vectors :
  (* F6, repaired: delete "abc" next to ab, ab/c ; delete "a_versions" next to a *)
  get_cleanup_path hook_base [97;98;99] [[97;98]; [97;98;47;99]] = Ok (Some (s_root ++ [47] ++ s_tree ++ [47;97;98;99])) /\
  get_cleanup_path hook_base ([97] ++ s_versions) [[97]] = Ok (Some (s_root ++ [47] ++ s_tree ++ [47;97] ++ s_versions)) /\
  (* test_get_cleanup_path: ("a/b/c", ["a/b/d","a/e"]) -> a/b/c ; ("a/b", ["a/b/c","a/b/d"]) -> None ; ("a", ["a"]) -> None *)
  get_cleanup_path hook_base [97;47;98;47;99] [[97;47;98;47;100]; [97;47;101]] = Ok (Some (s_root ++ [47] ++ s_tree ++ [47;97;47;98;47;99])) /\
  get_cleanup_path hook_base [97;47;98] [[97;47;98;47;99]; [97;47;98;47;100]] = Ok None /\
  get_cleanup_path hook_base [97] [[97]] = Ok None /\
  (* "feature/auth/module" next to "feature/other" -> feature/auth *)
  get_cleanup_path hook_base [102;47;97;47;109] [[102;47;111]] = Ok (Some (s_root ++ [47] ++ s_tree ++ [47;102;47;97])) /\
  (* a "." segment is a valid name that the object store rejects *)
  valid_branch no_ext [97;47;46] = true /\ get_cleanup_path hook_base [97;47;46] [[97]] = Err /\
  (* names *)
  check_valid_branch no_ext s_main = Some 8 /\ check_valid_branch no_ext [97;47;47;98] = Some 3 /\
  check_valid_branch no_ext ([110] ++ s_lock) = Some 7 /\ check_valid_tag no_ext [46;114] = Some 3 /\
  check_valid_tag no_ext [114;46;46;114] = Some 6 /\ check_valid_tag no_ext [110;47;114] = Some 2.
Proof. vm_compute. repeat split. Qed.
