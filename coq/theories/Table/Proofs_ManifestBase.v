(* Table/Proofs_ManifestBase.v - reflection and list lemmas used by Proofs_Manifest.v / Proofs_StableIds.v. *)
From LanceV Require Import Common.Base Meta.Model_Flags Table.Model_Manifest.
From Coq Require Import Permutation.
Local Open Scope N_scope.

(* ================================================================ reflection *)
Lemma n_mem_In x l : n_mem x l = true <-> In x l.
Proof.
  unfold n_mem. rewrite existsb_exists. split.
  - intros [y [Hy E]]. apply N.eqb_eq in E. subst. exact Hy.
  - intro H. exists x. split; [exact H | apply N.eqb_refl].
Qed.
Lemma n_mem_false x l : n_mem x l = false <-> ~ In x l.
Proof. rewrite <- n_mem_In. destruct (n_mem x l); split; intro H; try reflexivity; try discriminate; try (intro; discriminate); exfalso; apply H; reflexivity. Qed.
Lemma z_mem_In x l : z_mem x l = true <-> In x l.
Proof.
  unfold z_mem. rewrite existsb_exists. split.
  - intros [y [Hy E]]. apply Z.eqb_eq in E. subst. exact Hy.
  - intro H. exists x. split; [exact H | apply Z.eqb_refl].
Qed.
Lemma z_mem_false x l : z_mem x l = false <-> ~ In x l.
Proof. rewrite <- z_mem_In. destruct (z_mem x l); split; intro H; try reflexivity; try discriminate; try (intro; discriminate); exfalso; apply H; reflexivity. Qed.

Lemma nodup_n_NoDup l : nodup_n l = true <-> NoDup l.
Proof.
  induction l as [|x r IH]; cbn [nodup_n].
  - split; [constructor | reflexivity].
  - rewrite andb_true_iff, negb_true_iff, n_mem_false, IH. split.
    + intros [A B]. constructor; assumption.
    + intro H. inversion H; subst. split; assumption.
Qed.
Lemma nodup_z_NoDup l : nodup_z l = true <-> NoDup l.
Proof.
  induction l as [|x r IH]; cbn [nodup_z].
  - split; [constructor | reflexivity].
  - rewrite andb_true_iff, negb_true_iff, z_mem_false, IH. split.
    + intros [A B]. constructor; assumption.
    + intro H. inversion H; subst. split; assumption.
Qed.

(* ================================================================ generic list facts *)
Lemma NoDup_app_intro {A} (l1 l2 : list A) :
  NoDup l1 -> NoDup l2 -> (forall x, In x l1 -> ~ In x l2) -> NoDup (l1 ++ l2).
Proof.
  induction l1 as [|a r IH]; intros H1 H2 D; cbn [app]; [exact H2|].
  inversion H1; subst. constructor.
  - rewrite in_app_iff. intros [I|I]; [contradiction | exact (D a (or_introl eq_refl) I)].
  - apply IH; [assumption | assumption | intros x Hx; apply D; right; exact Hx].
Qed.
Lemma NoDup_app_l {A} (l1 l2 : list A) : NoDup (l1 ++ l2) -> NoDup l1.
Proof.
  induction l1 as [|a r IH]; intro H; [constructor|]. cbn [app] in H. inversion H; subst.
  constructor; [intro I; apply H2; apply in_or_app; left; exact I | apply IH; assumption].
Qed.
Lemma NoDup_app_r {A} (l1 l2 : list A) : NoDup (l1 ++ l2) -> NoDup l2.
Proof. induction l1 as [|a r IH]; intro H; [exact H|]. cbn [app] in H. inversion H; subst. apply IH; assumption. Qed.
Lemma NoDup_app_disj {A} (l1 l2 : list A) x : NoDup (l1 ++ l2) -> In x l1 -> ~ In x l2.
Proof.
  induction l1 as [|a r IH]; intros H I; [destruct I|]. cbn [app] in H. inversion H; subst.
  destruct I as [E|I]; [subst; intro J; apply H2; apply in_or_app; right; exact J | apply IH; assumption].
Qed.
Lemma NoDup_filter {A} (p : A -> bool) l : NoDup l -> NoDup (filter p l).
Proof.
  induction l as [|a r IH]; intro H; cbn [filter]; [constructor|]. inversion H; subst.
  destruct (p a); [constructor; [rewrite filter_In; intros [I _]; contradiction | apply IH; assumption] | apply IH; assumption].
Qed.
Lemma NoDup_map_filter {A B} (f : A -> B) (p : A -> bool) l : NoDup (map f l) -> NoDup (map f (filter p l)).
Proof.
  induction l as [|a r IH]; intro H; cbn [filter map]; [constructor|]. cbn [map] in H. inversion H; subst.
  destruct (p a); cbn [map]; [constructor; [|apply IH; assumption] | apply IH; assumption].
  intro I. apply H2. apply in_map_iff in I as [y [E Iy]]. apply filter_In in Iy as [Iy _]. apply in_map_iff. exists y. split; assumption.
Qed.
Lemma In_map_filter {A B} (f : A -> B) (p : A -> bool) l x : In x (map f (filter p l)) -> In x (map f l).
Proof. intro I. apply in_map_iff in I as [y [E Iy]]. apply filter_In in Iy as [Iy _]. apply in_map_iff. exists y. split; assumption. Qed.

Lemma forallb_app_iff {A} (p : A -> bool) l1 l2 : forallb p (l1 ++ l2) = true <-> forallb p l1 = true /\ forallb p l2 = true.
Proof. rewrite forallb_app, andb_true_iff. reflexivity. Qed.
Lemma forallb_filter {A} (p q : A -> bool) l : forallb p l = true -> forallb p (filter q l) = true.
Proof. rewrite !forallb_forall. intros H x I. apply filter_In in I as [I _]. apply H; exact I. Qed.
Lemma forallb_impl {A} (p q : A -> bool) l : (forall x, In x l -> p x = true -> q x = true) -> forallb p l = true -> forallb q l = true.
Proof. rewrite !forallb_forall. intros H K x I. apply H; [exact I | apply K; exact I]. Qed.
Lemma forallb_map {A B} (f : A -> B) (p : B -> bool) l : forallb p (map f l) = forallb (fun x => p (f x)) l.
Proof. induction l as [|a r IH]; cbn [map forallb]; [reflexivity | rewrite IH; reflexivity]. Qed.
Lemma In_firstn {A} n (l : list A) x : In x (firstn n l) -> In x l.
Proof. revert l; induction n as [|n IH]; intros l I; [destruct I|]. destruct l as [|a r]; [destruct I|]. cbn [firstn] in I. destruct I as [E|I]; [left; exact E | right; apply IH; exact I]. Qed.
Lemma forallb_firstn {A} (p : A -> bool) n l : forallb p l = true -> forallb p (firstn n l) = true.
Proof. rewrite !forallb_forall. intros H x I. apply H. eapply In_firstn; exact I. Qed.
Lemma In_skipn {A} n (l : list A) x : In x (skipn n l) -> In x l.
Proof. revert l; induction n as [|n IH]; intros l I; [exact I|]. destruct l as [|a r]; [exact I | right; apply IH; exact I]. Qed.
Lemma forallb_skipn {A} (p : A -> bool) n l : forallb p l = true -> forallb p (skipn n l) = true.
Proof. rewrite !forallb_forall. intros H x I. apply H. eapply In_skipn; exact I. Qed.

(* firstn a l ++ skipn b l with a <= b is l with a block removed *)
Lemma NoDup_map_skipn {A B} (f : A -> B) (k : nat) (l : list A) : NoDup (map f l) -> NoDup (map f (skipn k l)).
Proof.
  revert l; induction k as [|k IH]; intros l H; [exact H|]. destruct l as [|x r]; [exact H|].
  cbn [skipn]. apply IH. cbn [map] in H. inversion H; assumption.
Qed.
Lemma In_firstn_skipn {A} (a b : nat) (l : list A) x : In x (firstn a l ++ skipn b l) -> In x l.
Proof. rewrite in_app_iff. intros [I|I]; [eapply In_firstn; exact I | eapply In_skipn; exact I]. Qed.
Lemma NoDup_map_firstn_skipn {A B} (f : A -> B) (a b : nat) (l : list A) :
  (a <= b)%nat -> NoDup (map f l) -> NoDup (map f (firstn a l ++ skipn b l)).
Proof.
  revert b l; induction a as [|a IH]; intros b l L H.
  - cbn [firstn app]. apply NoDup_map_skipn; exact H.
  - destruct l as [|x r]; [destruct b; cbn; constructor|].
    destruct b as [|b]; [lia|]. cbn [firstn skipn app map]. cbn [map] in H. inversion H; subst.
    constructor; [|apply IH; [lia | assumption]].
    intro I. apply H2. apply in_map_iff in I as [y [E I]]. apply in_map_iff. exists y. split; [exact E | eapply In_firstn_skipn; exact I].
Qed.

(* ================================================================ sorting by fragment id *)
Lemma insert_frag_perm f l : Permutation (insert_frag f l) (f :: l).
Proof.
  induction l as [|g r IH]; cbn [insert_frag]; [apply Permutation_refl|].
  destruct (fr_id g <? fr_id f); [|apply Permutation_refl].
  eapply Permutation_trans; [apply perm_skip; exact IH | apply perm_swap].
Qed.
Lemma sort_frags_perm l : Permutation (sort_frags l) l.
Proof.
  induction l as [|f r IH]; cbn [sort_frags fold_right]; [apply Permutation_refl|].
  eapply Permutation_trans; [apply insert_frag_perm | apply perm_skip; exact IH].
Qed.
Lemma forallb_perm {A} (p : A -> bool) l1 l2 : Permutation l1 l2 -> forallb p l1 = forallb p l2.
Proof.
  induction 1 as [| x l l' _ IH | x y l | l l' l'' _ IH1 _ IH2]; cbn [forallb];
    [reflexivity | rewrite IH; reflexivity | destruct (p x), (p y); reflexivity | rewrite IH1; exact IH2].
Qed.
Lemma existsb_perm {A} (p : A -> bool) l1 l2 : Permutation l1 l2 -> existsb p l1 = existsb p l2.
Proof.
  induction 1 as [| x l l' _ IH | x y l | l l' l'' _ IH1 _ IH2]; cbn [existsb];
    [reflexivity | rewrite IH; reflexivity | destruct (p x), (p y); reflexivity | rewrite IH1; exact IH2].
Qed.

(* non-strict sortedness of the ids, as a Prop *)
Fixpoint le_all (x : N) (l : list Fragment) : Prop :=
  match l with [] => True | g :: r => x <= fr_id g /\ le_all x r end.
Fixpoint sorted_frags (l : list Fragment) : Prop :=
  match l with [] => True | f :: r => le_all (fr_id f) r /\ sorted_frags r end.
Lemma le_all_weaken x y l : x <= y -> le_all y l -> le_all x l.
Proof. induction l as [|g r IH]; cbn [le_all]; intros L H; [exact I | destruct H as [A B]; split; [lia | apply IH; assumption]]. Qed.
Lemma le_all_insert x f l : x <= fr_id f -> le_all x l -> le_all x (insert_frag f l).
Proof.
  induction l as [|g r IH]; cbn [insert_frag le_all]; intros L H; [split; [exact L | exact I]|].
  destruct H as [A B]. destruct (fr_id g <? fr_id f); cbn [le_all]; [split; [exact A | apply IH; assumption] | repeat split; assumption].
Qed.
Lemma insert_frag_sorted f l : sorted_frags l -> sorted_frags (insert_frag f l).
Proof.
  induction l as [|g r IH]; cbn [insert_frag sorted_frags]; intro H; [split; exact I|].
  destruct H as [A B]. destruct (fr_id g <? fr_id f) eqn:E; cbn [sorted_frags].
  - split; [apply le_all_insert; [apply N.ltb_lt in E; lia | exact A] | apply IH; exact B].
  - apply N.ltb_ge in E. split; [cbn [le_all]; split; [exact E | eapply le_all_weaken; [exact E | exact A]] | split; assumption].
Qed.
Lemma sort_frags_sorted l : sorted_frags (sort_frags l).
Proof. induction l as [|f r IH]; cbn [sort_frags fold_right]; [exact I | apply insert_frag_sorted; exact IH]. Qed.

Lemma le_all_In x l g : le_all x l -> In g l -> x <= fr_id g.
Proof. induction l as [|h r IH]; cbn [le_all]; intros H I; [destruct I|]. destruct H as [A B]. destruct I as [E|I]; [subst; exact A | apply IH; assumption]. Qed.
Lemma sorted_nodup_strict l : sorted_frags l -> NoDup (frag_ids l) -> strict_sorted_n (frag_ids l) = true.
Proof.
  induction l as [|f r IH]; intros S D; [reflexivity|].
  cbn [sorted_frags] in S. destruct S as [A B]. unfold frag_ids in *. cbn [map] in *. inversion D; subst.
  destruct r as [|g r']; [reflexivity|]. cbn [map strict_sorted_n].
  apply andb_true_iff. split.
  - apply N.ltb_lt. cbn [le_all] in A. destruct A as [A _].
    assert (fr_id f <> fr_id g) by (intro E; apply H1; cbn [map]; left; symmetry; exact E). lia.
  - apply IH; assumption.
Qed.
Lemma strict_sorted_NoDup l : strict_sorted_n l = true -> NoDup l /\ (forall x y, l = x :: y -> forall z, In z y -> x < z).
Proof.
  induction l as [|a r IH]; intro H; [split; [constructor | intros; discriminate]|].
  cbn [strict_sorted_n] in H. destruct r as [|b r'].
  - split; [constructor; [intros []|constructor] | intros x y E z I; inversion E; subst; destruct I].
  - apply andb_true_iff in H as [L H]. apply N.ltb_lt in L. destruct (IH H) as [ND LT].
    assert (K : forall z, In z (b :: r') -> a < z).
    { intros z [E|I]; [subst; exact L | specialize (LT b r' eq_refl z I); lia]. }
    split; [constructor; [intro I; specialize (K a I); lia | exact ND] | intros x y E z I; inversion E; subst; apply K; exact I].
Qed.
Lemma strict_sorted_nodup l : strict_sorted_n l = true -> NoDup l.
Proof. intro H. apply strict_sorted_NoDup in H. tauto. Qed.

Lemma frag_ids_perm l1 l2 : Permutation l1 l2 -> Permutation (frag_ids l1) (frag_ids l2).
Proof. apply Permutation_map. Qed.
Lemma sort_frags_strict l : NoDup (frag_ids l) -> strict_sorted_n (frag_ids (sort_frags l)) = true.
Proof.
  intro D. apply sorted_nodup_strict; [apply sort_frags_sorted|].
  eapply Permutation_NoDup; [apply Permutation_sym; apply frag_ids_perm; apply sort_frags_perm | exact D].
Qed.
