(* C11 - lemmas about Table/Model_Write.v.  Default scope is nat; N terms are annotated. *)
From LanceV Require Import Common.Base Io.Model_Chunker Io.Proofs_Chunker Table.Model_Write.

(* ================================================================== small arithmetic / list facts *)
Lemma mod_add_small (max a b : nat) : 0 < max -> a mod max + b < max -> (a + b) mod max = a mod max + b.
Proof.
  intros Hm H. rewrite <- Nat.add_mod_idemp_l by lia. apply Nat.mod_small. exact H.
Qed.

Lemma mod_add_full (max a b : nat) : 0 < max -> a mod max + b = max -> (a + b) mod max = 0.
Proof.
  intros Hm H. rewrite <- Nat.add_mod_idemp_l by lia. rewrite H. apply Nat.mod_same. lia.
Qed.

Lemma mod_add_same (g a : nat) : 0 < g -> a mod g = 0 -> (a + g) mod g = 0.
Proof.
  intros Hg H. rewrite <- Nat.add_mod_idemp_l by lia. rewrite H. cbn [Nat.add]. apply Nat.mod_same. lia.
Qed.

(* multiples of g strictly below a multiple of g leave room for one more g *)
Lemma multiple_room (g a m : nat) : 0 < g -> a mod g = 0 -> m mod g = 0 -> a < m -> a + g <= m.
Proof.
  intros Hg Ha Hm Hlt.
  apply Nat.mod_divides in Ha; [|lia]. apply Nat.mod_divides in Hm; [|lia].
  destruct Ha as (p & ->). destruct Hm as (q & ->).
  assert (p < q) by (apply Nat.mul_lt_mono_pos_l with (p := g); lia).
  replace (g * p + g) with (g * (p + 1)) by lia. apply Nat.mul_le_mono_l. lia.
Qed.

Lemma wrap32_small (x : N) : (x < two32)%N -> wrap32 x = x.
Proof. intro H. unfold wrap32. apply N.mod_small. exact H. Qed.

Lemma removelast_cons2 {X} (x : X) (l : list X) : l <> [] -> removelast (x :: l) = x :: removelast l.
Proof. destruct l; [congruence | reflexivity]. Qed.

Lemma Forall_removelast_cons {X} (P : X -> Prop) (x : X) (l : list X) :
  (l <> [] -> P x) -> Forall P (removelast l) -> Forall P (removelast (x :: l)).
Proof.
  intros Hx Hl. destruct l as [|y l]; [constructor|].
  rewrite removelast_cons2 by discriminate. constructor; [apply Hx; discriminate | exact Hl].
Qed.

Lemma nonempty_count {X} (l : list (list X)) : Forall (fun f => f <> []) l -> length l <= length (concat l).
Proof.
  induction 1 as [|f l Hf _ IH]; [cbn; lia|].
  cbn [concat length]. rewrite app_length. destruct f; [congruence|]. cbn [length]. lia.
Qed.

(* a stream without fuel marker and without errors is the list of its values *)
Lemma only_vals {X} (l : list (oitem X)) : no_fuel l -> oerrs l = 0 -> l = map OVal (ovals l).
Proof.
  induction l as [|x l IH]; intros Hnf He; [reflexivity|].
  destruct x as [v| |].
  - rewrite ovals_cons_val. cbn [map]. f_equal. apply IH.
    + intro Hin. apply Hnf. right. exact Hin.
    + rewrite oerrs_cons_val in He. exact He.
  - rewrite oerrs_cons_err in He. discriminate.
  - exfalso. apply Hnf. left. reflexivity.
Qed.

Section RollProofs.
Context {A : Type}.
Notation batch := (Model_Chunker.batch A).

Definition cur_rows (cur : option (list A)) : list A := match cur with Some r => r | None => [] end.
Definition cur_ok (cur : option (list A)) : Prop := cur = None \/ cur_rows cur <> [].

(* ================================================================== the u32 row counter *)
Lemma count_chunk_ok (c : list batch) : forall n : N,
  (n + N.of_nat (length (concat c)) < two32)%N ->
  count_chunk n c = Ok (n + N.of_nat (length (concat c)))%N.
Proof.
  induction c as [|b c IH]; intros n H.
  - cbn [count_chunk concat length]. f_equal. lia.
  - cbn [concat] in H. rewrite app_length in H.
    cbn [count_chunk]. unfold add_u32. rewrite wrap32_small by lia.
    destruct (two32 <=? n + N.of_nat (length b))%N eqn:E; [apply N.leb_le in E; lia|].
    cbn [obind]. rewrite IH by lia. f_equal. cbn [concat]. rewrite app_length. lia.
Qed.

(* ================================================================== roll: every byte oracle *)
(* [B] bounds the rows of one chunk *)
Lemma roll_general (max32 : N) (B : nat) (full : nat -> bool) :
  (0 < max32)%N -> (max32 + N.of_nat B <= two32)%N ->
  forall (cs : list (list batch)) (k : nat) (cur : option (list A)) (n : N) (done : list (list A)),
    Forall (fun c => concat c <> [] /\ length (concat c) <= B) cs ->
    n = N.of_nat (length (cur_rows cur)) -> (n < max32)%N -> cur_ok cur ->
    exists files,
      roll max32 full k (map OVal cs) cur n done = Ok (done ++ files) /\
      concat files = cur_rows cur ++ concat (map (@concat A) cs) /\
      Forall (fun f => f <> [] /\ (N.of_nat (length f) < max32 + N.of_nat B)%N) files.
Proof.
  intros Hmax HB. induction cs as [|c cs IH]; intros k cur n done Hcs Hn Hlt Hcur.
  - cbn [map roll concat]. destruct cur as [r|].
    + exists [r]. split; [reflexivity|]. split; [cbn [concat cur_rows]; rewrite !app_nil_r; reflexivity|].
      constructor; [|constructor]. split.
      * destruct Hcur as [E|E]; [discriminate | exact E].
      * cbn [cur_rows] in Hn. lia.
    + exists []. split; [rewrite app_nil_r; reflexivity|]. split; [reflexivity | constructor].
  - inversion Hcs as [|c' cs' [Hne Hle] Hcs']; subst c' cs'.
    cbn [map roll]. fold (cur_rows cur).
    rewrite count_chunk_ok by lia. cbn [obind].
    set (rows := cur_rows cur ++ concat c).
    assert (Hrows : rows <> []).
    { unfold rows. intro E. apply app_eq_nil in E. destruct E as [_ E]. exact (Hne E). }
    assert (Hlen : (n + N.of_nat (length (concat c)))%N = N.of_nat (length rows)).
    { unfold rows. rewrite app_length. lia. }
    destruct ((max32 <=? n + N.of_nat (length (concat c)))%N || full k) eqn:E.
    + destruct (IH (S k) None 0%N (done ++ [rows]) Hcs') as (files & Hr & Hc & Hf);
        [reflexivity | lia | left; reflexivity|].
      exists (rows :: files). split; [rewrite Hr, <- app_assoc; reflexivity|].
      split.
      * cbn [concat map]. rewrite Hc. cbn [cur_rows app]. unfold rows. rewrite app_assoc. reflexivity.
      * constructor; [|exact Hf]. split; [exact Hrows|]. rewrite <- Hlen. lia.
    + apply orb_false_iff in E. destruct E as [E _]. apply N.leb_gt in E.
      destruct (IH (S k) (Some rows) (n + N.of_nat (length (concat c)))%N done Hcs') as (files & Hr & Hc & Hf);
        [cbn [cur_rows]; exact Hlen | exact E | right; exact Hrows|].
      exists files. split; [exact Hr|]. split; [|exact Hf].
      rewrite Hc. cbn [cur_rows concat map]. unfold rows. rewrite app_assoc. reflexivity.
Qed.

(* ================================================================== 2.x path: chunks cut by break_stream *)
Definition singles (ps : list batch) : list (list batch) := map (fun p => [p]) ps.

Lemma concat_singles (ps : list batch) : concat (map (@concat A) (singles ps)) = concat ps.
Proof.
  induction ps as [|p ps IH]; [reflexivity|].
  cbn [singles map concat] in *. rewrite app_nil_r. f_equal. exact IH.
Qed.

Lemma flat_ok_bounds (max : nat) : forall (ps : list batch) off, flat_ok max off ps ->
  Forall (fun c => concat c <> [] /\ length (concat c) <= max) (singles ps).
Proof.
  induction ps as [|p ps IH]; intros off H; [constructor|].
  cbn [flat_ok] in H. destruct H as (Hne & Hw & H).
  cbn [singles map]. constructor; [|exact (IH _ H)].
  cbn [concat]. rewrite app_nil_r. split; [exact Hne | lia].
Qed.

(* the byte oracle does not fire on chunks k .. k+len-1: the files are aligned with the cuts *)
Lemma roll_exact_v2 (max : nat) (full : nat -> bool) :
  0 < max -> (N.of_nat max < two32)%N ->
  forall (ps : list batch) (off k : nat) (cur : option (list A)) (done : list (list A)),
    flat_ok max off ps ->
    (forall j, k <= j < k + length ps -> full j = false) ->
    length (cur_rows cur) = off mod max -> cur_ok cur ->
    exists files,
      roll (N.of_nat max) full k (map OVal (singles ps)) cur (N.of_nat (off mod max)) done = Ok (done ++ files) /\
      concat files = cur_rows cur ++ concat ps /\
      Forall (fun f => f <> [] /\ length f <= max) files /\
      Forall (fun f => length f = max) (removelast files).
Proof.
  intros Hmax H32. induction ps as [|p ps IH]; intros off k cur done Hfl Hfull Hlen Hcur.
  - cbn [singles map roll concat]. pose proof (Nat.mod_upper_bound off max ltac:(lia)) as Hub.
    destruct cur as [r|].
    + exists [r]. split; [reflexivity|]. split; [cbn [concat cur_rows]; rewrite !app_nil_r; reflexivity|].
      split; [|constructor].
      constructor; [|constructor]. split; [destruct Hcur as [E|E]; [discriminate | exact E]|].
      cbn [cur_rows] in Hlen. lia.
    + exists []. split; [rewrite app_nil_r; reflexivity|]. split; [reflexivity|]. split; constructor.
  - cbn [flat_ok] in Hfl. destruct Hfl as (Hne & Hw & Hfl).
    cbn [singles map roll]. fold (singles ps). fold (cur_rows cur).
    assert (Hc1 : concat [p] = p) by (cbn [concat]; apply app_nil_r).
    rewrite count_chunk_ok by (rewrite Hc1; lia). cbn [obind]. rewrite Hc1.
    set (rows := cur_rows cur ++ p).
    assert (Hrows : rows <> []).
    { unfold rows. intro E. apply app_eq_nil in E. destruct E as [_ E]. exact (Hne E). }
    assert (Hrl : length rows = off mod max + length p) by (unfold rows; rewrite app_length; lia).
    assert (Hfk : full k = false) by (apply Hfull; cbn [length]; lia).
    rewrite Hfk, orb_false_r.
    destruct (N.of_nat max <=? N.of_nat (off mod max) + N.of_nat (length p))%N eqn:E.
    + apply N.leb_le in E. assert (Hfullrows : off mod max + length p = max) by lia.
      pose proof (mod_add_full max off (length p) Hmax Hfullrows) as Hz.
      destruct (IH (off + length p) (S k) None (done ++ [rows]) Hfl) as (files & Hr & Hc & Hf & Hx).
      * intros j Hj. apply Hfull. cbn [length]. lia.
      * rewrite Hz. reflexivity.
      * left; reflexivity.
      * rewrite Hz in Hr. change (N.of_nat 0) with 0%N in Hr.
        exists (rows :: files). split; [rewrite Hr, <- app_assoc; reflexivity|].
        split; [cbn [concat]; rewrite Hc; cbn [cur_rows app]; unfold rows; rewrite app_assoc; reflexivity|].
        split; [constructor; [split; [exact Hrows | lia] | exact Hf]|].
        apply Forall_removelast_cons; [intros _; lia | exact Hx].
    + apply N.leb_gt in E. assert (Hsmall : off mod max + length p < max) by lia.
      pose proof (mod_add_small max off (length p) Hmax Hsmall) as Hm.
      destruct (IH (off + length p) (S k) (Some rows) done Hfl) as (files & Hr & Hc & Hf & Hx).
      * intros j Hj. apply Hfull. cbn [length]. lia.
      * cbn [cur_rows]. rewrite Hm. exact Hrl.
      * right. exact Hrows.
      * rewrite Hm in Hr. rewrite Nat2N.inj_add in Hr.
        exists files. split; [exact Hr|]. split; [|split; assumption].
        rewrite Hc. cbn [cur_rows concat]. unfold rows. rewrite app_assoc. reflexivity.
Qed.

(* ================================================================== legacy path: chunks of exactly g rows *)
Lemma chunks_of_nil_inv (g : nat) (out : list (list A)) : chunks_of g [] out -> out = [].
Proof. intro H. inversion H as [|R o HR Hc]; [reflexivity | congruence]. Qed.

Lemma roll_legacy (max g : nat) (full : nat -> bool) :
  0 < g -> g <= max -> (N.of_nat max + N.of_nat g <= two32)%N ->
  forall (cs : list (list batch)) (R : list A) (k : nat) (cur : option (list A)) (done : list (list A)),
    chunks_of g R (map (@concat A) cs) ->
    length (cur_rows cur) < max -> length (cur_rows cur) mod g = 0 -> cur_ok cur ->
    exists files,
      roll (N.of_nat max) full k (map OVal cs) cur (N.of_nat (length (cur_rows cur))) done = Ok (done ++ files) /\
      concat files = cur_rows cur ++ R /\
      Forall (fun f => f <> [] /\ length f < max + g) files /\
      (max mod g = 0 -> Forall (fun f => length f <= max) files) /\
      ((forall j, k <= j < k + length cs -> full j = false) ->
       Forall (fun f => max <= length f /\ length f mod g = 0) (removelast files)).
Proof.
  intros Hg Hgm H32. induction cs as [|c cs IH]; intros R k cur done Hch Hlt Hmod Hcur.
  - cbn [map] in Hch. inversion Hch as [E1 E2|]; subst R.
    cbn [map roll]. destruct cur as [r|].
    + exists [r]. split; [reflexivity|]. split; [cbn [concat cur_rows]; rewrite !app_nil_r; reflexivity|].
      cbn [cur_rows] in Hlt. split; [constructor; [|constructor]; split; [destruct Hcur as [E|E]; [discriminate | exact E] | lia]|].
      split; [intros _; constructor; [lia | constructor] | intros _; constructor].
    + exists []. split; [rewrite app_nil_r; reflexivity|]. split; [reflexivity|]. split; [constructor|].
      split; intros _; constructor.
  - cbn [map] in Hch. inversion Hch as [|R' out HR Hch' E1 [E2 E3]]; subst R' out.
    cbn [map roll]. fold (cur_rows cur).
    symmetry in E2.
    assert (Hcl : length (concat c) = Nat.min g (length R)) by (rewrite E2; apply firstn_length).
    assert (Hcne : concat c <> []).
    { rewrite E2. destruct R as [|x R]; [congruence|]. destruct g; [lia|]. cbn [firstn]. discriminate. }
    rewrite count_chunk_ok by lia. cbn [obind].
    set (rows := cur_rows cur ++ concat c).
    assert (Hrows : rows <> []).
    { unfold rows. intro E. apply app_eq_nil in E. destruct E as [_ E]. exact (Hcne E). }
    assert (Hrl : length rows = length (cur_rows cur) + length (concat c)) by (unfold rows; apply app_length).
    assert (HRsplit : concat c ++ skipn g R = R) by (rewrite E2; apply firstn_skipn).
    (* is this the last chunk? *)
    destruct (Nat.le_gt_cases g (length R)) as [Hfullc|Hshort].
    + (* a whole group *)
      assert (Hcg : length (concat c) = g) by lia.
      destruct ((N.of_nat max <=? N.of_nat (length (cur_rows cur)) + N.of_nat (length (concat c)))%N || full k) eqn:E.
      * destruct (IH (skipn g R) (S k) None (done ++ [rows]) Hch') as (files & Hr & Hc & Hf & Hd & Hx);
          [cbn [cur_rows length]; lia | cbn [cur_rows length]; apply Nat.mod_0_l; lia | left; reflexivity|].
        cbn [cur_rows length] in Hr. change (N.of_nat 0) with 0%N in Hr. exists (rows :: files).
        split; [rewrite Hr, <- app_assoc; reflexivity|].
        split; [cbn [concat]; rewrite Hc; cbn [cur_rows app]; unfold rows; rewrite <- app_assoc, HRsplit; reflexivity|].
        split; [constructor; [split; [exact Hrows | lia] | exact Hf]|].
        split.
        -- intro Hdiv. constructor; [|exact (Hd Hdiv)].
           pose proof (multiple_room g (length (cur_rows cur)) max Hg Hmod Hdiv Hlt). lia.
        -- intro Hnf. apply Forall_removelast_cons.
           ++ intros _. assert (Hfk : full k = false) by (apply Hnf; cbn [length]; lia).
              rewrite Hfk, orb_false_r in E. apply N.leb_le in E.
              split; [lia|]. rewrite Hrl, Hcg. apply mod_add_same; assumption.
           ++ apply Hx. intros j Hj. apply Hnf. cbn [length]. lia.
      * apply orb_false_iff in E. destruct E as [E _]. apply N.leb_gt in E.
        destruct (IH (skipn g R) (S k) (Some rows) done Hch') as (files & Hr & Hc & Hf & Hd & Hx);
          [cbn [cur_rows]; lia | cbn [cur_rows]; rewrite Hrl, Hcg; apply mod_add_same; assumption | right; exact Hrows|].
        cbn [cur_rows] in Hr. rewrite Hrl, Nat2N.inj_add in Hr.
        exists files. split; [exact Hr|].
        split; [rewrite Hc; cbn [cur_rows]; unfold rows; rewrite <- app_assoc, HRsplit; reflexivity|].
        split; [exact Hf|]. split; [exact Hd|].
        intro Hnf. apply Hx. intros j Hj. apply Hnf. cbn [length]. lia.
    + (* the short last chunk *)
      assert (Hsk : skipn g R = []) by (apply skipn_all2; lia).
      rewrite Hsk in Hch'. apply chunks_of_nil_inv in Hch'.
      destruct cs as [|c2 cs2]; [|discriminate]. clear IH.
      assert (Hc : concat c = R) by (rewrite <- HRsplit, Hsk; symmetry; apply app_nil_r).
      exists [rows].
      split.
      { cbn [map roll].
        destruct ((N.of_nat max <=? N.of_nat (length (cur_rows cur)) + N.of_nat (length (concat c)))%N || full k);
          cbn [map roll]; reflexivity. }
      split; [cbn [concat]; rewrite app_nil_r; unfold rows; rewrite Hc; reflexivity|].
      split; [constructor; [split; [exact Hrows | lia] | constructor]|].
      split.
      * intro Hdiv. constructor; [|constructor].
        pose proof (multiple_room g (length (cur_rows cur)) max Hg Hmod Hdiv Hlt). lia.
      * intros _. constructor.
Qed.

(* ================================================================== a failing reader *)
(* a stream with an Err item and no fuel marker, whose chunks are within bounds, makes the loop return Err *)
Lemma roll_err (max32 : N) (B : nat) (full : nat -> bool) :
  (0 < max32)%N -> (max32 + N.of_nat B <= two32)%N ->
  forall (items : list (oitem (list batch))) (k : nat) (cur : option (list A)) (n : N) (done : list (list A)),
    no_fuel items -> 0 < oerrs items ->
    Forall (fun c => concat c <> [] /\ length (concat c) <= B) (ovals items) ->
    n = N.of_nat (length (cur_rows cur)) -> (n < max32)%N ->
    roll max32 full k items cur n done = Err.
Proof.
  intros Hmax HB. induction items as [|x items IH]; intros k cur n done Hnf He Hcs Hn Hlt.
  - cbn in He. lia.
  - destruct x as [c| |].
    + rewrite ovals_cons_val in Hcs. inversion Hcs as [|c' cs' [Hne Hle] Hcs']; subst c' cs'.
      rewrite oerrs_cons_val in He.
      assert (Hnf' : no_fuel items) by (intro Hin; apply Hnf; right; exact Hin).
      cbn [roll]. fold (cur_rows cur). rewrite count_chunk_ok by lia. cbn [obind].
      destruct ((max32 <=? n + N.of_nat (length (concat c)))%N || full k) eqn:E.
      * apply IH; [exact Hnf' | exact He | exact Hcs' | reflexivity | lia].
      * apply orb_false_iff in E. destruct E as [E _]. apply N.leb_gt in E.
        apply IH; [exact Hnf' | exact He | exact Hcs' | cbn [cur_rows]; rewrite app_length; lia | exact E].
    + reflexivity.
    + exfalso. apply Hnf. left. reflexivity.
Qed.

End RollProofs.

(* ================================================================== write_fragments_internal on an error-free reader *)
Section SplitProofs.
Context {A : Type}.
Notation batch := (Model_Chunker.batch A).

Lemma oks_map_IBatch (bs : list batch) : oks (map IBatch bs) = bs.
Proof. induction bs as [|b bs IH]; [reflexivity|]. cbn [map oks]. f_equal. exact IH. Qed.

Lemma ierrs_map_IBatch (bs : list batch) : ierrs (map IBatch bs) = 0.
Proof. induction bs as [|b bs IH]; [reflexivity|]. cbn [map ierrs]. exact IH. Qed.

Lemma map_wrap_single (ps : list batch) : map wrap_single (map OVal ps) = map OVal (singles ps).
Proof. induction ps as [|p ps IH]; [reflexivity|]. cbn [map singles wrap_single] in *. f_equal. exact IH. Qed.

Lemma fires_within_false (full : nat -> bool) (n : nat) :
  fires_within full n = false -> forall j, 0 <= j < 0 + n -> full j = false.
Proof.
  intros H j Hj. destruct (full j) eqn:E; [|reflexivity].
  assert (Ht : fires_within full n = true).
  { unfold fires_within. apply existsb_exists. exists j. split; [apply in_seq; lia | exact E]. }
  congruence.
Qed.

Lemma write_fragments_split (legacy : bool) (max g : nat) (full : nat -> bool) (bs : list (list A)) :
  0 < max -> 0 < g -> (2 * N.of_nat max <= two32)%N ->
  exists (files : list (list A)) (chunks : list (list batch)),
    buffered_reader legacy max (Nat.min g max) (map IBatch bs) = Ok (map OVal chunks) /\
    write_fragments_internal legacy max g full (map IBatch bs) = Ok files /\
    concat files = concat bs /\
    Forall (fun f => f <> []) files /\
    Forall (fun f => length f < 2 * max) files /\
    Forall (fun f => physical_rows f = N.of_nat (length f)) files /\
    (Known_C11_rows_limit_byte_roll legacy full (length chunks) = false ->
     Known_C11_rows_limit_legacy_group legacy max g = false ->
     Forall (fun f => length f <= max) files) /\
    (fires_within full (length chunks) = false ->
     Forall (fun f => if legacy then max <= length f < max + Nat.min g max /\ length f mod Nat.min g max = 0
                      else length f = max) (removelast files)).
Proof.
  intros Hmax Hg H32.
  assert (Hw : wrap32 (N.of_nat max) = N.of_nat max) by (apply wrap32_small; lia).
  assert (Hphys : forall files : list (list A), Forall (fun f => length f < 2 * max) files ->
                  Forall (fun f => physical_rows f = N.of_nat (length f)) files).
  { intros files H. eapply Forall_impl; [|exact H]. cbn beta. intros f Hf. unfold physical_rows. apply wrap32_small. lia. }
  unfold write_fragments_internal, do_write_fragments.
  destruct legacy.
  - (* legacy: chunk_stream with the clamped group size *)
    set (g' := Nat.min g max). assert (Hg' : 0 < g') by (unfold g'; lia). assert (Hgm : g' <= max) by (unfold g'; lia).
    destruct (chunk_stream_correct g' (map IBatch bs) Hg') as (out & Ho & Hnf & Hch & _ & He).
    rewrite ierrs_map_IBatch in He. rewrite oks_map_IBatch in Hch.
    pose proof (only_vals out Hnf He) as Hout. set (cs := ovals out) in *.
    cbn [buffered_reader]. rewrite Ho, Hout. cbn [obind]. rewrite Hw.
    destruct (roll_legacy max g' full Hg' Hgm ltac:(lia) cs (concat bs) 0 None [] Hch) as (files & Hr & Hc & Hf & Hd & Hx);
      [cbn [cur_rows length]; lia | cbn [cur_rows length]; apply Nat.mod_0_l; lia | left; reflexivity|].
    cbn [cur_rows length app] in Hr, Hc. change (N.of_nat 0) with 0%N in Hr.
    exists files, cs. split; [reflexivity|]. split; [exact Hr|]. split; [exact Hc|].
    assert (Hlt : Forall (fun f => length f < 2 * max) files).
    { eapply Forall_impl; [|exact Hf]. cbn beta. intros f [_ H]. lia. }
    split; [eapply Forall_impl; [|exact Hf]; cbn beta; intros f [H _]; exact H|].
    split; [exact Hlt|]. split; [exact (Hphys files Hlt)|]. split.
    + intros _ Hk. apply Hd. unfold Known_C11_rows_limit_legacy_group in Hk. cbn [andb] in Hk.
      apply negb_false_iff, Nat.eqb_eq in Hk. exact Hk.
    + intro Hnf'. pose proof (fires_within_false full (length cs) Hnf') as Hno.
      specialize (Hx Hno). clear - Hx Hf.
      assert (Hall : Forall (fun f => f <> [] /\ length f < max + g') (removelast files)).
      { clear Hx. induction Hf as [|f files Hf1 Hf2 IH]; [constructor|].
        destruct files as [|f2 files]; [constructor|]. rewrite removelast_cons2 by discriminate.
        constructor; [exact Hf1 | exact IH]. }
      revert Hall Hx. generalize (removelast files) as l. induction l as [|f l IH]; intros Hall Hx; [constructor|].
      inversion Hall; subst. inversion Hx; subst. constructor; [lia | apply IH; assumption].
  - (* 2.x: break_stream *)
    destruct (break_stream_correct max (map IBatch bs) Hmax) as (out & groups & Ho & Hnf & He & Hv & HF & Hgr).
    rewrite ierrs_map_IBatch in He. rewrite oks_map_IBatch in HF.
    pose proof (only_vals out Hnf He) as Hout. set (ps := ovals out) in *.
    pose proof (groups_flat max groups 0 Hgr) as Hfl. rewrite <- Hv in Hfl.
    assert (Hcat : concat ps = concat bs) by (rewrite Hv; apply Forall2_concat_map; exact HF).
    cbn [buffered_reader]. rewrite Ho, Hout. cbn [omap obind]. rewrite map_wrap_single, Hw.
    destruct (roll_general (N.of_nat max) max full ltac:(lia) ltac:(lia) (singles ps) 0 None 0%N []
                (flat_ok_bounds max ps 0 Hfl)) as (files & Hr & Hc & Hf);
      [reflexivity | lia | left; reflexivity|].
    cbn [cur_rows app] in Hr, Hc. rewrite concat_singles, Hcat in Hc.
    exists files, (singles ps). split; [reflexivity|]. split; [exact Hr|]. split; [exact Hc|].
    assert (Hlt : Forall (fun f => length f < 2 * max) files).
    { eapply Forall_impl; [|exact Hf]. cbn beta. intros f [_ H]. lia. }
    split; [eapply Forall_impl; [|exact Hf]; cbn beta; intros f [H _]; exact H|].
    split; [exact Hlt|]. split; [exact (Hphys files Hlt)|].
    assert (Hexact : fires_within full (length (singles ps)) = false ->
                     Forall (fun f => f <> [] /\ length f <= max) files /\ Forall (fun f => length f = max) (removelast files)).
    { intro Hnf'. pose proof (fires_within_false full _ Hnf') as Hno. unfold singles in Hno. rewrite map_length in Hno.
      destruct (roll_exact_v2 max full Hmax ltac:(lia) ps 0 0 None [] Hfl Hno) as (files2 & Hr2 & _ & Hf2 & Hx2);
        [cbn [cur_rows length]; symmetry; apply Nat.mod_0_l; lia | left; reflexivity|].
      rewrite Nat.mod_0_l in Hr2 by lia. change (N.of_nat 0) with 0%N in Hr2.
      rewrite Hr in Hr2. cbn [app] in Hr2. injection Hr2 as <-. split; assumption. }
    split.
    + intros Hk _. unfold Known_C11_rows_limit_byte_roll in Hk. cbn [negb andb] in Hk.
      destruct (Hexact Hk) as [H _]. eapply Forall_impl; [|exact H]. cbn beta. intros f [_ Hle]. exact Hle.
    + intro Hnf'. destruct (Hexact Hnf') as [_ H]. exact H.
Qed.

Lemma ovals_wrap_single (l : list (oitem batch)) : ovals (map wrap_single l) = singles (ovals l).
Proof.
  induction l as [|x l IH]; [reflexivity|]. destruct x as [b| |]; cbn [map wrap_single]; [|exact IH | exact IH].
  rewrite !ovals_cons_val. cbn [singles map]. f_equal. exact IH.
Qed.

Lemma oerrs_wrap_single (l : list (oitem batch)) : oerrs (map wrap_single l) = oerrs l.
Proof.
  induction l as [|x l IH]; [reflexivity|]. destruct x as [b| |]; cbn [map wrap_single].
  - rewrite !oerrs_cons_val. exact IH.
  - rewrite !oerrs_cons_err. f_equal. exact IH.
  - exact IH.
Qed.

Lemma no_fuel_wrap_single (l : list (oitem batch)) : no_fuel l -> no_fuel (map wrap_single l).
Proof.
  intros H Hin. apply in_map_iff in Hin. destruct Hin as (x & Hx & Hin). destruct x; try discriminate. exact (H Hin).
Qed.

Lemma has_err_ierrs (l : list (item A)) : has_err l = true -> 0 < ierrs l.
Proof.
  induction l as [|x l IH]; intro H; [discriminate|]. destruct x as [b|]; cbn [has_err ierrs] in *; [exact (IH H) | lia].
Qed.

Lemma chunks_of_bounds (g : nat) : 0 < g -> forall (cs : list (list batch)) (R : list A),
  chunks_of g R (map (@concat A) cs) -> Forall (fun c => concat c <> [] /\ length (concat c) <= g) cs.
Proof.
  intros Hg cs R H.
  pose proof (chunks_of_nonempty g R _ Hg H) as Hne. pose proof (chunks_of_le g R _ H) as Hle.
  rewrite Forall_map in Hne, Hle. rewrite Forall_forall in *. intros c Hc. split; [exact (Hne c Hc) | exact (Hle c Hc)].
Qed.

(* a reader that fails somewhere makes the whole write fail: nothing reaches build_manifest *)
Lemma write_fragments_err (legacy : bool) (max g : nat) (full : nat -> bool) (inner : list (item A)) :
  0 < max -> 0 < g -> (2 * N.of_nat max <= two32)%N -> has_err inner = true ->
  write_fragments_internal legacy max g full inner = Err.
Proof.
  intros Hmax Hg H32 Herr. pose proof (has_err_ierrs inner Herr) as Hie.
  assert (Hw : wrap32 (N.of_nat max) = N.of_nat max) by (apply wrap32_small; lia).
  unfold write_fragments_internal, do_write_fragments. destruct legacy.
  - set (g' := Nat.min g max). assert (Hg' : 0 < g') by (unfold g'; lia). assert (Hgm : g' <= max) by (unfold g'; lia).
    destruct (chunk_stream_correct g' inner Hg') as (out & Ho & Hnf & Hch & _ & He).
    cbn [buffered_reader]. rewrite Ho. cbn [obind]. rewrite Hw.
    apply (roll_err (N.of_nat max) g' full); [lia | lia | exact Hnf | lia | | reflexivity | lia].
    exact (chunks_of_bounds g' Hg' _ _ Hch).
  - destruct (break_stream_correct max inner Hmax) as (out & groups & Ho & Hnf & He & Hv & HF & Hgr).
    pose proof (groups_flat max groups 0 Hgr) as Hfl. rewrite <- Hv in Hfl.
    cbn [buffered_reader]. rewrite Ho. cbn [omap obind]. rewrite Hw.
    apply (roll_err (N.of_nat max) max full); [lia | lia | apply no_fuel_wrap_single; exact Hnf | rewrite oerrs_wrap_single; lia | | reflexivity | lia].
    rewrite ovals_wrap_single. exact (flat_ok_bounds max _ 0 Hfl).
Qed.

End SplitProofs.

(* ================================================================== build_manifest, Append / Overwrite *)
Lemma ids_max_spec (l : list N) :
  match ids_max l with
  | None => l = []
  | Some mx => In mx l /\ Forall (fun x => (x <= mx)%N) l
  end.
Proof.
  induction l as [|x l IH]; [reflexivity|].
  cbn [ids_max]. destruct (ids_max l) as [y|].
  - destruct IH as [Hin Hall]. destruct (N.max_spec x y) as [[Hlt ->]|[Hle ->]].
    + split; [right; exact Hin|]. constructor; [lia | exact Hall].
    + split; [left; reflexivity|]. constructor; [lia|].
      eapply Forall_impl; [|exact Hall]. cbn beta. intros z Hz. lia.
  - subst l. split; [left; reflexivity|]. constructor; [lia | constructor].
Qed.

Section TableProofs.
Context {A : Type}.
Notation frag := (Model_Write.frag (list A)).
Notation manifest := (Model_Write.manifest (list A)).

(* new fragments numbered from [next] *)
Fixpoint number (next : N) (files : list (list A)) : list frag :=
  match files with
  | [] => []
  | f :: r => {| fr_id := next; fr_data := f |} :: number (next + 1) r
  end.

Lemma number_data (files : list (list A)) : forall next, map fr_data (number next files) = files.
Proof. induction files as [|f r IH]; intro next; [reflexivity|]. cbn [number map fr_data]. f_equal. apply IH. Qed.

(* ids at least [lo], strictly increasing *)
Fixpoint inc_from (lo : N) (l : list frag) : Prop :=
  match l with
  | [] => True
  | f :: r => (lo <= fr_id f)%N /\ inc_from (fr_id f + 1) r
  end.

Lemma number_inc (files : list (list A)) : forall next, inc_from next (number next files).
Proof. induction files as [|f r IH]; intro next; [exact I|]. cbn [number inc_from fr_id]. split; [lia | apply IH]. Qed.

Lemma number_lt (files : list (list A)) : forall next,
  Forall (fun f => (fr_id f < next + N.of_nat (length files))%N) (number next files).
Proof.
  induction files as [|f r IH]; intro next; [constructor|].
  cbn [number length]. constructor; [cbn [fr_id]; lia|].
  eapply Forall_impl; [|exact (IH (next + 1)%N)]. cbn beta. intros x Hx. lia.
Qed.

Lemma inc_from_weaken (l : list frag) : forall lo lo', (lo' <= lo)%N -> inc_from lo l -> inc_from lo' l.
Proof. destruct l as [|f r]; intros lo lo' Hle H; [exact I|]. cbn [inc_from] in *. destruct H as [H1 H2]. split; [lia | exact H2]. Qed.

Lemma inc_from_app (l1 l2 : list frag) : forall lo b,
  inc_from lo l1 -> Forall (fun f => (fr_id f < b)%N) l1 -> inc_from b l2 -> (lo <= b)%N -> inc_from lo (l1 ++ l2).
Proof.
  induction l1 as [|f r IH]; intros lo b H1 Hb H2 Hle.
  - cbn [app]. exact (inc_from_weaken l2 b lo Hle H2).
  - cbn [app inc_from] in *. destruct H1 as [Ha Hr]. inversion Hb as [|? ? Hfb Hrb]; subst.
    split; [exact Ha|]. apply (IH (fr_id f + 1)%N b Hr Hrb H2). lia.
Qed.

Lemma sort_inc (l : list frag) : forall lo, inc_from lo l -> sort_by_id l = l.
Proof.
  induction l as [|f r IH]; intros lo H; [reflexivity|].
  cbn [inc_from] in H. destruct H as [_ Hr].
  unfold sort_by_id in *. cbn [fold_right]. rewrite (IH _ Hr).
  destruct r as [|x r']; [reflexivity|].
  cbn [inc_from] in Hr. destruct Hr as [Hx _].
  cbn [insert_by_id]. destruct (fr_id x <? fr_id f)%N eqn:E; [apply N.ltb_lt in E; lia | reflexivity].
Qed.

Lemma fragments_with_ids_new (files : list (list A)) : forall next,
  (next + N.of_nat (length files) < two64)%N ->
  fragments_with_ids (new_frags files) next = Ok (number next files, (next + N.of_nat (length files))%N).
Proof.
  induction files as [|f r IH]; intros next H.
  - cbn [new_frags map fragments_with_ids number length]. f_equal. f_equal. lia.
  - cbn [length] in H. cbn [new_frags map fragments_with_ids fr_id fr_data]. rewrite N.eqb_refl.
    destruct (two64 <=? next + 1)%N eqn:E; [apply N.leb_le in E; lia|].
    fold (new_frags r). rewrite IH by lia. cbn [obind number length]. f_equal. f_equal. lia.
Qed.

(* manifest invariant; K bounds every id ever handed out *)
Definition wf (m : manifest) (K : N) : Prop :=
  inc_from 0 (m_frags m) /\
  match m_max_fragment_id m with
  | None => m_frags m = []
  | Some c => Forall (fun f => (fr_id f <= c)%N) (m_frags m) /\ (c < K)%N
  end.

Lemma wf_mono (m : manifest) (K K' : N) : (K <= K')%N -> wf m K -> wf m K'.
Proof.
  intros Hle [H1 H2]. split; [exact H1|]. destruct (m_max_fragment_id m); [|exact H2].
  destruct H2 as [H2 H3]. split; [exact H2 | lia].
Qed.

Lemma map_fr_id_nil (l : list frag) : map fr_id l = [] -> l = [].
Proof. destruct l; [reflexivity | discriminate]. Qed.

Lemma update_max_spec (final : list frag) (stored : option N) (K : N) :
  Forall (fun f => (fr_id f < K)%N) final -> (K <= two32)%N ->
  match stored with Some c => (c < K)%N | None => True end ->
  exists mx', update_max_fragment_id final stored = Ok mx' /\
    match mx' with
    | None => final = [] /\ stored = None
    | Some c' => Forall (fun f => (fr_id f <= c')%N) final /\ (c' < K)%N
    end.
Proof.
  intros Hall HK Hst. unfold update_max_fragment_id.
  pose proof (ids_max_spec (map fr_id final)) as Hs. destruct (ids_max (map fr_id final)) as [mx|].
  - destruct Hs as [Hin Hle].
    assert (Hmx : (mx < K)%N).
    { apply in_map_iff in Hin. destruct Hin as (f & <- & Hf). rewrite Forall_forall in Hall. exact (Hall f Hf). }
    assert (Hle' : Forall (fun f => (fr_id f <= mx)%N) final).
    { rewrite Forall_forall in *. intros f Hf. apply Hle. apply in_map. exact Hf. }
    destruct (two32 <=? mx)%N eqn:E; [apply N.leb_le in E; lia|].
    destruct stored as [c|].
    + eexists. split; [reflexivity|]. destruct (c <? mx)%N eqn:E2.
      * split; [exact Hle' | exact Hmx].
      * apply N.ltb_ge in E2. split; [|exact Hst]. eapply Forall_impl; [|exact Hle']. cbn beta. intros f Hf. lia.
    + eexists. split; [reflexivity|]. split; [exact Hle' | exact Hmx].
  - apply map_fr_id_nil in Hs. subst final. exists stored. split; [reflexivity|].
    destruct stored as [c|]; [split; [constructor | exact Hst] | split; reflexivity].
Qed.

Lemma abs_app (l1 l2 : list frag) : concat (map fr_data (l1 ++ l2)) = concat (map fr_data l1) ++ concat (map fr_data l2).
Proof. rewrite map_app, concat_app. reflexivity. Qed.

Lemma build_manifest_append (m : manifest) (files : list (list A)) (K : N) :
  wf m K -> (K + N.of_nat (length files) <= two32)%N ->
  exists m', build_manifest (Some m) (OpAppend (new_frags files)) = Ok m' /\
    wf m' (K + N.of_nat (length files)) /\
    abs_manifest m' = abs_manifest m ++ concat files /\
    m_version m' = (m_version m + 1)%N.
Proof.
  intros [Hinc Hst] HK. unfold build_manifest.
  (* the first id *)
  set (start := match m_max_fragment_id m with Some c => (c + 1)%N | None => 0%N end).
  assert (Hstart : (start <= K)%N /\ Forall (fun f => (fr_id f < start)%N) (m_frags m)).
  { unfold start. destruct (m_max_fragment_id m) as [c|].
    - destruct Hst as [H1 H2]. split; [lia|]. eapply Forall_impl; [|exact H1]. cbn beta. intros f Hf. lia.
    - rewrite Hst. split; [lia | constructor]. }
  destruct Hstart as [HsK Hold].
  assert (Hmf : match max_fragment_id m with
                | Some id => if (two64 <=? id + 1)%N then Panic else Ok (id + 1)%N
                | None => Ok 0%N
                end = Ok start).
  { unfold max_fragment_id, start. destruct (m_max_fragment_id m) as [c|].
    - destruct Hst as [_ Hc]. destruct (two64 <=? c + 1)%N eqn:E; [apply N.leb_le in E; unfold two64, two32 in *; lia | reflexivity].
    - rewrite Hst. reflexivity. }
  rewrite Hmf. cbn [obind].
  rewrite fragments_with_ids_new by (unfold two64, two32 in *; lia). cbn [obind].
  set (final := m_frags m ++ number start files).
  assert (Hfinc : inc_from 0 final).
  { unfold final. apply inc_from_app with (b := start); [exact Hinc | exact Hold | apply number_inc | lia]. }
  rewrite (sort_inc final 0 Hfinc).
  assert (Hflt : Forall (fun f => (fr_id f < K + N.of_nat (length files))%N) final).
  { unfold final. apply Forall_app. split.
    - eapply Forall_impl; [|exact Hold]. cbn beta. intros f Hf. lia.
    - eapply Forall_impl; [|exact (number_lt files start)]. cbn beta. intros f Hf. lia. }
  destruct (update_max_spec final (m_max_fragment_id m) (K + N.of_nat (length files))%N Hflt HK) as (mx' & Hu & Hm).
  { destruct (m_max_fragment_id m) as [c|]; [destruct Hst as [_ Hc]; lia | exact I]. }
  rewrite Hu. cbn [obind]. eexists. split; [reflexivity|].
  split; [|split; [|reflexivity]].
  - split; [exact Hfinc|]. cbn [m_max_fragment_id m_frags]. destruct mx' as [c'|]; [exact Hm | destruct Hm as [Hm _]; exact Hm].
  - unfold abs_manifest. cbn [m_frags]. unfold final. rewrite abs_app, number_data. reflexivity.
Qed.

Lemma build_manifest_overwrite (cur : option manifest) (files : list (list A)) (K : N) :
  match cur with Some m => wf m K | None => True end -> (K + N.of_nat (length files) <= two32)%N ->
  exists m', build_manifest cur (OpOverwrite (new_frags files)) = Ok m' /\
    wf m' (K + N.of_nat (length files)) /\
    abs_manifest m' = concat files.
Proof.
  intros Hwf HK.
  assert (Hbody : forall stored version,
    match stored with Some c => (c < K)%N | None => True end ->
    exists m', obind (Ok 0%N) (fun fragment_id =>
        obind (obind (fragments_with_ids (new_frags files) fragment_id) (fun '(nf, _) => Ok nf)) (fun final =>
        obind (update_max_fragment_id (sort_by_id final) stored) (fun mx =>
        Ok {| m_version := version; m_frags := sort_by_id final; m_max_fragment_id := mx |}))) = Ok m' /\
      wf m' (K + N.of_nat (length files)) /\ abs_manifest m' = concat files).
  { intros stored version Hst. cbn [obind].
    rewrite fragments_with_ids_new by (unfold two64, two32 in *; lia). cbn [obind].
    pose proof (number_inc files 0) as Hfinc. rewrite (sort_inc _ 0 Hfinc).
    assert (Hflt : Forall (fun f => (fr_id f < K + N.of_nat (length files))%N) (number 0 files)).
    { eapply Forall_impl; [|exact (number_lt files 0)]. cbn beta. intros f Hf. lia. }
    destruct (update_max_spec (number 0 files) stored (K + N.of_nat (length files))%N Hflt HK) as (mx' & Hu & Hm).
    { destruct stored as [c|]; [lia | exact I]. }
    rewrite Hu. cbn [obind]. eexists. split; [reflexivity|]. split.
    - split; [exact Hfinc|]. cbn [m_max_fragment_id m_frags]. destruct mx' as [c'|]; [exact Hm | destruct Hm as [Hm _]; exact Hm].
    - unfold abs_manifest. cbn [m_frags]. rewrite number_data. reflexivity. }
  unfold build_manifest. destruct cur as [m|].
  - destruct Hwf as [_ Hst]. apply Hbody. destruct (m_max_fragment_id m) as [c|]; [destruct Hst as [_ Hc]; exact Hc | exact I].
  - apply Hbody. exact I.
Qed.

(* ================================================================== one call, histories *)
Lemma has_err_false (l : list (item A)) : has_err l = false -> l = map IBatch (oks l).
Proof.
  induction l as [|x l IH]; intro H; [reflexivity|].
  destruct x as [b|]; [|discriminate]. cbn [has_err] in H. cbn [oks map]. f_equal. exact (IH H).
Qed.

Definition req_ok (r : wreq A) : Prop :=
  0 < w_max r /\ (2 * N.of_nat (w_max r) <= two32)%N /\ 0 < w_group r.

Definition total_rows (h : list (wreq A)) : nat := list_sum (map (fun r => length (req_rows r)) h).

(* concrete state / abstract table *)
Definition rel (st : option (tstate A)) (t : option (list A)) (K : N) : Prop :=
  match st, t with
  | None, None => True
  | Some (m, _), Some rows => wf m K /\ abs_manifest m = rows
  | _, _ => False
  end.

Lemma exec_write_step (st : option (tstate A)) (t : option (list A)) (K : N) (r : wreq A) :
  rel st t K -> req_ok r -> (K + N.of_nat (length (req_rows r)) <= two32)%N ->
  match exec_write st r with
  | Ok st' => rel (Some st') (spec_step t r) (K + N.of_nat (length (req_rows r)))
  | Err => spec_step t r = t
  | Panic => False
  end.
Proof.
  intros Hrel (Hmax & H32 & Hg) HK.
  destruct (has_err (w_data r)) eqn:Herr.
  { (* the reader fails: the call fails before anything is committed *)
    assert (Hs : spec_step t r = t) by (unfold spec_step; rewrite Herr; reflexivity).
    unfold exec_write.
    assert (Hw : forall legacy, write_fragments_internal legacy (w_max r) (w_group r) (w_full r) (w_data r) = Err)
      by (intro legacy; apply write_fragments_err; assumption).
    destruct st as [x|]; destruct (w_mode r); cbv beta iota zeta; try rewrite Hw; try exact Hs; cbn [obind]; exact Hs. }
  pose proof (has_err_false _ Herr) as Hdata.
  assert (Hwrite : forall legacy, exists files,
            write_fragments_internal legacy (w_max r) (w_group r) (w_full r) (w_data r) = Ok files /\
            concat files = req_rows r /\ length files <= length (req_rows r)).
  { intro legacy. rewrite Hdata.
    destruct (write_fragments_split legacy (w_max r) (w_group r) (w_full r) (oks (w_data r)) Hmax Hg H32)
      as (files & chunks & _ & Hw & Hc & Hne & _).
    exists files. split; [exact Hw|]. unfold req_rows. split; [exact Hc|]. rewrite <- Hc. apply nonempty_count. exact Hne. }
  unfold spec_step. rewrite Herr.
  destruct st as [[m l]|]; destruct t as [rows|]; cbn [rel] in Hrel; try contradiction.
  - destruct Hrel as [Hwf Habs].
    destruct (w_mode r) eqn:Hmode.
    + (* create over an existing table *)
      unfold exec_write. rewrite Hmode. reflexivity.
    + (* append *)
      unfold exec_write. rewrite Hmode. cbv beta iota zeta.
      set (lg := resolve_legacy _ r). destruct (Hwrite lg) as (files & Hw & Hc & Hlen). rewrite Hw. cbn [obind].
      unfold resolve_mode. rewrite Hmode. cbn [option_map fst].
      destruct (build_manifest_append m files K Hwf ltac:(lia)) as (m' & Hb & Hwf' & Habs' & _).
      rewrite Hb. cbn [obind rel]. split; [apply (wf_mono m' (K + N.of_nat (length files))); [lia | exact Hwf']|].
      rewrite Habs', Habs, Hc. reflexivity.
    + (* overwrite *)
      unfold exec_write. rewrite Hmode. cbv beta iota zeta.
      set (lg := resolve_legacy _ r). destruct (Hwrite lg) as (files & Hw & Hc & Hlen). rewrite Hw. cbn [obind].
      unfold resolve_mode. rewrite Hmode. cbn [option_map fst].
      destruct (build_manifest_overwrite (Some m) files K Hwf ltac:(lia)) as (m' & Hb & Hwf' & Habs').
      rewrite Hb. cbn [obind rel]. split; [apply (wf_mono m' (K + N.of_nat (length files))); [lia | exact Hwf']|].
      rewrite Habs', Hc. reflexivity.
  - (* no table yet: every mode creates *)
    assert (Hexec : exec_write None r =
                    obind (write_fragments_internal (resolve_legacy None r) (w_max r) (w_group r) (w_full r) (w_data r)) (fun files =>
                    obind (build_manifest None (OpOverwrite (new_frags files))) (fun m => Ok (m, resolve_legacy None r)))).
    { unfold exec_write, resolve_mode. destruct (w_mode r); reflexivity. }
    rewrite Hexec.
    set (lg := resolve_legacy _ r). destruct (Hwrite lg) as (files & Hw & Hc & Hlen). rewrite Hw. cbn [obind].
    destruct (build_manifest_overwrite None files K I ltac:(lia)) as (m' & Hb & Hwf' & Habs').
    rewrite Hb. cbn [obind rel].
    assert (Hres : rel (Some (m', lg)) (Some (req_rows r)) (K + N.of_nat (length (req_rows r)))).
    { cbn [rel]. split; [apply (wf_mono m' (K + N.of_nat (length files))); [lia | exact Hwf']|]. rewrite Habs', Hc. reflexivity. }
    destruct (w_mode r); exact Hres.
Qed.

Lemma rel_mono st t K K' : (K <= K')%N -> rel st t K -> rel st t K'.
Proof.
  intros Hle H. destruct st as [[m l]|]; destruct t as [rows|]; cbn [rel] in *; try exact H.
  destruct H as [H1 H2]. split; [exact (wf_mono m K K' Hle H1) | exact H2].
Qed.

Lemma run_history_spec : forall (h : list (wreq A)) st t K,
  rel st t K -> Forall req_ok h -> (K + N.of_nat (total_rows h) <= two32)%N ->
  exists st', run_history st h = Ok st' /\ rel st' (fold_left spec_step h t) (K + N.of_nat (total_rows h)).
Proof.
  induction h as [|r h IH]; intros st t K Hrel Hok HK.
  - exists st. split; [reflexivity|]. cbn [fold_left]. apply (rel_mono st t K); [lia | exact Hrel].
  - inversion Hok as [|? ? Hr Hh]; subst.
    assert (Htr : total_rows (r :: h) = length (req_rows r) + total_rows h) by reflexivity.
    rewrite Htr in HK |- *.
    pose proof (exec_write_step st t K r Hrel Hr ltac:(lia)) as Hstep.
    cbn [run_history fold_left].
    replace (K + N.of_nat (length (req_rows r) + total_rows h))%N with ((K + N.of_nat (length (req_rows r))) + N.of_nat (total_rows h))%N
      by lia.
    destruct (exec_write st r) as [st'| |].
    + apply IH; [exact Hstep | exact Hh | lia].
    + rewrite Hstep. apply IH; [|exact Hh | lia].
      apply (rel_mono st t K); [lia | exact Hrel].
    + contradiction.
Qed.

Definition table_rows (t : option (list A)) : list A := match t with Some rows => rows | None => [] end.

Lemma scan_is_model (h : list (wreq A)) :
  Forall req_ok h -> (N.of_nat (total_rows h) <= two32)%N ->
  exists st, run_history None h = Ok st /\
    abs_state st = table_rows (spec_history h) /\
    (st = None <-> spec_history h = None).
Proof.
  intros Hok HK.
  destruct (run_history_spec h None None 0%N I Hok ltac:(lia)) as (st & Hrun & Hrel).
  exists st. split; [exact Hrun|]. unfold spec_history.
  destruct st as [[m l]|]; destruct (fold_left spec_step h None) as [rows|]; cbn [rel] in Hrel; try contradiction.
  - destruct Hrel as [_ Habs]. split; [exact Habs|]. split; discriminate.
  - split; [reflexivity|]. split; reflexivity.
Qed.

(* the abstract table in closed form: the rows of the last overwrite followed by the later appends *)
Lemma spec_appends (apps : list (wreq A)) : forall rows,
  Forall (fun r => w_mode r = MAppend /\ has_err (w_data r) = false) apps ->
  fold_left spec_step apps (Some rows) = Some (rows ++ concat (map req_rows apps)).
Proof.
  induction apps as [|r apps IH]; intros rows H; [cbn [fold_left map concat]; rewrite app_nil_r; reflexivity|].
  inversion H as [|? ? [Hm He] Hr]; subst. cbn [fold_left]. unfold spec_step at 2. rewrite He, Hm.
  rewrite (IH _ Hr). cbn [map concat]. rewrite app_assoc. reflexivity.
Qed.

Lemma spec_since_last_overwrite (h1 : list (wreq A)) (ow : wreq A) (apps : list (wreq A)) :
  w_mode ow = MOverwrite -> has_err (w_data ow) = false ->
  Forall (fun r => w_mode r = MAppend /\ has_err (w_data r) = false) apps ->
  spec_history (h1 ++ ow :: apps) = Some (req_rows ow ++ concat (map req_rows apps)).
Proof.
  intros Hm He Happs. unfold spec_history. rewrite fold_left_app. cbn [fold_left].
  assert (Hs : spec_step (fold_left spec_step h1 None) ow = Some (req_rows ow)).
  { set (t1 := fold_left spec_step h1 None). unfold spec_step. rewrite He, Hm. destruct t1; reflexivity. }
  rewrite Hs. apply spec_appends. exact Happs.
Qed.

End TableProofs.

(* ================================================================== the two classes where max_rows_per_file is exceeded *)
Lemma rows_limit_byte_roll_witness :
  exists (full : nat -> bool) (bs : list (list unit)) (max g : nat) files chunks,
    buffered_reader false max (Nat.min g max) (map IBatch bs) = Ok (map OVal chunks) /\
    Known_C11_rows_limit_byte_roll false full (length chunks) = true /\
    write_fragments_internal false max g full (map IBatch bs) = Ok files /\
    ~ Forall (fun f => length f <= max) files.
Proof.
  exists (fun k => Nat.eqb k 0), [repeat tt 6; repeat tt 6; repeat tt 6], 10, 1024.
  exists [repeat tt 6; repeat tt 12], [[repeat tt 6]; [repeat tt 4]; [repeat tt 2]; [repeat tt 6]].
  split; [vm_compute; reflexivity|]. split; [vm_compute; reflexivity|].
  split; [vm_compute; reflexivity|].
  intro H. inversion H as [|? ? _ H2]; subst. inversion H2 as [|? ? H3 _]; subst. cbn [length] in H3. lia.
Qed.

Lemma rows_limit_legacy_group_witness :
  exists (bs : list (list unit)) (max g : nat) files,
    Known_C11_rows_limit_legacy_group true max g = true /\
    write_fragments_internal true max g (fun _ => false) (map IBatch bs) = Ok files /\
    ~ Forall (fun f => length f <= max) files.
Proof.
  exists [repeat tt 3; repeat tt 5; repeat tt 8; repeat tt 3; repeat tt 5], 10, 3.
  exists [repeat tt 12; repeat tt 12]. split; [vm_compute; reflexivity|]. split; [vm_compute; reflexivity|].
  intro H. inversion H as [|? ? H1 _]; subst. cbn [length] in H1. lia.
Qed.
