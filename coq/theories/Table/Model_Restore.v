(* Model of the manifest-level bookkeeping of stable row ids and row version sequences:
     rust/lance/src/dataset/transaction.rs   Transaction::build_manifest (Append / Delete / Update / Overwrite /
                                             Rewrite / ReserveFragments arms), assign_row_ids, fragments_with_ids,
                                             handle_rewrite_fragments, restore_old_manifest
     rust/lance/src/io/commit.rs             commit_transaction: the Restore arm (next_row_id := max restored latest)
     rust/lance-table/src/rowids/version.rs  build_version_meta, refresh_row_latest_update_meta_for_{full,partial}_frag_rewrite_cols
     rust/lance/src/dataset/optimize.rs      rechunk_stable_row_ids, recalc_versions_for_rewritten_fragments
   at the level of fragment *metadata*: per fragment its id, physical row count, row-id sequence, created_at /
   last_updated_at sequences (run-length encodings expanded to per-row lists) and deletion vector.
   Executable definitions only.  Used by C07 (Props/C07.v) and C17 (Table/Model_Versions.v, Props/C17.v). *)
From LanceV Require Import Common.Base.
Local Open Scope N_scope.

(* ---------------------------------------------------------------- data *)
Record frag := mkFrag {
  f_id : N;
  f_phys : N;                       (* physical_rows *)
  f_ids : option (list N);          (* row_id_meta (inline sequence, expanded) *)
  f_created : option (list N);      (* created_at_version_meta, one entry per physical row *)
  f_updated : option (list N);      (* last_updated_at_version_meta *)
  f_del : list N }.                 (* deletion vector: local offsets *)

Record manifest := mkMan {
  m_version : N;
  m_next : N;                       (* next_row_id *)
  m_maxfrag : option N;             (* the stored max_fragment_id field *)
  m_stable : bool;                  (* reader_feature_flags & FLAG_STABLE_ROW_IDS *)
  m_frags : list frag;
  m_aux : N }.                      (* opaque token standing for schema + index list *)

Definition set_id (f : frag) (i : N) := mkFrag i (f_phys f) (f_ids f) (f_created f) (f_updated f) (f_del f).
Definition set_ids (f : frag) (x : option (list N)) := mkFrag (f_id f) (f_phys f) x (f_created f) (f_updated f) (f_del f).
Definition set_created (f : frag) (x : option (list N)) := mkFrag (f_id f) (f_phys f) (f_ids f) x (f_updated f) (f_del f).
Definition set_updated (f : frag) (x : option (list N)) := mkFrag (f_id f) (f_phys f) (f_ids f) (f_created f) x (f_del f).
Definition set_del (f : frag) (x : list N) := mkFrag (f_id f) (f_phys f) (f_ids f) (f_created f) (f_updated f) x.

Definition nlen {A} (l : list A) : N := N.of_nat (length l).
Definition nseq (s n : N) : list N := map (fun i => s + N.of_nat i) (seq 0 (N.to_nat n)).
Definition uniform (n v : N) : list N := repeat v (N.to_nat n).
Definition memN (x : N) (l : list N) : bool := existsb (N.eqb x) l.
(* list access by an N index (never converts a u64 to unary) *)
Fixpoint nthN {A} (l : list A) (i : N) (d : A) : A :=
  match l with
  | [] => d
  | x :: tl => if i =? 0 then x else nthN tl (i - 1) d
  end.

Definition bind {A B} (x : outcome A) (k : A -> outcome B) : outcome B :=
  match x with Ok a => k a | Err => Err | Panic => Panic end.

(* ---------------------------------------------------------------- version.rs *)
(* build_version_meta(fragment, v): Some(uniform physical_rows v) when physical_rows > 0 (panics if the
   fragment has no row id meta), None otherwise. *)
Definition build_version_meta (f : frag) (v : N) : outcome (option (list N)) :=
  if 0 <? f_phys f then
    match f_ids f with
    | None => Panic
    | Some _ => Ok (Some (uniform (f_phys f) v))
    end
  else Ok None.

(* refresh_row_latest_update_meta_for_full_frag_rewrite_cols *)
Definition refresh_full (f : frag) (cur : N) : frag :=
  if 0 <? f_phys f then set_updated f (Some (uniform (f_phys f) cur)) else f.

(* refresh_row_latest_update_meta_for_partial_frag_rewrite_cols(fragment, updated_offsets, cur, prev) *)
Definition refresh_partial (f : frag) (offs : list N) (cur prev : N) : frag :=
  if 0 <? f_phys f then
    let base := match f_updated f with
                | Some us => map (fun pos => nthN us pos prev) (nseq 0 (f_phys f))
                | None => uniform (f_phys f) prev
                end in
    set_updated f (Some (map (fun pv => if memN (fst pv) offs then cur else snd pv) (combine (nseq 0 (f_phys f)) base)))
  else f.

(* ---------------------------------------------------------------- assign_row_ids *)
Fixpoint assign_row_ids (nr : N) (fs : list frag) : outcome (N * list frag) :=
  match fs with
  | [] => Ok (nr, [])
  | f :: tl =>
      match f_ids f with
      | Some ids =>
          match nlen ids ?= f_phys f with
          | Eq => bind (assign_row_ids nr tl) (fun r => Ok (fst r, f :: snd r))
          | Lt =>
              let rem := f_phys f - nlen ids in
              if two64 <=? nr + rem then Panic
              else bind (assign_row_ids (nr + rem) tl)
                        (fun r => Ok (fst r, set_ids f (Some (ids ++ nseq nr rem)) :: snd r))
          | Gt => Err
          end
      | None =>
          if two64 <=? nr + f_phys f then Panic
          else bind (assign_row_ids (nr + f_phys f) tl)
                    (fun r => Ok (fst r, set_ids f (Some (nseq nr (f_phys f))) :: snd r))
      end
  end.

(* fragments_with_ids: a fragment whose id is 0 receives the next fragment id *)
Fixpoint fragments_with_ids (fs : list frag) (fid : N) : list frag * N :=
  match fs with
  | [] => ([], fid)
  | f :: tl =>
      if f_id f =? 0 then let r := fragments_with_ids tl (fid + 1) in (set_id f fid :: fst r, snd r)
      else let r := fragments_with_ids tl fid in (f :: fst r, snd r)
  end.

(* ---------------------------------------------------------------- transactions as build_manifest sees them *)
Inductive txn :=
| TAppend (news : list frag)
| TOverwrite (news : list frag)
| TDelete (upd : list frag) (gone : list N)
| TUpdate (removed : list N) (upd : list frag) (news : list frag)
| TRewrite (groups : list (list N * list frag))     (* ids of old_fragments, new_fragments *)
| TReserve (n : N)
| TNoop.                                             (* CreateIndex / UpdateConfig: fragments untouched *)

(* Append / Overwrite arm: version metadata of all new fragments := new_version *)
Fixpoint stamp_new (fs : list frag) (v : N) : outcome (list frag) :=
  match fs with
  | [] => Ok []
  | f :: tl =>
      bind (build_version_meta f v) (fun vm =>
      bind (stamp_new tl v) (fun tl' => Ok (set_created (set_updated f vm) vm :: tl')))
  end.

(* Update arm: created_at of a rewritten row is looked up by decoding its row id as an address
   (fragment id = row_id >> 32, offset = row_id & 0xFFFFFFFF) in the fragments of the current manifest;
   every miss defaults to 1.  Transcribed as written (DESIGN section 6, F5). *)
Definition find_frag_last (fs : list frag) (fid : N) : option frag :=
  find (fun f => f_id f =? fid) (rev fs).        (* HashMap built by insertion: the last fragment with an id wins *)

Definition created_lookup (existing : list frag) (r : N) : N :=
  let fid := N.shiftr r 32 in
  let off := N.land r (two32 - 1) in
  match find_frag_last existing fid with
  | Some f => match f_created f with
              | Some cs => nthN cs off 1
              | None => 1
              end
  | None => 1
  end.

Fixpoint stamp_updated (existing : list frag) (fs : list frag) (v : N) : outcome (list frag) :=
  match fs with
  | [] => Ok []
  | f :: tl =>
      bind (build_version_meta f v) (fun vm =>
      bind (stamp_updated existing tl v) (fun tl' =>
        match f_ids f with
        | Some ids => Ok (set_updated (set_created f (Some (map (created_lookup existing) ids))) vm :: tl')
        | None => Ok (set_created (set_updated f vm) vm :: tl')
        end))
  end.

(* Delete arm: every listed fragment replaces the one with its id (the loop keeps going: the last wins) *)
Definition replace_all (upd : list frag) (f : frag) : frag :=
  fold_left (fun acc u => if f_id u =? f_id acc then u else acc) upd f.
(* Update arm: `find` - the first listed fragment with that id *)
Definition replace_first (upd : list frag) (f : frag) : frag :=
  match find (fun u => f_id u =? f_id f) upd with Some u => u | None => f end.

(* handle_rewrite_fragments, one group *)
Fixpoint index_of_id (fs : list frag) (fid : N) (i : nat) : option nat :=
  match fs with
  | [] => None
  | f :: tl => if f_id f =? fid then Some i else index_of_id tl fid (S i)
  end.

(* the `loop` that verifies that old_fragments is a contiguous run of final_fragments starting at `start`:
   Ok true / Ok false, Panic when final_fragments[start + i] is out of bounds *)
Fixpoint contiguous_from (final : list frag) (start : nat) (olds : list N) (i : nat) : outcome bool :=
  match olds with
  | [] => Ok true
  | o :: tl =>
      match nth_error final (start + i) with
      | None => Panic
      | Some f => if f_id f =? o then contiguous_from final start tl (S i) else Ok false
      end
  end.

Definition rewrite_group (final : list frag) (fid : N) (g : list N * list frag) : outcome (list frag * N) :=
  match fst g with
  | [] => Panic                                     (* group.old_fragments[0] *)
  | o0 :: otl =>
      match index_of_id final o0 0 with
      | None => Err                                 (* CommitConflict: fragment to replace is missing *)
      | Some start =>
          bind (contiguous_from final start otl 1) (fun contig =>
            let r := fragments_with_ids (snd g) fid in
            if contig then
              Ok (firstn start final ++ fst r ++ skipn (start + length (fst g)) final, snd r)
            else
              Ok (filter (fun f => negb (memN (f_id f) (fst g))) final ++ fst r, snd r))
      end
  end.

Fixpoint rewrite_groups (final : list frag) (fid : N) (gs : list (list N * list frag)) : outcome (list frag * N) :=
  match gs with
  | [] => Ok (final, fid)
  | g :: tl => bind (rewrite_group final fid g) (fun r => rewrite_groups (fst r) (snd r) tl)
  end.

(* final_fragments.sort_by_key(|f| f.id): a stable sort *)
Fixpoint insert_frag (f : frag) (l : list frag) : list frag :=
  match l with
  | [] => [f]
  | g :: tl => if f_id f <? f_id g then f :: l else g :: insert_frag f tl
  end.
Definition sort_frags (l : list frag) : list frag := fold_left (fun acc f => insert_frag f acc) l [].

Definition max_id (fs : list frag) : N := fold_left (fun a f => N.max a (f_id f)) fs 0.

(* Manifest::update_max_fragment_id (u32 conversion can panic) *)
Definition update_maxfrag (old : option N) (fs : list frag) : outcome (option N) :=
  match fs with
  | [] => Ok old
  | _ =>
      let mx := max_id fs in
      if two32 <=? mx then Panic
      else match old with
           | None => Ok (Some mx)
           | Some c => Ok (Some (if c <? mx then mx else c))
           end
  end.

(* Manifest::max_fragment_id(): stored high-water mark, else the maximum over the fragment list *)
Definition max_fragment_id (m : manifest) : option N :=
  match m_maxfrag m with
  | Some x => Some x
  | None => match m_frags m with [] => None | _ => Some (max_id (m_frags m)) end
  end.

Definition is_overwrite (t : txn) : bool := match t with TOverwrite _ => true | _ => false end.

(* Transaction::build_manifest(current_manifest, .., config.use_stable_row_ids) restricted to the arms above.
   Returns the new manifest (version = previous + 1, or 1 for a new table). *)
Definition start_fid (cur : option manifest) (t : txn) : N :=
  if is_overwrite t then 0
  else match cur with
       | Some m => match max_fragment_id m with Some x => x + 1 | None => 0 end
       | None => 0
       end.
(* `let mut next_row_id = match (current_manifest, config.use_stable_row_ids)`; the (Some _, true) case
   without the flag has been rejected before *)
Definition start_nr (cur : option manifest) (use_stable : bool) : option N :=
  match cur with
  | Some m => if m_stable m then Some (m_next m) else None
  | None => if use_stable then Some 0 else None
  end.
Definition existing_of (cur : option manifest) : list frag := match cur with Some m => m_frags m | None => [] end.
Definition new_version_of (cur : option manifest) : N := match cur with Some m => m_version m + 1 | None => 1 end.

(* the `match &self.operation` : (final_fragments before sorting, next_row_id) *)
Definition build_arm (existing : list frag) (fid0 : N) (onr : option N) (new_version : N) (t : txn)
  : outcome (list frag * option N) :=
  match t with
  | TAppend news =>
      let nf := fst (fragments_with_ids news fid0) in
      match onr with
      | Some nr => bind (assign_row_ids nr nf) (fun r =>
                   bind (stamp_new (snd r) new_version) (fun nf' => Ok (existing ++ nf', Some (fst r))))
      | None => Ok (existing ++ nf, None)
      end
  | TOverwrite news =>
      let nf := fst (fragments_with_ids news fid0) in
      match onr with
      | Some nr => bind (assign_row_ids nr nf) (fun r =>
                   bind (stamp_new (snd r) new_version) (fun nf' => Ok (nf', Some (fst r))))
      | None => Ok (nf, None)
      end
  | TDelete upd gone =>
      Ok (map (replace_all upd) (filter (fun f => negb (memN (f_id f) gone)) existing), onr)
  | TUpdate removed upd news =>
      let kept := map (replace_first upd) (filter (fun f => negb (memN (f_id f) removed)) existing) in
      let nf := fst (fragments_with_ids news fid0) in
      match onr with
      | Some nr => bind (assign_row_ids nr nf) (fun r =>
                   bind (stamp_updated existing (snd r) new_version) (fun nf' => Ok (kept ++ nf', Some (fst r))))
      | None => Ok (kept ++ nf, None)
      end
  | TRewrite groups =>
      bind (rewrite_groups existing fid0 groups) (fun r => Ok (fst r, onr))
  | TReserve _ => Ok (existing, onr)
  | TNoop => Ok (existing, onr)
  end.

Definition has_ids (f : frag) : bool := match f_ids f with Some _ => true | None => false end.

Definition build_manifest (cur : option manifest) (use_stable : bool) (t : txn) : outcome manifest :=
  if use_stable && match cur with Some m => negb (m_stable m) | None => false end then Err
  else
  (* schema: only Overwrite brings its own *)
  if match cur with None => negb (is_overwrite t) | Some _ => false end then Err
  else
  bind (build_arm (existing_of cur) (start_fid cur t) (start_nr cur use_stable) (new_version_of cur) t) (fun r =>
    let final := sort_frags (fst r) in
    (* apply_feature_flags: the stable-row-id flag is recomputed from the fragment list; an error here
       comes before update_max_fragment_id can panic *)
    if (existsb has_ids final || use_stable) && negb (forallb has_ids final) then Err
    else
    bind (update_maxfrag (match cur with Some m => m_maxfrag m | None => None end) final) (fun mf =>
      let mf' := match t with
                 | TReserve n => Some (match mf with Some x => x | None => 0 end + n)
                 | _ => mf
                 end in
      Ok (mkMan (new_version_of cur)
                (match snd r with Some nr => nr | None => match cur with Some m => m_next m | None => 0 end end)
                mf'
                (existsb has_ids final || use_stable)
                final
                (match cur with Some m => m_aux m | None => 0 end)))).

(* ---------------------------------------------------------------- writers (update.rs, merge_insert.rs, optimize.rs) *)
(* live (not deleted) entries of a per-row list *)
Fixpoint live_from {A} (off : N) (del : list N) (l : list A) : list A :=
  match l with
  | [] => []
  | x :: tl => if memN off del then live_from (off + 1) del tl else x :: live_from (off + 1) del tl
  end.
Definition live {A} (del : list N) (l : list A) : list A := live_from 0 del l.

(* row count used for the defaults in recalc_versions_for_rewritten_fragments *)
Definition row_count (f : frag) : N := match f_ids f with Some ids => nlen ids | None => f_phys f end.
Definition created_or_default (f : frag) : list N :=
  match f_created f with Some cs => cs | None => uniform (row_count f) 1 end.
Definition updated_or_default (f : frag) : list N :=
  match f_updated f with Some us => us | None => created_or_default f end.

Fixpoint split_sizes {A} (l : list A) (sizes : list N) : list (list A) :=
  match sizes with
  | [] => []
  | s :: tl => firstn (N.to_nat s) l :: split_sizes (skipn (N.to_nat s) l) tl
  end.

Definition sumN (l : list N) : N := fold_right N.add 0 l.

(* rechunk_stable_row_ids + recalc_versions_for_rewritten_fragments: the surviving rows of the old
   fragments, in order, cut into the new fragments' sizes; ids, created_at and last_updated_at travel
   together.  A row-count mismatch trips the debug assertion. *)
Definition compact_carry (olds : list frag) (news : list (N * N)) : outcome (list frag) :=
  match forallb (fun f => match f_ids f with Some _ => true | None => false end) olds with
  | false => Err
  | true =>
      let ids := flat_map (fun f => live (f_del f) (match f_ids f with Some x => x | None => [] end)) olds in
      let cs := flat_map (fun f => live (f_del f) (created_or_default f)) olds in
      let us := flat_map (fun f => live (f_del f) (updated_or_default f)) olds in
      let sizes := map snd news in
      if negb (nlen ids =? sumN sizes) || negb (nlen cs =? sumN sizes) || negb (nlen us =? sumN sizes) then Panic
      else
        Ok (map (fun x => mkFrag (fst (fst x)) (snd (fst x)) (Some (fst (fst (snd x)))) (Some (snd (fst (snd x)))) (Some (snd (snd x))) [])
                (combine news (combine (combine (split_sizes ids sizes) (split_sizes cs sizes)) (split_sizes us sizes))))
  end.

Definition find_frag (fs : list frag) (fid : N) : option frag := find (fun f => f_id f =? fid) fs.

(* Operations as the public API produces them (what the writer decided; the model derives the transaction). *)
Inductive op :=
| OAppend (sizes : list N)                                       (* physical_rows of the new fragments *)
| OOverwrite (sizes : list N)
| ODelete (upd : list (N * list N)) (gone : list N)              (* (fragment, its new deletion vector); fragments removed *)
| OUpdate (removed : list N) (upd : list (N * list N)) (news : list (N * list N))
                                                                 (* new fragments: (physical_rows, carried row ids) *)
| OUpdateCols (rew : list (N * list N))                          (* in-place column rewrite: (fragment, updated offsets) *)
| OCompact (groups : list (list N * list (N * N)))               (* old fragment ids; new (fragment id, rows) *)
| OReserve (n : N)
| ONoop
| ORestore (v : N).

Definition fresh_frag (phys : N) (ids : option (list N)) : frag := mkFrag 0 phys ids None None [].
Definition with_dv (existing : list frag) (x : N * list N) : list frag :=
  match find_frag existing (fst x) with Some f => [set_del f (snd x)] | None => [] end.

(* merge_insert.rs update_fragments: all rows of the fragment rewritten -> full refresh, else partial;
   the version metadata is only touched `if dataset.manifest.uses_stable_row_ids()` *)
Definition rewrite_cols (stable : bool) (existing : list frag) (new_version prev : N) (x : N * list N) : list frag :=
  match find_frag existing (fst x) with
  | Some f => if stable then
                (if nlen (snd x) =? f_phys f then [refresh_full f new_version]
                 else [refresh_partial f (snd x) new_version prev])
              else [f]
  | None => []
  end.

(* optimize.rs rewrite_files: with stable row ids the ids and version sequences are carried over; with
   address-style ids the new fragments carry no row id metadata at all *)
Definition lower_group (stable : bool) (existing : list frag) (g : list N * list (N * N)) : outcome (list N * list frag) :=
  if stable then
    bind (compact_carry (flat_map (fun i => match find_frag existing i with Some f => [f] | None => [] end) (fst g)) (snd g))
         (fun nf => Ok (fst g, nf))
  else Ok (fst g, map (fun x => mkFrag (fst x) (snd x) None None None []) (snd g)).

Fixpoint lower_groups (stable : bool) (existing : list frag) (gs : list (list N * list (N * N))) : outcome (list (list N * list frag)) :=
  match gs with
  | [] => Ok []
  | g :: tl => bind (lower_group stable existing g) (fun g' => bind (lower_groups stable existing tl) (fun tl' => Ok (g' :: tl')))
  end.

Definition lower (cur : manifest) (o : op) : outcome txn :=
  let ex := m_frags cur in
  match o with
  | OAppend sizes => Ok (TAppend (map (fun s => fresh_frag s None) sizes))
  | OOverwrite sizes => Ok (TOverwrite (map (fun s => fresh_frag s None) sizes))
  | ODelete upd gone => Ok (TDelete (flat_map (with_dv ex) upd) gone)
  | OUpdate removed upd news =>
      Ok (TUpdate removed (flat_map (with_dv ex) upd)
                  (map (fun x => fresh_frag (fst x) (match snd x with [] => None | l => Some l end)) news))
  | OUpdateCols rew => Ok (TUpdate [] (flat_map (rewrite_cols (m_stable cur) ex (m_version cur + 1) (m_version cur)) rew) [])
  | OCompact groups => bind (lower_groups (m_stable cur) ex groups) (fun gs => Ok (TRewrite gs))
  | OReserve n => Ok (TReserve n)
  | ONoop => Ok TNoop
  | ORestore _ => Err
  end.

(* ---------------------------------------------------------------- commit: one step of a history *)
(* A history is the list of all committed manifests, latest first. *)
Definition history := list manifest.

Definition find_version (h : history) (v : N) : option manifest := find (fun m => m_version m =? v) h.

(* commit_transaction, Restore arm (as repaired by 97111ae and 6961b14): the old manifest is republished
   under the next version number; neither the next_row_id nor the max_fragment_id high-water mark goes
   down (Option::max on the two max_fragment_id() getters: None is the least element). *)
Definition omax (a b : option N) : option N :=
  match a, b with
  | Some x, Some y => Some (N.max x y)
  | Some x, None => Some x
  | None, y => y
  end.
Definition restore (latest old : manifest) : manifest :=
  mkMan (m_version latest + 1) (N.max (m_next old) (m_next latest))
        (omax (max_fragment_id old) (max_fragment_id latest)) (m_stable old) (m_frags old) (m_aux old).

Definition step (st : bool) (h : history) (o : op) : outcome manifest :=
  match h with
  | [] => match o with
          | OOverwrite sizes => build_manifest None st (TOverwrite (map (fun s => fresh_frag s None) sizes))
          | _ => Err
          end
  | latest :: _ =>
      match o with
      | ORestore v => match find_version h v with Some old => Ok (restore latest old) | None => Err end
      | _ => bind (lower latest o) (fun t => build_manifest (Some latest) (m_stable latest) t)
      end
  end.

(* [st]: WriteParams::enable_stable_row_ids of the table (only consulted when the table is created) *)
Fixpoint run_from (st : bool) (h : history) (ops : list op) : outcome history :=
  match ops with
  | [] => Ok h
  | o :: tl => bind (step st h o) (fun m => run_from st (m :: h) tl)
  end.
Definition run (st : bool) (ops : list op) : outcome history := run_from st [] ops.

(* every row id stored in a fragment / manifest (deleted rows included: time travel and compaction can
   still see them) *)
Definition frag_ids (f : frag) : list N := match f_ids f with Some l => l | None => [] end.
Definition all_ids (m : manifest) : list N := flat_map frag_ids (m_frags m).

(* Domain condition on an operation w.r.t. the manifest it is applied to: row ids that a writer carries
   into new fragments (update / merge_insert) are ids stored in the current manifest. *)
Definition op_ok (cur : manifest) (o : op) : bool :=
  match o with
  | OUpdate _ _ news => forallb (fun x => forallb (fun r => memN r (all_ids cur)) (snd x)) news
  | _ => true
  end.

(* the domain condition along a whole run *)
Fixpoint run_ok (st : bool) (h : history) (ops : list op) : bool :=
  match ops with
  | [] => true
  | o :: tl =>
      match h with latest :: _ => op_ok latest o | [] => true end
      && match step st h o with Ok m => run_ok st (m :: h) tl | _ => true end
  end.

Definition next_of (h : history) : N := match h with latest :: _ => m_next latest | [] => 0 end.
(* row ids handed out by the step h -> m' :: h *)
Definition handed_out (h : history) (m' : manifest) : list N := nseq (next_of h) (m_next m' - next_of h).

(* ---------------------------------------------------------------- fragment ids along a history *)
Definition hist_frag_ids (h : history) : list N := flat_map (fun m => map f_id (m_frags m)) h.
(* Domain condition for the fragment-id theorem: no Overwrite after the table was created, and the
   fragment ids a compaction reserved for its new fragments are non-zero and used by no version so far. *)
Definition frag_ok (h : history) (o : op) : bool :=
  match o with
  | OCompact groups =>
      forallb (fun fid => negb (fid =? 0) && negb (memN fid (hist_frag_ids h))) (flat_map (fun g => map fst (snd g)) groups)
  | OOverwrite _ => match h with [] => true | _ => false end
  | _ => true
  end.
Fixpoint run_frag_ok (st : bool) (h : history) (ops : list op) : bool :=
  match ops with
  | [] => true
  | o :: tl => frag_ok h o && match step st h o with Ok m => run_frag_ok st (m :: h) tl | _ => true end
  end.
Fixpoint nodupb (l : list N) : bool :=
  match l with [] => true | x :: tl => negb (memN x tl) && nodupb tl end.
(* fragment ids are pairwise distinct within each manifest *)
Definition frag_ids_unique (h : history) : bool := forallb (fun m => nodupb (map f_id (m_frags m))) h.

(* ---------------------------------------------------------------- reads through the session cache *)
(* rust/lance/src/dataset/rowids.rs load_row_id_sequence: the decoded row id sequence of a fragment is
   cached in the session under the key "row_id_sequence/<fragment id>" - the fragment id alone. *)
Definition cache := list (N * list N).
Fixpoint cache_get (c : cache) (i : N) : option (list N) :=
  match c with
  | [] => None
  | (j, l) :: tl => if j =? i then Some l else cache_get tl i
  end.
Definition read_ids (c : cache) (f : frag) : list N * cache :=
  match cache_get c (f_id f) with
  | Some l => (l, c)
  | None => (frag_ids f, (f_id f, frag_ids f) :: c)
  end.
(* the _rowid column of a scan, fragment by fragment *)
Fixpoint scan_ids (c : cache) (fs : list frag) : list (list N) * cache :=
  match fs with
  | [] => ([], c)
  | f :: tl => let r := read_ids c f in let r' := scan_ids (snd r) tl in (fst r :: fst r', snd r')
  end.

Definition olist_eqb (a b : option (list N)) : bool := option_eqb (list_eqb N.eqb) a b.

(* Known-finding class: within the history some fragment id denotes two fragments with different row id
   sequences.  Reachable only through Overwrite, which restarts fragment ids at 0 by design
   (C07_fragment_ids_never_reused: histories without an Overwrite after creation are outside the class). *)
Definition frag_conflict (m1 m2 : manifest) : bool :=
  existsb (fun f1 => existsb (fun f2 => (f_id f1 =? f_id f2) && negb (olist_eqb (f_ids f1) (f_ids f2))) (m_frags m2)) (m_frags m1).
Definition Known_C07_fragment_id_cache_after_overwrite (h : history) : bool :=
  existsb (fun m1 => existsb (fun m2 => frag_conflict m1 m2) h) h.

(* ---------------------------------------------------------------- correspondence checkers *)
Definition frag_eqb (a b : frag) : bool :=
  (f_id a =? f_id b) && (f_phys a =? f_phys b) && olist_eqb (f_ids a) (f_ids b)
  && olist_eqb (f_created a) (f_created b) && olist_eqb (f_updated a) (f_updated b)
  && list_eqb N.eqb (f_del a) (f_del b).
Definition man_eqb (a b : manifest) : bool :=
  (m_version a =? m_version b) && (m_next a =? m_next b) && option_eqb N.eqb (m_maxfrag a) (m_maxfrag b)
  && Bool.eqb (m_stable a) (m_stable b) && list_eqb frag_eqb (m_frags a) (m_frags b) && (m_aux a =? m_aux b).

(* wire types of the harness *)
Definition wfrag : Type := N * N * option (list N) * option (list N) * option (list N) * list N.
Definition wman : Type := N * N * option N * bool * list wfrag * N.
Definition frag_of (w : wfrag) : frag :=
  let '(i, p, ids, c, u, d) := w in mkFrag i p ids c u d.
Definition man_of (w : wman) : manifest :=
  let '(v, nx, mf, st, fs, aux) := w in mkMan v nx mf st (map frag_of fs) aux.

Inductive wtxn :=
| WAppend (news : list wfrag)
| WOverwrite (news : list wfrag)
| WDelete (upd : list wfrag) (gone : list N)
| WUpdate (removed : list N) (upd : list wfrag) (news : list wfrag)
| WRewrite (groups : list (list N * list wfrag))
| WReserve (n : N)
| WNoop.
Definition txn_of (w : wtxn) : txn :=
  match w with
  | WAppend n => TAppend (map frag_of n)
  | WOverwrite n => TOverwrite (map frag_of n)
  | WDelete u g => TDelete (map frag_of u) g
  | WUpdate r u n => TUpdate r (map frag_of u) (map frag_of n)
  | WRewrite gs => TRewrite (map (fun g => (fst g, map frag_of (snd g))) gs)
  | WReserve n => TReserve n
  | WNoop => TNoop
  end.

(* the index list / schema token is not predicted by build_manifest (CreateIndex etc. are TNoop here):
   compared only on Restore *)
Definition with_aux (m : manifest) (a : N) : manifest :=
  mkMan (m_version m) (m_next m) (m_maxfrag m) (m_stable m) (m_frags m) a.

(* build_manifest through the hook / on a real transaction file: (current manifest, use_stable_row_ids, txn) *)
Definition chk_build (i : option wman * bool * wtxn) (out : outcome wman) : bool :=
  let '(cur, st, t) := i in
  match build_manifest (option_map man_of cur) st (txn_of t), out with
  | Ok m, Ok w => man_eqb (with_aux m (m_aux (man_of w))) (man_of w)
  | Err, Err => true
  | Panic, Panic => true
  | _, _ => false
  end.

(* one committed step of a real history: (all earlier manifests, latest first; the operation) -> new manifest *)
Definition is_restore (o : op) : bool := match o with ORestore _ => true | _ => false end.
Definition chk_step (i : list wman * op) (out : outcome wman) : bool :=
  let '(h, o) := i in
  match step (match h with w :: _ => m_stable (man_of w) | [] => true end) (map man_of h) o, out with
  | Ok m, Ok w => if is_restore o then man_eqb m (man_of w) else man_eqb (with_aux m (m_aux (man_of w))) (man_of w)
  | Err, Err => true
  | Panic, Panic => true
  | _, _ => false
  end.

(* the domain condition holds on an operation produced by the real writers *)
Definition chk_op_ok (i : wman * op) (out : bool) : bool := Bool.eqb (op_ok (man_of (fst i)) (snd i)) out.

(* refresh_row_latest_update_meta_* called directly *)
Definition chk_refresh (i : wfrag * option (list N) * N * N) (out : wfrag) : bool :=
  let '(f, offs, cur, prev) := i in
  frag_eqb (match offs with None => refresh_full (frag_of f) cur | Some o => refresh_partial (frag_of f) o cur prev end)
           (frag_of out).

(* compaction carry-over on a real rewrite group: (old fragments with deletion vectors, new (id, rows)) *)
Definition chk_compact (i : list wfrag * list (N * N)) (out : outcome (list wfrag)) : bool :=
  match compact_carry (map frag_of (fst i)) (snd i), out with
  | Ok fs, Ok ws => list_eqb frag_eqb fs (map frag_of ws)
  | Err, Err => true
  | Panic, Panic => true
  | _, _ => false
  end.

(* the class predicate and the fragment-id domain condition as the harness computes them *)
Definition chk_known_frag (i : list wman) (out : bool) : bool :=
  Bool.eqb (Known_C07_fragment_id_cache_after_overwrite (map man_of i)) out.
Definition chk_frag_ok (i : list wman * op) (out : bool * bool) : bool :=
  Bool.eqb (frag_ok (map man_of (fst i)) (snd i)) (fst out)
  && Bool.eqb (frag_ids_unique (map man_of (fst i))) (snd out).
