(* Table/Proofs_Manifest.v - build_manifest preserves wf_manifest; every version of every history is well formed (C05). *)
From LanceV Require Import Common.Base Meta.Model_Flags Table.Model_Manifest Table.Proofs_ManifestBase.
From Coq Require Import Permutation.
Local Open Scope N_scope.

(* ================================================================ outcome plumbing *)
Lemma mbind_ok {A B} (e : outcome A) (k : A -> outcome B) y :
  mbind e k = Ok y -> exists x, e = Ok x /\ k x = Ok y.
Proof. destruct e as [x| |]; cbn [mbind]; intro H; [exists x; split; [reflexivity | exact H] | discriminate | discriminate]. Qed.

Ltac bind_as H x E := apply mbind_ok in H; destruct H as [x [E H]].
Ltac bind_inv H :=
  let x := fresh "x" in let E := fresh "E" in
  apply mbind_ok in H; destruct H as [x [E H]].

(* ================================================================ fragments: record updates keep consistency *)
Lemma frag_consistent_set_id s f i : frag_consistent s (set_id f i) = frag_consistent s f.
Proof. destruct f; reflexivity. Qed.
Lemma new_fragment_ok_set_id s f i : new_fragment_ok s (set_id f i) = new_fragment_ok s f.
Proof. destruct f; reflexivity. Qed.
Lemma fr_id_set_id f i : fr_id (set_id f i) = i.
Proof. destruct f; reflexivity. Qed.
Lemma fr_id_set_files f l : fr_id (set_files f l) = fr_id f.
Proof. destruct f; reflexivity. Qed.

(* live fields of a list of files *)
Definition live_of (files : list DataFile) : list Z :=
  filter (fun x => negb (x =? TOMBSTONE)%Z) (flat_map df_fields files).
Lemma live_fields_live_of f : live_fields f = live_of (fr_files f).
Proof. reflexivity. Qed.
Lemma filter_app_eq {A} (p : A -> bool) l1 l2 : filter p (l1 ++ l2) = filter p l1 ++ filter p l2.
Proof. induction l1 as [|a r IH]; cbn [app filter]; [reflexivity | destruct (p a); cbn [app]; rewrite IH; reflexivity]. Qed.
Lemma live_of_cons d r : live_of (d :: r) = filter (fun x => negb (x =? TOMBSTONE)%Z) (df_fields d) ++ live_of r.
Proof. unfold live_of. cbn [flat_map]. apply filter_app_eq. Qed.
Lemma live_of_app a b : live_of (a ++ b) = live_of a ++ live_of b.
Proof. induction a as [|d r IH]; [reflexivity|]. cbn [app]. rewrite !live_of_cons, IH, app_assoc. reflexivity. Qed.

Lemma live_of_filter_incl q files x : In x (live_of (filter q files)) -> In x (live_of files).
Proof.
  induction files as [|d r IH]; cbn [filter]; [intros []|].
  destruct (q d); rewrite ?live_of_cons, ?in_app_iff; [intros [I|I]; [left; exact I | right; apply IH; exact I] | intro I; right; apply IH; exact I].
Qed.
Lemma live_of_filter_nodup q files : NoDup (live_of files) -> NoDup (live_of (filter q files)).
Proof.
  induction files as [|d r IH]; cbn [filter]; intro H; [exact H|].
  rewrite live_of_cons in H. destruct (q d); [|apply IH; eapply NoDup_app_r; exact H].
  rewrite live_of_cons. apply NoDup_app_intro; [eapply NoDup_app_l; exact H | apply IH; eapply NoDup_app_r; exact H|].
  intros x I J. eapply NoDup_app_disj; [exact H | exact I | eapply live_of_filter_incl; exact J].
Qed.
Lemma has_live_field_false d : has_live_field d = false -> filter (fun x => negb (x =? TOMBSTONE)%Z) (df_fields d) = [].
Proof.
  unfold has_live_field. induction (df_fields d) as [|x r IH]; cbn [existsb filter]; intro H; [reflexivity|].
  apply orb_false_iff in H as [A B]. rewrite A. apply IH; exact B.
Qed.
Lemma live_of_remove_tombstoned files : live_of (filter has_live_field files) = live_of files.
Proof.
  induction files as [|d r IH]; cbn [filter]; [reflexivity|].
  destruct (has_live_field d) eqn:E; rewrite !live_of_cons; [rewrite IH; reflexivity|].
  rewrite (has_live_field_false d E), IH. reflexivity.
Qed.

(* frag_consistent depends on the files only through their rows and live fields *)
Lemma frag_consistent_set_files s f files :
  frag_consistent s f = true ->
  (forall p, fr_phys f = Some p -> forallb (fun d => df_rows d =? p) files = true) ->
  NoDup (live_of files) -> forallb (fun x => (0 <=? x)%Z) (live_of files) = true ->
  frag_consistent s (set_files f files) = true.
Proof.
  unfold frag_consistent. destruct f as [id ph fs del rid ca ua]. cbn [fr_phys fr_files fr_deletion fr_row_ids fr_created_at fr_updated_at set_files live_fields all_fields].
  destruct ph as [p|]; [|discriminate]. intros H R ND POS.
  rewrite !andb_true_iff in *. destruct H as [[[[[[_ _] _] H3] H4] H5] H6].
  fold (live_of files). repeat split; try assumption; [apply R; reflexivity | apply nodup_z_NoDup; exact ND].
Qed.
Lemma frag_consistent_files s f p :
  frag_consistent s f = true -> fr_phys f = Some p ->
  forallb (fun d => df_rows d =? p) (fr_files f) = true /\ NoDup (live_of (fr_files f))
  /\ forallb (fun x => (0 <=? x)%Z) (live_of (fr_files f)) = true.
Proof.
  unfold frag_consistent. intros H E. rewrite E in H. rewrite !andb_true_iff in H.
  destruct H as [[[[[[H1 H2] H2'] _] _] _] _]. repeat split; [exact H1 | apply nodup_z_NoDup; exact H2 | exact H2'].
Qed.
Lemma frag_consistent_phys s f : frag_consistent s f = true -> exists p, fr_phys f = Some p.
Proof. unfold frag_consistent. destruct (fr_phys f) as [p|]; [intros _; exists p; reflexivity | discriminate]. Qed.

Lemma frag_consistent_filter_files s f q :
  frag_consistent s f = true -> frag_consistent s (set_files f (filter q (fr_files f))) = true.
Proof.
  intro H. destruct (frag_consistent_phys _ _ H) as [p E]. destruct (frag_consistent_files _ _ _ H E) as [A [B C]].
  apply frag_consistent_set_files; [exact H | | apply live_of_filter_nodup; exact B |].
  - intros p' E'. rewrite E in E'. inversion E'; subst. apply forallb_filter; exact A.
  - rewrite forallb_forall in *. intros x I. apply C. eapply live_of_filter_incl; exact I.
Qed.

(* remove_tombstoned_data_files *)
Lemma remove_tombstoned_ids l : frag_ids (remove_tombstoned_data_files l) = frag_ids l.
Proof. unfold remove_tombstoned_data_files, frag_ids. rewrite map_map. apply map_ext. intro f. apply fr_id_set_files. Qed.
Lemma forallb_filter_self {A} (p : A -> bool) l : forallb p (filter p l) = true.
Proof. apply forallb_forall. intros x I. apply filter_In in I as [_ I]. exact I. Qed.
Lemma remove_tombstoned_wf s l :
  forallb (frag_consistent s) l = true -> forallb (wf_fragment s) (remove_tombstoned_data_files l) = true.
Proof.
  unfold remove_tombstoned_data_files. rewrite forallb_map. apply forallb_impl. intros f _ H.
  unfold wf_fragment. apply andb_true_iff. split; [apply frag_consistent_filter_files; exact H|].
  destruct f as [i0 p0 fs0 d0 r0 c0 u0]; cbn [set_files fr_files]. apply forallb_filter_self.
Qed.
Lemma remove_tombstoned_row_ids l :
  map fr_row_ids (remove_tombstoned_data_files l) = map fr_row_ids l.
Proof. unfold remove_tombstoned_data_files. rewrite map_map. apply map_ext. intro f. destruct f; reflexivity. Qed.

(* ================================================================ the stable flag computed from the fragments *)
Lemma frag_consistent_row_ids s f : frag_consistent s f = true -> is_some (fr_row_ids f) = s.
Proof.
  unfold frag_consistent. destruct (fr_phys f) as [p|]; [|discriminate]. rewrite !andb_true_iff.
  intros [[[_ H] _] _]. unfold row_ids_ok in H. destruct (fr_row_ids f), s; cbn in *; try reflexivity; try discriminate.
Qed.
Lemma wf_fragment_consistent s f : wf_fragment s f = true -> frag_consistent s f = true.
Proof. unfold wf_fragment. rewrite andb_true_iff. tauto. Qed.
Lemma row_ids_flag s l :
  forallb (frag_consistent s) l = true ->
  forallb (fun f => is_some (fr_row_ids f)) l = (s || match l with [] => true | _ => false end)
  /\ existsb (fun f => is_some (fr_row_ids f)) l = (s && match l with [] => false | _ => true end).
Proof.
  induction l as [|f r IH]; cbn [forallb existsb]; intro H.
  - destruct s; split; reflexivity.
  - apply andb_true_iff in H as [Hf Hr]. destruct (IH Hr) as [A B]. rewrite A, B, (frag_consistent_row_ids _ _ Hf).
    destruct s, r; split; reflexivity.
Qed.
(* a consistent fragment with the other stable setting can only be one in an empty list: used when the
   flag flips on an empty table *)
Lemma forallb_wf_fragment_flag s s' l :
  (match l with [] => True | _ => s' = s end) -> forallb (wf_fragment s) l = true -> forallb (wf_fragment s') l = true.
Proof. destruct l; [reflexivity|]. intros E H. rewrite E. exact H. Qed.

(* ================================================================ max_fragment_id *)
Lemma fold_max_ge r : forall x, x <= fold_left N.max r x /\ (forall y, In y r -> y <= fold_left N.max r x).
Proof.
  induction r as [|a r IH]; intro x; cbn [fold_left]; [split; [lia | intros y []]|].
  destruct (IH (N.max x a)) as [A B]. split; [lia|]. intros y [E|I]; [subst; lia | apply B; exact I].
Qed.
Lemma list_max_n_ge l mx : list_max_n l = Some mx -> forall y, In y l -> y <= mx.
Proof.
  destruct l as [|x r]; [discriminate|]. cbn [list_max_n]. intro E. inversion E; subst.
  destruct (fold_max_ge r x) as [A B]. intros y [E'|I]; [subst; exact A | apply B; exact I].
Qed.
Lemma list_max_n_none l : list_max_n l = None -> l = [].
Proof. destruct l; [reflexivity | discriminate]. Qed.

Lemma update_max_ok l prev mx :
  (match prev with Some c => c < two32 | None => True end) ->
  update_max_fragment_id l prev = Ok mx -> max_ok mx l = true.
Proof.
  unfold update_max_fragment_id, max_ok. intros P H.
  destruct (list_max_n (frag_ids l)) as [m|] eqn:E.
  - destruct (two32 <=? m) eqn:L; [discriminate|]. apply N.leb_gt in L.
    pose proof (list_max_n_ge _ _ E) as G.
    assert (K : forall c, m <= c -> c < two32 -> (forallb (fun f => fr_id f <=? c) l && (c <? two32)) = true).
    { intros c Lc Lt. apply andb_true_iff. split; [|apply N.ltb_lt; exact Lt].
      apply forallb_forall. intros f I. apply N.leb_le. specialize (G (fr_id f) (in_map fr_id _ _ I)). lia. }
    destruct prev as [c|]; [destruct (c <? m) eqn:C|]; inversion H; subst.
    + apply K; lia.
    + apply N.ltb_ge in C. apply K; [exact C | exact P].
    + apply K; lia.
  - inversion H; subst. apply list_max_n_none in E. unfold frag_ids in E. apply map_eq_nil in E. subst l.
    destruct mx as [c|]; [|reflexivity]. cbn [forallb andb]. apply N.ltb_lt. exact P.
Qed.

(* ================================================================ indices keep their fields *)
Lemma index_ok_set_bitmap sc i b : index_ok sc (set_bitmap i b) = index_ok sc i.
Proof. destruct i; reflexivity. Qed.
Lemma index_ok_set_uuid sc i u : index_ok sc (set_uuid i u) = index_ok sc i.
Proof. destruct i; reflexivity. Qed.

Lemma retain_relevant_indices_ok indices sc frags : forallb (index_ok sc) (retain_relevant_indices indices sc frags) = true.
Proof. unfold retain_relevant_indices. apply forallb_filter. apply (forallb_filter_self (index_ok sc)). Qed.

Lemma prune_ok sc upd fm : forall indices out,
  prune_updated_fields_from_indices indices upd fm = Ok out ->
  forallb (index_ok sc) indices = true -> forallb (index_ok sc) out = true.
Proof.
  induction indices as [|i r IH]; intros out H K.
  - destruct fm; cbn [prune_updated_fields_from_indices] in H; inversion H; reflexivity.
  - destruct fm as [|fm0 fmr]; [cbn [prune_updated_fields_from_indices] in H; inversion H; subst; exact K|].
    cbn [prune_updated_fields_from_indices] in H. bind_inv H. bind_inv H. inversion H; subst. clear H.
    cbn [forallb] in *. apply andb_true_iff in K as [K1 K2]. apply andb_true_iff. split; [|eapply IH; eassumption].
    destruct x; [destruct (ix_bitmap i); rewrite ?index_ok_set_bitmap|]; exact K1.
Qed.
Lemma register_ok sc pure orig fp : forall indices out,
  register_pure_frags indices pure orig fp = Ok out ->
  forallb (index_ok sc) indices = true -> forallb (index_ok sc) out = true.
Proof.
  induction indices as [|i r IH]; intros out H K.
  - destruct pure; cbn [register_pure_frags] in H; inversion H; reflexivity.
  - destruct pure as [|p0 pr]; [cbn [register_pure_frags] in H; inversion H; subst; exact K|].
    cbn [register_pure_frags] in H. bind_inv H. bind_inv H. inversion H; subst. clear H.
    cbn [forallb] in *. apply andb_true_iff in K as [K1 K2]. apply andb_true_iff. split; [|eapply IH; eassumption].
    destruct x; [exact K1|]. destruct (ix_bitmap i); [|exact K1].
    match goal with |- context [if ?c then _ else _] => destruct c end; rewrite ?index_ok_set_bitmap; exact K1.
Qed.
Lemma recalc_all_ok sc groups : forall indices out,
  recalc_all_bitmaps indices groups = Ok out ->
  forallb (index_ok sc) indices = true -> forallb (index_ok sc) out = true.
Proof.
  induction indices as [|i r IH]; intros out H K; cbn [recalc_all_bitmaps] in H; [inversion H; reflexivity|].
  bind_inv H. bind_inv H. inversion H; subst. clear H.
  cbn [forallb] in *. apply andb_true_iff in K as [K1 K2]. apply andb_true_iff. split; [|eapply IH; eassumption].
  destruct (ix_bitmap i); [bind_inv E; inversion E; subst; rewrite index_ok_set_bitmap; exact K1 | inversion E; subst; exact K1].
Qed.
Lemma replace_first_ok sc u i' : forall l, index_ok sc i' = true -> forallb (index_ok sc) l = true -> forallb (index_ok sc) (replace_first_index u i' l) = true.
Proof.
  induction l as [|i r IH]; intros A K; [reflexivity|]. cbn [replace_first_index forallb] in *.
  apply andb_true_iff in K as [K1 K2]. destruct (ix_uuid i =? u); cbn [forallb]; apply andb_true_iff; split; try assumption. apply IH; assumption.
Qed.
Lemma find_some_forallb {A} (p q : A -> bool) l x : find p l = Some x -> forallb q l = true -> q x = true.
Proof. intros F K. apply find_some in F as [I _]. rewrite forallb_forall in K. apply K; exact I. Qed.
Lemma handle_rewrite_indices_ok sc groups : forall rewritten indices seen out,
  handle_rewrite_indices indices rewritten groups seen = Ok out ->
  forallb (index_ok sc) indices = true -> forallb (index_ok sc) out = true.
Proof.
  induction rewritten as [|[o n] r IH]; intros indices seen out H K; cbn [handle_rewrite_indices] in H; [inversion H; subst; exact K|].
  destruct (n_mem o seen); [discriminate|]. destruct (find (fun i => ix_uuid i =? o) indices) as [i|] eqn:F; [|discriminate].
  destruct (ix_bitmap i); [|discriminate]. bind_inv H. eapply IH; [exact H|].
  apply replace_first_ok; [|exact K]. rewrite index_ok_set_uuid, index_ok_set_bitmap. eapply find_some_forallb; eassumption.
Qed.

(* ================================================================ characterisation of the fragment predicates *)
Definition base_ok (f : Fragment) : bool :=
  match fr_phys f with
  | None => false
  | Some p => forallb (fun d => df_rows d =? p) (fr_files f) && nodup_z (live_fields f)
              && forallb (fun x => (0 <=? x)%Z) (live_fields f) && deletion_ok p (fr_deletion f)
  end.
Lemma frag_consistent_iff s f :
  frag_consistent s f = true <->
  base_ok f = true /\ exists p, fr_phys f = Some p /\ row_ids_ok s p (fr_row_ids f) = true
                                /\ versions_ok p (fr_created_at f) = true /\ versions_ok p (fr_updated_at f) = true.
Proof.
  unfold frag_consistent, base_ok. destruct (fr_phys f) as [p|].
  - rewrite !andb_true_iff. split.
    + intros [[[[[[A B] B'] C] D] E] F]. split; [tauto|]. exists p. tauto.
    + intros [[[[A B] B'] C] [p' [Ep [D [E F]]]]]. inversion Ep; subst. tauto.
  - split; [discriminate | intros [H _]; discriminate].
Qed.
Lemma new_fragment_ok_iff s f :
  new_fragment_ok s f = true <->
  base_ok f = true /\ exists p, fr_phys f = Some p
     /\ match fr_row_ids f with Some ids => s && (len_n ids <=? p) | None => true end = true
     /\ (s || (versions_ok p (fr_created_at f) && versions_ok p (fr_updated_at f))) = true.
Proof.
  unfold new_fragment_ok, base_ok. destruct (fr_phys f) as [p|].
  - rewrite !andb_true_iff. split.
    + intros [[[[[A B] B'] C] D] E]. split; [tauto|]. exists p. tauto.
    + intros [[[[A B] B'] C] [p' [Ep [D E]]]]. inversion Ep; subst. tauto.
  - split; [discriminate | intros [H _]; discriminate].
Qed.
Lemma fr_id_set_row_ids f r : fr_id (set_row_ids f r) = fr_id f.
Proof. destruct f; reflexivity. Qed.
Lemma fr_id_set_versions f c u : fr_id (set_versions f c u) = fr_id f.
Proof. destruct f; reflexivity. Qed.
Lemma base_ok_set_row_ids f r : base_ok (set_row_ids f r) = base_ok f.
Proof. destruct f; reflexivity. Qed.
Lemma base_ok_set_versions f c u : base_ok (set_versions f c u) = base_ok f.
Proof. destruct f; reflexivity. Qed.

(* the fragment has exactly one row id per physical row *)
Definition assigned (f : Fragment) : bool :=
  match fr_phys f, fr_row_ids f with Some p, Some ids => len_n ids =? p | _, _ => false end.

Lemma new_ok_unstable f : new_fragment_ok false f = true -> frag_consistent false f = true.
Proof.
  rewrite new_fragment_ok_iff, frag_consistent_iff. intros [B [p [E [R V]]]]. split; [exact B|]. exists p.
  cbn [orb] in V. apply andb_true_iff in V as [V1 V2].
  split; [exact E|]. split; [|split; assumption].
  destruct (fr_row_ids f); [discriminate | reflexivity].
Qed.
Lemma consistent_assigned f : frag_consistent true f = true -> assigned f = true.
Proof.
  rewrite frag_consistent_iff. intros [_ [p [E [R _]]]]. unfold assigned. rewrite E.
  unfold row_ids_ok in R. destruct (fr_row_ids f); [exact R | discriminate].
Qed.

(* ================================================================ lengths *)
Lemma len_n_app {A} (a b : list A) : len_n (a ++ b) = len_n a + len_n b.
Proof. unfold len_n. rewrite app_length. lia. Qed.
Lemma len_n_range s n : len_n (n_range s n) = n.
Proof. unfold len_n, n_range. rewrite map_length, seq_length. lia. Qed.
Lemma len_n_rep n v : len_n (n_rep n v) = n.
Proof. unfold len_n, n_rep. rewrite repeat_length. lia. Qed.
Lemma len_n_map {A B} (f : A -> B) l : len_n (map f l) = len_n l.
Proof. unfold len_n. rewrite map_length. reflexivity. Qed.

(* ================================================================ fragments_with_ids *)
Definition nz_ids (l : list Fragment) : list N := filter (fun i => negb (i =? 0)) (frag_ids l).

Lemma fwi_forallb (P : Fragment -> bool) :
  (forall f i, P f = true -> P (set_id f i) = true) ->
  forall l fid, forallb P l = true -> forallb P (fst (fragments_with_ids l fid)) = true.
Proof.
  intros HP. induction l as [|f r IH]; intros fid H; [reflexivity|].
  cbn [forallb] in H. apply andb_true_iff in H as [Hf Hr]. cbn [fragments_with_ids].
  destruct (fr_id f =? 0).
  - specialize (IH (fid + 1) Hr). destruct (fragments_with_ids r (fid + 1)) as [r' n]. cbn [fst forallb] in *.
    apply andb_true_iff. split; [apply HP; exact Hf | exact IH].
  - specialize (IH fid Hr). destruct (fragments_with_ids r fid) as [r' n]. cbn [fst forallb] in *.
    apply andb_true_iff. split; assumption.
Qed.

Lemma fwi_ids : forall l fid l' fid', fragments_with_ids l fid = (l', fid') ->
  fid <= fid'
  /\ (forall x, In x (frag_ids l') -> In x (nz_ids l) \/ (fid <= x /\ x < fid'))
  /\ (NoDup (nz_ids l) -> (forall x, In x (nz_ids l) -> x < fid) -> NoDup (frag_ids l')).
Proof.
  induction l as [|f r IH]; intros fid l' fid' H.
  - cbn [fragments_with_ids] in H. inversion H; subst. repeat split; [lia | intros x [] | intros; constructor].
  - cbn [fragments_with_ids] in H. unfold nz_ids, frag_ids in *. cbn [map filter].
    destruct (fr_id f =? 0) eqn:Z.
    + destruct (fragments_with_ids r (fid + 1)) as [r' n] eqn:E. inversion H; subst. clear H.
      destruct (IH _ _ _ E) as [L [M D]]. cbn [negb map]. rewrite fr_id_set_id.
      repeat split; [lia | |].
      * intros x [Ex|I]; [subst; right; lia | destruct (M x I) as [J|J]; [left; exact J | right; lia]].
      * intros ND LT. constructor; [|apply D; [exact ND | intros x I; specialize (LT x I); lia]].
        intro I. destruct (M fid I) as [J|J]; [specialize (LT fid J); lia | lia].
    + destruct (fragments_with_ids r fid) as [r' n] eqn:E. inversion H; subst. clear H.
      destruct (IH _ _ _ E) as [L [M D]]. cbn [negb map].
      repeat split; [exact L | |].
      * intros x [Ex|I]; [subst; left; left; reflexivity | destruct (M x I) as [J|J]; [left; right; exact J | right; exact J]].
      * intros ND LT. inversion ND; subst. constructor; [|apply D; [assumption | intros x I; apply LT; right; exact I]].
        intro I. destruct (M _ I) as [J|J]; [contradiction | specialize (LT (fr_id f) (or_introl eq_refl)); lia].
Qed.

Lemma unassigned_split s l : unassigned_ok s l = true -> nz_ids l = [] /\ forallb (new_fragment_ok s) l = true.
Proof.
  unfold unassigned_ok, nz_ids, frag_ids. induction l as [|f r IH]; cbn [forallb map filter]; intro H; [split; reflexivity|].
  apply andb_true_iff in H as [Hf Hr]. apply andb_true_iff in Hf as [Z Hf]. destruct (IH Hr) as [A B].
  rewrite Z, Hf, A, B. split; reflexivity.
Qed.

(* ================================================================ assign_row_ids and the version stamps *)
Lemma assign_row_ids_ok : forall l n n' l',
  assign_row_ids n l = Ok (n', l') -> forallb (new_fragment_ok true) l = true ->
  forallb (fun f => base_ok f && assigned f) l' = true /\ frag_ids l' = frag_ids l /\ n <= n'.
Proof.
  induction l as [|f r IH]; intros n n' l' H K.
  - cbn [assign_row_ids] in H. inversion H; subst. repeat split; lia.
  - cbn [forallb] in K. apply andb_true_iff in K as [Kf Kr]. cbn [assign_row_ids] in H.
    apply new_fragment_ok_iff in Kf as [B [p [Ep [R _]]]]. rewrite Ep in H.
    destruct (fr_row_ids f) as [ids|] eqn:Er.
    + cbn [andb] in R. destruct (len_n ids =? p) eqn:C.
      * bind_inv H. destruct x as [m r']. inversion H; subst. destruct (IH _ _ _ E Kr) as [A [I L]].
        cbn [forallb]. unfold frag_ids in *. cbn [map]. rewrite A, I, B. unfold assigned. rewrite Ep, Er, C. repeat split; assumption.
      * destruct (len_n ids <? p) eqn:C2; [|apply N.leb_le in R; apply N.ltb_ge in C2; apply N.eqb_neq in C; lia].
        destruct (two64 <=? n + (p - len_n ids)); [discriminate|].
        bind_inv H. destruct x as [m r']. inversion H; subst. destruct (IH _ _ _ E Kr) as [A [I L]].
        cbn [forallb]. unfold frag_ids in *. cbn [map]. rewrite A, I, base_ok_set_row_ids, B.
        apply N.ltb_lt in C2.
        assert (Q : assigned (set_row_ids f (Some (ids ++ n_range n (p - len_n ids)))) = true).
        { unfold assigned. destruct f; cbn in *. rewrite Ep. rewrite len_n_app, len_n_range. apply N.eqb_eq. lia. }
        rewrite Q, fr_id_set_row_ids. repeat split; lia.
    + destruct (two64 <=? n + p); [discriminate|].
      bind_inv H. destruct x as [m r']. inversion H; subst. destruct (IH _ _ _ E Kr) as [A [I L]].
      cbn [forallb]. unfold frag_ids in *. cbn [map]. rewrite A, I, base_ok_set_row_ids, B.
      assert (Q : assigned (set_row_ids f (Some (n_range n p))) = true).
      { unfold assigned. destruct f; cbn in *. rewrite Ep. rewrite len_n_range. apply N.eqb_refl. }
      rewrite Q, fr_id_set_row_ids. repeat split; lia.
Qed.

Lemma assign_row_ids_complete : forall l n, forallb assigned l = true -> assign_row_ids n l = Ok (n, l).
Proof.
  induction l as [|f r IH]; intros n K; [reflexivity|]. cbn [forallb] in K. apply andb_true_iff in K as [Kf Kr].
  cbn [assign_row_ids]. unfold assigned in Kf. destruct (fr_phys f) as [p|]; [|discriminate].
  destruct (fr_row_ids f) as [ids|]; [|discriminate]. rewrite Kf, (IH n Kr). reflexivity.
Qed.

Lemma build_version_meta_ok f v vm p :
  build_version_meta f v = Ok vm -> fr_phys f = Some p -> versions_ok p vm = true.
Proof.
  unfold build_version_meta. intros H E. rewrite E in H. destruct (0 <? p); [|inversion H; reflexivity].
  destruct (fr_row_ids f); [|discriminate]. inversion H; subst. cbn [versions_ok]. rewrite len_n_rep. apply N.eqb_refl.
Qed.

Lemma assigned_consistent f c u p :
  base_ok f = true -> assigned f = true -> fr_phys f = Some p -> versions_ok p c = true -> versions_ok p u = true ->
  frag_consistent true (set_versions f c u) = true.
Proof.
  intros B A E C U. apply frag_consistent_iff. rewrite base_ok_set_versions. split; [exact B|]. exists p.
  unfold assigned in A. rewrite E in A. destruct f as [i ph fs d rid ca ua]; cbn in *. subst ph.
  destruct rid; [|discriminate]. repeat split; assumption.
Qed.

Lemma stamp_new_ok v : forall l l',
  stamp_new_fragments v l = Ok l' -> forallb (fun f => base_ok f && assigned f) l = true ->
  forallb (frag_consistent true) l' = true /\ frag_ids l' = frag_ids l.
Proof.
  induction l as [|f r IH]; intros l' H K; cbn [stamp_new_fragments] in H; [inversion H; split; reflexivity|].
  cbn [forallb] in K. apply andb_true_iff in K as [Kf Kr]. apply andb_true_iff in Kf as [B A].
  bind_inv H. bind_inv H. inversion H; subst. destruct (IH _ E0 Kr) as [C I].
  assert (P : exists p, fr_phys f = Some p) by (unfold assigned in A; destruct (fr_phys f) as [p|]; [exists p; reflexivity | discriminate]).
  destruct P as [p Ep]. pose proof (build_version_meta_ok _ _ _ _ E Ep) as V.
  cbn [forallb]. unfold frag_ids in *. cbn [map]. rewrite C, I, (assigned_consistent f x x p B A Ep V V), fr_id_set_versions.
  split; reflexivity.
Qed.

Lemma stamp_updated_ok ex v : forall l l',
  stamp_updated_fragments ex v l = Ok l' -> forallb (fun f => base_ok f && assigned f) l = true ->
  forallb (frag_consistent true) l' = true /\ frag_ids l' = frag_ids l.
Proof.
  induction l as [|f r IH]; intros l' H K; cbn [stamp_updated_fragments] in H; [inversion H; split; reflexivity|].
  cbn [forallb] in K. apply andb_true_iff in K as [Kf Kr]. apply andb_true_iff in Kf as [B A].
  bind_inv H. bind_inv H. inversion H; subst. destruct (IH _ E0 Kr) as [C I].
  assert (P : exists p ids, fr_phys f = Some p /\ fr_row_ids f = Some ids /\ len_n ids = p).
  { unfold assigned in A. destruct (fr_phys f) as [p|]; [|discriminate]. destruct (fr_row_ids f) as [ids|]; [|discriminate].
    exists p, ids. apply N.eqb_eq in A. repeat split; assumption. }
  destruct P as [p [ids [Ep [Er El]]]]. rewrite Er in E. bind_inv E. inversion E; subst x.
  pose proof (build_version_meta_ok _ _ _ _ E1 Ep) as V.
  assert (V' : versions_ok p (Some (map (created_version_of ex) ids)) = true) by (cbn [versions_ok]; rewrite len_n_map, El; apply N.eqb_refl).
  cbn [forallb]. unfold frag_ids in *. cbn [map]. rewrite C, I, (assigned_consistent f _ _ _ B A Ep V' V), fr_id_set_versions.
  split; reflexivity.
Qed.

Lemma stamp_if_stable_ok cur s nri l l' nri' :
  stamp_if_stable cur nri l = Ok (l', nri') -> is_some nri = s -> forallb (new_fragment_ok s) l = true ->
  forallb (frag_consistent s) l' = true /\ frag_ids l' = frag_ids l.
Proof.
  unfold stamp_if_stable. intros H S K. destruct nri as [n|]; cbn [is_some] in S; subst s.
  - bind_inv H. destruct x as [n' l1]. bind_inv H. inversion H; subst.
    destruct (assign_row_ids_ok _ _ _ _ E K) as [A [I _]]. destruct (stamp_new_ok _ _ _ E0 A) as [C J].
    split; [exact C | rewrite J; exact I].
  - inversion H; subst. split; [|reflexivity]. eapply forallb_impl; [|exact K]. intros f _. apply new_ok_unstable.
Qed.

(* ================================================================ finish_manifest *)
Lemma frag_ids_sort_remove l : frag_ids (remove_tombstoned_data_files (sort_frags l)) = frag_ids (sort_frags l).
Proof. apply remove_tombstoned_ids. Qed.

Lemma max_ok_lt mx l : max_ok (Some mx) l = true -> mx < two32.
Proof. unfold max_ok. rewrite andb_true_iff. intros [_ H]. apply N.ltb_lt. exact H. Qed.

Lemma finish_wf cur op cfg schema final idx nri s m' :
  finish_manifest cur op cfg schema final idx nri = Ok m' ->
  forallb (frag_consistent s) final = true -> NoDup (frag_ids final) ->
  schema_ok schema = true -> forallb (index_ok schema) idx = true ->
  (s = false -> cfg_stable cfg = false) ->
  (match cur with Some m => max_ok (m_max_fragment_id m) (m_fragments m) = true | None => True end) ->
  wf_manifest m' = true.
Proof.
  unfold finish_manifest. intros H C ND SC IX SF MX.
  set (F := remove_tombstoned_data_files (sort_frags final)) in *.
  assert (CF : forallb (frag_consistent s) (sort_frags final) = true) by (rewrite (forallb_perm _ _ _ (sort_frags_perm final)); exact C).
  assert (WF : forallb (wf_fragment s) F = true) by (apply remove_tombstoned_wf; exact CF).
  assert (SS : strict_sorted_n (frag_ids F) = true) by (unfold F; rewrite frag_ids_sort_remove; apply sort_frags_strict; exact ND).
  assert (CF' : forallb (frag_consistent s) F = true) by (eapply forallb_impl; [|exact WF]; intros f _; apply wf_fragment_consistent).
  destruct (row_ids_flag s F CF') as [ALL ANY].
  bind_inv H. destruct x as [[version prev_max] storage].
  assert (PM : match prev_max with Some c => c < two32 | None => True end).
  { destruct cur as [m|].
    - inversion E; subst. destruct (m_max_fragment_id m) as [c|]; [eapply max_ok_lt; exact MX | exact I].
    - bind_inv E. inversion E; subst. exact I. }
  clear E. destruct (existsb num_rows_underflows F); [discriminate|].
  bind_inv H. rename x into stable. bind_inv H. rename x into mx0. bind_inv H. rename x into mx.
  inversion H; subst m'. clear H.
  assert (ST : match F with [] => True | _ => stable = s end).
  { destruct F as [|f0 F0] eqn:EF; [exact I|]. rewrite ALL, ANY in E. destruct s.
    - cbn in E. inversion E; reflexivity.
    - rewrite (SF eq_refl) in E. cbn in E. inversion E; reflexivity. }
  pose proof (update_max_ok _ _ _ PM E0) as M0.
  assert (M1 : max_ok mx F = true).
  { destruct op; try (inversion E1; subst; exact M0).
    destruct (two32 <=? match mx0 with Some x => x | None => 0 end + num_fragments) eqn:L; [discriminate|].
    inversion E1; subst. apply N.leb_gt in L. unfold max_ok in *. destruct mx0 as [c|].
    - apply andb_true_iff in M0 as [A B]. apply andb_true_iff. split; [|apply N.ltb_lt; exact L].
      eapply forallb_impl; [|exact A]. intros f _ Hf. apply N.leb_le in Hf. apply N.leb_le. lia.
    - destruct F; [|discriminate]. cbn [forallb andb]. apply N.ltb_lt. exact L. }
  unfold wf_manifest, uses_stable. cbn [m_schema m_fragments m_max_fragment_id m_next_row_id m_indices].
  replace (is_some (if stable then Some match nri with Some n => n | None => 0 end else None)) with stable by (destruct stable; reflexivity).
  rewrite SC, SS, M1, IX, (forallb_wf_fragment_flag s stable F ST WF). reflexivity.
Qed.

(* ================================================================ facts about a well formed current manifest *)
Definition wf_cur (s : bool) (cur : option Manifest) : Prop :=
  match cur with Some m => wf_manifest m = true /\ uses_stable m = s | None => True end.

Lemma wf_facts s m :
  wf_manifest m = true -> uses_stable m = s ->
  schema_ok (m_schema m) = true /\ forallb (frag_consistent s) (m_fragments m) = true
  /\ NoDup (frag_ids (m_fragments m)) /\ max_ok (m_max_fragment_id m) (m_fragments m) = true
  /\ forallb (index_ok (m_schema m)) (m_indices m) = true
  /\ (forall x, In x (frag_ids (m_fragments m)) -> x < match max_fragment_id m with Some id => id + 1 | None => 0 end).
Proof.
  unfold wf_manifest. intros H S. rewrite S in H. rewrite !andb_true_iff in H. destruct H as [[[[A B] C] D] E].
  repeat split; try assumption.
  - eapply forallb_impl; [|exact B]. intros f _. apply wf_fragment_consistent.
  - apply strict_sorted_nodup; exact C.
  - intros x I. unfold max_fragment_id, max_ok in *. destruct (m_max_fragment_id m) as [mx|].
    + apply andb_true_iff in D as [D _]. apply in_map_iff in I as [f [Ef If]]. rewrite forallb_forall in D.
      specialize (D f If). apply N.leb_le in D. lia.
    + destruct (m_fragments m); [destruct I | discriminate].
Qed.

(* ================================================================ the arms of build_manifest *)
Lemma apply_updates_last_cases upd : forall f,
  (apply_updates_last upd f = f \/ In (apply_updates_last upd f) upd) /\ fr_id (apply_updates_last upd f) = fr_id f.
Proof.
  unfold apply_updates_last. induction upd as [|u r IH]; intro f; cbn [fold_left]; [split; [left|]; reflexivity|].
  destruct (fr_id u =? fr_id f) eqn:E.
  - apply N.eqb_eq in E. destruct (IH u) as [[A|A] B]; (split; [|rewrite B; exact E]).
    + right. left. symmetry. exact A.
    + right. right. exact A.
  - destruct (IH f) as [[A|A] B]; (split; [|exact B]); [left; exact A | right; right; exact A].
Qed.

Lemma apply_updates_first_cases rem upd f :
  forall g, In g (apply_updates_first rem upd f) -> (g = f \/ In g upd) /\ fr_id g = fr_id f.
Proof.
  unfold apply_updates_first. intros g I. destruct (n_mem (fr_id f) rem); [destruct I|].
  destruct (find (fun uf => fr_id uf =? fr_id f) upd) as [u|] eqn:F.
  - destruct I as [E|[]]; subst g. apply find_some in F as [I E]. apply N.eqb_eq in E. split; [right; exact I | exact E].
  - destruct I as [E|[]]; subst g. split; [left|]; reflexivity.
Qed.
Lemma apply_updates_first_len rem upd f : (length (apply_updates_first rem upd f) <= 1)%nat.
Proof. unfold apply_updates_first. destruct (n_mem _ _); [cbn; lia|]. destruct (find _ _); cbn; lia. Qed.

Lemma flat_map_ids (g : Fragment -> list Fragment) :
  (forall f h, In h (g f) -> fr_id h = fr_id f) -> (forall f, (length (g f) <= 1)%nat) ->
  forall l, NoDup (frag_ids l) ->
  NoDup (frag_ids (flat_map g l)) /\ (forall x, In x (frag_ids (flat_map g l)) -> In x (frag_ids l)).
Proof.
  intros G1 G2. induction l as [|f r IH]; intro ND; [split; [constructor | intros x []]|].
  unfold frag_ids in *. cbn [flat_map map] in *. inversion ND; subst. destruct (IH H2) as [A B]. rewrite map_app.
  assert (K : forall x, In x (map fr_id (g f)) -> x = fr_id f).
  { intros x I. apply in_map_iff in I as [h [E I]]. subst. apply G1; exact I. }
  split.
  - apply NoDup_app_intro; [| exact A |].
    + specialize (G2 f). destruct (g f) as [|h [|h2 t]]; cbn [map]; [constructor | constructor; [intros []|constructor] | cbn in G2; lia].
    + intros x I J. rewrite (K x I) in J. apply H1. apply B. exact J.
  - intros x I. apply in_app_iff in I as [I|I]; [left; symmetry; apply K; exact I | right; apply B; exact I].
Qed.

(* handle_rewrite_fragments: the invariant of the loop over the groups *)
Definition reserved_ids (groups : list RewriteGroup) : list N := nz_ids (flat_map rg_new groups).
Lemma nz_ids_app a b : nz_ids (a ++ b) = nz_ids a ++ nz_ids b.
Proof. unfold nz_ids, frag_ids. rewrite map_app. apply filter_app_eq. Qed.

Lemma handle_rewrite_fragments_ok s : forall groups final fid final' fid',
  handle_rewrite_fragments final groups fid = Ok (final', fid') ->
  forallb (frag_consistent s) final = true ->
  forallb (frag_consistent s) (flat_map rg_new groups) = true ->
  NoDup (frag_ids final) -> NoDup (reserved_ids groups) ->
  (forall x, In x (frag_ids final) -> ~ In x (reserved_ids groups)) ->
  (forall x, In x (frag_ids final) -> x < fid) ->
  (forall x, In x (reserved_ids groups) -> x < fid) ->
  forallb (frag_consistent s) final' = true /\ NoDup (frag_ids final').
Proof.
  induction groups as [|g rest IH]; intros final fid final' fid' H C CN ND NR DJ LT LR.
  - cbn [handle_rewrite_fragments] in H. inversion H; subst. split; assumption.
  - cbn [handle_rewrite_fragments] in H.
    destruct (rg_old g) as [|first old_rest] eqn:EO; [discriminate|].
    destruct (position_of first final) as [start|]; [|discriminate].
    destruct (contiguous_from (skipn (S start) final) old_rest) as [contiguous|]; [|discriminate].
    destruct (fragments_with_ids (rg_new g) fid) as [newf fid1] eqn:EF.
    unfold reserved_ids in *. cbn [flat_map] in *. rewrite nz_ids_app in *. rewrite forallb_app in CN.
    apply andb_true_iff in CN as [CN1 CN2].
    destruct (fwi_ids _ _ _ _ EF) as [L1 [M1 D1]].
    assert (NDnew : NoDup (frag_ids newf)).
    { apply D1; [eapply NoDup_app_l; exact NR | intros x I; apply LR; apply in_or_app; left; exact I]. }
    assert (Cnew : forallb (frag_consistent s) newf = true).
    { pose proof (fwi_forallb (frag_consistent s) (fun f i Hf => eq_trans (frag_consistent_set_id s f i) Hf) (rg_new g) fid CN1) as Q.
      rewrite EF in Q. exact Q. }
    set (kept := if contiguous then firstn start final ++ skipn (start + length (first :: old_rest)) final
                 else filter (fun f => negb (n_mem (fr_id f) (first :: old_rest))) final).
    assert (Ckept : forallb (frag_consistent s) kept = true).
    { unfold kept. destruct contiguous; [apply forallb_app_iff; split; [apply forallb_firstn | apply forallb_skipn]; exact C | apply forallb_filter; exact C]. }
    assert (NDkept : NoDup (frag_ids kept)).
    { unfold kept, frag_ids. destruct contiguous; [apply NoDup_map_firstn_skipn; [lia | exact ND] | apply NoDup_map_filter; exact ND]. }
    assert (INkept : forall x, In x (frag_ids kept) -> In x (frag_ids final)).
    { unfold kept, frag_ids. intros x I. destruct contiguous.
      - apply in_map_iff in I as [y [E I]]. apply in_map_iff. exists y. split; [exact E | eapply In_firstn_skipn; exact I].
      - eapply In_map_filter; exact I. }
    (* the new list is a rearrangement of kept ++ newf *)
    assert (PERM : Permutation (if contiguous then firstn start final ++ newf ++ skipn (start + length (first :: old_rest)) final
                                else filter (fun f => negb (n_mem (fr_id f) (first :: old_rest))) final ++ newf) (kept ++ newf)).
    { unfold kept. destruct contiguous; [|apply Permutation_refl].
      rewrite <- app_assoc. apply Permutation_app_head. apply Permutation_app_comm. }
    assert (DISJ : forall x, In x (frag_ids kept) -> ~ In x (frag_ids newf)).
    { intros x I J. specialize (INkept x I). destruct (M1 x J) as [K|K].
      - apply (DJ x INkept). apply in_or_app. left. exact K.
      - specialize (LT x INkept). lia. }
    assert (C2 : forallb (frag_consistent s) (kept ++ newf) = true) by (apply forallb_app_iff; split; assumption).
    assert (ND2 : NoDup (frag_ids (kept ++ newf))) by (unfold frag_ids; rewrite map_app; apply NoDup_app_intro; assumption).

    eapply IH; [exact H | | exact CN2 | | eapply NoDup_app_r; exact NR | | |].
    + rewrite (forallb_perm _ _ _ PERM). exact C2.
    + eapply Permutation_NoDup; [apply Permutation_sym; apply frag_ids_perm; exact PERM | exact ND2].
    + intros x I J. apply (Permutation_in _ (frag_ids_perm _ _ PERM)) in I. unfold frag_ids in I. rewrite map_app in I.
      apply in_app_iff in I as [I|I].
      * apply (DJ x (INkept x I)). apply in_or_app. right. exact J.
      * destruct (M1 x I) as [K|K]; [eapply NoDup_app_disj; [exact NR | exact K | exact J] |].
        assert (x < fid) by (apply LR; apply in_or_app; right; exact J). lia.
    + intros x I. apply (Permutation_in _ (frag_ids_perm _ _ PERM)) in I. unfold frag_ids in I. rewrite map_app in I.
      apply in_app_iff in I as [I|I]; [specialize (LT x (INkept x I)); lia|].
      destruct (M1 x I) as [K|K]; [assert (x < fid) by (apply LR; apply in_or_app; left; exact K); lia | lia].
    + intros x I. assert (x < fid) by (apply LR; apply in_or_app; right; exact I). lia.
Qed.

(* DataReplacement *)
Lemma live_of_map_same_fields (g : DataFile -> DataFile) files :
  (forall d, df_fields (g d) = df_fields d) -> live_of (map g files) = live_of files.
Proof.
  intro G. induction files as [|d r IH]; [reflexivity|]. cbn [map]. rewrite !live_of_cons, G, IH. reflexivity.
Qed.
Lemma live_of_incl_all files x : In x (live_of files) -> In x (flat_map df_fields files).
Proof. unfold live_of. intro I. apply filter_In in I as [I _]. exact I. Qed.

Lemma replace_in_fragment_ok s frag new_file nf :
  replace_in_fragment frag new_file = Ok nf ->
  frag_consistent s frag = true ->
  fr_phys frag = Some (df_rows new_file) ->
  NoDup (filter (fun x => negb (x =? TOMBSTONE)%Z) (df_fields new_file)) ->
  forallb (fun x => (0 <=? x)%Z) (filter (fun x => negb (x =? TOMBSTONE)%Z) (df_fields new_file)) = true ->
  frag_consistent s nf = true /\ fr_id nf = fr_id frag.
Proof.
  unfold replace_in_fragment. intros H C EP NDn POSn.
  set (g := fun file => if lz_eqb (df_fields file) (df_fields new_file) && pair_eqb N.eqb N.eqb (df_version file) (df_version new_file)
                        then mkDataFile (df_path new_file) (df_fields file) (df_version file) (df_rows new_file) else file) in *.
  destruct (frag_consistent_files _ _ _ C EP) as [R [ND POS]].
  assert (G1 : forall d, df_fields (g d) = df_fields d) by (intro d; unfold g; destruct (_ && _); reflexivity).
  assert (Rg : forallb (fun d => df_rows d =? df_rows new_file) (map g (fr_files frag)) = true).
  { rewrite forallb_map. eapply forallb_impl; [|exact R]. intros d _ Hd. unfold g. destruct (_ && _); [cbn [df_rows]; apply N.eqb_refl | exact Hd]. }
  bind_inv H. rename x into files.
  destruct (fragment_eqb (set_files frag files) frag); [discriminate|]. inversion H; subst nf. clear H.
  split; [|apply fr_id_set_files].
  destruct (negb (existsb (fun x => z_mem x (all_fields frag)) (df_fields new_file))) eqn:DJ.
  - destruct (try_from_major_minor _ _) as [v|]; [|discriminate]. inversion E; subst files. clear E.
    apply frag_consistent_set_files; [exact C | | |].
    + intros p Ep. rewrite EP in Ep. inversion Ep; subst p. apply forallb_app_iff. split; [exact Rg|]. cbn [forallb df_rows]. rewrite N.eqb_refl. reflexivity.
    + rewrite live_of_app, (live_of_map_same_fields g _ G1). apply NoDup_app_intro; [exact ND | | ].
      * unfold live_of. cbn [flat_map df_fields]. rewrite app_nil_r. exact NDn.
      * intros x I J. apply negb_true_iff in DJ. assert (K : existsb (fun x => z_mem x (all_fields frag)) (df_fields new_file) = true); [|rewrite K in DJ; discriminate].
        apply existsb_exists. exists x. split.
        -- unfold live_of in J. cbn [flat_map df_fields] in J. rewrite app_nil_r in J. apply filter_In in J as [J _]. exact J.
        -- apply z_mem_In. unfold all_fields. apply live_of_incl_all. exact I.
    + rewrite live_of_app, (live_of_map_same_fields g _ G1), forallb_app. apply andb_true_iff. split; [exact POS|].
      unfold live_of. cbn [flat_map df_fields]. rewrite app_nil_r. exact POSn.
  - inversion E; subst files. clear E.
    apply frag_consistent_set_files; [exact C | | |]; rewrite ?(live_of_map_same_fields g _ G1); try assumption.
    intros p Ep. rewrite EP in Ep. inversion Ep; subst p. exact Rg.
Qed.

Lemma replace_all_ok s existing : forall repl out,
  replace_all existing repl = Ok out ->
  forallb (frag_consistent s) existing = true ->
  forallb (fun r => match find (fun f => fr_id f =? fst r) existing with
                    | Some f => option_eqb N.eqb (fr_phys f) (Some (df_rows (snd r)))
                    | None => true
                    end
                    && nodup_z (filter (fun x => negb (x =? TOMBSTONE)%Z) (df_fields (snd r)))
                    && forallb (fun x => (0 <=? x)%Z) (filter (fun x => negb (x =? TOMBSTONE)%Z) (df_fields (snd r)))) repl = true ->
  forallb (frag_consistent s) out = true /\ frag_ids out = map fst repl.
Proof.
  induction repl as [|[id nfile] r IH]; intros out H C K; cbn [replace_all] in H; [inversion H; split; reflexivity|].
  cbn [forallb fst snd] in K. apply andb_true_iff in K as [K1 Kr]. apply andb_true_iff in K1 as [K1 K3]. apply andb_true_iff in K1 as [K1 K2].
  destruct (find (fun f => fr_id f =? id) existing) as [frag|] eqn:F; [|discriminate].
  bind_inv H. bind_inv H. inversion H; subst out. clear H.
  destruct (IH _ E0 C Kr) as [A B].
  assert (Cf : frag_consistent s frag = true) by (eapply find_some_forallb; eassumption).
  assert (EP : fr_phys frag = Some (df_rows nfile)).
  { destruct (fr_phys frag) as [p|]; cbn [option_eqb] in K1; [apply N.eqb_eq in K1; subst; reflexivity | discriminate]. }
  destruct (replace_in_fragment_ok s frag nfile x E Cf EP (proj1 (nodup_z_NoDup _) K2) K3) as [Cx Ix].
  apply find_some in F as [_ F]. apply N.eqb_eq in F.
  cbn [forallb]. unfold frag_ids in *. cbn [map fst]. rewrite Cx, A, B, Ix, F. split; reflexivity.
Qed.

(* ---------------------------------------------------------------- all arms *)
Lemma forallb_In {A} (p : A -> bool) l x : forallb p l = true -> In x l -> p x = true.
Proof. rewrite forallb_forall. intros H I. apply H; exact I. Qed.

Lemma consistent_is_new_ok f : frag_consistent true f = true -> new_fragment_ok true f = true.
Proof.
  rewrite frag_consistent_iff, new_fragment_ok_iff. intros [B [p [E [R _]]]]. split; [exact B|]. exists p. split; [exact E|].
  split; [|reflexivity]. unfold row_ids_ok in R. destruct (fr_row_ids f); [|reflexivity].
  cbn [andb] in *. apply N.eqb_eq in R. apply N.leb_le. lia.
Qed.

Lemma arm_ok cur op cfg schema nri s final idx nri' :
  wf_cur s cur -> op_ok s cur op = true -> is_some nri = s ->
  op_schema cur op = Ok schema ->
  build_arm cur op cfg schema (start_fragment_id cur op) (cur_indices cur) nri = Ok (final, idx, nri') ->
  forallb (frag_consistent s) final = true /\ NoDup (frag_ids final)
  /\ forallb (index_ok schema) idx = true /\ schema_ok schema = true.
Proof.
  intros W OK NS SCH H.
  (* the existing fragments, when there is a current manifest *)
  assert (EX : forall existing, with_existing cur = Ok existing ->
           exists m, cur = Some m /\ existing = m_fragments m /\ schema_ok (m_schema m) = true
           /\ forallb (frag_consistent s) existing = true /\ NoDup (frag_ids existing)
           /\ forallb (index_ok (m_schema m)) (m_indices m) = true
           /\ (forall x, In x (frag_ids existing) -> x < match max_fragment_id m with Some id => id + 1 | None => 0 end)).
  { intros existing E. destruct cur as [m|]; [|discriminate]. cbn [with_existing] in E. inversion E; subst existing.
    destruct W as [W1 W2]. destruct (wf_facts s m W1 W2) as [A [B [C [_ [D F]]]]]. exists m. repeat split; assumption. }
  destruct op; cbn [build_arm] in H.
  - (* Append *)
    bind_inv H. rename x into existing. destruct (EX _ E) as [m [Ec [Ee [S1 [C1 [N1 [I1 L1]]]]]]]. subst cur existing.
    bind_inv H. destruct x as [newf nri1]. inversion H; subst final idx nri'. clear H.
    cbn [op_ok] in OK. destruct (unassigned_split _ _ OK) as [NZ NF].
    cbn [op_schema] in SCH. inversion SCH; subst schema. cbn [start_fragment_id cur_indices] in *.
    set (start := match max_fragment_id m with Some id => id + 1 | None => 0 end) in *.
    destruct (fragments_with_ids fragments start) as [l1 fid1] eqn:EF. cbn [fst] in E0.
    pose proof (fwi_forallb (new_fragment_ok s) (fun f i Hf => eq_trans (new_fragment_ok_set_id s f i) Hf) fragments start NF) as Q.
    rewrite EF in Q. cbn [fst] in Q.
    destruct (stamp_if_stable_ok _ s _ _ _ _ E0 NS Q) as [C2 I2].
    destruct (fwi_ids _ _ _ _ EF) as [_ [M D]]. rewrite NZ in M, D.
    repeat split; [apply forallb_app_iff; split; assumption | | exact I1 | exact S1].
    unfold frag_ids. rewrite map_app. fold (frag_ids (m_fragments m)) (frag_ids newf). rewrite I2.
    apply NoDup_app_intro; [exact N1 | apply D; [constructor | intros x []] |].
    intros x I J. specialize (L1 x I). destruct (M x J) as [[]|K]. lia.
  - (* Delete *)
    bind_inv H. rename x into existing. destruct (EX _ E) as [m [Ec [Ee [S1 [C1 [N1 [I1 L1]]]]]]]. subst cur existing.
    inversion H; subst final idx nri'. clear H. cbn [op_schema] in SCH. inversion SCH; subst schema. cbn [op_ok] in OK.
    repeat split; [| | apply retain_relevant_indices_ok | exact S1].
    + rewrite forallb_map. apply forallb_filter. eapply forallb_impl; [|exact C1]. intros f _ Hf.
      destruct (apply_updates_last_cases updated_fragments f) as [[A|A] _]; [rewrite A; exact Hf | exact (forallb_In _ _ _ OK A)].
    + unfold frag_ids. rewrite map_map. rewrite (map_ext _ fr_id) by (intro f; apply (proj2 (apply_updates_last_cases updated_fragments f))).
      apply NoDup_map_filter. exact N1.
  - (* Overwrite *)
    bind_inv H. destruct x as [newf nri1]. inversion H; subst final idx nri'. clear H.
    cbn [op_ok] in OK. apply andb_true_iff in OK as [OK SO]. destruct (unassigned_split _ _ OK) as [NZ NF].
    cbn [op_schema] in SCH. inversion SCH; subst schema. cbn [start_fragment_id] in *.
    destruct (fragments_with_ids fragments 0) as [l1 fid1] eqn:EF. cbn [fst] in E.
    pose proof (fwi_forallb (new_fragment_ok s) (fun f i Hf => eq_trans (new_fragment_ok_set_id s f i) Hf) fragments 0 NF) as Q.
    rewrite EF in Q. cbn [fst] in Q.
    destruct (stamp_if_stable_ok _ s _ _ _ _ E NS Q) as [C2 I2].
    destruct (fwi_ids _ _ _ _ EF) as [_ [M D]]. rewrite NZ in M, D.
    repeat split; [exact C2 | rewrite I2; apply D; [constructor | intros x []] | exact SO].
  - (* CreateIndex *)
    bind_inv H. rename x into existing. destruct (EX _ E) as [m [Ec [Ee [S1 [C1 [N1 [I1 L1]]]]]]]. subst cur existing.
    inversion H; subst final idx nri'. clear H. cbn [op_schema] in SCH. inversion SCH; subst schema. cbn [op_ok] in OK.
    repeat split; [exact C1 | exact N1 | | exact S1].
    apply forallb_app_iff. split; [apply forallb_filter; exact I1 | exact OK].
  - (* Rewrite *)
    bind_inv H. rename x into existing. destruct (EX _ E) as [m [Ec [Ee [S1 [C1 [N1 [I1 L1]]]]]]]. subst cur existing.
    bind_inv H. destruct x as [final0 fid0]. bind_inv H. rename x into idx0. inversion H; subst final idx nri'. clear H.
    cbn [op_schema] in SCH. inversion SCH; subst schema. cbn [op_ok] in OK.
    rewrite !andb_true_iff in OK. destruct OK as [[[OC ON] OR] OF].
    cbn [start_fragment_id cur_indices] in *.
    set (start := match max_fragment_id m with Some id => id + 1 | None => 0 end) in *.
    assert (RES : forall x, In x (reserved_ids groups) -> ~ In x (frag_ids (m_fragments m)) /\ x < start).
    { intros x I. pose proof (forallb_In _ _ x OR I) as K. apply andb_true_iff in K as [K1 K2]. split.
      - apply negb_true_iff in K1. apply n_mem_false. exact K1.
      - unfold start. destruct (max_fragment_id m) as [mx|]; [apply N.leb_le in K2; lia | discriminate]. }
    destruct (handle_rewrite_fragments_ok s groups _ _ _ _ E0 C1 OC N1 (proj1 (nodup_n_NoDup _) ON)) as [CF NF].
    + intros x I J. apply (proj1 (RES x J)). exact I.
    + exact L1.
    + intros x I. apply (proj2 (RES x I)).
    + repeat split; [exact CF | exact NF | | exact S1].
      assert (K0 : forallb (index_ok (m_schema m)) idx0 = true).
      { destruct nri as [n|]; [destruct rewritten_indices; [eapply recalc_all_ok; eassumption | discriminate] | eapply handle_rewrite_indices_ok; eassumption]. }
      destruct frag_reuse_index as [fri|]; [|exact K0].
      apply forallb_app_iff. split; [apply forallb_filter; exact K0 | cbn [forallb]; rewrite OF; reflexivity].
  - (* DataReplacement *)
    destruct (negb (fields_all_same replacements)); [discriminate|].
    bind_inv H. rename x into existing. destruct (EX _ E) as [m [Ec [Ee [S1 [C1 [N1 [I1 L1]]]]]]]. subst cur existing.
    bind_inv H. rename x into replaced. inversion H; subst final idx nri'. clear H.
    cbn [op_schema] in SCH. inversion SCH; subst schema. cbn [op_ok] in OK. apply andb_true_iff in OK as [ON OK].
    destruct (replace_all_ok s _ _ _ E0 C1 OK) as [CR IR].
    repeat split; [apply forallb_app_iff; split; [exact CR | apply forallb_filter; exact C1] | | exact I1 | exact S1].
    unfold frag_ids. rewrite map_app. fold (frag_ids replaced). rewrite IR.
    apply NoDup_app_intro; [apply nodup_n_NoDup; exact ON | apply NoDup_map_filter; exact N1 |].
    intros x I J. apply in_map_iff in J as [f [Ef J]]. apply filter_In in J as [_ J]. apply negb_true_iff in J.
    apply n_mem_false in J. apply J. rewrite Ef. exact I.
  - (* Merge *)
    inversion H; subst final idx nri'. clear H. cbn [op_schema] in SCH. inversion SCH; subst schema0. cbn [op_ok] in OK.
    rewrite !andb_true_iff in OK. destruct OK as [[OC ON] OS].
    repeat split; [exact OC | apply nodup_n_NoDup; exact ON | apply retain_relevant_indices_ok | exact OS].
  - (* ReserveFragments *)
    bind_inv H. rename x into existing. destruct (EX _ E) as [m [Ec [Ee [S1 [C1 [N1 [I1 L1]]]]]]]. subst cur existing.
    inversion H; subst final idx nri'. clear H. cbn [op_schema] in SCH. inversion SCH; subst schema. repeat split; assumption.
  - (* Update *)
    bind_inv H. rename x into existing. destruct (EX _ E) as [m [Ec [Ee [S1 [C1 [N1 [I1 L1]]]]]]]. subst cur existing.
    bind_inv H. rename x into idx1. bind_inv H. destruct x as [new1 nri1]. bind_inv H. rename x into idx2.
    bind_inv H. destruct x as [new2 nri2]. inversion H; subst final idx nri'. clear H.
    cbn [op_schema] in SCH. inversion SCH; subst schema. cbn [op_ok] in OK. apply andb_true_iff in OK as [OU ONW].
    destruct (unassigned_split _ _ ONW) as [NZ NF]. cbn [start_fragment_id cur_indices] in *.
    set (start := match max_fragment_id m with Some id => id + 1 | None => 0 end) in *.
    destruct (fragments_with_ids new_fragments start) as [l1 fid1] eqn:EF. cbn [fst] in *.
    pose proof (fwi_forallb (new_fragment_ok s) (fun f i Hf => eq_trans (new_fragment_ok_set_id s f i) Hf) new_fragments start NF) as Q.
    rewrite EF in Q. cbn [fst] in Q.
    destruct (fwi_ids _ _ _ _ EF) as [_ [M D]]. rewrite NZ in M, D.
    assert (NEW : forallb (frag_consistent s) new2 = true /\ frag_ids new2 = frag_ids l1).
    { destruct nri as [n|]; cbn [is_some] in NS; subst s.
      - bind_as E1 p1 EA. destruct p1 as [n1 la]. bind_as E1 lb ES. inversion E1; subst new1 nri1. clear E1.
        destruct (assign_row_ids_ok _ _ _ _ EA Q) as [A [IA _]].
        destruct (stamp_updated_ok _ _ _ _ ES A) as [CS IS].
        bind_as E3 p2 EB. destruct p2 as [n2 lc]. inversion E3; subst new2 nri2. clear E3.
        assert (AS : forallb assigned lb = true) by (eapply forallb_impl; [|exact CS]; intros f _; apply consistent_assigned).
        rewrite (assign_row_ids_complete _ n1 AS) in EB. inversion EB; subst n2 lc. split; [exact CS | rewrite IS; exact IA].
      - inversion E1; subst new1 nri1. inversion E3; subst new2 nri2. split; [|reflexivity].
        eapply forallb_impl; [|exact Q]. intros f _. apply new_ok_unstable. }
    destruct NEW as [CN IN].
    destruct (flat_map_ids (apply_updates_first removed_fragment_ids updated_fragments)
                (fun f h I => proj2 (apply_updates_first_cases _ _ f h I)) (apply_updates_first_len _ _) _ N1) as [NU IU].
    repeat split; [| | apply retain_relevant_indices_ok | exact S1].
    + apply forallb_app_iff. split; [|exact CN]. apply forallb_forall. intros g I. apply in_flat_map in I as [f [If Ig]].
      destruct (apply_updates_first_cases _ _ f g Ig) as [[A|A] _]; [subst g; exact (forallb_In _ _ _ C1 If) | exact (forallb_In _ _ _ OU A)].
    + unfold frag_ids. rewrite map_app. fold (frag_ids new2). rewrite IN.
      apply NoDup_app_intro; [exact NU | apply D; [constructor | intros x []] |].
      intros x I J. specialize (L1 x (IU x I)). destruct (M x J) as [[]|K]. lia.
  - (* Project *)
    bind_inv H. rename x into existing. destruct (EX _ E) as [m [Ec [Ee [S1 [C1 [N1 [I1 L1]]]]]]]. subst cur existing.
    inversion H; subst final idx nri'. clear H. cbn [op_schema] in SCH. inversion SCH; subst schema0. cbn [op_ok] in OK.
    repeat split; [| | apply retain_relevant_indices_ok | exact OK].
    + rewrite forallb_map. eapply forallb_impl; [|exact C1]. intros f _ Hf. apply frag_consistent_filter_files. exact Hf.
    + unfold frag_ids. rewrite map_map. rewrite (map_ext _ fr_id) by (intro f; apply fr_id_set_files). exact N1.
  - (* UpdateConfig *)
    bind_inv H. rename x into existing. destruct (EX _ E) as [m [Ec [Ee [S1 [C1 [N1 [I1 L1]]]]]]]. subst cur existing.
    inversion H; subst final idx nri'. clear H. cbn [op_schema] in SCH. inversion SCH; subst schema. repeat split; assumption.
Qed.

(* ================================================================ build_manifest preserves well-formedness *)
Definition table_stable (cur : option Manifest) (cfg : config) : bool :=
  match cur with Some m => uses_stable m | None => cfg_stable cfg end.
Definition wf_opt (cur : option Manifest) : Prop :=
  match cur with Some m => wf_manifest m = true | None => True end.

Theorem build_manifest_wf cur op cfg m' :
  wf_opt cur -> op_ok (table_stable cur cfg) cur op = true ->
  build_manifest cur op cfg = Ok m' -> wf_manifest m' = true.
Proof.
  intros W OK H. unfold build_manifest in H.
  destruct (cfg_stable cfg && match cur with Some m => negb (uses_stable m) | None => false end) eqn:G; [discriminate|].
  bind_as H schema ES. bind_as H nri EN. bind_as H r EA. destruct r as [[final idx] nri'].
  set (s := table_stable cur cfg) in *.
  assert (NS : is_some nri = s).
  { unfold start_next_row_id, s, table_stable, uses_stable in *. destruct cur as [m|].
    - destruct (m_next_row_id m); [inversion EN; reflexivity | destruct (cfg_stable cfg); [discriminate | inversion EN; reflexivity]].
    - destruct (cfg_stable cfg); inversion EN; reflexivity. }
  assert (WC : wf_cur s cur) by (destruct cur as [m|]; [split; [exact W | reflexivity] | exact I]).
  destruct (arm_ok _ _ _ _ _ _ _ _ _ WC OK NS ES EA) as [C [ND [IX SC]]].
  eapply finish_wf; [exact H | exact C | exact ND | exact SC | exact IX | |].
  - intro Es. unfold s, table_stable in Es. destruct cur as [m|]; [|exact Es].
    rewrite Es in G. cbn [negb] in G. rewrite andb_true_r in G. exact G.
  - destruct cur as [m|]; [|exact I]. destruct (wf_facts _ m W eq_refl) as [_ [_ [_ [MX _]]]]. exact MX.
Qed.

(* ================================================================ the post-processing of commit_transaction *)
Lemma dup_fields_of_nil : forall fields seen,
  NoDup (filter (fun x => (0 <=? x)%Z) fields) -> (forall x, In x fields -> (0 <= x)%Z -> ~ In x seen) ->
  dup_fields_of fields seen = [].
Proof.
  induction fields as [|x r IH]; intros seen ND DJ; [reflexivity|]. cbn [dup_fields_of filter] in *.
  destruct (0 <=? x)%Z eqn:P.
  - apply Z.leb_le in P. assert (Q : z_mem x seen = false) by (apply z_mem_false; apply DJ; [left; reflexivity | exact P]).
    rewrite Q. cbn [andb]. inversion ND; subst. apply IH; [assumption|].
    intros y I Py [E|J]; [subst y; apply H1; apply filter_In; split; [exact I | apply Z.leb_le; exact Py] | exact (DJ y (or_intror I) Py J)].
  - cbn [andb]. apply IH; [exact ND|]. intros y I Py [E|J]; [subst y; apply Z.leb_gt in P; lia | exact (DJ y (or_intror I) Py J)].
Qed.
Lemma filter_pos_live fields :
  forallb (fun x => (0 <=? x)%Z) (filter (fun x => negb (x =? TOMBSTONE)%Z) fields) = true ->
  filter (fun x => (0 <=? x)%Z) fields = filter (fun x => (0 <=? x)%Z) (filter (fun x => negb (x =? TOMBSTONE)%Z) fields).
Proof.
  induction fields as [|x r IH]; [reflexivity|]. cbn [filter]. destruct (x =? TOMBSTONE)%Z eqn:T; cbn [negb].
  - apply Z.eqb_eq in T. subst x. cbn. exact IH.
  - cbn [forallb filter]. intro H. apply andb_true_iff in H as [P H]. rewrite P, (IH H). reflexivity.
Qed.
Lemma filter_all_true {A} (p : A -> bool) l : forallb p l = true -> filter p l = l.
Proof. induction l as [|a r IH]; cbn [forallb filter]; [reflexivity|]. intro H. apply andb_true_iff in H as [P H]. rewrite P, (IH H). reflexivity. Qed.

Lemma fix_schema_id m : wf_manifest m = true -> fix_schema m = Ok m.
Proof.
  intro W. unfold fix_schema. destruct (forallb _ (m_fragments m)); [reflexivity|].
  destruct (wf_facts _ m W eq_refl) as [_ [C _]].
  assert (D : flat_map (fun f => dup_fields_of (all_fields f) []) (m_fragments m) = []).
  { induction (m_fragments m) as [|f r IH]; [reflexivity|]. cbn [flat_map forallb] in *. apply andb_true_iff in C as [Cf Cr].
    rewrite (IH Cr), app_nil_r. destruct (frag_consistent_phys _ _ Cf) as [p Ep]. destruct (frag_consistent_files _ _ _ Cf Ep) as [_ [ND POS]].
    apply dup_fields_of_nil; [|intros x _ _ []]. unfold live_of in *. fold (all_fields f) in *.
    rewrite (filter_pos_live _ POS), (filter_all_true _ _ POS). exact ND. }
  rewrite D. reflexivity.
Qed.

Lemma check_storage_version_wf m m' : check_storage_version m = Ok m' -> wf_manifest m = true -> wf_manifest m' = true.
Proof.
  unfold check_storage_version. intros H W. destruct (fver_eqb (m_storage m) Legacy).
  - destruct (try_infer_version (m_fragments m)) as [[a|]| |]; try discriminate; [|inversion H; subst; exact W].
    destruct (fver_rank (m_storage m) <? fver_rank a); inversion H; subst; exact W.
  - bind_inv H. destruct x as [a|]; [destruct (fver_eqb a (m_storage m)); [|discriminate]|]; inversion H; subst; exact W.
Qed.

Theorem commit_step_wf latest op us sf m' :
  wf_manifest latest = true -> op_ok (uses_stable latest) (Some latest) op = true ->
  commit_step latest op us sf = Ok m' -> wf_manifest m' = true.
Proof.
  unfold commit_step. intros W OK H. destruct (negb (validate_operation (Some latest) op)); [discriminate|].
  bind_as H m1 EB. bind_as H m2 EF. pose proof (build_manifest_wf (Some latest) op _ m1 W OK EB) as W1.
  rewrite (fix_schema_id _ W1) in EF. inversion EF; subst m2. eapply check_storage_version_wf; eassumption.
Qed.

Theorem create_step_wf op cfg m' :
  op_ok (cfg_stable cfg) None op = true -> create_step op cfg = Ok m' -> wf_manifest m' = true.
Proof.
  unfold create_step. intros OK H. destruct (negb (validate_operation None op)); [discriminate|].
  exact (build_manifest_wf None op cfg m' I OK H).
Qed.

Lemma opt_max_ge a b : forall x, (match a with Some y => x <= y | None => False end) -> match opt_max a b with Some y => x <= y | None => False end.
Proof. intros x H. destruct a as [y|]; [|destruct H]. destruct b as [z|]; cbn [opt_max]; lia. Qed.

Theorem restore_step_wf latest old :
  wf_manifest latest = true -> wf_manifest old = true -> wf_manifest (restore_step latest old) = true.
Proof.
  intros WL WO. destruct (wf_facts _ old WO eq_refl) as [SC [C [ND [MX [IX LT]]]]].
  destruct (wf_facts _ latest WL eq_refl) as [_ [_ [_ [MXL _]]]].
  unfold wf_manifest in WO. rewrite !andb_true_iff in WO. destruct WO as [[[[A B] S] D] E].
  unfold restore_step, wf_manifest, uses_stable. cbn [m_schema m_fragments m_max_fragment_id m_next_row_id m_indices].
  set (st := existsb (fun f => is_some (fr_row_ids f)) (m_fragments old)).
  replace (is_some (if st then Some _ else None)) with st by (destruct st; reflexivity).
  destruct (row_ids_flag _ _ C) as [_ ANY]. fold st in ANY.
  rewrite A, S, E.
  assert (WF : forallb (wf_fragment st) (m_fragments old) = true).
  { eapply forallb_wf_fragment_flag; [|exact B]. rewrite ANY. destruct (m_fragments old); [exact I | apply andb_true_r]. }
  rewrite WF. cbn [andb]. rewrite andb_true_r.
  (* the high-water mark *)
  unfold max_ok, max_fragment_id in *.
  assert (BL : match (match m_max_fragment_id latest with Some mx => Some mx | None => list_max_n (frag_ids (m_fragments latest)) end) with Some y => y < two32 | None => True end).
  { destruct (m_max_fragment_id latest) as [c|]; [apply andb_true_iff in MXL as [_ Q]; apply N.ltb_lt; exact Q|].
    destruct (m_fragments latest); [exact I | discriminate]. }
  destruct (m_max_fragment_id old) as [c|].
  - apply andb_true_iff in MX as [M1 M2]. apply N.ltb_lt in M2.
    destruct (match m_max_fragment_id latest with Some mx => Some mx | None => list_max_n (frag_ids (m_fragments latest)) end) as [y|]; cbn [opt_max].
    + apply andb_true_iff. split; [|apply N.ltb_lt; lia]. eapply forallb_impl; [|exact M1]. intros f _ Hf. apply N.leb_le in Hf. apply N.leb_le. lia.
    + rewrite M1. apply N.ltb_lt in M2. rewrite M2. reflexivity.
  - destruct (m_fragments old); [|discriminate]. cbn [frag_ids map list_max_n opt_max].
    destruct (match m_max_fragment_id latest with Some mx => Some mx | None => list_max_n (frag_ids (m_fragments latest)) end) as [y|]; [|reflexivity].
    cbn [forallb andb]. apply N.ltb_lt. exact BL.
Qed.

(* ================================================================ every version of every history *)
(* A history, newest version first.  `us` is ManifestWriteConfig.use_stable_row_ids of the committing call:
   the table's own setting (CommitBuilder) or false (Dataset::apply_commit). *)
Inductive history : list Manifest -> Prop :=
| h_create : forall op cfg m,
    op_ok (cfg_stable cfg) None op = true -> create_step op cfg = Ok m -> history [m]
| h_commit : forall latest older op us sf m,
    history (latest :: older) ->
    op_ok (uses_stable latest) (Some latest) op = true ->
    (us = uses_stable latest \/ us = false) ->
    commit_step latest op us sf = Ok m -> history (m :: latest :: older)
| h_restore : forall latest older old,
    history (latest :: older) -> In old (latest :: older) ->
    history (restore_step latest old :: latest :: older).

Theorem history_wf h : history h -> Forall (fun m => wf_manifest m = true) h.
Proof.
  induction 1 as [op cfg m OK H | latest older op us sf m Hh IH OK US H | latest older old Hh IH I].
  - constructor; [eapply create_step_wf; eassumption | constructor].
  - constructor; [|exact IH]. inversion IH; subst. eapply commit_step_wf; eassumption.
  - constructor; [|exact IH]. rewrite Forall_forall in IH. apply restore_step_wf; apply IH; [left; reflexivity | exact I].
Qed.

(* ================================================================ Dataset::validate on well formed manifests *)
Lemma validate_field_ids_ok : forall fields seen,
  NoDup (filter (fun x => negb (x =? TOMBSTONE)%Z) fields) ->
  (forall x, In x (filter (fun x => negb (x =? TOMBSTONE)%Z) fields) -> (0 <= x)%Z /\ ~ In x seen) ->
  exists seen', validate_field_ids fields seen = Some seen'
     /\ (forall x, In x seen' <-> In x (filter (fun x => negb (x =? TOMBSTONE)%Z) fields) \/ In x seen).
Proof.
  induction fields as [|x r IH]; intros seen ND H; [exists seen; split; [reflexivity | intro; cbn [In filter]; tauto]|].
  cbn [validate_field_ids filter] in *. destruct (x =? TOMBSTONE)%Z; cbn [negb] in *; [apply IH; assumption|].
  destruct (H x (or_introl eq_refl)) as [P Q].
  replace (x <=? -1)%Z with false by (symmetry; apply Z.leb_gt; lia). rewrite (proj2 (z_mem_false x seen) Q).
  inversion ND; subst. destruct (IH (x :: seen) H3) as [seen' [E M]].
  - intros y I. split; [apply H; right; exact I | intros [Ey|J]; [subst; contradiction | exact (proj2 (H y (or_intror I)) J)]].
  - exists seen'. split; [exact E|]. intro y. rewrite M. cbn [In]. intuition congruence.
Qed.
Lemma validate_files_ok : forall files seen,
  NoDup (live_of files) -> forallb (fun x => (0 <=? x)%Z) (live_of files) = true ->
  (forall x, In x (live_of files) -> ~ In x seen) -> validate_files files seen = true.
Proof.
  induction files as [|d r IH]; intros seen ND POS DJ; [reflexivity|]. cbn [validate_files].
  rewrite live_of_cons in *. rewrite forallb_app in POS. apply andb_true_iff in POS as [P1 P2].
  destruct (validate_field_ids_ok (df_fields d) seen (NoDup_app_l _ _ ND)) as [seen' [E M]].
  - intros x I. split; [apply Z.leb_le; exact (forallb_In _ _ _ P1 I) | apply DJ; apply in_or_app; left; exact I].
  - rewrite E. apply IH; [eapply NoDup_app_r; exact ND | exact P2 |].
    intros x I J. apply M in J as [J|J]; [exact (NoDup_app_disj _ _ x ND J I) | apply (DJ x); [apply in_or_app; right; exact I | exact J]].
Qed.

Lemma strict_sorted_sorted l : strict_sorted_n l = true -> sorted_n l = true.
Proof.
  induction l as [|a r IH]; [reflexivity|]. cbn [strict_sorted_n sorted_n]. destruct r as [|b r']; [reflexivity|].
  intro H. apply andb_true_iff in H as [L H]. apply N.ltb_lt in L. apply andb_true_iff. split; [apply N.leb_le; lia | apply IH; exact H].
Qed.

(* The manifest-only part of Dataset::validate plus the storage facts (tombstoned fields are accepted since
   repo commit 77d5a8a - except in legacy files: the remaining known-finding class).
   _partial: five conditions of validate are hypotheses here because build_manifest does not maintain them as
   invariants: every fragment has a data file and every data file keeps a field of the schema (true after
   drop_columns = Project, not after a Merge that drops columns), no fragment mixes legacy and non-legacy
   files, a legacy file lists its live fields in increasing order (what the legacy writer does), index ids are
   unique and the bitmaps of equally named indices are disjoint. *)
Lemma strict_sorted_z_live fields :
  z_mem TOMBSTONE fields = false -> strict_sorted_z (filter (fun x => negb (x =? TOMBSTONE)%Z) fields) = true -> strict_sorted_z fields = true.
Proof.
  intros T H. rewrite filter_all_true in H; [exact H|]. apply forallb_forall. intros x I. apply negb_true_iff. apply Z.eqb_neq.
  intro E. subst x. apply z_mem_false in T. contradiction.
Qed.

Lemma legacy_files_valid m f :
  Known_C05_validate_rejects_tombstone_in_legacy_file m = false -> In f (m_fragments m) ->
  forallb (fun d => negb (is_legacy_file d) || strict_sorted_z (filter (fun x => negb (x =? TOMBSTONE)%Z) (df_fields d))) (fr_files f) = true ->
  forallb validate_data_file (fr_files f) = true.
Proof.
  intros K I H3. apply forallb_forall. intros d Id. unfold validate_data_file. destruct (is_legacy_file d) eqn:L; [|reflexivity].
  pose proof (forallb_In _ _ _ H3 Id) as Q. cbn beta in Q. rewrite L in Q. cbn [negb orb] in Q.
  apply strict_sorted_z_live; [|exact Q].
  destruct (z_mem TOMBSTONE (df_fields d)) eqn:T; [|reflexivity]. exfalso.
  unfold Known_C05_validate_rejects_tombstone_in_legacy_file in K.
  assert (E : existsb (fun f => existsb (fun d => is_legacy_file d && z_mem TOMBSTONE (df_fields d)) (fr_files f)) (m_fragments m) = true).
  { apply existsb_exists. exists f. split; [exact I|]. apply existsb_exists. exists d. split; [exact Id | rewrite L, T; reflexivity]. }
  rewrite E in K. discriminate.
Qed.

Theorem validate_dataset_ok_partial m :
  wf_manifest m = true ->
  Known_C05_validate_rejects_tombstone_in_legacy_file m = false ->
  forallb (fun f => negb (match fr_files f with [] => true | _ => false end)
                    && forallb (fun d => existsb (fun x => z_mem x (m_schema m)) (df_fields d)) (fr_files f)
                    && Bool.eqb (existsb is_legacy_file (fr_files f)) (forallb is_legacy_file (fr_files f))
                    && forallb (fun d => negb (is_legacy_file d) || strict_sorted_z (filter (fun x => negb (x =? TOMBSTONE)%Z) (df_fields d))) (fr_files f)) (m_fragments m) = true ->
  nodup_n (map ix_uuid (m_indices m)) && indices_disjoint (m_indices m) = true ->
  validate_dataset m = true.
Proof.
  intros W K HF HI. unfold validate_dataset.
  destruct (wf_facts _ m W eq_refl) as [_ [C [ND _]]].
  unfold wf_manifest in W. rewrite !andb_true_iff in W. destruct W as [[[[_ B] S] _] _].
  rewrite (proj2 (nodup_n_NoDup _) ND), (strict_sorted_sorted _ S). cbn [andb]. rewrite <- andb_assoc, HI, andb_true_r.
  apply forallb_forall. intros f I.
  pose proof (forallb_In _ _ _ C I) as Cf. pose proof (forallb_In _ _ _ HF I) as Hf.
  apply andb_true_iff in Hf as [Hf H3]. apply andb_true_iff in Hf as [Hf H2]. apply andb_true_iff in Hf as [H0 H1].
  destruct (frag_consistent_phys _ _ Cf) as [p Ep]. destruct (frag_consistent_files _ _ _ Cf Ep) as [R [NDf POS]].
  unfold validate_fragment. rewrite H1, H2, Ep.
  rewrite (validate_files_ok (fr_files f) [] NDf POS); [|intros x _ []].
  cbn [andb].
  pose proof (legacy_files_valid m f K I H3) as DF.
  rewrite DF. cbn [andb].
  assert (EXP : match fr_files f with d :: _ => df_rows d | [] => 0 end = p).
  { destruct (fr_files f) as [|d r]; [discriminate|]. cbn [forallb] in R. apply andb_true_iff in R as [R _]. apply N.eqb_eq. exact R. }
  apply frag_consistent_iff in Cf as [Bf _].
  unfold base_ok in Bf. rewrite Ep in Bf. rewrite !andb_true_iff in Bf. destruct Bf as [[[_ _] _] DL].
  rewrite EXP, R, N.eqb_refl. cbn [andb]. unfold deletion_ok in DL. destruct (fr_deletion f) as [d|]; [|reflexivity].
  rewrite !andb_true_iff in DL. destruct DL as [[D1 _] D3]. rewrite D1, andb_true_r. exact D3.
Qed.

(* ================================================================ findings, on the model *)
(* regression (former finding validate_rejects_tombstoned_field, repaired by repo commit 77d5a8a): a well formed
   manifest whose file still lists the tombstone next to two live fields, the rewritten column in a second file *)
Definition tombstone_witness : Manifest :=
  mkManifest 2 [0%Z; 1%Z; 2%Z]
    [mkFragment 0 (Some 3) [mkDataFile 0 [0%Z; (-2)%Z; 2%Z] (2, 0) 3; mkDataFile 1 [1%Z] (2, 0) 3] None None None None]
    (Some 0) None V2_0 [].
Lemma tombstone_witness_validates :
  wf_manifest tombstone_witness = true /\ existsb has_tombstone (m_fragments tombstone_witness) = true /\ validate_dataset tombstone_witness = true.
Proof. vm_compute. repeat split; reflexivity. Qed.

(* validate_rejects_tombstone_in_legacy_file: the same shape with legacy (0.2) files *)
Definition legacy_tombstone_witness : Manifest :=
  mkManifest 2 [0%Z; 1%Z; 2%Z]
    [mkFragment 0 (Some 3) [mkDataFile 0 [0%Z; (-2)%Z; 2%Z] (0, 2) 3; mkDataFile 1 [1%Z] (0, 2) 3] None None None None]
    (Some 0) None Legacy [].
Lemma validate_rejects_tombstone_in_legacy_file_refuted :
  exists m, wf_manifest m = true /\ Known_C05_validate_rejects_tombstone_in_legacy_file m = true /\ validate_dataset m = false.
Proof. exists legacy_tombstone_witness. vm_compute. repeat split; reflexivity. Qed.

(* stable_rowids_deferred_remap_unassigned_fragment_ids: the index bitmap recomputed by the Rewrite arm names
   fragment 0 although the new fragment gets id 4 *)
Definition deferred_remap_cur : Manifest :=
  mkManifest 2 [0%Z]
    (map (fun i => mkFragment i (Some 2) [mkDataFile i [0%Z] (2, 0) 2] None (Some [2 * i; 2 * i + 1]) None None) [0; 1; 2; 3])
    (Some 3) (Some 8) V2_0 [mkIndex 7 2 [0%Z] 1 (Some [0; 1; 2; 3]) false].
Definition deferred_remap_op : Operation :=
  Rewrite [mkRewriteGroup [0; 1; 2; 3] [mkFragment 0 (Some 8) [mkDataFile 9 [0%Z] (2, 0) 8] None (Some [0; 1; 2; 3; 4; 5; 6; 7]) None None]]
          [] (Some (mkIndex 8 FRAG_REUSE_INDEX_NAME [] 2 (Some [0]) false)).
Lemma deferred_remap_refuted :
  wf_manifest deferred_remap_cur = true
  /\ op_ok true (Some deferred_remap_cur) deferred_remap_op = true
  /\ Known_C05_stable_rowids_deferred_remap_unassigned_fragment_ids deferred_remap_cur deferred_remap_op = true
  /\ exists m', build_manifest (Some deferred_remap_cur) deferred_remap_op (mkConfig false None) = Ok m'
       /\ frag_ids (m_fragments m') = [4]
       /\ map ix_bitmap (m_indices m') = [Some [0]; Some [0]].
Proof. vm_compute. repeat split; try reflexivity. eexists. repeat split; reflexivity. Qed.

(* helper for the unit-test examples of Props/C05.v *)
Definition map_assign (n : N) (l : list Fragment) : outcome (N * list (option (list N))) :=
  match assign_row_ids n l with Ok (n', l') => Ok (n', map fr_row_ids l') | Err => Err | Panic => Panic end.
