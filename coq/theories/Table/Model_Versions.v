(* C17: what a scan shows in _rowid / _row_created_at_version / _row_last_updated_at_version
   (rust/lance-table/src/utils/stream.rs, rust/lance/src/dataset/fragment.rs), the DatasetDelta filters
   (rust/lance/src/dataset/delta.rs), and the reference ledger the version columns are compared with.
   The manifest-level transcription (build_manifest arms, build_version_meta, the Update arm's
   `row_id >> 32` lookup, refresh_row_latest_update_meta_*, compaction carry-over) is Table/Model_Restore.v.
   Executable definitions only. *)
From LanceV Require Import Common.Base Table.Model_Restore.
Local Open Scope N_scope.

(* ---------------------------------------------------------------- the scan *)
(* one visible row: (row id, (created_at, last_updated_at)) *)
Definition vrow : Type := N * (N * N).

(* a version column of a fragment: `sequence.versions().skip(start).take(n)`, or all 1 without metadata;
   a sequence shorter than the fragment yields a column of the wrong length (Arrow error) *)
Definition vcol (o : option (list N)) (phys : N) : outcome (list N) :=
  match o with
  | None => Ok (uniform phys 1)
  | Some l => if phys <=? nlen l then Ok (firstn (N.to_nat phys) l) else Err
  end.

Definition frag_view (f : frag) : outcome (list vrow) :=
  match f_ids f with
  | None => Err                                 (* address-style row ids: outside this model *)
  | Some ids =>
      if nlen ids =? f_phys f then
        bind (vcol (f_created f) (f_phys f)) (fun cs =>
        bind (vcol (f_updated f) (f_phys f)) (fun us =>
          Ok (live (f_del f) (combine ids (combine cs us)))))
      else Err
  end.

Fixpoint view_frags (fs : list frag) : outcome (list vrow) :=
  match fs with
  | [] => Ok []
  | f :: tl => bind (frag_view f) (fun a => bind (view_frags tl) (fun b => Ok (a ++ b)))
  end.
(* ordered scan of a version *)
Definition view (m : manifest) : outcome (list vrow) := view_frags (m_frags m).

(* DatasetDelta::get_inserted_rows / get_updated_rows between versions b (exclusive) and e (inclusive),
   evaluated on the dataset version m *)
Definition is_inserted (b e : N) (r : vrow) : bool := (b <? fst (snd r)) && (fst (snd r) <=? e).
Definition is_updated (b e : N) (r : vrow) : bool :=
  (fst (snd r) <=? b) && (b <? snd (snd r)) && (snd (snd r) <=? e).
Definition delta_inserted (m : manifest) (b e : N) : outcome (list vrow) :=
  bind (view m) (fun rows => Ok (filter (is_inserted b e) rows)).
Definition delta_updated (m : manifest) (b e : N) : outcome (list vrow) :=
  bind (view m) (fun rows => Ok (filter (is_updated b e) rows)).

(* ---------------------------------------------------------------- the reference ledger *)
(* row id -> (version of first insertion, last version in which an update / upsert / in-place column
   rewrite changed the row); the first entry for a key wins *)
Definition ledger := list (N * (N * N)).
Fixpoint lget (L : ledger) (r : N) : option (N * N) :=
  match L with
  | [] => None
  | (k, v) :: tl => if k =? r then Some v else lget tl r
  end.
Definition created_of (L : ledger) (V r : N) : N := match lget L r with Some v => fst v | None => V end.
(* the rows with these ids were changed in version V *)
Definition touch (V : N) (L : ledger) (ids : list N) : ledger :=
  fold_left (fun acc r => (r, (created_of acc V r, V)) :: acc) ids L.
(* rows with these ids were inserted in version V *)
Definition insert (V : N) (L : ledger) (ids : list N) : ledger :=
  fold_left (fun acc r => (r, (V, V)) :: acc) ids L.

Fixpoint lfind (lh : list (N * ledger)) (v : N) : option ledger :=
  match lh with
  | [] => None
  | (k, L) :: tl => if k =? v then Some L else lfind tl v
  end.

Fixpoint nth_optN {A} (l : list A) (i : N) : option A :=
  match l with
  | [] => None
  | x :: tl => if i =? 0 then Some x else nth_optN tl (i - 1)
  end.

(* positions an in-place column rewrite touches in fragment f (all of them when every row was rewritten) *)
Definition touched_offs (f : frag) (offs : list N) : list N :=
  if nlen offs =? f_phys f then nseq 0 (f_phys f) else offs.
Definition ids_at (f : frag) (offs : list N) : list N :=
  flat_map (fun o => match nth_optN (frag_ids f) o with Some r => [r] | None => [] end) offs.
Definition rewritten_ids (cur : manifest) (rew : list (N * list N)) : list N :=
  flat_map (fun x => match find_frag (m_frags cur) (fst x) with
                     | Some f => ids_at f (touched_offs f (snd x))
                     | None => []
                     end) rew.

(* The specification of one step: what the operation means for the rows, independent of how the version
   sequences are stored.  [fresh]: the row ids the step hands out (C07's handed_out). *)
Definition spec_step (V : N) (cur : option manifest) (fresh : list N) (L : ledger) (lh : list (N * ledger)) (o : op) : ledger :=
  match o with
  | OAppend _ => insert V L fresh
  | OOverwrite _ => insert V L fresh
  | OUpdate _ _ news => insert V (touch V L (flat_map snd news)) fresh
  | OUpdateCols rew => match cur with Some m => touch V L (rewritten_ids m rew) | None => L end
  | ORestore v => match lfind lh v with Some Lv => Lv | None => L end
  | ODelete _ _ | OCompact _ | OReserve _ | ONoop => L
  end.

(* ---------------------------------------------------------------- known-finding classes (DESIGN section 6, F5) *)
(* the Update arm finds the original row of a rewritten row by decoding its stable id as an address:
   right exactly when fragment (id >> 32) of the current manifest stores this id at offset (id & 0xFFFFFFFF) *)
Definition addr_ok (cur : manifest) (r : N) : bool :=
  match find_frag_last (m_frags cur) (N.shiftr r 32) with
  | Some f => match nth_optN (frag_ids f) (N.land r (two32 - 1)) with
              | Some r' => r' =? r
              | None => false
              end
  | None => false
  end.

(* rows whose created_at the step may get wrong *)
Definition taint_step (cur : option manifest) (fresh : list N) (o : op) : list N :=
  match o, cur with
  | OUpdate _ _ news, Some m => filter (fun r => negb (addr_ok m r)) (flat_map snd news) ++ fresh
  | _, _ => []
  end.

(* run the implementation model and the specification side by side:
   (history, ledger of the latest version, ledgers of all versions, tainted ids) *)
Definition sstate : Type := history * ledger * list (N * ledger) * list N.
Fixpoint spec_from (st : bool) (s : sstate) (ops : list op) : outcome sstate :=
  match ops with
  | [] => Ok s
  | o :: tl =>
      let '(h, L, lh, T) := s in
      bind (step st h o) (fun m' =>
        let cur := match h with l :: _ => Some l | [] => None end in
        let fresh := handed_out h m' in
        let L' := spec_step (m_version m') cur fresh L lh o in
        spec_from st (m' :: h, L', (m_version m', L') :: lh, T ++ taint_step cur fresh o) tl)
  end.
Definition spec_run (st : bool) (ops : list op) : outcome sstate := spec_from st ([], [], [], []) ops.

(* "an Update rewrote a row whose stable id differs from its original address" *)
Fixpoint known_nonaddress_from (st : bool) (h : history) (ops : list op) : bool :=
  match ops with
  | [] => false
  | o :: tl =>
      (match o, h with
       | OUpdate _ _ news, cur :: _ => existsb (fun r => negb (addr_ok cur r)) (flat_map snd news)
       | _, _ => false
       end)
      || match step st h o with Ok m' => known_nonaddress_from st (m' :: h) tl | _ => false end
  end.
Definition Known_C17_update_created_at_nonaddress_rowid (st : bool) (ops : list op) : bool :=
  known_nonaddress_from st [] ops.

(* "an Update (merge_insert) inserted new rows": they go through the same lookup and get created_at = 1 *)
Fixpoint known_inserted_from (st : bool) (h : history) (ops : list op) : bool :=
  match ops with
  | [] => false
  | o :: tl =>
      match step st h o with
      | Ok m' => (match o with OUpdate _ _ _ => negb (m_next m' =? next_of h) | _ => false end)
                 || known_inserted_from st (m' :: h) tl
      | _ => false
      end
  end.
Definition Known_C17_update_inserted_row_created_at (st : bool) (ops : list op) : bool :=
  known_inserted_from st [] ops.

(* ---------------------------------------------------------------- domain conditions of the theorems *)
Definition subsetN (a b : list N) : bool := forallb (fun x => memN x b) a.
(* the entry of an (fragment id, payload) list that concerns fragment f *)
Definition entry_for (upd : list (N * list N)) (f : frag) : option (N * list N) :=
  find (fun x => fst x =? f_id f) upd.
(* the deletion vector fragment f has after the operation *)
Definition dv_after (upd : list (N * list N)) (f : frag) : list N :=
  match entry_for upd f with Some x => snd x | None => f_del f end.
(* deletion vectors only grow *)
Definition dv_grows (cur : manifest) (upd : list (N * list N)) : bool :=
  forallb (fun f => subsetN (f_del f) (dv_after upd f)) (m_frags cur).

Definition op_ok17 (cur : manifest) (o : op) : bool :=
  match o with
  | ODelete upd _ => nodupb (map fst upd) && dv_grows cur upd
  | OUpdate removed upd news =>
      nodupb (map fst upd) && dv_grows cur upd &&
      (* the rewritten rows are gone from the fragments that stay: every offset is deleted afterwards or
         holds an id that was not carried into a new fragment *)
      forallb (fun f => memN (f_id f) removed
                        || forallb (fun o => memN o (dv_after upd f) || negb (memN (nthN (frag_ids f) o 0) (flat_map snd news)))
                                   (nseq 0 (f_phys f)))
              (m_frags cur)
  | OUpdateCols rew =>
      nodupb (map fst rew) &&
      (* every live row that carries a rewritten id sits at a rewritten position *)
      forallb (fun f =>
                 let offs := match entry_for rew f with Some x => touched_offs f (snd x) | None => [] end in
                 forallb (fun o => memN o (f_del f) || memN o offs || negb (memN (nthN (frag_ids f) o 0) (rewritten_ids cur rew)))
                         (nseq 0 (f_phys f)))
              (m_frags cur)
  | _ => true
  end.
Fixpoint run_ok17 (st : bool) (h : history) (ops : list op) : bool :=
  match ops with
  | [] => true
  | o :: tl =>
      match h with latest :: _ => op_ok latest o && op_ok17 latest o | [] => true end
      && match step st h o with Ok m => run_ok17 st (m :: h) tl | _ => true end
  end.

(* ---------------------------------------------------------------- correspondence checkers *)
Definition vrow_eqb (a b : vrow) : bool :=
  (fst a =? fst b) && (fst (snd a) =? fst (snd b)) && (snd (snd a) =? snd (snd b)).
Definition wrow : Type := N * N * N.
Definition vrow_of (w : wrow) : vrow := let '(r, c, u) := w in (r, (c, u)).

(* the ordered scan of a version: (_rowid, _row_created_at_version, _row_last_updated_at_version) *)
Definition chk_view (i : wman) (out : outcome (list wrow)) : bool :=
  outcome_eqb (list_eqb vrow_eqb) (view (man_of i))
              (match out with Ok l => Ok (map vrow_of l) | Err => Err | Panic => Panic end).

(* DatasetDelta on version m between b and e: (inserted rows, updated rows), each sorted by row id by the
   harness; the model's lists are compared as sets of rows *)
Fixpoint insert_row (x : vrow) (l : list vrow) : list vrow :=
  match l with
  | [] => [x]
  | y :: tl => if fst x <? fst y then x :: l else y :: insert_row x tl
  end.
Definition sort_rows (l : list vrow) : list vrow := fold_left (fun acc x => insert_row x acc) l [].
Definition chk_delta (i : wman * N * N) (out : outcome (list wrow * list wrow)) : bool :=
  let '(m, b, e) := i in
  match delta_inserted (man_of m) b e, delta_updated (man_of m) b e, out with
  | Ok ins, Ok upd, Ok (wi, wu) =>
      list_eqb vrow_eqb (sort_rows ins) (map vrow_of wi) && list_eqb vrow_eqb (sort_rows upd) (map vrow_of wu)
  | Err, _, Err => true
  | _, _, _ => false
  end.

(* the ledger the harness keeps from the table contents vs the specification ledger, on the visible rows:
   input = operations of the history so far, output = (row id, created, updated) per visible row per ledger *)
Definition chk_ledger (i : bool * list op) (out : list wrow) : bool :=
  match spec_run (fst i) (snd i) with
  | Ok (_, L, _, _) => forallb (fun w => let '(r, c, u) := w in option_eqb (pair_eqb N.eqb N.eqb) (lget L r) (Some (c, u))) out
  | _ => false
  end.

(* the class predicates and domain conditions as the harness evaluates them *)
Definition chk_known17 (i : bool * list op) (out : bool * bool * bool) : bool :=
  let '(k1, k2, ok) := out in
  Bool.eqb (Known_C17_update_created_at_nonaddress_rowid (fst i) (snd i)) k1
  && Bool.eqb (Known_C17_update_inserted_row_created_at (fst i) (snd i)) k2
  && Bool.eqb (run_ok17 (fst i) [] (snd i)) ok.
