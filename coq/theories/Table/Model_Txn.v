(* C03 / C04 / C24 - transactions, conflict resolution and the commit loop.
   Executable definitions only (proofs are in Proofs_Txn.v).

   Transcribed from
     rust/lance/src/io/commit/conflict_resolver.rs   TransactionRebase::{try_new, check_txn + every check_*_txn arm,
                                                     finish, finish_delete_update}
     rust/lance/src/io/commit.rs                     commit_transaction (one attempt: load the transactions committed
                                                     since read_version, check each in version order, finish, build the
                                                     manifest on the latest version; Restore republishes an old manifest)
     rust/lance/src/dataset/transaction.rs           Transaction::build_manifest (fragment list, schema, max_fragment_id,
                                                     config, index list / fragment bitmaps), upsert_key_conflict,
                                                     modifies_same_metadata, prune_updated_fields_from_indices,
                                                     retain_relevant_indices, recalculate_fragment_bitmap,
                                                     handle_rewrite_fragments, handle_rewrite_indices.

   Representation.
     - sets are lists; fragment / version / uuid / config keys are N, field ids are Z (-2 = tombstone).
     - a data file is its identity (path) and the field ids it stores; data files are write-once, so what a file
       holds is a function of its identity: the Section variables `fcontent` (file, field, row offset -> value) and
       `frows` (file -> number of rows).  The verdict functions never look at them.
     - a deletion file is (identity, deleted offsets); it is compared as a whole like Rust compares DeletionFile.
     - an index is its metadata; what it was built from is a function of its uuid (`isnap`, used by C24 only).
   Not modelled (see checks.d/C03.json): stable row id sequences (row_id_meta / next_row_id / version metadata),
   index file contents, schema and field metadata maps (their presence takes part in the verdicts), base paths
   (verdict only), MemWAL details (verdict only), the CAS retry loop around one attempt (C02). *)
From LanceV Require Import Common.Base.
Local Open Scope N_scope.

(* ------------------------------------------------------------------ sets as lists *)
Definition memN (x : N) (l : list N) : bool := existsb (N.eqb x) l.
Definition memZ (x : Z) (l : list Z) : bool := existsb (Z.eqb x) l.
Definition overlapN (a b : list N) : bool := existsb (fun x => memN x b) a.
Definition overlapZ (a b : list Z) : bool := existsb (fun x => memZ x b) a.
Definition unionN (a b : list N) : list N := a ++ filter (fun x => negb (memN x a)) b.
Fixpoint nodupN (l : list N) : list N :=
  match l with [] => [] | x :: r => if memN x r then nodupN r else x :: nodupN r end.
Definition cardN (l : list N) : N := N.of_nat (length (nodupN l)).
Fixpoint rangeN (n : nat) : list N :=
  match n with O => [] | S k => rangeN k ++ [N.of_nat k] end.

Definition addr := (N * N)%type.                       (* (fragment id, row offset) *)
Definition mem_addr (a : addr) (l : list addr) : bool :=
  existsb (fun b => N.eqb (fst a) (fst b) && N.eqb (snd a) (snd b)) l.
Definition rows_of (aff : list addr) (f : N) : list N :=
  map snd (filter (fun p => N.eqb (fst p) f) aff).

(* ------------------------------------------------------------------ fragments *)
Record dfile := { d_id : N; d_fields : list Z }.
Definition dfile_eqb (a b : dfile) : bool :=
  N.eqb (d_id a) (d_id b) && list_eqb Z.eqb (d_fields a) (d_fields b).
Definition files_eqb : list dfile -> list dfile -> bool := list_eqb dfile_eqb.

Definition delfile := (N * list N)%type.
Definition delfile_eqb (a b : delfile) : bool := N.eqb (fst a) (fst b) && list_eqb N.eqb (snd a) (snd b).
Definition del_eqb : option delfile -> option delfile -> bool := option_eqb delfile_eqb.

Record frag := { f_id : N; f_files : list dfile; f_del : option delfile }.
Definition set_id (f : frag) (i : N) : frag := {| f_id := i; f_files := f_files f; f_del := f_del f |}.
Definition set_del (f : frag) (d : option delfile) : frag := {| f_id := f_id f; f_files := f_files f; f_del := d |}.
Definition set_files (f : frag) (l : list dfile) : frag := {| f_id := f_id f; f_files := l; f_del := f_del f |}.
Definition frag_eqb (a b : frag) : bool :=
  N.eqb (f_id a) (f_id b) && files_eqb (f_files a) (f_files b) && del_eqb (f_del a) (f_del b).
Definition ids_of (l : list frag) : list N := map f_id l.
Definition dels_of (f : frag) : list N := match f_del f with Some d => snd d | None => [] end.
Definition find_frag (i : N) (l : list frag) : option frag := find (fun f => N.eqb (f_id f) i) l.

(* ------------------------------------------------------------------ indices, schema, config *)
Definition FRI_NAME : N := 0.          (* lance_index::frag_reuse::FRAG_REUSE_INDEX_NAME *)
Definition MEMWAL_NAME : N := 1.       (* lance_index::mem_wal::MEM_WAL_INDEX_NAME *)
Record index := { i_uuid : N; i_name : N; i_fields : list Z; i_bitmap : option (list N);
                  i_dsver : N; i_vec : bool }.
Definition is_fri (i : index) : bool := N.eqb (i_name i) FRI_NAME.
Definition is_system_index (i : index) : bool := N.eqb (i_name i) FRI_NAME || N.eqb (i_name i) MEMWAL_NAME.
Definition set_bitmap (i : index) (b : option (list N)) : index :=
  {| i_uuid := i_uuid i; i_name := i_name i; i_fields := i_fields i; i_bitmap := b; i_dsver := i_dsver i; i_vec := i_vec i |}.
Definition set_uuid (i : index) (u : N) : index :=
  {| i_uuid := u; i_name := i_name i; i_fields := i_fields i; i_bitmap := i_bitmap i; i_dsver := i_dsver i; i_vec := i_vec i |}.

Definition schema := list (Z * bool).                  (* (field id, nullable), top-level order *)
Definition schema_ids (s : schema) : list Z := map fst s.

(* UpdateMap: entries (key, Some value | None = delete), replace flag *)
Record umap := { u_entries : list (N * option N); u_replace : bool }.
Definition cfg := list (N * N).
Definition cfg_remove (k : N) (c : cfg) : cfg := filter (fun p => negb (N.eqb (fst p) k)) c.
Definition cfg_set (k v : N) (c : cfg) : cfg := (k, v) :: cfg_remove k c.
Fixpoint cfg_get (k : N) (c : cfg) : option N :=
  match c with [] => None | (a, b) :: r => if N.eqb a k then Some b else cfg_get k r end.
(* apply_update_map *)
Definition apply_umap (c : cfg) (u : umap) : cfg :=
  if u_replace u
  then fold_left (fun acc e => match snd e with Some v => cfg_set (fst e) v acc | None => acc end) (u_entries u) []
  else fold_left (fun acc e => match snd e with Some v => cfg_set (fst e) v acc | None => cfg_remove (fst e) acc end)
                 (u_entries u) c.

(* ------------------------------------------------------------------ operations *)
Inductive umode := RewriteRows | RewriteColumns.
Definition memwal := (N * N)%type.                     (* MemWalId: (region, generation) *)
Definition basep := (N * (option N * N))%type.         (* BasePath: (id, (name, path)) *)

Inductive op :=
| Append (frs : list frag)
| Delete (upd : list frag) (del_ids : list N)
| Update (removed : list N) (upd : list frag) (newf : list frag) (fields_mod : list Z)
         (mode : option umode) (mw : option memwal) (fpres : list Z)
| Rewrite (groups : list (list frag * list frag)) (rewritten : list (N * N)) (fri : option index)
| Merge (frs : list frag) (sch : schema)
| Project (sch : schema)
| Overwrite (frs : list frag) (sch : schema) (cfgv : option cfg)
| Restore (v : N)
| ReserveFragments (n : N)
| CreateIndex (newi : list index) (removedi : list index)
| DataReplacement (repl : list (N * dfile))
| UpdateConfig (cu : option umap) (tmu : option umap) (smu : option umap) (fmu : list (Z * umap))
| UpdateMemWalState (added updated removedw : list memwal)
| Clone
| UpdateBases (bases : list basep).

Definition op_kind (o : op) : N :=
  match o with
  | Append _ => 0 | Delete _ _ => 1 | Update _ _ _ _ _ _ _ => 2 | Rewrite _ _ _ => 3 | Merge _ _ => 4
  | Project _ => 5 | Overwrite _ _ _ => 6 | Restore _ => 7 | ReserveFragments _ => 8 | CreateIndex _ _ => 9
  | DataReplacement _ => 10 | UpdateConfig _ _ _ _ => 11 | UpdateMemWalState _ _ _ => 12 | Clone => 13
  | UpdateBases _ => 14
  end.

Definition group_old_ids (groups : list (list frag * list frag)) : list N :=
  flat_map (fun g => ids_of (fst g)) groups.

(* ------------------------------------------------------------------ verdicts *)
Inductive verdict := VOk | VRetry | VIncompat | VErr.
Definition verdict_code (v : verdict) : N :=
  match v with VOk => 0 | VRetry => 1 | VIncompat => 2 | VErr => 3 end.

(* the rebase state of TransactionRebase *)
Record rebase := { rb_op : op; rb_init : list (frag * bool); rb_mod : list N;
                   rb_aff : option (list addr); rb_cfri : list index }.

(* initial_fragments_for_rebase: the fragments of the read version that the transaction modifies *)
Definition initial_fragments (read_frags : list frag) (modified : list N) : list (frag * bool) :=
  map (fun f => (f, false)) (filter (fun f => memN (f_id f) modified) read_frags).

Definition try_new (read_frags : list frag) (o : op) (aff : option (list addr)) : rebase :=
  let plain := {| rb_op := o; rb_init := []; rb_mod := []; rb_aff := aff; rb_cfri := [] |} in
  let with_mod (m : list N) :=
    {| rb_op := o; rb_init := initial_fragments read_frags m; rb_mod := m; rb_aff := aff; rb_cfri := [] |} in
  match o with
  | Delete upd dids | Update dids upd _ _ _ _ _ =>
      let m := ids_of upd ++ dids in
      match upd, aff with
      | [], Some _ => {| rb_op := o; rb_init := []; rb_mod := m; rb_aff := None; rb_cfri := [] |}
      | _, _ => with_mod m
      end
  | Rewrite groups _ _ => with_mod (group_old_ids groups)
  | DataReplacement repl => with_mod (map fst repl)
  | Merge frs _ => with_mod (ids_of frs)
  | _ => plain
  end.

Definition init_has (i : N) (init : list (frag * bool)) : bool := existsb (fun p => N.eqb (f_id (fst p)) i) init.
Definition init_get (i : N) (init : list (frag * bool)) : option (frag * bool) :=
  find (fun p => N.eqb (f_id (fst p)) i) init.
Definition init_mark (i : N) (b : bool) (init : list (frag * bool)) : list (frag * bool) :=
  map (fun p => if N.eqb (f_id (fst p)) i then (fst p, snd p || b) else p) init.

(* the loop over the other transaction's updated fragments: None = a data file differs (retryable) *)
Fixpoint chk_updated (init : list (frag * bool)) (upd : list frag) : option (list (frag * bool)) :=
  match upd with
  | [] => Some init
  | u :: rest =>
      match init_get (f_id u) init with
      | Some (fr, _) =>
          if files_eqb (f_files fr) (f_files u)
          then chk_updated (init_mark (f_id u) (negb (del_eqb (f_del u) (f_del fr))) init) rest
          else None
      | None => chk_updated init rest
      end
  end.

Definition with_init (rb : rebase) (init : list (frag * bool)) : rebase :=
  {| rb_op := rb_op rb; rb_init := init; rb_mod := rb_mod rb; rb_aff := rb_aff rb; rb_cfri := rb_cfri rb |}.
Definition push_cfri (rb : rebase) (i : index) : rebase :=
  {| rb_op := rb_op rb; rb_init := rb_init rb; rb_mod := rb_mod rb; rb_aff := rb_aff rb; rb_cfri := rb_cfri rb ++ [i] |}.

(* the Update | Delete arm shared by check_delete_txn and check_update_txn *)
Definition check_du_vs_du (rb : rebase) (upd : list frag) (removed : list N) : verdict * rebase :=
  if negb (overlapN (ids_of upd ++ removed) (rb_mod rb)) then (VOk, rb)
  else match rb_aff rb with
       | None => (VRetry, rb)
       | Some _ =>
           match chk_updated (rb_init rb) upd with
           | None => (VRetry, rb)
           | Some init' =>
               if existsb (fun i => init_has i init') removed then (VRetry, with_init rb init')
               else (VOk, with_init rb init')
           end
       end.

(* check_update_mem_wal_state_not_modify_same_mem_wal *)
Definition check_mw (committed to_commit : list memwal) : verdict :=
  match committed with
  | [] => VOk
  | c :: crest =>
      match to_commit with
      | [] => VOk
      | t :: trest =>
          match crest with
          | _ :: _ => VErr
          | [] =>
              match trest with
              | _ :: _ => VErr
              | [] => if N.eqb (fst c) (fst t) && N.eqb (snd c) (snd t) then VIncompat else VOk
              end
          end
      end
  end.
Definition seqv (a b : verdict) : verdict := match a with VOk => b | _ => a end.
Definition opt_list {A} (o : option A) : list A := match o with Some x => [x] | None => [] end.

Definition check_delete_update (rb : rebase) (self_mw : option memwal) (is_update : bool) (other : op)
  : verdict * rebase :=
  match other with
  | CreateIndex _ _ | ReserveFragments _ | Clone | Project _ | Append _ | UpdateConfig _ _ _ _ | UpdateBases _ =>
      (VOk, rb)
  | Rewrite groups _ _ =>
      (if overlapN (group_old_ids groups) (rb_mod rb) then VRetry else VOk, rb)
  | DataReplacement repl =>
      (if overlapN (map fst repl) (rb_mod rb) then VRetry else VOk, rb)
  | Update removed upd _ _ _ _ _ => check_du_vs_du rb upd removed
  | Delete upd removed => check_du_vs_du rb upd removed
  | Merge _ _ => (VRetry, rb)
  | Overwrite _ _ _ | Restore _ => (VIncompat, rb)
  | UpdateMemWalState added updated _ =>
      if is_update
      then (seqv (check_mw added (opt_list self_mw)) (check_mw updated (opt_list self_mw)), rb)
      else (VIncompat, rb)
  end.

Definition has_fri (l : list index) : bool := existsb is_fri l.
Definition len1 {A} (l : list A) : bool := match l with [_] => true | _ => false end.

(* affected_ids over the new indices' fragment bitmaps: None = some index has no bitmap *)
Fixpoint bitmaps_union (l : list index) : option (list N) :=
  match l with
  | [] => Some []
  | i :: r => match i_bitmap i with
              | None => None
              | Some b => match bitmaps_union r with None => None | Some rest => Some (b ++ rest) end
              end
  end.
(* the first index without a bitmap aborts the loop with a retryable error; so does an overlap *)
Definition index_vs_rewrite (newi : list index) (groups : list (list frag * list frag)) : verdict :=
  match bitmaps_union newi with
  | None => VRetry
  | Some ids => if overlapN (group_old_ids groups) ids then VRetry else VOk
  end.

Definition indexed_fields (l : list index) : list Z := flat_map i_fields l.
Definition repl_fields (repl : list (N * dfile)) : list Z := flat_map (fun r => d_fields (snd r)) repl.

Definition check_create_index (rb : rebase) (newi removedi : list index) (other : op) : verdict * rebase :=
  match other with
  | Append _ | Clone | UpdateBases _ => (VOk, rb)
  | CreateIndex created _ => (if has_fri newi && has_fri created then VRetry else VOk, rb)
  | Delete _ _ | Update _ _ _ _ _ _ _ => (VOk, rb)
  | Merge _ _ | ReserveFragments _ | Project _ => (VOk, rb)
  | Rewrite groups _ ofri =>
      match ofri with
      | Some committed_fri =>
          if has_fri newi
          then if negb (len1 newi) || negb (len1 removedi) then (VIncompat, rb)
               else (VOk, push_cfri rb committed_fri)
          else (VOk, rb)
      | None => (index_vs_rewrite newi groups, rb)
      end
  | UpdateConfig _ _ _ _ => (VOk, rb)
  | DataReplacement repl =>
      (if overlapZ (repl_fields repl) (indexed_fields newi) then VRetry else VOk, rb)
  | Overwrite _ _ _ | Restore _ | UpdateMemWalState _ _ _ => (VIncompat, rb)
  end.

Definition check_rewrite (rb : rebase) (groups : list (list frag * list frag)) (sfri : option index) (other : op)
  : verdict * rebase :=
  match other with
  | Append _ | ReserveFragments _ | Project _ | Clone | UpdateConfig _ _ _ _ | UpdateMemWalState _ _ _
  | UpdateBases _ => (VOk, rb)
  | Delete upd dids | Update dids upd _ _ _ _ _ =>
      (if overlapN (ids_of upd ++ dids) (rb_mod rb) then VRetry else VOk, rb)
  | Rewrite ogroups _ ofri =>
      (if overlapN (group_old_ids ogroups) (rb_mod rb) then VRetry
       else match ofri, sfri with Some _, Some _ => VRetry | _, _ => VOk end, rb)
  | DataReplacement repl =>
      (if overlapN (map fst repl) (group_old_ids groups) then VRetry else VOk, rb)
  | Merge _ _ => (VRetry, rb)
  | CreateIndex newi removedi =>
      match find is_fri newi, sfri with
      | Some committed_fri, Some _ =>
          if negb (len1 newi) || negb (len1 removedi) then (VIncompat, rb)
          else (VOk, push_cfri rb committed_fri)
      | None, Some _ => (VOk, rb)
      | Some _, None =>
          (if negb (len1 newi) || negb (len1 removedi) then VIncompat else VOk, rb)
      | None, None => (index_vs_rewrite newi groups, rb)
      end
  | Overwrite _ _ _ | Restore _ => (VIncompat, rb)
  end.

(* get_upsert_config_keys / get_delete_config_keys *)
Definition upsert_keys (o : op) : list N :=
  match o with
  | Overwrite _ _ (Some c) => map fst c
  | UpdateConfig (Some u) _ _ _ =>
      flat_map (fun e => match snd e with Some _ => [fst e] | None => [] end) (u_entries u)
  | _ => []
  end.
Definition delete_keys (o : op) : list N :=
  match o with
  | UpdateConfig (Some u) _ _ _ =>
      flat_map (fun e => match snd e with Some _ => [] | None => [fst e] end) (u_entries u)
  | _ => []
  end.
Definition upsert_key_conflict (a b : op) : bool :=
  existsb (fun x => memN x (upsert_keys b) || memN x (delete_keys b)) (upsert_keys a)
  || existsb (fun x => memN x (upsert_keys a) || memN x (delete_keys a)) (upsert_keys b).
Definition is_some {A} (o : option A) : bool := match o with Some _ => true | None => false end.
Definition is_nil {A} (l : list A) : bool := match l with [] => true | _ => false end.
Definition modifies_same_metadata (a b : op) : bool :=
  match a, b with
  | UpdateConfig _ _ smu fmu, UpdateConfig _ _ osmu ofmu =>
      if is_some smu && is_some osmu then true
      else if negb (is_nil fmu) && negb (is_nil ofmu)
           then existsb (fun f => memZ (fst f) (map fst ofmu)) fmu
           else false
  | _, _ => false
  end.

Definition check_overwrite (rb : rebase) (other : op) : verdict :=
  match other with
  | Overwrite _ _ _ | UpdateConfig _ _ _ _ => if upsert_key_conflict (rb_op rb) other then VIncompat else VOk
  | UpdateMemWalState _ _ _ => VIncompat
  | _ => VOk
  end.

Definition check_append (other : op) : verdict :=
  match other with
  | Overwrite _ _ _ | Restore _ | UpdateMemWalState _ _ _ => VIncompat
  | _ => VOk
  end.

(* for each of self's replacements, each of other's on the same fragment: any common field *)
Definition repl_conflict (mine theirs : list (N * dfile)) : bool :=
  existsb (fun r => existsb (fun o => N.eqb (fst r) (fst o) && overlapZ (d_fields (snd r)) (d_fields (snd o))) theirs) mine.

Definition check_data_replacement (repl : list (N * dfile)) (other : op) : verdict :=
  match other with
  | Append _ | Clone | Delete _ _ | Update _ _ _ _ _ _ _ | Merge _ _ | UpdateConfig _ _ _ _ | ReserveFragments _
  | Project _ | UpdateBases _ => VOk
  | CreateIndex newi _ => if overlapZ (repl_fields repl) (indexed_fields newi) then VRetry else VOk
  | Rewrite groups _ _ => if overlapN (map fst repl) (group_old_ids groups) then VRetry else VOk
  | DataReplacement orepl => if repl_conflict repl orepl then VRetry else VOk
  | Overwrite _ _ _ | Restore _ | UpdateMemWalState _ _ _ => VIncompat
  end.

Definition check_merge (other : op) : verdict :=
  match other with
  | CreateIndex _ _ | ReserveFragments _ | Clone | UpdateConfig _ _ _ _ | UpdateBases _ => VOk
  | Update _ _ _ _ _ _ _ | Append _ | Delete _ _ | Rewrite _ _ _ | Merge _ _ | DataReplacement _ => VRetry
  | Overwrite _ _ _ | Restore _ | Project _ | UpdateMemWalState _ _ _ => VIncompat
  end.

Definition check_restore (other : op) : verdict :=
  match other with UpdateMemWalState _ _ _ => VIncompat | _ => VOk end.

Definition check_reserve (other : op) : verdict :=
  match other with Overwrite _ _ _ | Restore _ => VIncompat | _ => VOk end.

Definition check_project (other : op) : verdict :=
  match other with
  | Merge _ _ | Project _ => VRetry
  | Overwrite _ _ _ | Restore _ | UpdateMemWalState _ _ _ => VIncompat
  | _ => VOk
  end.

Definition check_update_config (self : op) (smu : option umap) (fmu : list (Z * umap)) (other : op) : verdict :=
  match other with
  | Overwrite _ _ _ =>
      if is_some smu || negb (is_nil fmu) || upsert_key_conflict self other then VIncompat else VOk
  | UpdateConfig _ _ _ _ =>
      if upsert_key_conflict self other || modifies_same_metadata self other then VIncompat else VOk
  | _ => VOk
  end.

Definition check_memwal (added updated : list memwal) (other : op) : verdict :=
  match other with
  | UpdateMemWalState cadded cupdated _ =>
      if (is_nil cadded && is_nil cupdated) || (is_nil added && is_nil updated) then VOk
      else seqv (check_mw cadded added)
          (seqv (check_mw cadded updated) (seqv (check_mw cupdated added) (check_mw cupdated updated)))
  | Update _ _ _ _ _ mw _ => if is_some mw then VOk else VIncompat
  | UpdateConfig _ _ _ _ | Rewrite _ _ _ | CreateIndex _ _ | ReserveFragments _ | UpdateBases _ => VOk
  | _ => VIncompat
  end.

Definition opt_eqbN : option N -> option N -> bool := option_eqb N.eqb.
Definition base_conflict (a b : basep) : bool :=
  (negb (N.eqb (fst a) 0) && negb (N.eqb (fst b) 0) && N.eqb (fst a) (fst b))
  || (opt_eqbN (fst (snd a)) (fst (snd b)) && is_some (fst (snd a)))
  || N.eqb (snd (snd a)) (snd (snd b)).
Definition check_add_bases (bases : list basep) (other : op) : verdict :=
  match other with
  | UpdateBases committed =>
      if existsb (fun nb => existsb (fun cb => base_conflict nb cb) committed) bases then VIncompat else VOk
  | _ => VOk
  end.

(* TransactionRebase::check_txn *)
Definition check_txn (rb : rebase) (other : op) : verdict * rebase :=
  match rb_op rb with
  | Delete _ _ => check_delete_update rb None false other
  | Update _ _ _ _ _ mw _ => check_delete_update rb mw true other
  | CreateIndex newi removedi => check_create_index rb newi removedi other
  | Rewrite groups _ sfri => check_rewrite rb groups sfri other
  | Overwrite _ _ _ => (check_overwrite rb other, rb)
  | Append _ => (check_append other, rb)
  | DataReplacement repl => (check_data_replacement repl other, rb)
  | Merge _ _ => (check_merge other, rb)
  | Restore _ => (check_restore other, rb)
  | ReserveFragments _ => (check_reserve other, rb)
  | Project _ => (check_project other, rb)
  | UpdateConfig _ _ smu fmu => (check_update_config (rb_op rb) smu fmu other, rb)
  | UpdateMemWalState added updated _ => (check_memwal added updated other, rb)
  | Clone => (VOk, rb)
  | UpdateBases bases => (check_add_bases bases other, rb)
  end.

(* the loop of commit_transaction over the transactions committed since the read version *)
Fixpoint check_all (rb : rebase) (others : list op) : verdict * rebase :=
  match others with
  | [] => (VOk, rb)
  | o :: rest => match check_txn rb o with
                 | (VOk, rb') => check_all rb' rest
                 | (v, rb') => (v, rb')
                 end
  end.

(* ------------------------------------------------------------------ finish *)
Inductive fin := FOk (o : op) | FRetry | FErrInternal | FPanic.

(* existing deletion vectors of the CURRENT version for the fragments that need a rewrite:
   None = a listed fragment has no deletion file (`expect("there should be a deletion file")`) *)
Fixpoint existing_dels (cur : list frag) (to_rw : list N) : option (list (N * list N)) :=
  match cur with
  | [] => Some []
  | f :: r =>
      if memN (f_id f) to_rw
      then match f_del f with
           | None => None
           | Some d => match existing_dels r to_rw with None => None | Some rest => Some ((f_id f, snd d) :: rest) end
           end
      else existing_dels r to_rw
  end.
Fixpoint assocN {A} (k : N) (l : list (N * A)) : option A :=
  match l with [] => None | (a, b) :: r => if N.eqb a k then Some b else assocN k r end.
Definition aff_frags (aff : list addr) : list N := map fst aff.

(* per fragment to rewrite: the merged deletion vector existing | affected (None: `unwrap` of a missing entry) *)
Definition merged_dv (existing : list (N * list N)) (aff : list addr) (f : N) : option (list N) :=
  match assocN f existing with
  | Some e => Some (unionN e (rows_of aff f))
  | None => if memN f (aff_frags aff) then Some (nodupN (rows_of aff f)) else None
  end.

Section Store.
  (* write-once data files: number of rows and cell values as functions of the file identity *)
  Variable frows : N -> N.
  Variable fcontent : N -> Z -> N -> option N.

  (* physical rows of a fragment: the row count of its first data file that still stores a live field
     (files holding only tombstoned fields are dropped by remove_tombstoned_data_files) *)
  Definition live_file (d : dfile) : bool := existsb (fun x => negb (Z.eqb x (-2))) (d_fields d).
  Definition frag_rows (f : frag) : N :=
    match find live_file (f_files f) with Some d => frows (d_id d) | None => 0 end.

  (* finish_delete_update; `newdel` is the identity given to the deletion files it writes *)
  Fixpoint rewrite_dvs (init : list (frag * bool)) (existing : list (N * list N)) (aff : list addr)
           (to_rw : list N) (newdel : N) : option (list N * list (N * delfile)) :=
    match to_rw with
    | [] => Some ([], [])
    | f :: r =>
        match merged_dv existing aff f, rewrite_dvs init existing aff r newdel with
        | Some dv, Some (gone, files) =>
            let whole := match init_get f init with
                         | Some (fr, _) => N.eqb (cardN dv) (frag_rows fr)
                         | None => false
                         end in
            if whole then Some (f :: gone, files) else Some (gone, (f, (newdel, dv)) :: files)
        | _, _ => None
        end
    end.

  Definition patch_dels (files : list (N * delfile)) (upd : list frag) : list frag :=
    map (fun u => match assocN (f_id u) files with Some d => set_del u (Some d) | None => u end) upd.

  Definition finish_delete_update (rb : rebase) (cur : list frag) (newdel : N) : fin :=
    if existsb snd (rb_init rb)
    then match rb_aff rb with
         | None => FErrInternal
         | Some aff =>
             let to_rw := map (fun p => f_id (fst p)) (filter snd (rb_init rb)) in
             match existing_dels cur to_rw with
             | None => FPanic
             | Some existing =>
                 if existsb (fun a => match assocN (fst a) existing with
                                      | Some e => memN (snd a) e | None => false end) aff
                 then FRetry
                 else match rewrite_dvs (rb_init rb) existing aff to_rw newdel with
                      | None => FPanic
                      | Some (gone, files) =>
                          match rb_op rb with
                          | Delete upd dids => FOk (Delete (patch_dels files upd) (dids ++ gone))
                          | Update dids upd nf fm md mw fp =>
                              FOk (Update (dids ++ gone) (patch_dels files upd) nf fm md mw fp)
                          | o => FOk o
                          end
                      end
             end
         end
    else FOk (rb_op rb).

  (* TransactionRebase::finish.  The rebase of frag-reuse-index details (finish_create_index / finish_rewrite with a
     non-empty conflicting_frag_reuse_indices) rewrites index FILE contents, which are opaque here: the metadata
     of the transaction is returned unchanged. *)
  Definition finish (rb : rebase) (cur : list frag) (newdel : N) : fin :=
    match rb_op rb with
    | Delete _ _ | Update _ _ _ _ _ _ _ => finish_delete_update rb cur newdel
    | o => FOk o
    end.

  (* ------------------------------------------------------------------ build_manifest *)
  Record manifest := { m_frags : list frag; m_schema : schema; m_maxfid : option N; m_config : cfg;
                       m_indices : list index }.

  Definition list_max (l : list N) : option N :=
    match l with [] => None | x :: r => Some (fold_left N.max r x) end.
  (* Manifest::max_fragment_id() *)
  Definition max_fragment_id (m : manifest) : option N :=
    match m_maxfid m with Some x => Some x | None => list_max (ids_of (m_frags m)) end.

  (* Transaction::fragments_with_ids *)
  Fixpoint assign_ids (next : N) (l : list frag) : list frag * N :=
    match l with
    | [] => ([], next)
    | f :: r => if N.eqb (f_id f) 0
                then let (r', n') := assign_ids (next + 1) r in (set_id f next :: r', n')
                else let (r', n') := assign_ids next r in (f :: r', n')
    end.

  (* final_fragments.sort_by_key(|f| f.id): stable insertion sort *)
  Fixpoint insert_frag (f : frag) (l : list frag) : list frag :=
    match l with
    | [] => [f]
    | g :: r => if N.ltb (f_id f) (f_id g) then f :: l else g :: insert_frag f r
    end.
  Definition sort_frags (l : list frag) : list frag := fold_right insert_frag [] l.

  (* Delete arm: the LAST updated fragment with the id wins *)
  Definition replace_last (upd : list frag) (f : frag) : frag :=
    fold_left (fun acc u => if N.eqb (f_id u) (f_id acc) then u else acc) upd f.
  (* Update arm: the FIRST updated fragment with the id wins *)
  Definition replace_first (upd : list frag) (f : frag) : frag :=
    match find_frag (f_id f) upd with Some u => u | None => f end.

  (* IndexMetadata::effective_fragment_bitmap is_none_or empty *)
  Definition eff_empty (existing : list N) (i : index) : bool :=
    match i_bitmap i with None => true | Some b => negb (existsb (fun x => memN x existing) b) end.

  (* the oldest (smallest dataset_version, first in list order among equals) of a non-empty list *)
  Fixpoint oldest (l : list index) : option index :=
    match l with
    | [] => None
    | i :: r => match oldest r with
                | None => Some i
                | Some j => if N.leb (i_dsver i) (i_dsver j) then Some i else Some j
                end
    end.

  (* uuids kept among the indices sharing one name *)
  Definition keep_in_group (existing : list N) (grp : list index) : list N :=
    match grp with
    | [] => []
    | [i] => if negb (eff_empty existing i) || negb (i_vec i) then [i_uuid i] else []
    | _ =>
        let non_empty := filter (fun i => negb (eff_empty existing i)) grp in
        match non_empty with
        | [] => match oldest grp with
                | Some o => if i_vec o then [] else [i_uuid o]
                | None => []
                end
        | _ => map i_uuid non_empty
        end
    end.

  Definition retain_relevant_indices (indices : list index) (s : schema) (frs : list frag) : list index :=
    let ids := schema_ids s in
    let l1 := filter (fun i => forallb (fun x => memZ x ids) (i_fields i) || is_system_index i) indices in
    let existing := ids_of frs in
    let named := filter (fun i => negb (is_fri i)) l1 in
    let keep := flat_map (fun i => keep_in_group existing (filter (fun j => N.eqb (i_name j) (i_name i)) named)) named in
    filter (fun i => is_fri i || memN (i_uuid i) keep) l1.

  Definition prune_updated_fields (indices : list index) (upd : list frag) (fields_mod : list Z) : list index :=
    match fields_mod with
    | [] => indices
    | _ => map (fun i => if overlapZ (i_fields i) fields_mod
                         then match i_bitmap i with
                              | Some b => set_bitmap i (Some (filter (fun x => negb (memN x (ids_of upd))) b))
                              | None => i
                              end
                         else i) indices
    end.

  (* recalculate_fragment_bitmap: None = "split of indexed and non-indexed data" *)
  Fixpoint recalc_bitmap (old acc : list N) (groups : list (list frag * list frag)) : option (list N) :=
    match groups with
    | [] => Some acc
    | g :: r =>
        let olds := ids_of (fst g) in
        if existsb (fun x => memN x old) olds
        then if forallb (fun x => memN x old) olds
             then recalc_bitmap old (unionN (filter (fun x => negb (memN x olds)) acc) (ids_of (snd g))) r
             else None
        else recalc_bitmap old acc r
    end.

  (* handle_rewrite_indices *)
  Fixpoint rewrite_indices (indices : list index) (seen : list N) (rw : list (N * N))
           (groups : list (list frag * list frag)) : option (list index) :=
    match rw with
    | [] => Some indices
    | (old_id, new_id) :: r =>
        if memN old_id seen then None
        else match find (fun i => N.eqb (i_uuid i) old_id) indices with
             | None => None
             | Some idx =>
                 match i_bitmap idx with
                 | None => None
                 | Some b =>
                     match recalc_bitmap b b groups with
                     | None => None
                     | Some nb =>
                         (* the first index with that uuid is the one mutated *)
                         let fix upd1 (l : list index) : list index :=
                           match l with
                           | [] => []
                           | i :: t => if N.eqb (i_uuid i) old_id then set_uuid (set_bitmap i (Some nb)) new_id :: t
                                       else i :: upd1 t
                           end in
                         rewrite_indices (upd1 indices) (old_id :: seen) r groups
                     end
                 end
             end
    end.

  Fixpoint index_of (i : N) (l : list frag) : option nat :=
    match l with
    | [] => None
    | f :: r => if N.eqb (f_id f) i then Some O else match index_of i r with Some k => Some (S k) | None => None end
    end.

  (* handle_rewrite_fragments for one group; the next unassigned fragment id is threaded *)
  Definition rewrite_group (final : list frag) (next : N) (g : list frag * list frag) : outcome (list frag * N) :=
    match fst g with
    | [] => Panic                                     (* group.old_fragments[0] *)
    | o0 :: orest =>
        match index_of (f_id o0) final with
        | None => Err                                 (* CommitConflict: fragment to replace is missing *)
        | Some start =>
            (* contiguity walk: final[start + i].id vs old[i].id for i = 1.. ; indexing past the end panics *)
            let fix walk (k : nat) (olds : list frag) : outcome bool :=
              match olds with
              | [] => Ok true
              | o :: t => match nth_error final k with
                          | None => Panic
                          | Some f => if N.eqb (f_id f) (f_id o) then walk (S k) t else Ok false
                          end
              end in
            match walk (S start) orest with
            | Panic => Panic
            | Err => Err
            | Ok contiguous =>
                let (news, next') := assign_ids next (snd g) in
                if contiguous
                then Ok (firstn start final ++ news ++ skipn (start + length (fst g)) final, next')
                else Ok (filter (fun f => negb (memN (f_id f) (ids_of (fst g)))) final ++ news, next')
            end
        end
    end.
  Fixpoint rewrite_groups (final : list frag) (next : N) (gs : list (list frag * list frag)) : outcome (list frag) :=
    match gs with
    | [] => Ok final
    | g :: r => match rewrite_group final next g with
                | Ok (final', next') => rewrite_groups final' next' r
                | Err => Err
                | Panic => Panic
                end
    end.

  (* DataReplacement arm for one (fragment, new file): None = InvalidInput *)
  Definition replace_in_frag (f : frag) (nf : dfile) : option frag :=
    let files' := map (fun d => if list_eqb Z.eqb (d_fields d) (d_fields nf)
                                then {| d_id := d_id nf; d_fields := d_fields d |} else d) (f_files f) in
    let covered := flat_map d_fields files' in
    let files'' := if negb (overlapZ covered (d_fields nf)) then files' ++ [nf] else files' in
    let f' := set_files f files'' in
    if frag_eqb f' f then None else Some f'.
  Fixpoint replace_all (cur : list frag) (repl : list (N * dfile)) : option (list frag) :=
    match repl with
    | [] => Some []
    | (i, nf) :: r =>
        match find_frag i cur with
        | None => None
        | Some f => match replace_in_frag f nf, replace_all cur r with
                    | Some f', Some rest => Some (f' :: rest)
                    | _, _ => None
                    end
        end
    end.
  Fixpoint all_same_fields (l : list dfile) : bool :=
    match l with
    | [] => true
    | d :: r => forallb (fun e => list_eqb Z.eqb (d_fields e) (d_fields d)) r && all_same_fields r
    end.

  Definition remove_tombstoned (l : list frag) : list frag :=
    map (fun f => set_files f (filter live_file (f_files f))) l.

  (* Manifest::update_max_fragment_id on top of the previous manifest's stored value *)
  Definition update_maxfid (prev : option N) (frs : list frag) : option N :=
    match list_max (ids_of frs) with
    | None => prev
    | Some mx => match prev with None => Some mx | Some c => if N.ltb c mx then Some mx else Some c end
    end.

  Definition mk_manifest (cur : manifest) (s : schema) (frs : list frag) (idx : list index) : manifest :=
    let frs' := remove_tombstoned (sort_frags frs) in
    {| m_frags := frs'; m_schema := s; m_maxfid := update_maxfid (m_maxfid cur) frs';
       m_config := m_config cur; m_indices := idx |}.
  Definition with_config (m : manifest) (c : cfg) : manifest :=
    {| m_frags := m_frags m; m_schema := m_schema m; m_maxfid := m_maxfid m; m_config := c; m_indices := m_indices m |}.
  Definition with_maxfid (m : manifest) (x : option N) : manifest :=
    {| m_frags := m_frags m; m_schema := m_schema m; m_maxfid := x; m_config := m_config m; m_indices := m_indices m |}.

  (* Transaction::build_manifest on an existing dataset, without stable row ids.
     Clone and Restore never reach it.  UpdateMemWalState keeps the fragments (since /repo 6e8b596; before that fix
     the arm left `final_fragments` empty) and edits the MemWAL index, which is opaque here. *)
  Definition build_manifest (cur : manifest) (o : op) : outcome manifest :=
    let next := match o with Overwrite _ _ _ => 0
                | _ => match max_fragment_id cur with Some x => x + 1 | None => 0 end end in
    let s := match o with Overwrite _ s _ | Merge _ s | Project s => s | _ => m_schema cur end in
    match o with
    | Clone | Restore _ => Err
    | Append frs =>
        Ok (mk_manifest cur s (m_frags cur ++ fst (assign_ids next frs)) (m_indices cur))
    | Delete upd dids =>
        let frs := map (replace_last upd) (filter (fun f => negb (memN (f_id f) dids)) (m_frags cur)) in
        Ok (mk_manifest cur s frs (retain_relevant_indices (m_indices cur) s frs))
    | Update removed upd newf fields_mod _ _ _ =>
        let kept := map (replace_first upd) (filter (fun f => negb (memN (f_id f) removed)) (m_frags cur)) in
        let idx := prune_updated_fields (m_indices cur) upd fields_mod in
        let frs := kept ++ fst (assign_ids next newf) in
        Ok (mk_manifest cur s frs (retain_relevant_indices idx s frs))
    | Overwrite frs _ c =>
        let m := mk_manifest cur s (fst (assign_ids next frs)) [] in
        Ok (match c with Some kv => with_config m (fold_left (fun acc p => cfg_set (fst p) (snd p) acc) kv (m_config m))
                    | None => m end)
    | Rewrite groups rw ofri =>
        match rewrite_groups (m_frags cur) next groups with
        | Err => Err
        | Panic => Panic
        | Ok frs =>
            match rewrite_indices (m_indices cur) [] rw groups with
            | None => Err
            | Some idx =>
                let idx' := match ofri with
                            | Some fi => filter (fun i => negb (N.eqb (i_name i) (i_name fi))) idx ++ [fi]
                            | None => idx
                            end in
                Ok (mk_manifest cur s frs idx')
            end
        end
    | CreateIndex newi removedi =>
        let idx := filter (fun e => negb (existsb (fun n => N.eqb (i_name n) (i_name e)) newi)
                                    && negb (existsb (fun r => N.eqb (i_uuid r) (i_uuid e)) removedi)) (m_indices cur) in
        Ok (mk_manifest cur s (m_frags cur) (idx ++ newi))
    | ReserveFragments n =>
        let m := mk_manifest cur s (m_frags cur) (m_indices cur) in
        Ok (with_maxfid m (Some (match m_maxfid m with Some x => x | None => 0 end + n)))
    | UpdateConfig cu _ _ _ =>
        let m := mk_manifest cur s (m_frags cur) (m_indices cur) in
        Ok (match cu with Some u => with_config m (apply_umap (m_config m) u) | None => m end)
    | Merge frs _ =>
        Ok (mk_manifest cur s frs (retain_relevant_indices (m_indices cur) s frs))
    | Project _ =>
        let ids := schema_ids s in
        let frs := map (fun f => set_files f (filter (fun d => overlapZ (d_fields d) ids) (f_files f))) (m_frags cur) in
        Ok (mk_manifest cur s frs (retain_relevant_indices (m_indices cur) s frs))
    | DataReplacement repl =>
        if negb (all_same_fields (map snd repl)) then Err
        else match replace_all (m_frags cur) repl with
             | None => Err
             | Some changed =>
                 let unchanged := filter (fun f => negb (memN (f_id f) (map fst repl))) (m_frags cur) in
                 Ok (mk_manifest cur s (changed ++ unchanged) (m_indices cur))
             end
    | UpdateMemWalState _ _ _ => Ok (mk_manifest cur s (m_frags cur) (m_indices cur))
    | UpdateBases _ => Ok (mk_manifest cur s (m_frags cur) (m_indices cur))
    end.

  (* ------------------------------------------------------------------ the commit loop *)
  (* a history: version k (1-based) is the k-th entry; every entry remembers the transaction that produced it *)
  Record ventry := { v_man : manifest; v_op : op }.
  Definition history := list ventry.
  Definition version_of (h : history) : N := N.of_nat (length h).
  Definition nth_man (h : history) (v : N) : option manifest :=
    match v with 0 => None | _ => option_map v_man (nth_error h (N.to_nat (v - 1))) end.
  Definition latest (h : history) : option manifest := nth_man h (version_of h).
  (* transactions committed after version v, oldest first *)
  Definition ops_since (h : history) (v : N) : list op := map v_op (skipn (N.to_nat v) h).

  Inductive cresult := Committed (h : history) | Conflict (v : verdict) | Failed (* any other error / panic *).

  (* restore_old_manifest + the high-water marks kept by commit_transaction *)
  Definition restore_manifest (cur old : manifest) : manifest :=
    let mx := match max_fragment_id old, max_fragment_id cur with
              | Some a, Some b => Some (N.max a b) | Some a, None => Some a | None, b => b end in
    with_maxfid old mx.

  (* one attempt of commit_transaction for a transaction read at version `rv` *)
  Definition commit (h : history) (rv : N) (o : op) (aff : option (list addr)) (newdel : N) : cresult :=
    match nth_man h rv, latest h with
    | Some mr, Some cur =>
        let rb := try_new (m_frags mr) o aff in
        match check_all rb (ops_since h rv) with
        | (VOk, rb') =>
            match finish rb' (m_frags cur) newdel with
            | FRetry => Conflict VRetry
            | FErrInternal | FPanic => Failed
            | FOk o' =>
                match o' with
                | Restore v => match nth_man h v with
                               | Some old => Committed (h ++ [{| v_man := restore_manifest cur old; v_op := o' |}])
                               | None => Failed
                               end
                | _ => match build_manifest cur o' with
                       | Ok m' => Committed (h ++ [{| v_man := m'; v_op := o' |}])
                       | _ => Failed
                       end
                end
            end
        | (v, _) => Conflict v
        end
    | _, _ => Failed
    end.

  (* ------------------------------------------------------------------ the abstract table *)
  (* first data file of the fragment that stores field x *)
  Definition file_of (f : frag) (x : Z) : option dfile := find (fun d => memZ x (d_fields d)) (f_files f).
  Definition fcell (f : frag) (x : Z) (o : N) : option N :=
    match file_of f x with Some d => fcontent (d_id d) x o | None => None end.
  Definition flive (f : frag) (o : N) : bool := N.ltb o (frag_rows f) && negb (memN o (dels_of f)).

  (* the row-level reading of a manifest: which addresses are visible, and the cells of the visible rows *)
  Record table := { t_schema : schema; t_maxfid : option N; t_config : cfg;
                    t_live : N -> N -> bool; t_cell : N -> N -> Z -> option N }.
  Definition live_at (frs : list frag) (f o : N) : bool :=
    match find_frag f frs with Some fr => flive fr o | None => false end.
  Definition cell_at (frs : list frag) (f o : N) (x : Z) : option N :=
    match find_frag f frs with Some fr => fcell fr x o | None => None end.
  Definition abs (m : manifest) : table :=
    {| t_schema := m_schema m; t_maxfid := max_fragment_id m; t_config := m_config m;
       t_live := live_at (m_frags m); t_cell := cell_at (m_frags m) |}.

  (* tables are compared on what a scan can see *)
  Definition table_eq (a b : table) : Prop :=
    t_schema a = t_schema b /\ t_maxfid a = t_maxfid b /\ t_config a = t_config b
    /\ (forall f o, t_live a f o = t_live b f o)
    /\ (forall f o x, t_live a f o = true -> In x (schema_ids (t_schema a)) -> t_cell a f o x = t_cell b f o x).

  (* ------------------------------------------------------------------ row-level effects *)
  Inductive effect :=
  | EAppend (frs : list frag)                              (* rows of new fragments (ids assigned at commit) *)
  | EDelete (rows : list addr)                             (* these addresses disappear *)
  | EUpdateRows (rows : list addr) (frs : list frag)       (* old images disappear, new images appear *)
  | EUpdateCols (upd : list frag) (fields : list Z) (matched : list addr) (frs : list frag)
                                                           (* the cells of `fields` of the matched rows take the
                                                              values of the rewritten column files; new rows appear *)
  | ERewrite (olds : list N) (frs : list frag) (src : N -> N -> option addr)
                                                           (* the rows of `olds` move: row o of the k-th new fragment
                                                              is the row src k o of the current table *)
  | EAddColumns (added : schema) (frs : list frag)         (* fields appended to the schema; their cells from `frs` *)
  | EProject (drop : list Z)                               (* these fields leave the schema *)
  | EDropFrags (olds : list N)                             (* every row of these fragments disappears *)
  | EOverwrite (frs : list frag) (s : schema) (c : option cfg)
  | ERestore (old : manifest)
  | EReserve (n : N)
  | EConfig (u : option umap)
  | EReplaceData (repl : list (N * dfile))
  | ENone.                                                 (* indices: opaque here *)

  Definition next_id (t : table) : N := match t_maxfid t with Some x => x + 1 | None => 0 end.
  Definition upd_maxfid_ids (prev : option N) (ids : list N) : option N :=
    match list_max ids with
    | None => prev
    | Some mx => match prev with None => Some mx | Some c => if N.ltb c mx then Some mx else Some c end
    end.

  (* a non-nullable field of the schema that a new fragment does not store *)
  Definition covers_nonnull (s : schema) (frs : list frag) : bool :=
    forallb (fun f => forallb (fun fl => snd fl || is_some (file_of f (fst fl))) s) frs.

  Definition add_frags (t : table) (news : list frag) : table :=
    {| t_schema := t_schema t; t_maxfid := upd_maxfid_ids (t_maxfid t) (ids_of news); t_config := t_config t;
       t_live := fun f o => match find_frag f news with Some fr => flive fr o | None => t_live t f o end;
       t_cell := fun f o x => match find_frag f news with Some fr => fcell fr x o | None => t_cell t f o x end |}.
  Definition drop_rows (t : table) (dead : N -> N -> bool) : table :=
    {| t_schema := t_schema t; t_maxfid := t_maxfid t; t_config := t_config t;
       t_live := fun f o => t_live t f o && negb (dead f o); t_cell := t_cell t |}.

  (* the serial application of an effect to the current table; None = not applicable *)
  Definition apply_effect (e : effect) (t : table) : option table :=
    match e with
    | EAppend frs =>
        if covers_nonnull (t_schema t) frs
        then Some (add_frags t (fst (assign_ids (next_id t) frs)))
        else None
    | EDelete rows => Some (drop_rows t (fun f o => mem_addr (f, o) rows))
    | EUpdateRows rows frs =>
        Some (add_frags (drop_rows t (fun f o => mem_addr (f, o) rows)) (fst (assign_ids (next_id t) frs)))
    | EUpdateCols upd fields matched frs =>
        let t1 := {| t_schema := t_schema t; t_maxfid := t_maxfid t; t_config := t_config t; t_live := t_live t;
                     t_cell := fun f o x => match find_frag f upd with
                                            | Some u => if memZ x fields && mem_addr (f, o) matched then fcell u x o
                                                        else t_cell t f o x
                                            | None => t_cell t f o x end |} in
        Some (add_frags t1 (fst (assign_ids (next_id t) frs)))
    | ERewrite olds frs src =>
        let n := next_id t in
        let news := fst (assign_ids n frs) in
        Some {| t_schema := t_schema t; t_maxfid := upd_maxfid_ids (t_maxfid t) (ids_of news); t_config := t_config t;
                t_live := fun f o => match find_frag f news with
                                     | Some _ => match src (f - n) o with Some a => t_live t (fst a) (snd a) | None => false end
                                     | None => t_live t f o && negb (memN f olds) end;
                t_cell := fun f o x => match find_frag f news with
                                       | Some _ => match src (f - n) o with Some a => t_cell t (fst a) (snd a) x | None => None end
                                       | None => t_cell t f o x end |}
    | EAddColumns added frs =>
        Some {| t_schema := t_schema t ++ added; t_maxfid := t_maxfid t; t_config := t_config t; t_live := t_live t;
                t_cell := fun f o x => if memZ x (schema_ids (t_schema t)) then t_cell t f o x
                                       else cell_at frs f o x |}
    | EProject drop =>
        Some {| t_schema := filter (fun fl => negb (memZ (fst fl) drop)) (t_schema t); t_maxfid := t_maxfid t;
                t_config := t_config t; t_live := t_live t; t_cell := t_cell t |}
    | EDropFrags olds => Some (drop_rows t (fun f _ => memN f olds))
    | EOverwrite frs s c =>
        let news := fst (assign_ids 0 frs) in
        Some {| t_schema := s; t_maxfid := upd_maxfid_ids (t_maxfid t) (ids_of news);
                t_config := match c with Some kv => fold_left (fun acc p => cfg_set (fst p) (snd p) acc) kv (t_config t)
                                    | None => t_config t end;
                t_live := live_at news; t_cell := cell_at news |}
    | ERestore old =>
        let a := abs old in
        Some {| t_schema := t_schema a;
                t_maxfid := match t_maxfid a, t_maxfid t with
                            | Some x, Some y => Some (N.max x y) | Some x, None => Some x | None, y => y end;
                t_config := t_config a; t_live := t_live a; t_cell := t_cell a |}
    | EReserve n =>
        Some {| t_schema := t_schema t; t_maxfid := Some (match t_maxfid t with Some x => x | None => 0 end + n);
                t_config := t_config t; t_live := t_live t; t_cell := t_cell t |}
    | EConfig u =>
        Some {| t_schema := t_schema t; t_maxfid := t_maxfid t;
                t_config := match u with Some m => apply_umap (t_config t) m | None => t_config t end;
                t_live := t_live t; t_cell := t_cell t |}
    | EReplaceData repl =>
        Some {| t_schema := t_schema t; t_maxfid := t_maxfid t; t_config := t_config t; t_live := t_live t;
                t_cell := fun f o x => match assocN f repl with
                                       | Some nf => if memZ x (d_fields nf) then fcontent (d_id nf) x o else t_cell t f o x
                                       | None => t_cell t f o x end |}
    | ENone => Some t
    end.
End Store.

(* ------------------------------------------------------------------ operation semantics: intents *)
(* What a writer wants, independent of any version.  `mk` computes, at a read version, the transaction the writer
   submits, the affected rows it passes to the commit, and the row-level effect it intends. *)
Inductive intent :=
| IAppend (frs : list frag)
| IDelete (rows : list addr)                              (* delete these rows (predicate already evaluated) *)
| IDeleteAll                                               (* predicate `true`: every fragment of the read version *)
| IUpdateRows (rows : list addr) (frs : list frag)        (* update / full-schema merge_insert: RewriteRows *)
| IUpdateCols (targets : list (N * N)) (fields : list Z) (matched : list addr) (frs : list frag)
                                                           (* partial-schema merge_insert: RewriteColumns; per target
                                                              fragment the identity of the rewritten column file *)
| IRewrite (groups : list (list N * list frag)) (src : N -> N -> option addr)
                                                           (* compaction: old fragment ids -> new fragments, and where
                                                              each row of the new fragments comes from *)
| IAddColumns (added : schema) (files : list (N * dfile)) (* add_columns: per fragment the file with the new fields *)
| IProject (drop : list Z)                                 (* drop_columns *)
| IOverwrite (frs : list frag) (s : schema) (c : option cfg)
| IRestore (v : N)
| IReserve (n : N)
| IConfig (u : umap)
| IReplaceData (repl : list (N * dfile))
| ICreateIndex (newi removedi : list index).

Section Semantics.
  Variable frows : N -> N.
  Variable fcontent : N -> Z -> N -> option N.
  Notation frag_rows := (frag_rows frows).

  (* apply_deletions / FileFragment::extend_deletions for one fragment: None = untouched,
     Some None = every row is now deleted (fragment removed), Some (Some u) = updated fragment *)
  Definition del_in_frag (rows : list addr) (newdel : N) (f : frag) : option (option frag) :=
    match nodupN (rows_of rows (f_id f)) with
    | [] => None
    | r => let dv := unionN (dels_of f) r in
           if N.eqb (cardN dv) (frag_rows f) then Some None else Some (Some (set_del f (Some (newdel, dv))))
    end.
  Definition mk_deletions (frs : list frag) (rows : list addr) (newdel : N) : list frag * list N :=
    (flat_map (fun f => match del_in_frag rows newdel f with Some (Some u) => [u] | _ => [] end) frs,
     flat_map (fun f => match del_in_frag rows newdel f with Some None => [f_id f] | _ => [] end) frs).

  Definition tombstone (fields : list Z) (d : dfile) : dfile :=
    {| d_id := d_id d; d_fields := map (fun x => if memZ x fields then (-2)%Z else x) (d_fields d) |}.
  Definition rewrite_cols (frs : list frag) (targets : list (N * N)) (fields : list Z) : list frag :=
    flat_map (fun f => match assocN (f_id f) targets with
                       | Some nf => [set_files f (map (tombstone fields) (f_files f) ++ [{| d_id := nf; d_fields := fields |}])]
                       | None => [] end) frs.

  Definition pick_frags (frs : list frag) (ids : list N) : list frag :=
    flat_map (fun i => match find_frag i frs with Some f => [f] | None => [] end) ids.

  Definition mk (h : history) (rv : N) (i : intent) (newdel : N) : option (op * option (list addr) * effect) :=
    match nth_man h rv with
    | None => None
    | Some m =>
        let frs := m_frags m in
        Some
          match i with
          | IAppend nf => (Append nf, None, EAppend nf)
          | IDelete rows =>
              let (upd, gone) := mk_deletions frs rows newdel in
              (Delete upd gone, Some rows, EDelete rows)
          | IDeleteAll => (Delete [] (ids_of frs), None, EDropFrags (ids_of frs))
          | IUpdateRows rows nf =>
              let (upd, gone) := mk_deletions frs rows newdel in
              (Update gone upd nf [] (Some RewriteRows) None (schema_ids (m_schema m)), Some rows, EUpdateRows rows nf)
          | IUpdateCols targets fields matched nf =>
              let upd := rewrite_cols frs targets fields in
              (Update [] upd nf fields (Some RewriteColumns) None [], None, EUpdateCols upd fields matched nf)
          | IRewrite groups src =>
              (Rewrite (map (fun g => (pick_frags frs (fst g), snd g)) groups) [] None, None,
               ERewrite (flat_map fst groups) (flat_map snd groups) src)
          | IAddColumns added files =>
              let nfr := map (fun f => match assocN (f_id f) files with
                                       | Some d => set_files f (f_files f ++ [d]) | None => f end) frs in
              (Merge nfr (m_schema m ++ added), None, EAddColumns added nfr)
          | IProject drop =>
              (Project (filter (fun fl => negb (memZ (fst fl) drop)) (m_schema m)), None, EProject drop)
          | IOverwrite nf s c => (Overwrite nf s c, None, EOverwrite nf s c)
          | IRestore v => (Restore v, None, match nth_man h v with Some old => ERestore old | None => ENone end)
          | IReserve n => (ReserveFragments n, None, EReserve n)
          | IConfig u => (UpdateConfig (Some u) None None [], None, EConfig (Some u))
          | IReplaceData repl => (DataReplacement repl, None, EReplaceData repl)
          | ICreateIndex newi removedi => (CreateIndex newi removedi, None, ENone)
          end
    end.

  (* one writer: compute the transaction at read version s_rv, commit it on the latest version *)
  Record step := { s_rv : N; s_int : intent; s_newdel : N }.
  Definition run_step (h : history) (st : step) : history * option effect :=
    match mk h (s_rv st) (s_int st) (s_newdel st) with
    | None => (h, None)
    | Some (o, aff, e) =>
        match commit frows h (s_rv st) o aff (s_newdel st) with
        | Committed h' => (h', Some e)
        | _ => (h, None)
        end
    end.
  (* commit_all: the writers commit one after the other in list order; the log keeps the effects of the committed *)
  Fixpoint run (h : history) (sts : list step) : history * list effect :=
    match sts with
    | [] => (h, [])
    | st :: r => let (h1, oe) := run_step h st in
                 let (h2, log) := run h1 r in
                 (h2, match oe with Some e => e :: log | None => log end)
    end.
  (* the serial replay of the committed effects, in commit order *)
  Fixpoint replay (t : table) (es : list effect) : option table :=
    match es with
    | [] => Some t
    | e :: r => match apply_effect frows fcontent e t with Some t' => replay t' r | None => None end
    end.

  (* ---------------------------------------------------------------- known finding classes *)
  (* F14: an Append committing after a concurrent Merge whose schema has a non-nullable field the appended
     fragments do not store (check_append_txn returns Ok for Merge) *)
  Definition Known_C03_append_over_concurrent_merge_nonnull (o : op) (others : list op) : bool :=
    match o with
    | Append frs => existsb (fun other => match other with Merge _ s => negb (covers_nonnull s frs) | _ => false end) others
    | _ => false
    end.
  (* the class as a property of a step in a history *)
  Definition step_in_F14 (h : history) (st : step) : bool :=
    match mk h (s_rv st) (s_int st) (s_newdel st) with
    | Some (o, _, _) => Known_C03_append_over_concurrent_merge_nonnull o (ops_since h (s_rv st))
    | None => false
    end.
End Semantics.

(* ------------------------------------------------------------------ correspondence checkers *)
Definition mkd (i : N) (fs : list Z) : dfile := {| d_id := i; d_fields := fs |}.
Definition mkf (i : N) (files : list dfile) (d : option delfile) : frag := {| f_id := i; f_files := files; f_del := d |}.
Definition mki (u n : N) (fs : list Z) (b : option (list N)) (v : N) (vec : bool) : index :=
  {| i_uuid := u; i_name := n; i_fields := fs; i_bitmap := b; i_dsver := v; i_vec := vec |}.
Definition mku (e : list (N * option N)) (r : bool) : umap := {| u_entries := e; u_replace := r |}.

(* unit: TransactionRebase::try_new on the fragments of the read version, then one check_txn.
   output: 0 Ok, 1 RetryableCommitConflict, 2 CommitConflict, 3 any other error (4 = panic: never the model's) *)
Definition chk_verdict (i : (list frag * (op * option (list addr))) * op) (o : N) : bool :=
  let '((read_frags, (self, aff)), other) := i in
  N.eqb (verdict_code (fst (check_txn (try_new read_frags self aff) other))) o.
(* one row of the matrix: the same (read fragments, self, affected rows) against every other operation *)
Definition chk_verdict_row (i : (list frag * (op * option (list addr))) * list op) (o : list N) : bool :=
  let '(s, others) := i in
  list_eqb N.eqb (map (fun other => verdict_code (fst (check_txn (try_new (fst s) (fst (snd s)) (snd (snd s))) other))) others) o.
