(* C03/C04 - the fragment list left by a (rebased) delete / update equals "the current table minus the rows the
   writer selected at its read version". *)
From LanceV Require Import Common.Base Table.Model_Txn Table.Proofs_TxnBase Table.Proofs_TxnFrame Table.Proofs_TxnChain
  Table.Proofs_TxnDU Table.Proofs_TxnAbs.
From Coq Require Import Permutation.
Local Open Scope N_scope.

Section Del.
  Variable frows : N -> N.
  Variable fcontent : N -> Z -> N -> option N.
  Notation frag_rows := (frag_rows frows).
  Notation fcell := (fcell fcontent).
  Notation flive := (flive frows).
  Notation wf_frag := (wf_frag frows).
  Notation wf_manifest := (wf_manifest frows).
  Notation Sim := (Sim frows fcontent).
  Notation live_at := (live_at frows).
  Notation cell_at := (cell_at fcontent).
  Notation InvDU := (InvDU frows fcontent).

  Lemma flive_set_del : forall f i dv o, flive (set_del f (Some (i, dv))) o = N.ltb o (frag_rows f) && negb (memN o dv).
  Proof. reflexivity. Qed.
  Lemma memN_unionN : forall x a b, memN x (unionN a b) = memN x a || memN x b.
  Proof.
    intros x a b. destruct (memN x (unionN a b)) eqn:E.
    - apply memN_In in E. apply unionN_In in E as [E | E]; apply memN_In in E; rewrite E; [reflexivity | symmetry; apply orb_true_r].
    - symmetry. apply orb_false_iff. split; apply memN_false; intro H; apply (proj1 (memN_false _ _) E); apply unionN_In; auto.
  Qed.
  Lemma memN_nodupN : forall x l, memN x (nodupN l) = memN x l.
  Proof.
    intros x l. destruct (memN x l) eqn:E.
    - apply memN_In. apply nodupN_In. apply memN_In. exact E.
    - apply memN_false. intro H. apply (proj1 (nodupN_In _ _)) in H. apply (proj1 (memN_false _ _) E). exact H.
  Qed.
  Lemma memN_rows_of : forall o rows f, memN o (rows_of rows f) = mem_addr (f, o) rows.
  Proof.
    intros o rows f. destruct (mem_addr (f, o) rows) eqn:E.
    - apply memN_In. apply rows_of_In. apply mem_addr_In. exact E.
    - apply memN_false. intro H. apply (proj1 (rows_of_In _ _ _)) in H. apply (proj2 (mem_addr_In _ _)) in H. congruence.
  Qed.
  Lemma patch_dels_ids : forall files upd, ids_of (patch_dels files upd) = ids_of upd.
  Proof.
    intros files upd. unfold patch_dels. apply ids_of_map. intros u. destruct (assocN (f_id u) files); reflexivity.
  Qed.
  Lemma find_patch : forall files upd f, find_frag f (patch_dels files upd) =
    option_map (fun u => match assocN (f_id u) files with Some d => set_del u (Some d) | None => u end) (find_frag f upd).
  Proof.
    intros files upd f. unfold patch_dels. apply find_frag_map. intros u. destruct (assocN (f_id u) files); reflexivity.
  Qed.

  Section Core.
    Variables (mr cur : manifest) (rows : list addr) (nd0 nd : N) (upd : list frag) (gone : list N).
    Variables (init : list (frag * bool)) (gone2 : list N) (files : list (N * delfile)).
    Hypothesis Hwr : wf_manifest mr.
    Hypothesis Hwc : wf_manifest cur.
    Hypothesis Hlive : forall a, In a rows -> live_at (m_frags mr) (fst a) (snd a) = true.
    Hypothesis Hmk : mk_deletions frows (m_frags mr) rows nd0 = (upd, gone).
    Hypothesis Hinit : forall fi, In fi (m_frags mr) -> In (f_id fi) (ids_of upd ++ gone) -> exists b, In (fi, b) init.
    Hypothesis Hinit' : forall fi b, In (fi, b) init -> In fi (m_frags mr).
    Hypothesis Hinit_mod : forall fi b, In (fi, b) init -> In (f_id fi) (ids_of upd ++ gone).
    Hypothesis Hnd_init : NoDup (init_ids init).
    Hypothesis Hinv : InvDU cur init.
    Hypothesis HF1 : forall fi, In (fi, true) init -> exists fc e,
        find_frag (f_id fi) (m_frags cur) = Some fc /\ f_del fc = Some e
        /\ (forall o, In (f_id fi, o) rows -> ~ In o (snd e))
        /\ (if N.eqb (cardN (unionN (snd e) (rows_of rows (f_id fi)))) (frag_rows fi)
            then In (f_id fi) gone2 /\ assocN (f_id fi) files = None
            else ~ In (f_id fi) gone2 /\ assocN (f_id fi) files = Some (nd, unionN (snd e) (rows_of rows (f_id fi)))).
    Hypothesis HF2 : forall f, (forall fi, In (fi, true) init -> f_id fi <> f) -> ~ In f gone2 /\ assocN f files = None.

    Let upd' := patch_dels files upd.
    Let gone' := gone ++ gone2.
    Let kept := map (replace_first upd') (filter (fun f => negb (memN (f_id f) gone')) (m_frags cur)).

    (* classification of a fragment id by what the writer computed at its read version *)
    Inductive cls (f : N) : Type :=
    | cls_none : (forall o, ~ In (f, o) rows) -> ~ In f (ids_of upd) -> ~ In f gone -> cls f
    | cls_upd : forall fi, In fi (m_frags mr) -> f_id fi = f -> rows_of rows f <> [] ->
        find_frag f upd = Some (set_del fi (Some (nd0, unionN (dels_of fi) (nodupN (rows_of rows f))))) ->
        ~ In f gone -> cls f
    | cls_gone : forall fi, In fi (m_frags mr) -> f_id fi = f -> In f gone ->
        cardN (unionN (dels_of fi) (nodupN (rows_of rows f))) = frag_rows fi -> cls f.

    Lemma upd_NoDup : NoDup (ids_of upd).
    Proof.
      destruct Hwr as [Hnd _]. pose proof Hmk as Q. unfold mk_deletions in Q. injection Q as Eu Eg. rewrite <- Eu.
      clear - Hnd. induction (m_frags mr) as [|a r IH]; cbn [flat_map]; [constructor|].
      cbn [ids_of map] in Hnd. inversion Hnd as [|? ? Hn Hr]; subst. rewrite ids_of_app. apply NoDup_app_intro; [| exact (IH Hr) |].
      - destruct (del_in_frag frows rows nd0 a) as [[u|]|]; cbn; constructor; [intros []|constructor].
      - intros x Hx Hy. apply Hn. destruct (del_in_frag frows rows nd0 a) as [[u|]|] eqn:E; cbn in Hx; [|destruct Hx|destruct Hx].
        destruct Hx as [Hx | []]. subst x.
        apply del_in_frag_upd in E as [E _]. subst u. cbn [f_id set_del] in *.
        unfold ids_of in Hy. apply in_map_iff in Hy as [g [Eg Hg]]. apply in_flat_map in Hg as [b [Hb Hg]].
        destruct (del_in_frag frows rows nd0 b) as [[u|]|] eqn:Eb; cbn in Hg; [|destruct Hg|destruct Hg].
        destruct Hg as [Hg | []]. subst u.
        apply del_in_frag_upd in Eb as [Eb _]. subst g. cbn [f_id set_del] in Eg. rewrite <- Eg. apply in_map. exact Hb.
    Qed.

    Lemma classify : forall f, cls f.
    Proof.
      intros f. destruct (mk_deletions_spec frows _ _ _ _ _ Hmk) as [SU SG]. destruct Hwr as [Hndr _].
      destruct (find_frag f (m_frags mr)) as [fi|] eqn:Ef.
      - pose proof (find_frag_some _ _ _ Ef) as [Hfi Hid].
        assert (Huniq : forall g, In g (m_frags mr) -> f_id g = f -> g = fi).
        { intros g Hg Eg. pose proof (find_frag_In _ g Hndr Hg) as Q. rewrite Eg, Ef in Q. inversion Q. reflexivity. }
        destruct (del_in_frag frows rows nd0 fi) as [[u|]|] eqn:Ed.
        + pose proof (del_in_frag_upd frows _ _ _ _ Ed) as [Eu [Hne Hc]]. rewrite Hid in *.
          apply (cls_upd f fi Hfi Hid).
          * intro Q. apply Hne. rewrite Q. reflexivity.
          * rewrite <- Eu. assert (Hu : In u upd) by (apply SU; exists fi; auto).
            pose proof (find_frag_In _ u upd_NoDup Hu) as Q. rewrite Eu in Q at 1. cbn [f_id set_del] in Q. rewrite Hid in Q. exact Q.
          * intros Hg. apply SG in Hg as [g [Hg [Eg Edg]]]. rewrite (Huniq g Hg Eg) in Edg. congruence.
        + pose proof (del_in_frag_gone frows _ _ _ Ed) as [Hne Hc]. rewrite Hid in *.
          apply (cls_gone f fi Hfi Hid); [apply SG; exists fi; auto | exact Hc].
        + apply cls_none.
          * intros o. rewrite <- Hid. apply (del_in_frag_none frows _ _ _ Ed).
          * intros Hu. unfold ids_of in Hu. apply in_map_iff in Hu as [u [Eu Hu]]. apply SU in Hu as [g [Hg Edg]].
            pose proof (del_in_frag_upd frows _ _ _ _ Edg) as [Eu' _]. subst u. cbn [f_id set_del] in Eu.
            rewrite (Huniq g Hg Eu) in Edg. congruence.
          * intros Hg. apply SG in Hg as [g [Hg [Eg Edg]]]. rewrite (Huniq g Hg Eg) in Edg. congruence.
      - apply find_frag_none in Ef. apply cls_none.
        + intros o Hin. specialize (Hlive _ Hin). cbn [fst snd] in Hlive. unfold Model_Txn.live_at in Hlive.
          destruct (find_frag f (m_frags mr)) eqn:E; [|discriminate]. apply find_frag_some in E as [E1 E2]. apply Ef. subst f.
          apply in_map. exact E1.
        + intros Hu. unfold ids_of in Hu. apply in_map_iff in Hu as [u [Eu Hu]]. apply SU in Hu as [g [Hg Edg]].
          pose proof (del_in_frag_upd frows _ _ _ _ Edg) as [Eu' _]. subst u. cbn [f_id set_del] in Eu. apply Ef. subst f. apply in_map. exact Hg.
        + intros Hg. apply SG in Hg as [g [Hg [Eg _]]]. apply Ef. subst f. apply in_map. exact Hg.
    Qed.

    (* a row selected by the writer was live at the read version: below the row count, not deleted there *)
    Lemma rows_bound : forall fi o, In fi (m_frags mr) -> In (f_id fi, o) rows -> o < frag_rows fi /\ ~ In o (dels_of fi).
    Proof.
      intros fi o Hfi Hin. specialize (Hlive _ Hin). cbn [fst snd] in Hlive. unfold Model_Txn.live_at in Hlive.
      destruct Hwr as [Hndr _]. rewrite (find_frag_In _ fi Hndr Hfi) in Hlive. unfold Model_Txn.flive in Hlive.
      apply andb_true_iff in Hlive as [A B]. apply N.ltb_lt in A. apply negb_true_iff in B. apply memN_false in B. auto.
    Qed.

    Lemma init_entry : forall fi, In fi (m_frags mr) -> In (f_id fi) (ids_of upd) \/ In (f_id fi) gone ->
      exists b fc, In (fi, b) init /\ find_frag (f_id fi) (m_frags cur) = Some fc /\ Sim (m_schema cur) fi fc
                   /\ (b = false -> f_del fc = f_del fi).
    Proof.
      intros fi Hfi Hm. destruct (Hinit fi Hfi) as [b Hb]; [apply in_or_app; exact Hm|].
      destruct (Hinv fi b Hb) as [fc [F1 [F2 F3]]]. exists b, fc. auto.
    Qed.
    Lemma unmarked_clean : forall fi, In (fi, false) init -> ~ In (f_id fi) gone2 /\ assocN (f_id fi) files = None.
    Proof.
      intros fi Hb. apply HF2. intros g Hg Eg. destruct (init_unique init g true fi false Hnd_init Hg Hb Eg) as [_ Q]. discriminate.
    Qed.
    Lemma outside_clean : forall f, ~ In f (ids_of upd) -> ~ In f gone -> ~ In f gone2 /\ assocN f files = None.
    Proof.
      intros f H1 H2. apply HF2. intros g Hg Eg. pose proof (Hinit_mod g true Hg) as Hgm. rewrite Eg in Hgm.
      apply in_app_or in Hgm as [Q | Q]; [exact (H1 Q) | exact (H2 Q)].
    Qed.

    Lemma find_kept : forall f, find_frag f kept =
      if memN f gone' then None else option_map (replace_first upd') (find_frag f (m_frags cur)).
    Proof.
      intros f. unfold kept. rewrite find_frag_map by apply replace_first_id.
      rewrite (find_frag_filter (fun i => negb (memN i gone'))). destruct (memN f gone'); reflexivity.
    Qed.
    Lemma memN_gone' : forall f, memN f gone' = memN f gone || memN f gone2.
    Proof.
      intros f. unfold gone'. destruct (memN f (gone ++ gone2)) eqn:E.
      - apply memN_In in E. apply in_app_or in E as [E | E]; apply memN_In in E; rewrite E; [reflexivity | symmetry; apply orb_true_r].
      - symmetry. apply orb_false_iff. split; apply memN_false; intro H; apply (proj1 (memN_false _ _) E); apply in_or_app; auto.
    Qed.

    (* what the new fragment list holds for a fragment of the current version *)
    Inductive outcome (f : N) (fc : frag) : Prop :=
    | O_same : find_frag f kept = Some fc -> (forall o, ~ In (f, o) rows) -> outcome f fc
    | O_gone : find_frag f kept = None -> In f gone' -> (forall o, flive fc o = true -> In (f, o) rows) -> outcome f fc
    | O_repl : forall fi i dv, find_frag f kept = Some (set_del fi (Some (i, dv))) -> Sim (m_schema cur) fi fc -> wf_frag fi ->
        (forall o, memN o dv = memN o (dels_of fc) || mem_addr (f, o) rows) -> (forall o, In o dv -> o < frag_rows fi) ->
        outcome f fc.

    Lemma wf_cur_frag : forall f fc, find_frag f (m_frags cur) = Some fc -> wf_frag fc /\ f_id fc = f.
    Proof.
      intros f fc H. apply find_frag_some in H as [H1 H2]. destruct Hwc as [_ [Hw _]]. split; [exact (Hw fc H1) | exact H2].
    Qed.
    Lemma wf_read_frag : forall fi, In fi (m_frags mr) -> wf_frag fi.
    Proof. intros fi H. destruct Hwr as [_ [Hw _]]. exact (Hw fi H). Qed.

    Lemma entry_outcome : forall f fc, find_frag f (m_frags cur) = Some fc -> outcome f fc.
    Proof.
      intros f fc Hfc. destruct (wf_cur_frag f fc Hfc) as [[Wc1 Wc2] Hidc].
      destruct (classify f) as [Hno Hnu Hng | fi Hfi Hid Hne Hfind Hng | fi Hfi Hid Hgone Hcard].
      - (* not modified by the writer *)
        destruct (outside_clean f Hnu Hng) as [Hn2 Ha].
        apply O_same; [|exact Hno]. rewrite find_kept, memN_gone'.
        rewrite (proj2 (memN_false _ _) Hng), (proj2 (memN_false _ _) Hn2), Hfc. cbn [orb option_map]. f_equal.
        apply replace_first_notin. unfold upd'. rewrite patch_dels_ids, Hidc. exact Hnu.
      - (* some rows deleted at the read version *)
        assert (Hinu : In (f_id fi) (ids_of upd)).
        { apply find_frag_some in Hfind as [Q _]. rewrite Hid. unfold ids_of. apply in_map_iff. eexists. split; [|exact Q]. exact Hid. }
        destruct (init_entry fi Hfi (or_introl Hinu)) as [b [fc' [Hb [Hf' [HS Hdel]]]]]. rewrite Hid, Hfc in Hf'. inversion Hf'; subst fc'. clear Hf'.
        pose proof (wf_read_frag fi Hfi) as [Wi1 Wi2]. pose proof HS as [S1 [S2 [S3 S4]]].
        assert (Hrb : forall o, In o (rows_of rows f) -> o < frag_rows fi).
        { intros o Ho. apply rows_of_In in Ho. rewrite <- Hid in Ho. exact (proj1 (rows_bound fi o Hfi Ho)). }
        destruct b.
        + destruct (HF1 fi Hb) as [fc'' [e [Hf'' [He [Hnc Hcase]]]]]. rewrite Hid, Hfc in Hf''. inversion Hf''; subst fc''. clear Hf''.
          rewrite Hid in Hcase, Hnc.
          assert (Hde : dels_of fc = snd e) by (unfold dels_of; rewrite He; reflexivity).
          destruct (N.eqb (cardN (unionN (snd e) (rows_of rows f))) (frag_rows fi)) eqn:Ec.
          * destruct Hcase as [Hg2 _]. apply O_gone.
            -- rewrite find_kept, memN_gone', (proj2 (memN_In _ _) Hg2), orb_true_r. reflexivity.
            -- unfold gone'. apply in_or_app. right. exact Hg2.
            -- intros o Hl. unfold Model_Txn.flive in Hl. apply andb_true_iff in Hl as [L1 L2]. apply N.ltb_lt in L1.
               apply negb_true_iff in L2. apply memN_false in L2. rewrite Hde in L2. rewrite S2 in L1.
               apply N.eqb_eq in Ec.
               assert (Hin : In o (unionN (snd e) (rows_of rows f))).
               { apply (cardN_full _ (frag_rows fi)); [|exact Ec | exact L1]. intros x Hx. apply unionN_In in Hx as [Hx | Hx].
                 - rewrite <- S2. apply Wc1. rewrite Hde. exact Hx.
                 - exact (Hrb x Hx). }
               apply unionN_In in Hin as [Hin | Hin]; [contradiction | apply rows_of_In; exact Hin].
          * destruct Hcase as [Hg2 Ha].
            apply (O_repl f fc fi nd (unionN (snd e) (rows_of rows f))); [|exact HS | split; assumption | |].
            -- rewrite find_kept, memN_gone', (proj2 (memN_false _ _) Hng), (proj2 (memN_false _ _) Hg2), Hfc. cbn [orb option_map].
               f_equal. unfold replace_first. rewrite Hidc. unfold upd'. rewrite find_patch, Hfind. cbn [option_map f_id set_del].
               rewrite Hid, Ha. reflexivity.
            -- intros o. rewrite memN_unionN, memN_rows_of, Hde. reflexivity.
            -- intros o Ho. apply unionN_In in Ho as [Ho | Ho]; [rewrite <- S2; apply Wc1; rewrite Hde; exact Ho | exact (Hrb o Ho)].
        + destruct (unmarked_clean fi Hb) as [Hg2 Ha]. rewrite Hid in Hg2, Ha.
          assert (Hde : dels_of fc = dels_of fi) by (unfold dels_of; rewrite (Hdel eq_refl); reflexivity).
          apply (O_repl f fc fi nd0 (unionN (dels_of fi) (nodupN (rows_of rows f)))); [|exact HS | split; assumption | |].
          * rewrite find_kept, memN_gone', (proj2 (memN_false _ _) Hng), (proj2 (memN_false _ _) Hg2), Hfc. cbn [orb option_map].
            f_equal. unfold replace_first. rewrite Hidc. unfold upd'. rewrite find_patch, Hfind. cbn [option_map f_id set_del].
            rewrite Hid, Ha. reflexivity.
          * intros o. rewrite memN_unionN, memN_nodupN, memN_rows_of, Hde. reflexivity.
          * intros o Ho. apply unionN_In in Ho as [Ho | Ho]; [exact (Wi1 o Ho) | apply Hrb; apply nodupN_In; exact Ho].
      - (* every row deleted at the read version *)
        destruct (init_entry fi Hfi (or_intror (eq_ind_r (fun z => In z gone) Hgone Hid))) as [b [fc' [Hb [Hf' [HS Hdel]]]]].
        rewrite Hid, Hfc in Hf'. inversion Hf'; subst fc'. clear Hf'.
        pose proof (wf_read_frag fi Hfi) as [Wi1 Wi2]. pose proof HS as [S1 [S2 [S3 S4]]].
        apply O_gone.
        + rewrite find_kept, memN_gone', (proj2 (memN_In _ _) Hgone). reflexivity.
        + unfold gone'. apply in_or_app. left. exact Hgone.
        + intros o Hl. unfold Model_Txn.flive in Hl. apply andb_true_iff in Hl as [L1 L2]. apply N.ltb_lt in L1.
          apply negb_true_iff in L2. apply memN_false in L2. rewrite S2 in L1.
          assert (Hin : In o (unionN (dels_of fi) (nodupN (rows_of rows f)))).
          { apply (cardN_full _ (frag_rows fi)); [|exact Hcard | exact L1]. intros x Hx. apply unionN_In in Hx as [Hx | Hx].
            - exact (Wi1 x Hx).
            - apply (proj1 (nodupN_In _ _)) in Hx. apply rows_of_In in Hx. rewrite <- Hid in Hx. exact (proj1 (rows_bound fi x Hfi Hx)). }
          apply unionN_In in Hin as [Hin | Hin]; [exfalso; apply L2; apply S4; exact Hin|].
          apply (proj1 (nodupN_In _ _)) in Hin. apply rows_of_In. exact Hin.
    Qed.

    Lemma kept_live : forall f o, live_at kept f o = live_at (m_frags cur) f o && negb (mem_addr (f, o) rows).
    Proof.
      intros f o. unfold Model_Txn.live_at at 2. destruct (find_frag f (m_frags cur)) as [fc|] eqn:Hfc.
      - unfold Model_Txn.live_at. destruct (entry_outcome f fc Hfc) as [Hk Hno | Hk _ Hall | fi i dv Hk HS Hw Hm Hb]; rewrite Hk.
        + assert (Q : mem_addr (f, o) rows = false).
          { apply not_true_iff_false. intro Q. apply (proj1 (mem_addr_In _ _)) in Q. exact (Hno o Q). }
          rewrite Q. cbn [negb]. rewrite andb_true_r. reflexivity.
        + destruct (flive fc o) eqn:El; [|reflexivity]. rewrite (proj2 (mem_addr_In _ _) (Hall o El)). reflexivity.
        + rewrite flive_set_del, Hm. destruct HS as [_ [S2 _]]. unfold Model_Txn.flive. rewrite S2, negb_orb, andb_assoc. reflexivity.
      - unfold Model_Txn.live_at. rewrite find_kept, Hfc. destruct (memN f gone'); reflexivity.
    Qed.

    Lemma kept_cell : forall f o x, In x (schema_ids (m_schema cur)) -> live_at kept f o = true ->
      cell_at kept f o x = cell_at (m_frags cur) f o x.
    Proof.
      intros f o x Hx Hl. unfold Model_Txn.cell_at at 2. unfold Model_Txn.live_at in Hl. unfold Model_Txn.cell_at.
      destruct (find_frag f (m_frags cur)) as [fc|] eqn:Hfc.
      - destruct (entry_outcome f fc Hfc) as [Hk Hno | Hk _ Hall | fi i dv Hk HS Hw Hm Hb]; rewrite Hk in *; try reflexivity; try discriminate.
        destruct HS as [_ [_ [S3 _]]]. rewrite (S3 x o Hx). apply same_files_cell. reflexivity.
      - rewrite find_kept, Hfc in *. destruct (memN f gone'); reflexivity.
    Qed.

    Lemma kept_ids : forall i, In i (ids_of kept) -> In i (ids_of (m_frags cur)).
    Proof.
      intros i Hi. unfold kept in Hi. rewrite ids_of_map in Hi by apply replace_first_id. unfold ids_of in *.
      apply in_map_iff in Hi as [g [E Hg]]. apply filter_In in Hg as [Hg _]. apply in_map_iff. exists g. auto.
    Qed.
    Lemma filter_ids_NoDup : forall (p : frag -> bool) l, NoDup (ids_of l) -> NoDup (ids_of (filter p l)).
    Proof.
      intros p l. induction l as [|a r IH]; intros H; cbn [filter]; [constructor|]. cbn [ids_of map] in H.
      inversion H as [|? ? Hn Hr]; subst. destruct (p a); [|exact (IH Hr)]. cbn [ids_of map]. constructor; [|exact (IH Hr)].
      intro Q. apply Hn. unfold ids_of in *. apply in_map_iff in Q as [g [E Hg]]. apply filter_In in Hg as [Hg _].
      apply in_map_iff. exists g. auto.
    Qed.
    Lemma kept_NoDup : NoDup (ids_of kept).
    Proof.
      unfold kept. rewrite ids_of_map by apply replace_first_id. apply filter_ids_NoDup. destruct Hwc as [H _]. exact H.
    Qed.
    Lemma kept_wf : forall g, In g kept -> wf_frag g.
    Proof.
      intros g Hg. pose proof (find_frag_In _ g kept_NoDup Hg) as Hk.
      assert (Hc : In (f_id g) (ids_of (m_frags cur))) by (apply kept_ids; apply in_map; exact Hg).
      destruct (find_frag (f_id g) (m_frags cur)) as [fc|] eqn:Hfc; [|apply find_frag_none in Hfc; contradiction].
      destruct (entry_outcome _ fc Hfc) as [Hk' _ | Hk' _ _ | fi i dv Hk' HS Hw Hm Hb]; rewrite Hk in Hk'; inversion Hk'; subst.
      - exact (proj1 (wf_cur_frag _ _ Hfc)).
      - apply wf_frag_set_del; assumption.
    Qed.
    Lemma kept_goodop : forall u c, In u upd' -> ~ In (f_id u) gone' -> find_frag (f_id u) (m_frags cur) = Some c ->
      incl (dels_of c) (dels_of u).
    Proof.
      intros u c Hu Hng Hc.
      assert (Hnd' : NoDup (ids_of upd')) by (unfold upd'; rewrite patch_dels_ids; exact upd_NoDup).
      assert (Hk : find_frag (f_id u) kept = Some u).
      { rewrite find_kept, (proj2 (memN_false _ _) Hng), Hc. cbn [option_map]. f_equal. unfold replace_first.
        rewrite (proj2 (wf_cur_frag _ _ Hc)). rewrite (find_frag_In _ u Hnd' Hu). reflexivity. }
      destruct (entry_outcome _ c Hc) as [Hk' _ | Hk' Hg _ | fi i dv Hk' HS Hw Hm Hb]; rewrite Hk in Hk'; inversion Hk'; subst.
      - apply incl_refl.
      - intros o Ho. cbn [dels_of set_del f_del snd]. apply memN_In. rewrite Hm. apply memN_In in Ho. rewrite Ho. reflexivity.
    Qed.
  End Core.


  (* ---------------------------------------------------------------- from the commit to the hypotheses of Core *)
  Lemma replace_last_first : forall upd f, NoDup (ids_of upd) -> replace_last upd f = replace_first upd f.
  Proof.
    intros upd f Hnd. unfold replace_first. destruct (find_frag (f_id f) upd) as [u|] eqn:E.
    - apply find_frag_some in E as [Hin Hid]. revert f Hid. induction upd as [|a r IH]; intros f Hid; [destruct Hin|].
      cbn [ids_of map] in Hnd. inversion Hnd as [|? ? Hn Hr]; subst. unfold replace_last. cbn [fold_left].
      destruct Hin as [Hin | Hin].
      + subst a. rewrite Hid, N.eqb_refl. fold (replace_last r u). apply replace_last_notin. exact Hn.
      + destruct (N.eqb (f_id a) (f_id f)) eqn:Ea.
        * exfalso. apply N.eqb_eq in Ea. apply Hn. rewrite Ea, <- Hid. apply in_map. exact Hin.
        * fold (replace_last r f). apply IH; assumption.
    - apply replace_last_notin. apply find_frag_none. exact E.
  Qed.
  Lemma maxfid_sub : forall cur frs, wf_manifest cur -> (forall i, In i (ids_of frs) -> In i (ids_of (m_frags cur))) ->
    omax (m_maxfid cur) (lmax (ids_of frs)) = m_maxfid cur.
  Proof.
    intros cur frs [_ [_ [_ Hm]]] Hsub. unfold wf_maxfid in Hm. destruct (m_maxfid cur) as [M|].
    - apply lmax_bound. intros x Hx. apply Hsub in Hx. unfold ids_of in Hx. apply in_map_iff in Hx as [c [E Hc]]. subst. exact (Hm c Hc).
    - destruct frs as [|k r]; [reflexivity|]. exfalso. specialize (Hsub (f_id k) (or_introl eq_refl)). rewrite Hm in Hsub. destruct Hsub.
  Qed.
  Lemma patch_dels_nil : forall upd, patch_dels [] upd = upd.
  Proof. intros upd. unfold patch_dels. cbn [assocN]. apply map_id. Qed.

  Lemma to_rw_NoDup : forall init, NoDup (init_ids init) -> NoDup (map (fun p : frag * bool => f_id (fst p)) (filter snd init)).
  Proof.
    induction init as [|a r IH]; intros H; cbn [filter]; [constructor|]. cbn [init_ids map] in H.
    inversion H as [|? ? Hn Hr]; subst. destruct (snd a); [|exact (IH Hr)]. cbn [map]. constructor; [|exact (IH Hr)].
    intro Q. apply Hn. apply in_map_iff in Q as [p [E Hp]]. apply filter_In in Hp as [Hp _]. unfold init_ids. apply in_map_iff. exists p. auto.
  Qed.
  Lemma to_rw_In : forall init f, In f (map (fun p : frag * bool => f_id (fst p)) (filter snd init)) <-> exists fi, In (fi, true) init /\ f_id fi = f.
  Proof.
    intros init f. rewrite in_map_iff. split.
    - intros [[fi b] [E Hp]]. apply filter_In in Hp as [Hp Hb]. cbn [fst snd] in *. subst b. exists fi. auto.
    - intros [fi [Hp E]]. exists (fi, true). split; [exact E | apply filter_In; auto].
  Qed.

  Lemma finish_facts : forall rb cur nd o' rows,
    NoDup (init_ids (rb_init rb)) -> NoDup (ids_of (m_frags cur)) -> InvDU cur (rb_init rb) ->
    (rb_aff rb = Some rows \/ forall fi, ~ In (fi, true) (rb_init rb)) ->
    finish_delete_update frows rb (m_frags cur) nd = FOk o' ->
    exists gone2 files,
      o' = match rb_op rb with
           | Delete upd dids => Delete (patch_dels files upd) (dids ++ gone2)
           | Update dids upd nf fm md mw fp => Update (dids ++ gone2) (patch_dels files upd) nf fm md mw fp
           | o => o end
      /\ (forall fi, In (fi, true) (rb_init rb) -> exists fc e,
            find_frag (f_id fi) (m_frags cur) = Some fc /\ f_del fc = Some e
            /\ (forall o, In (f_id fi, o) rows -> ~ In o (snd e))
            /\ (if N.eqb (cardN (unionN (snd e) (rows_of rows (f_id fi)))) (frag_rows fi)
                then In (f_id fi) gone2 /\ assocN (f_id fi) files = None
                else ~ In (f_id fi) gone2 /\ assocN (f_id fi) files = Some (nd, unionN (snd e) (rows_of rows (f_id fi)))))
      /\ (forall f, (forall fi, In (fi, true) (rb_init rb) -> f_id fi <> f) -> ~ In f gone2 /\ assocN f files = None).
  Proof.
    intros rb cur nd o' rows Hnd Hndc Hinv Haff H. unfold finish_delete_update in H.
    destruct (existsb snd (rb_init rb)) eqn:Em.
    - destruct Haff as [Haff | Hnone].
      2:{ apply existsb_exists in Em as [[fi b] [Hp Hb]]. cbn [snd] in Hb. subst b. exfalso. exact (Hnone fi Hp). }
      rewrite Haff in H.
      set (to_rw := map (fun p : frag * bool => f_id (fst p)) (filter snd (rb_init rb))) in *.
      destruct (existing_dels (m_frags cur) to_rw) as [ex|] eqn:Ex; [|discriminate].
      match type of H with context [existsb ?pp rows] => destruct (existsb pp rows) eqn:Ecf; [discriminate|] end.
      destruct (rewrite_dvs frows (rb_init rb) ex rows to_rw nd) as [[gone2 files]|] eqn:Er; [|discriminate].
      pose proof (existing_dels_spec _ _ _ Hndc Ex) as SE.
      destruct (rewrite_dvs_spec frows _ _ _ _ _ _ _ (to_rw_NoDup _ Hnd) Er) as [SR1 SR2].
      exists gone2, files. split; [destruct (rb_op rb); inversion H; subst; reflexivity | split].
      + intros fi Hfi. destruct (Hinv fi true Hfi) as [fc [Hfc _]].
        assert (Hin : In (f_id fi) to_rw) by (apply to_rw_In; exists fi; auto).
        destruct (SE (f_id fi)) as [SE1 SE2]. rewrite (proj2 (memN_In _ _) Hin), Hfc in SE1.
        specialize (SE2 (proj2 (memN_In _ _) Hin) fc Hfc). destruct (f_del fc) as [e|] eqn:Ee; [|contradiction]. cbn [option_map] in SE1.
        exists fc, e. split; [exact Hfc | split; [exact Ee | split]].
        * intros o Ho Hoe. apply (proj2 (not_true_iff_false _) Ecf).
          apply existsb_exists. exists (f_id fi, o). split; [exact Ho|]. cbn [fst snd]. rewrite SE1. apply memN_In. exact Hoe.
        * destruct (SR1 _ Hin) as [dv [Edv Hcase]]. unfold merged_dv in Edv. rewrite SE1 in Edv. inversion Edv; subst dv.
          assert (Eg : init_get (f_id fi) (rb_init rb) = Some (fi, true)).
          { unfold init_get. destruct (find _ (rb_init rb)) as [[g b]|] eqn:Ef.
            - apply find_some in Ef as [Hg Eg]. cbn [fst] in Eg. apply N.eqb_eq in Eg.
              destruct (init_unique _ g b fi true Hnd Hg Hfi Eg) as [A B]. subst. reflexivity.
            - exfalso. pose proof (find_none _ _ Ef (fi, true) Hfi) as Q. cbn [fst] in Q. rewrite N.eqb_refl in Q. discriminate. }
          rewrite Eg in Hcase. exact Hcase.
      + intros f Hf. apply SR2. intro Hin. apply to_rw_In in Hin as [fi [Hp E]]. exact (Hf fi Hp E).
    - exists [], []. split; [|split].
      + inversion H; subst. destruct (rb_op rb); try reflexivity; rewrite patch_dels_nil, app_nil_r; reflexivity.
      + intros fi Hfi. exfalso. assert (Q : existsb snd (rb_init rb) = true) by (apply existsb_exists; exists (fi, true); auto). congruence.
      + intros f _. split; [intros [] | reflexivity].
  Qed.


  Notation Chain := (Chain frows).
  Notation HistOk := (HistOk frows).

  Lemma check_du_none : forall rb mw isu o rb', rb_aff rb = None -> check_delete_update rb mw isu o = (VOk, rb') -> gen_op o ->
    rb' = rb /\ untouched_by (rb_mod rb) o.
  Proof.
    intros rb mw isu o rb' Ha H Hg. destruct o; cbn [check_delete_update gen_op] in *; try contradiction;
      try (inversion H; fail); try (inversion H; subst; split; [reflexivity | exists []; split; [reflexivity | intros i _ []]]).
    - unfold check_du_vs_du in H. rewrite Ha in H. destruct (negb (overlapN (ids_of upd ++ del_ids) (rb_mod rb))) eqn:Eo; inversion H; subst.
      split; [reflexivity|]. exists (ids_of upd ++ del_ids). split; [reflexivity | apply overlap_untouched; apply negb_true_iff; exact Eo].
    - unfold check_du_vs_du in H. rewrite Ha in H. destruct (negb (overlapN (ids_of upd ++ removed) (rb_mod rb))) eqn:Eo; inversion H; subst.
      split; [reflexivity|]. exists (ids_of upd ++ removed). split; [reflexivity | apply overlap_untouched; apply negb_true_iff; exact Eo].
    - destruct (overlapN (group_old_ids groups) (rb_mod rb)) eqn:Eo; inversion H; subst.
      split; [reflexivity|]. exists (group_old_ids groups). split; [reflexivity | apply overlap_untouched; exact Eo].
    - destruct (overlapN (map fst repl) (rb_mod rb)) eqn:Eo; inversion H; subst.
      split; [reflexivity|]. exists (map fst repl). split; [reflexivity | apply overlap_untouched; exact Eo].
  Qed.

  Lemma check_all_none : forall m ops m', Chain m ops m' -> forall rb rb', is_du (rb_op rb) -> rb_aff rb = None ->
    check_all rb ops = (VOk, rb') -> rb' = rb /\ forall o, In o ops -> untouched_by (rb_mod rb) o.
  Proof.
    intros m ops m' Hc. induction Hc as [m | m o m1 ops m' Hstep Hw1 Hc IH]; intros rb rb' Hdu Ha Hall.
    - cbn [check_all] in Hall. inversion Hall. split; [reflexivity | intros o []].
    - apply check_all_cons in Hall as [rb1 [Hc1 Hall]].
      assert (Hcd : exists mw isu, check_txn rb o = check_delete_update rb mw isu o).
      { unfold check_txn. destruct (rb_op rb); try contradiction; eauto. }
      destruct Hcd as [mw [isu Hcd]]. rewrite Hcd in Hc1.
      destruct Hstep as [Hb Hg Hgen | v Ev]; [|subst o; cbn [check_delete_update] in Hc1; inversion Hc1].
      destruct (check_du_none rb mw isu o rb1 Ha Hc1 Hgen) as [E U]. subst rb1.
      destruct (IH rb rb' Hdu Ha Hall) as [E' U']. split; [exact E'|]. intros o' [Ho' | Ho']; [subst; exact U | exact (U' o' Ho')].
  Qed.

  Lemma hist_wf : forall h v m, HistOk h -> nth_man h v = Some m -> wf_manifest m.
  Proof.
    intros h v m [Hw _] H. destruct (nth_man_some _ _ _ H) as [e [He [Em _]]]. subst m. apply Hw. eapply nth_error_In. exact He.
  Qed.

  Definition init0 (mr : manifest) (mods : list N) : list (frag * bool) := initial_fragments (m_frags mr) mods.
  Lemma init0_In : forall mr mods fi b, In (fi, b) (init0 mr mods) <-> b = false /\ In fi (m_frags mr) /\ In (f_id fi) mods.
  Proof.
    intros mr mods fi b. unfold init0, initial_fragments. rewrite in_map_iff. split.
    - intros [g [E Hg]]. inversion E; subst. apply filter_In in Hg as [Hg Hm]. apply memN_In in Hm. auto.
    - intros [Eb [Hfi Hm]]. subst b. exists fi. split; [reflexivity | apply filter_In; split; [exact Hfi | apply memN_In; exact Hm]].
  Qed.
  Lemma init0_NoDup : forall mr mods, NoDup (ids_of (m_frags mr)) -> NoDup (init_ids (init0 mr mods)).
  Proof.
    intros mr mods H. unfold init_ids, init0, initial_fragments. rewrite map_map. cbn [fst].
    apply (filter_ids_NoDup (fun f => memN (f_id f) mods)) in H. exact H.
  Qed.
  Lemma init0_inv : forall mr mods, wf_manifest mr -> InvDU mr (init0 mr mods).
  Proof.
    intros mr mods [Hnd [_ [_ _]]] fi b Hin. apply init0_In in Hin as [Eb [Hfi _]]. exists fi.
    split; [apply find_frag_In; assumption | split; [apply Sim_refl | reflexivity]].
  Qed.

  (* the conclusion shared by delete and update: the rebased operation and the properties of the kept fragments *)
  Definition du_result (cur : manifest) (rows : list addr) (upd : list frag) (gone : list N) (o' : op)
             (mk_op : list frag -> list N -> op) : Prop :=
    exists gone2 files,
      let upd' := patch_dels files upd in
      let gone' := gone ++ gone2 in
      let kept := map (replace_first upd') (filter (fun f => negb (memN (f_id f) gone')) (m_frags cur)) in
      o' = mk_op upd' gone'
      /\ NoDup (ids_of upd')
      /\ (forall f o, live_at kept f o = live_at (m_frags cur) f o && negb (mem_addr (f, o) rows))
      /\ (forall f o x, In x (schema_ids (m_schema cur)) -> live_at kept f o = true -> cell_at kept f o x = cell_at (m_frags cur) f o x)
      /\ NoDup (ids_of kept) /\ (forall i, In i (ids_of kept) -> In i (ids_of (m_frags cur)))
      /\ (forall g, In g kept -> wf_frag g)
      /\ (forall u c, In u upd' -> ~ In (f_id u) gone' -> find_frag (f_id u) (m_frags cur) = Some c -> incl (dels_of c) (dels_of u)).

  Lemma du_core : forall h rv mr cur rows nd0 nd upd gone o rb' o' (mk_op : list frag -> list N -> op),
    HistOk h -> nth_man h rv = Some mr -> latest h = Some cur ->
    (forall a, In a rows -> live_at (m_frags mr) (fst a) (snd a) = true) ->
    mk_deletions frows (m_frags mr) rows nd0 = (upd, gone) ->
    ((o = Delete upd gone /\ mk_op = (fun u g => Delete u g))
     \/ exists nf fm md mw fp, o = Update gone upd nf fm md mw fp /\ mk_op = (fun u g => Update g u nf fm md mw fp)) ->
    check_all (try_new (m_frags mr) o (Some rows)) (ops_since h rv) = (VOk, rb') ->
    finish_delete_update frows rb' (m_frags cur) nd = FOk o' ->
    du_result cur rows upd gone o' mk_op.
  Proof.
    intros h rv mr cur rows nd0 nd upd gone o rb' o' mk_op Hh Hr Hl Hlive Hmk Ho Hall Hfin.
    pose proof (hist_wf _ _ _ Hh Hr) as Hwr. pose proof (hist_wf _ _ _ Hh Hl) as Hwc.
    pose proof (hist_chain frows fcontent _ _ _ _ Hh Hr Hl) as Hch.
    set (mods := ids_of upd ++ gone).
    assert (Hop : forall rb, rb_op rb = o -> is_du (rb_op rb)).
    { intros rb E. rewrite E. destruct Ho as [[Ho _] | [nf [fm [md [mw [fp [Ho _]]]]]]]; subst o; exact I. }
    assert (Hmkop : forall rb files gone2, rb_op rb = o ->
              match rb_op rb with
              | Delete u d => Delete (patch_dels files u) (d ++ gone2)
              | Update d u nf fm md mw fp => Update (d ++ gone2) (patch_dels files u) nf fm md mw fp
              | x => x end = mk_op (patch_dels files upd) (gone ++ gone2)).
    { intros rb files gone2 E. rewrite E. destruct Ho as [[Ho Hm] | [nf [fm [md [mw [fp [Ho Hm]]]]]]]; subst o mk_op; reflexivity. }
    pose proof Hwr as [Hndr _]. pose proof Hwc as [Hndc _].
    (* the state after the checks, and the rebase list to use in Core *)
    assert (Hstate : exists init, NoDup (init_ids init) /\ InvDU cur init /\ rb_op rb' = o
               /\ (forall fi b, In (fi, b) init -> In fi (m_frags mr) /\ In (f_id fi) mods)
               /\ (forall fi, In fi (m_frags mr) -> In (f_id fi) mods -> exists b, In (fi, b) init)
               /\ exists gone2 files,
                    o' = mk_op (patch_dels files upd) (gone ++ gone2)
                    /\ (forall fi, In (fi, true) init -> exists fc e,
                          find_frag (f_id fi) (m_frags cur) = Some fc /\ f_del fc = Some e
                          /\ (forall o0, In (f_id fi, o0) rows -> ~ In o0 (snd e))
                          /\ (if N.eqb (cardN (unionN (snd e) (rows_of rows (f_id fi)))) (frag_rows fi)
                              then In (f_id fi) gone2 /\ assocN (f_id fi) files = None
                              else ~ In (f_id fi) gone2 /\ assocN (f_id fi) files = Some (nd, unionN (snd e) (rows_of rows (f_id fi)))))
                    /\ (forall f, (forall fi, In (fi, true) init -> f_id fi <> f) -> ~ In f gone2 /\ assocN f files = None)).
    { destruct upd as [|u0 urest] eqn:Eupd.
      - (* only whole-fragment deletions: try_new forgets the affected rows *)
        set (rb0 := {| rb_op := o; rb_init := []; rb_mod := mods; rb_aff := None; rb_cfri := [] |}).
        assert (Etn : try_new (m_frags mr) o (Some rows) = rb0).
        { destruct Ho as [[Ho _] | [nf [fm [md [mw [fp [Ho _]]]]]]]; subst o; reflexivity. }
        rewrite Etn in Hall. destruct (check_all_none _ _ _ Hch rb0 rb' (Hop rb0 eq_refl) eq_refl Hall) as [Erb Hunt]. subst rb'.
        exists (init0 mr mods). split; [apply init0_NoDup; exact Hndr | split; [|split; [reflexivity | split; [|split]]]].
        + intros fi b Hin. apply init0_In in Hin as [Eb [Hfi Hm]]. subst b.
          destruct (chain_untouched frows fcontent _ _ _ Hch Hwr mods Hunt fi fi Hm (find_frag_In _ fi Hndr Hfi) (Sim_refl frows fcontent _ fi))
            as [f2 [F1 [F2 [F3 _]]]].
          exists f2. auto.
        + intros fi b Hin. apply init0_In in Hin as [_ Q]. exact Q.
        + intros fi Hfi Hm. exists false. apply init0_In. auto.
        + destruct (finish_facts rb0 cur nd o' rows) as [gone2 [files [Eo [F1 F2]]]];
            [constructor | exact Hndc | intros fi b [] | right; intros fi [] | exact Hfin|].
          exists gone2, files. split; [rewrite Eo; apply (Hmkop rb0); reflexivity | split].
          * intros fi Hin. apply init0_In in Hin as [Q _]. discriminate.
          * intros f _. apply F2. intros fi [].
      - rewrite <- Eupd in *.
        set (rb0 := {| rb_op := o; rb_init := init0 mr mods; rb_mod := mods; rb_aff := Some rows; rb_cfri := [] |}).
        assert (Etn : try_new (m_frags mr) o (Some rows) = rb0).
        { destruct Ho as [[Ho _] | [nf [fm [md [mw [fp [Ho _]]]]]]]; subst o; unfold rb0, mods, init0; rewrite Eupd; reflexivity. }
        rewrite Etn in Hall.
        assert (Hmod0 : forall i, In i (init_ids (rb_init rb0)) -> In i (rb_mod rb0)).
        { intros i Hi. unfold init_ids in Hi. apply in_map_iff in Hi as [[g b] [E Hg]]. apply init0_In in Hg as [_ [_ Q]]. cbn [fst] in E. subst i. exact Q. }
        destruct (chain_du frows fcontent _ _ _ Hch rb0 rb' Hwr (Hop rb0 eq_refl) (init0_NoDup mr mods Hndr) (init0_inv mr mods Hwr) Hmod0 Hall)
          as [Hinv [[C1 [C2 [C3 [C4 C5]]]] _]].
        assert (Hndi : NoDup (init_ids (rb_init rb'))) by (rewrite C4; apply init0_NoDup; exact Hndr).
        exists (rb_init rb'). split; [exact Hndi | split; [exact Hinv | split; [exact C1 | split; [|split]]]].
        + intros fi b Hin. destruct (C5 fi b Hin) as [b0 [Hb0 _]]. apply init0_In in Hb0 as [_ Q]. exact Q.
        + intros fi Hfi Hm.
          assert (Hi : In (f_id fi) (init_ids (rb_init rb'))).
          { rewrite C4. unfold init_ids. apply (in_map (fun q => f_id (fst q)) _ (fi, false)). apply init0_In. auto. }
          unfold init_ids in Hi. apply in_map_iff in Hi as [[g b] [E Hg]]. cbn [fst] in E.
          destruct (C5 g b Hg) as [b0 [Hb0 _]]. apply init0_In in Hb0 as [_ [Hgm _]].
          assert (g = fi). { pose proof (find_frag_In _ g Hndr Hgm) as Q1. pose proof (find_frag_In _ fi Hndr Hfi) as Q2. rewrite E in Q1. congruence. }
          subst g. exists b. exact Hg.
        + destruct (finish_facts rb' cur nd o' rows Hndi Hndc Hinv (or_introl C3) Hfin) as [gone2 [files [Eo [F1 F2]]]].
          exists gone2, files. split; [rewrite Eo; apply (Hmkop rb'); exact C1 | split; [exact F1 | exact F2]]. }
    destruct Hstate as [init [Hndi [Hinv [Eop [Hin1 [Hin2 [gone2 [files [Eo [F1 F2]]]]]]]]]].
    exists gone2, files. cbv zeta.
    assert (Hi1 : forall fi, In fi (m_frags mr) -> In (f_id fi) (ids_of upd ++ gone) -> exists b, In (fi, b) init) by exact Hin2.
    assert (Hi2 : forall fi b, In (fi, b) init -> In fi (m_frags mr)) by (intros fi b Q; exact (proj1 (Hin1 fi b Q))).
    assert (Hi3 : forall fi b, In (fi, b) init -> In (f_id fi) (ids_of upd ++ gone)) by (intros fi b Q; exact (proj2 (Hin1 fi b Q))).
    split; [exact Eo | split; [rewrite patch_dels_ids; exact (upd_NoDup mr rows nd0 upd gone Hwr Hmk) | split; [|split; [|split; [|split; [|split]]]]]].
    - apply (kept_live mr cur rows nd0 nd upd gone init gone2 files); assumption.
    - apply (kept_cell mr cur rows nd0 nd upd gone init gone2 files); assumption.
    - exact (kept_NoDup cur upd gone gone2 files Hwc).
    - exact (kept_ids cur upd gone gone2 files).
    - apply (kept_wf mr cur rows nd0 nd upd gone init gone2 files); assumption.
    - apply (kept_goodop mr cur rows nd0 nd upd gone init gone2 files); assumption.
  Qed.
End Del.
