(* C03/C04 - the fragment list left by a (rebased) delete / update equals "the current table minus the rows the
   writer selected at its read version". *)
From LanceV Require Import Common.Base Table.Model_Txn Table.Proofs_TxnBase Table.Proofs_TxnFrame Table.Proofs_TxnChain
  Table.Proofs_TxnDU Table.Proofs_TxnAbs.
From Coq Require Import Permutation.
Local Open Scope N_scope.

Section Del.
  Variable frows : N -> N.
  Variable fcontent : N -> Z -> N -> option N.
  Notation frag_rows := (frag_rows frows).
  Notation fcell := (fcell fcontent).
  Notation flive := (flive frows).
  Notation wf_frag := (wf_frag frows).
  Notation wf_manifest := (wf_manifest frows).
  Notation Sim := (Sim frows fcontent).
  Notation live_at := (live_at frows).
  Notation cell_at := (cell_at fcontent).
  Notation InvDU := (InvDU frows fcontent).

  Lemma flive_set_del : forall f i dv o, flive (set_del f (Some (i, dv))) o = N.ltb o (frag_rows f) && negb (memN o dv).
  Proof. reflexivity. Qed.
  Lemma memN_unionN : forall x a b, memN x (unionN a b) = memN x a || memN x b.
  Proof.
    intros x a b. destruct (memN x (unionN a b)) eqn:E.
    - apply memN_In in E. apply unionN_In in E as [E | E]; apply memN_In in E; rewrite E; [reflexivity | symmetry; apply orb_true_r].
    - symmetry. apply orb_false_iff. split; apply memN_false; intro H; apply (proj1 (memN_false _ _) E); apply unionN_In; auto.
  Qed.
  Lemma memN_nodupN : forall x l, memN x (nodupN l) = memN x l.
  Proof.
    intros x l. destruct (memN x l) eqn:E.
    - apply memN_In. apply nodupN_In. apply memN_In. exact E.
    - apply memN_false. intro H. apply (proj1 (nodupN_In _ _)) in H. apply (proj1 (memN_false _ _) E). exact H.
  Qed.
  Lemma memN_rows_of : forall o rows f, memN o (rows_of rows f) = mem_addr (f, o) rows.
  Proof.
    intros o rows f. destruct (mem_addr (f, o) rows) eqn:E.
    - apply memN_In. apply rows_of_In. apply mem_addr_In. exact E.
    - apply memN_false. intro H. apply (proj1 (rows_of_In _ _ _)) in H. apply (proj2 (mem_addr_In _ _)) in H. congruence.
  Qed.
  Lemma patch_dels_ids : forall files upd, ids_of (patch_dels files upd) = ids_of upd.
  Proof.
    intros files upd. unfold patch_dels. apply ids_of_map. intros u. destruct (assocN (f_id u) files); reflexivity.
  Qed.
  Lemma find_patch : forall files upd f, find_frag f (patch_dels files upd) =
    option_map (fun u => match assocN (f_id u) files with Some d => set_del u (Some d) | None => u end) (find_frag f upd).
  Proof.
    intros files upd f. unfold patch_dels. apply find_frag_map. intros u. destruct (assocN (f_id u) files); reflexivity.
  Qed.

  Section Core.
    Variables (mr cur : manifest) (rows : list addr) (nd0 nd : N) (upd : list frag) (gone : list N).
    Variables (init : list (frag * bool)) (gone2 : list N) (files : list (N * delfile)).
    Hypothesis Hwr : wf_manifest mr.
    Hypothesis Hwc : wf_manifest cur.
    Hypothesis Hlive : forall a, In a rows -> live_at (m_frags mr) (fst a) (snd a) = true.
    Hypothesis Hmk : mk_deletions frows (m_frags mr) rows nd0 = (upd, gone).
    Hypothesis Hinit : forall fi, In fi (m_frags mr) -> In (f_id fi) (ids_of upd ++ gone) -> exists b, In (fi, b) init.
    Hypothesis Hinit' : forall fi b, In (fi, b) init -> In fi (m_frags mr).
    Hypothesis Hinit_mod : forall fi b, In (fi, b) init -> In (f_id fi) (ids_of upd ++ gone).
    Hypothesis Hnd_init : NoDup (init_ids init).
    Hypothesis Hinv : InvDU cur init.
    Hypothesis HF1 : forall fi, In (fi, true) init -> exists fc e,
        find_frag (f_id fi) (m_frags cur) = Some fc /\ f_del fc = Some e
        /\ (forall o, In (f_id fi, o) rows -> ~ In o (snd e))
        /\ (if N.eqb (cardN (unionN (snd e) (rows_of rows (f_id fi)))) (frag_rows fi)
            then In (f_id fi) gone2 /\ assocN (f_id fi) files = None
            else ~ In (f_id fi) gone2 /\ assocN (f_id fi) files = Some (nd, unionN (snd e) (rows_of rows (f_id fi)))).
    Hypothesis HF2 : forall f, (forall fi, In (fi, true) init -> f_id fi <> f) -> ~ In f gone2 /\ assocN f files = None.

    Let upd' := patch_dels files upd.
    Let gone' := gone ++ gone2.
    Let kept := map (replace_first upd') (filter (fun f => negb (memN (f_id f) gone')) (m_frags cur)).

    (* classification of a fragment id by what the writer computed at its read version *)
    Inductive cls (f : N) : Type :=
    | cls_none : (forall o, ~ In (f, o) rows) -> ~ In f (ids_of upd) -> ~ In f gone -> cls f
    | cls_upd : forall fi, In fi (m_frags mr) -> f_id fi = f -> rows_of rows f <> [] ->
        find_frag f upd = Some (set_del fi (Some (nd0, unionN (dels_of fi) (nodupN (rows_of rows f))))) ->
        ~ In f gone -> cls f
    | cls_gone : forall fi, In fi (m_frags mr) -> f_id fi = f -> In f gone ->
        cardN (unionN (dels_of fi) (nodupN (rows_of rows f))) = frag_rows fi -> cls f.

    Lemma upd_NoDup : NoDup (ids_of upd).
    Proof.
      destruct Hwr as [Hnd _]. pose proof Hmk as Q. unfold mk_deletions in Q. injection Q as Eu Eg. rewrite <- Eu.
      clear - Hnd. induction (m_frags mr) as [|a r IH]; cbn [flat_map]; [constructor|].
      cbn [ids_of map] in Hnd. inversion Hnd as [|? ? Hn Hr]; subst. rewrite ids_of_app. apply NoDup_app_intro; [| exact (IH Hr) |].
      - destruct (del_in_frag frows rows nd0 a) as [[u|]|]; cbn; constructor; [intros []|constructor].
      - intros x Hx Hy. apply Hn. destruct (del_in_frag frows rows nd0 a) as [[u|]|] eqn:E; cbn in Hx; [|destruct Hx|destruct Hx].
        destruct Hx as [Hx | []]. subst x.
        apply del_in_frag_upd in E as [E _]. subst u. cbn [f_id set_del] in *.
        unfold ids_of in Hy. apply in_map_iff in Hy as [g [Eg Hg]]. apply in_flat_map in Hg as [b [Hb Hg]].
        destruct (del_in_frag frows rows nd0 b) as [[u|]|] eqn:Eb; cbn in Hg; [|destruct Hg|destruct Hg].
        destruct Hg as [Hg | []]. subst u.
        apply del_in_frag_upd in Eb as [Eb _]. subst g. cbn [f_id set_del] in Eg. rewrite <- Eg. apply in_map. exact Hb.
    Qed.

    Lemma classify : forall f, cls f.
    Proof.
      intros f. destruct (mk_deletions_spec frows _ _ _ _ _ Hmk) as [SU SG]. destruct Hwr as [Hndr _].
      destruct (find_frag f (m_frags mr)) as [fi|] eqn:Ef.
      - pose proof (find_frag_some _ _ _ Ef) as [Hfi Hid].
        assert (Huniq : forall g, In g (m_frags mr) -> f_id g = f -> g = fi).
        { intros g Hg Eg. pose proof (find_frag_In _ g Hndr Hg) as Q. rewrite Eg, Ef in Q. inversion Q. reflexivity. }
        destruct (del_in_frag frows rows nd0 fi) as [[u|]|] eqn:Ed.
        + pose proof (del_in_frag_upd frows _ _ _ _ Ed) as [Eu [Hne Hc]]. rewrite Hid in *.
          apply (cls_upd f fi Hfi Hid).
          * intro Q. apply Hne. rewrite Q. reflexivity.
          * rewrite <- Eu. assert (Hu : In u upd) by (apply SU; exists fi; auto).
            pose proof (find_frag_In _ u upd_NoDup Hu) as Q. rewrite Eu in Q at 1. cbn [f_id set_del] in Q. rewrite Hid in Q. exact Q.
          * intros Hg. apply SG in Hg as [g [Hg [Eg Edg]]]. rewrite (Huniq g Hg Eg) in Edg. congruence.
        + pose proof (del_in_frag_gone frows _ _ _ Ed) as [Hne Hc]. rewrite Hid in *.
          apply (cls_gone f fi Hfi Hid); [apply SG; exists fi; auto | exact Hc].
        + apply cls_none.
          * intros o. rewrite <- Hid. apply (del_in_frag_none frows _ _ _ Ed).
          * intros Hu. unfold ids_of in Hu. apply in_map_iff in Hu as [u [Eu Hu]]. apply SU in Hu as [g [Hg Edg]].
            pose proof (del_in_frag_upd frows _ _ _ _ Edg) as [Eu' _]. subst u. cbn [f_id set_del] in Eu.
            rewrite (Huniq g Hg Eu) in Edg. congruence.
          * intros Hg. apply SG in Hg as [g [Hg [Eg Edg]]]. rewrite (Huniq g Hg Eg) in Edg. congruence.
      - apply find_frag_none in Ef. apply cls_none.
        + intros o Hin. specialize (Hlive _ Hin). cbn [fst snd] in Hlive. unfold Model_Txn.live_at in Hlive.
          destruct (find_frag f (m_frags mr)) eqn:E; [|discriminate]. apply find_frag_some in E as [E1 E2]. apply Ef. subst f.
          apply in_map. exact E1.
        + intros Hu. unfold ids_of in Hu. apply in_map_iff in Hu as [u [Eu Hu]]. apply SU in Hu as [g [Hg Edg]].
          pose proof (del_in_frag_upd frows _ _ _ _ Edg) as [Eu' _]. subst u. cbn [f_id set_del] in Eu. apply Ef. subst f. apply in_map. exact Hg.
        + intros Hg. apply SG in Hg as [g [Hg [Eg _]]]. apply Ef. subst f. apply in_map. exact Hg.
    Qed.

    (* a row selected by the writer was live at the read version: below the row count, not deleted there *)
    Lemma rows_bound : forall fi o, In fi (m_frags mr) -> In (f_id fi, o) rows -> o < frag_rows fi /\ ~ In o (dels_of fi).
    Proof.
      intros fi o Hfi Hin. specialize (Hlive _ Hin). cbn [fst snd] in Hlive. unfold Model_Txn.live_at in Hlive.
      destruct Hwr as [Hndr _]. rewrite (find_frag_In _ fi Hndr Hfi) in Hlive. unfold Model_Txn.flive in Hlive.
      apply andb_true_iff in Hlive as [A B]. apply N.ltb_lt in A. apply negb_true_iff in B. apply memN_false in B. auto.
    Qed.

    Lemma init_entry : forall fi, In fi (m_frags mr) -> In (f_id fi) (ids_of upd) \/ In (f_id fi) gone ->
      exists b fc, In (fi, b) init /\ find_frag (f_id fi) (m_frags cur) = Some fc /\ Sim (m_schema cur) fi fc
                   /\ (b = false -> f_del fc = f_del fi).
    Proof.
      intros fi Hfi Hm. destruct (Hinit fi Hfi) as [b Hb]; [apply in_or_app; exact Hm|].
      destruct (Hinv fi b Hb) as [fc [F1 [F2 F3]]]. exists b, fc. auto.
    Qed.
    Lemma unmarked_clean : forall fi, In (fi, false) init -> ~ In (f_id fi) gone2 /\ assocN (f_id fi) files = None.
    Proof.
      intros fi Hb. apply HF2. intros g Hg Eg. destruct (init_unique init g true fi false Hnd_init Hg Hb Eg) as [_ Q]. discriminate.
    Qed.
    Lemma outside_clean : forall f, ~ In f (ids_of upd) -> ~ In f gone -> ~ In f gone2 /\ assocN f files = None.
    Proof.
      intros f H1 H2. apply HF2. intros g Hg Eg. pose proof (Hinit_mod g true Hg) as Hgm. rewrite Eg in Hgm.
      apply in_app_or in Hgm as [Q | Q]; [exact (H1 Q) | exact (H2 Q)].
    Qed.

    Lemma find_kept : forall f, find_frag f kept =
      if memN f gone' then None else option_map (replace_first upd') (find_frag f (m_frags cur)).
    Proof.
      intros f. unfold kept. rewrite find_frag_map by apply replace_first_id.
      rewrite (find_frag_filter (fun i => negb (memN i gone'))). destruct (memN f gone'); reflexivity.
    Qed.
    Lemma memN_gone' : forall f, memN f gone' = memN f gone || memN f gone2.
    Proof.
      intros f. unfold gone'. destruct (memN f (gone ++ gone2)) eqn:E.
      - apply memN_In in E. apply in_app_or in E as [E | E]; apply memN_In in E; rewrite E; [reflexivity | symmetry; apply orb_true_r].
      - symmetry. apply orb_false_iff. split; apply memN_false; intro H; apply (proj1 (memN_false _ _) E); apply in_or_app; auto.
    Qed.

    (* what the new fragment list holds for a fragment of the current version *)
    Inductive outcome (f : N) (fc : frag) : Prop :=
    | O_same : find_frag f kept = Some fc -> (forall o, ~ In (f, o) rows) -> outcome f fc
    | O_gone : find_frag f kept = None -> In f gone' -> (forall o, flive fc o = true -> In (f, o) rows) -> outcome f fc
    | O_repl : forall fi i dv, find_frag f kept = Some (set_del fi (Some (i, dv))) -> Sim (m_schema cur) fi fc -> wf_frag fi ->
        (forall o, memN o dv = memN o (dels_of fc) || mem_addr (f, o) rows) -> (forall o, In o dv -> o < frag_rows fi) ->
        outcome f fc.

    Lemma wf_cur_frag : forall f fc, find_frag f (m_frags cur) = Some fc -> wf_frag fc /\ f_id fc = f.
    Proof.
      intros f fc H. apply find_frag_some in H as [H1 H2]. destruct Hwc as [_ [Hw _]]. split; [exact (Hw fc H1) | exact H2].
    Qed.
    Lemma wf_read_frag : forall fi, In fi (m_frags mr) -> wf_frag fi.
    Proof. intros fi H. destruct Hwr as [_ [Hw _]]. exact (Hw fi H). Qed.

    Lemma entry_outcome : forall f fc, find_frag f (m_frags cur) = Some fc -> outcome f fc.
    Proof.
      intros f fc Hfc. destruct (wf_cur_frag f fc Hfc) as [[Wc1 Wc2] Hidc].
      destruct (classify f) as [Hno Hnu Hng | fi Hfi Hid Hne Hfind Hng | fi Hfi Hid Hgone Hcard].
      - (* not modified by the writer *)
        destruct (outside_clean f Hnu Hng) as [Hn2 Ha].
        apply O_same; [|exact Hno]. rewrite find_kept, memN_gone'.
        rewrite (proj2 (memN_false _ _) Hng), (proj2 (memN_false _ _) Hn2), Hfc. cbn [orb option_map]. f_equal.
        apply replace_first_notin. unfold upd'. rewrite patch_dels_ids, Hidc. exact Hnu.
      - (* some rows deleted at the read version *)
        assert (Hinu : In (f_id fi) (ids_of upd)).
        { apply find_frag_some in Hfind as [Q _]. rewrite Hid. unfold ids_of. apply in_map_iff. eexists. split; [|exact Q]. exact Hid. }
        destruct (init_entry fi Hfi (or_introl Hinu)) as [b [fc' [Hb [Hf' [HS Hdel]]]]]. rewrite Hid, Hfc in Hf'. inversion Hf'; subst fc'. clear Hf'.
        pose proof (wf_read_frag fi Hfi) as [Wi1 Wi2]. pose proof HS as [S1 [S2 [S3 S4]]].
        assert (Hrb : forall o, In o (rows_of rows f) -> o < frag_rows fi).
        { intros o Ho. apply rows_of_In in Ho. rewrite <- Hid in Ho. exact (proj1 (rows_bound fi o Hfi Ho)). }
        destruct b.
        + destruct (HF1 fi Hb) as [fc'' [e [Hf'' [He [Hnc Hcase]]]]]. rewrite Hid, Hfc in Hf''. inversion Hf''; subst fc''. clear Hf''.
          rewrite Hid in Hcase, Hnc.
          assert (Hde : dels_of fc = snd e) by (unfold dels_of; rewrite He; reflexivity).
          destruct (N.eqb (cardN (unionN (snd e) (rows_of rows f))) (frag_rows fi)) eqn:Ec.
          * destruct Hcase as [Hg2 _]. apply O_gone.
            -- rewrite find_kept, memN_gone', (proj2 (memN_In _ _) Hg2), orb_true_r. reflexivity.
            -- unfold gone'. apply in_or_app. right. exact Hg2.
            -- intros o Hl. unfold Model_Txn.flive in Hl. apply andb_true_iff in Hl as [L1 L2]. apply N.ltb_lt in L1.
               apply negb_true_iff in L2. apply memN_false in L2. rewrite Hde in L2. rewrite S2 in L1.
               apply N.eqb_eq in Ec.
               assert (Hin : In o (unionN (snd e) (rows_of rows f))).
               { apply (cardN_full _ (frag_rows fi)); [|exact Ec | exact L1]. intros x Hx. apply unionN_In in Hx as [Hx | Hx].
                 - rewrite <- S2. apply Wc1. rewrite Hde. exact Hx.
                 - exact (Hrb x Hx). }
               apply unionN_In in Hin as [Hin | Hin]; [contradiction | apply rows_of_In; exact Hin].
          * destruct Hcase as [Hg2 Ha].
            apply (O_repl f fc fi nd (unionN (snd e) (rows_of rows f))); [|exact HS | split; assumption | |].
            -- rewrite find_kept, memN_gone', (proj2 (memN_false _ _) Hng), (proj2 (memN_false _ _) Hg2), Hfc. cbn [orb option_map].
               f_equal. unfold replace_first. rewrite Hidc. unfold upd'. rewrite find_patch, Hfind. cbn [option_map f_id set_del].
               rewrite Hid, Ha. reflexivity.
            -- intros o. rewrite memN_unionN, memN_rows_of, Hde. reflexivity.
            -- intros o Ho. apply unionN_In in Ho as [Ho | Ho]; [rewrite <- S2; apply Wc1; rewrite Hde; exact Ho | exact (Hrb o Ho)].
        + destruct (unmarked_clean fi Hb) as [Hg2 Ha]. rewrite Hid in Hg2, Ha.
          assert (Hde : dels_of fc = dels_of fi) by (unfold dels_of; rewrite (Hdel eq_refl); reflexivity).
          apply (O_repl f fc fi nd0 (unionN (dels_of fi) (nodupN (rows_of rows f)))); [|exact HS | split; assumption | |].
          * rewrite find_kept, memN_gone', (proj2 (memN_false _ _) Hng), (proj2 (memN_false _ _) Hg2), Hfc. cbn [orb option_map].
            f_equal. unfold replace_first. rewrite Hidc. unfold upd'. rewrite find_patch, Hfind. cbn [option_map f_id set_del].
            rewrite Hid, Ha. reflexivity.
          * intros o. rewrite memN_unionN, memN_nodupN, memN_rows_of, Hde. reflexivity.
          * intros o Ho. apply unionN_In in Ho as [Ho | Ho]; [exact (Wi1 o Ho) | apply Hrb; apply nodupN_In; exact Ho].
      - (* every row deleted at the read version *)
        destruct (init_entry fi Hfi (or_intror (eq_ind_r (fun z => In z gone) Hgone Hid))) as [b [fc' [Hb [Hf' [HS Hdel]]]]].
        rewrite Hid, Hfc in Hf'. inversion Hf'; subst fc'. clear Hf'.
        pose proof (wf_read_frag fi Hfi) as [Wi1 Wi2]. pose proof HS as [S1 [S2 [S3 S4]]].
        apply O_gone.
        + rewrite find_kept, memN_gone', (proj2 (memN_In _ _) Hgone). reflexivity.
        + unfold gone'. apply in_or_app. left. exact Hgone.
        + intros o Hl. unfold Model_Txn.flive in Hl. apply andb_true_iff in Hl as [L1 L2]. apply N.ltb_lt in L1.
          apply negb_true_iff in L2. apply memN_false in L2. rewrite S2 in L1.
          assert (Hin : In o (unionN (dels_of fi) (nodupN (rows_of rows f)))).
          { apply (cardN_full _ (frag_rows fi)); [|exact Hcard | exact L1]. intros x Hx. apply unionN_In in Hx as [Hx | Hx].
            - exact (Wi1 x Hx).
            - apply (proj1 (nodupN_In _ _)) in Hx. apply rows_of_In in Hx. rewrite <- Hid in Hx. exact (proj1 (rows_bound fi x Hfi Hx)). }
          apply unionN_In in Hin as [Hin | Hin]; [exfalso; apply L2; apply S4; exact Hin|].
          apply (proj1 (nodupN_In _ _)) in Hin. apply rows_of_In. exact Hin.
    Qed.

    Lemma kept_live : forall f o, live_at kept f o = live_at (m_frags cur) f o && negb (mem_addr (f, o) rows).
    Proof.
      intros f o. unfold Model_Txn.live_at at 2. destruct (find_frag f (m_frags cur)) as [fc|] eqn:Hfc.
      - unfold Model_Txn.live_at. destruct (entry_outcome f fc Hfc) as [Hk Hno | Hk _ Hall | fi i dv Hk HS Hw Hm Hb]; rewrite Hk.
        + assert (Q : mem_addr (f, o) rows = false).
          { apply not_true_iff_false. intro Q. apply (proj1 (mem_addr_In _ _)) in Q. exact (Hno o Q). }
          rewrite Q. cbn [negb]. rewrite andb_true_r. reflexivity.
        + destruct (flive fc o) eqn:El; [|reflexivity]. rewrite (proj2 (mem_addr_In _ _) (Hall o El)). reflexivity.
        + rewrite flive_set_del, Hm. destruct HS as [_ [S2 _]]. unfold Model_Txn.flive. rewrite S2, negb_orb, andb_assoc. reflexivity.
      - unfold Model_Txn.live_at. rewrite find_kept, Hfc. destruct (memN f gone'); reflexivity.
    Qed.

    Lemma kept_cell : forall f o x, In x (schema_ids (m_schema cur)) -> live_at kept f o = true ->
      cell_at kept f o x = cell_at (m_frags cur) f o x.
    Proof.
      intros f o x Hx Hl. unfold Model_Txn.cell_at at 2. unfold Model_Txn.live_at in Hl. unfold Model_Txn.cell_at.
      destruct (find_frag f (m_frags cur)) as [fc|] eqn:Hfc.
      - destruct (entry_outcome f fc Hfc) as [Hk Hno | Hk _ Hall | fi i dv Hk HS Hw Hm Hb]; rewrite Hk in *; try reflexivity; try discriminate.
        destruct HS as [_ [_ [S3 _]]]. rewrite (S3 x o Hx). apply same_files_cell. reflexivity.
      - rewrite find_kept, Hfc in *. destruct (memN f gone'); reflexivity.
    Qed.

    Lemma kept_ids : forall i, In i (ids_of kept) -> In i (ids_of (m_frags cur)).
    Proof.
      intros i Hi. unfold kept in Hi. rewrite ids_of_map in Hi by apply replace_first_id. unfold ids_of in *.
      apply in_map_iff in Hi as [g [E Hg]]. apply filter_In in Hg as [Hg _]. apply in_map_iff. exists g. auto.
    Qed.
    Lemma filter_ids_NoDup : forall (p : frag -> bool) l, NoDup (ids_of l) -> NoDup (ids_of (filter p l)).
    Proof.
      intros p l. induction l as [|a r IH]; intros H; cbn [filter]; [constructor|]. cbn [ids_of map] in H.
      inversion H as [|? ? Hn Hr]; subst. destruct (p a); [|exact (IH Hr)]. cbn [ids_of map]. constructor; [|exact (IH Hr)].
      intro Q. apply Hn. unfold ids_of in *. apply in_map_iff in Q as [g [E Hg]]. apply filter_In in Hg as [Hg _].
      apply in_map_iff. exists g. auto.
    Qed.
    Lemma kept_NoDup : NoDup (ids_of kept).
    Proof.
      unfold kept. rewrite ids_of_map by apply replace_first_id. apply filter_ids_NoDup. destruct Hwc as [H _]. exact H.
    Qed.
    Lemma kept_wf : forall g, In g kept -> wf_frag g.
    Proof.
      intros g Hg. pose proof (find_frag_In _ g kept_NoDup Hg) as Hk.
      assert (Hc : In (f_id g) (ids_of (m_frags cur))) by (apply kept_ids; apply in_map; exact Hg).
      destruct (find_frag (f_id g) (m_frags cur)) as [fc|] eqn:Hfc; [|apply find_frag_none in Hfc; contradiction].
      destruct (entry_outcome _ fc Hfc) as [Hk' _ | Hk' _ _ | fi i dv Hk' HS Hw Hm Hb]; rewrite Hk in Hk'; inversion Hk'; subst.
      - exact (proj1 (wf_cur_frag _ _ Hfc)).
      - apply wf_frag_set_del; assumption.
    Qed.
    Lemma kept_goodop : forall u c, In u upd' -> ~ In (f_id u) gone' -> find_frag (f_id u) (m_frags cur) = Some c ->
      incl (dels_of c) (dels_of u).
    Proof.
      intros u c Hu Hng Hc.
      assert (Hnd' : NoDup (ids_of upd')) by (unfold upd'; rewrite patch_dels_ids; exact upd_NoDup).
      assert (Hk : find_frag (f_id u) kept = Some u).
      { rewrite find_kept, (proj2 (memN_false _ _) Hng), Hc. cbn [option_map]. f_equal. unfold replace_first.
        rewrite (proj2 (wf_cur_frag _ _ Hc)). rewrite (find_frag_In _ u Hnd' Hu). reflexivity. }
      destruct (entry_outcome _ c Hc) as [Hk' _ | Hk' Hg _ | fi i dv Hk' HS Hw Hm Hb]; rewrite Hk in Hk'; inversion Hk'; subst.
      - apply incl_refl.
      - intros o Ho. cbn [dels_of set_del f_del snd]. apply memN_In. rewrite Hm. apply memN_In in Ho. rewrite Ho. reflexivity.
    Qed.
  End Core.
End Del.
