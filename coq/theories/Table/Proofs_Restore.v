(* Proofs about Table/Model_Restore.v for C07: the next_row_id high-water mark bounds every row id of
   every version of a history and never goes down, through appends, deletes, updates, compactions,
   overwrites and restores; hence a row id handed out by any step was never used by an earlier version. *)
From LanceV Require Import Common.Base Table.Model_Restore.
Local Open Scope N_scope.

(* ---------------------------------------------------------------- small facts *)
Lemma bind_ok {A B} (x : outcome A) (k : A -> outcome B) b :
  bind x k = Ok b -> exists a, x = Ok a /\ k a = Ok b.
Proof. destruct x as [a| |]; cbn [bind]; intro H; try discriminate. exists a; auto. Qed.

Lemma in_nseq s n r : In r (nseq s n) <-> s <= r < s + n.
Proof.
  unfold nseq. rewrite in_map_iff. split.
  - intros (i & Hi & Hin). apply in_seq in Hin. lia.
  - intros Hr. exists (N.to_nat (r - s)). split; [lia|]. apply in_seq. lia.
Qed.

Lemma in_firstn {A} (x : A) n l : In x (firstn n l) -> In x l.
Proof. intro H. rewrite <- (firstn_skipn n l). apply in_app_iff. left; exact H. Qed.
Lemma in_skipn {A} (x : A) n l : In x (skipn n l) -> In x l.
Proof. intro H. rewrite <- (firstn_skipn n l). apply in_app_iff. right; exact H. Qed.

Lemma memN_true x l : memN x l = true <-> In x l.
Proof.
  unfold memN. rewrite existsb_exists. split.
  - intros (y & Hy & E). apply N.eqb_eq in E. subst; auto.
  - intros H. exists x. split; auto. apply N.eqb_refl.
Qed.

Lemma frag_ids_set_id f i : frag_ids (set_id f i) = frag_ids f.
Proof. reflexivity. Qed.
Lemma frag_ids_set_created f x : frag_ids (set_created f x) = frag_ids f.
Proof. reflexivity. Qed.
Lemma frag_ids_set_updated f x : frag_ids (set_updated f x) = frag_ids f.
Proof. reflexivity. Qed.
Lemma frag_ids_set_del f x : frag_ids (set_del f x) = frag_ids f.
Proof. reflexivity. Qed.

Definition ids_of (fs : list frag) : list N := flat_map frag_ids fs.

Lemma ids_of_app a b : ids_of (a ++ b) = ids_of a ++ ids_of b.
Proof. unfold ids_of. apply flat_map_app. Qed.

Lemma in_ids_of fs r : In r (ids_of fs) <-> exists f, In f fs /\ In r (frag_ids f).
Proof. unfold ids_of. apply in_flat_map. Qed.

(* ---------------------------------------------------------------- assign_row_ids *)
Lemma assign_row_ids_spec : forall fs nr nr' fs',
  assign_row_ids nr fs = Ok (nr', fs') ->
  nr <= nr' /\
  (forall r, In r (ids_of fs') -> In r (ids_of fs) \/ nr <= r < nr') /\
  (forall r, nr <= r < nr' -> In r (ids_of fs')) /\
  (forall r, In r (ids_of fs) -> In r (ids_of fs')).
Proof.
  induction fs as [|f tl IH]; intros nr nr' fs' H; cbn [assign_row_ids] in H.
  - inversion H; subst. repeat split; try lia; intros r Hr; auto; lia.
  - destruct (f_ids f) as [ids|] eqn:Ef.
    + destruct (nlen ids ?= f_phys f) eqn:Ec.
      * apply bind_ok in H as ([nr1 tl1] & H1 & H2). cbn [fst snd] in H2. inversion H2; subst.
        specialize (IH _ _ _ H1) as (I1 & I2 & I3 & I4).
        repeat split; auto.
        -- intros r Hr. cbn [ids_of flat_map] in *. apply in_app_iff in Hr as [Hr|Hr].
           ++ left. apply in_app_iff. left. exact Hr.
           ++ destruct (I2 r Hr) as [Hl|Hl]; [left; apply in_app_iff; right; exact Hl | right; exact Hl].
        -- intros r Hr. cbn [ids_of flat_map]. apply in_app_iff. right. apply I3; exact Hr.
        -- intros r Hr. cbn [ids_of flat_map] in *. apply in_app_iff in Hr as [Hr|Hr]; apply in_app_iff; [left; exact Hr | right; apply I4; exact Hr].
      * destruct (two64 <=? nr + (f_phys f - nlen ids)) eqn:Eo; [discriminate|].
        apply bind_ok in H as ([nr1 tl1] & H1 & H2). cbn [fst snd] in H2. inversion H2; subst.
        specialize (IH _ _ _ H1) as (I1 & I2 & I3 & I4).
        assert (Hfi : frag_ids (set_ids f (Some (ids ++ nseq nr (f_phys f - nlen ids)))) = ids ++ nseq nr (f_phys f - nlen ids)) by reflexivity.
        assert (Hf0 : frag_ids f = ids) by (unfold frag_ids; rewrite Ef; reflexivity).
        repeat split; try lia.
        -- intros r Hr. cbn [ids_of flat_map] in *. rewrite Hfi in Hr. rewrite Hf0.
           apply in_app_iff in Hr as [Hr|Hr].
           ++ apply in_app_iff in Hr as [Hr|Hr].
              ** left. apply in_app_iff. left. exact Hr.
              ** right. apply in_nseq in Hr. lia.
           ++ destruct (I2 r Hr) as [Hl|Hl]; [left; apply in_app_iff; right; exact Hl | right; lia].
        -- intros r Hr. cbn [ids_of flat_map]. rewrite Hfi.
           destruct (N.ltb_spec r (nr + (f_phys f - nlen ids))) as [Hlt|Hge].
           ++ apply in_app_iff. left. apply in_app_iff. right. apply in_nseq. lia.
           ++ apply in_app_iff. right. apply I3. lia.
        -- intros r Hr. cbn [ids_of flat_map] in *. rewrite Hfi. rewrite Hf0 in Hr.
           apply in_app_iff in Hr as [Hr|Hr]; apply in_app_iff;
             [left; apply in_app_iff; left; exact Hr | right; apply I4; exact Hr].
      * discriminate.
    + destruct (two64 <=? nr + f_phys f) eqn:Eo; [discriminate|].
      apply bind_ok in H as ([nr1 tl1] & H1 & H2). cbn [fst snd] in H2. inversion H2; subst.
      specialize (IH _ _ _ H1) as (I1 & I2 & I3 & I4).
      assert (Hfi : frag_ids (set_ids f (Some (nseq nr (f_phys f)))) = nseq nr (f_phys f)) by reflexivity.
      assert (Hf0 : frag_ids f = []) by (unfold frag_ids; rewrite Ef; reflexivity).
      repeat split; try lia.
      * intros r Hr. cbn [ids_of flat_map] in *. rewrite Hfi in Hr. rewrite Hf0. cbn [app].
        apply in_app_iff in Hr as [Hr|Hr].
        -- right. apply in_nseq in Hr. lia.
        -- destruct (I2 r Hr) as [Hl|Hl]; [left; exact Hl | right; lia].
      * intros r Hr. cbn [ids_of flat_map]. rewrite Hfi.
        destruct (N.ltb_spec r (nr + f_phys f)) as [Hlt|Hge].
        -- apply in_app_iff. left. apply in_nseq. lia.
        -- apply in_app_iff. right. apply I3. lia.
      * intros r Hr. cbn [ids_of flat_map] in *. rewrite Hf0 in Hr. cbn [app] in Hr.
        apply in_app_iff. right. apply I4. exact Hr.
Qed.

(* ---------------------------------------------------------------- id-preserving passes *)
Lemma fragments_with_ids_ids : forall fs fid, ids_of (fst (fragments_with_ids fs fid)) = ids_of fs.
Proof.
  induction fs as [|f tl IH]; intro fid; cbn [fragments_with_ids]; [reflexivity|].
  destruct (f_id f =? 0); cbn [fst ids_of flat_map]; rewrite ?frag_ids_set_id; f_equal; apply IH.
Qed.

Lemma stamp_new_ids : forall fs v fs', stamp_new fs v = Ok fs' -> ids_of fs' = ids_of fs.
Proof.
  induction fs as [|f tl IH]; intros v fs' H; cbn [stamp_new] in H.
  - inversion H; reflexivity.
  - apply bind_ok in H as (vm & _ & H). apply bind_ok in H as (tl' & H1 & H2). inversion H2; subst.
    cbn [ids_of flat_map]. rewrite frag_ids_set_created, frag_ids_set_updated. f_equal. eapply IH; eauto.
Qed.

Lemma stamp_updated_ids : forall ex fs v fs', stamp_updated ex fs v = Ok fs' -> ids_of fs' = ids_of fs.
Proof.
  induction fs as [|f tl IH]; intros v fs' H; cbn [stamp_updated] in H.
  - inversion H; reflexivity.
  - apply bind_ok in H as (vm & _ & H). apply bind_ok in H as (tl' & H1 & H2).
    destruct (f_ids f) eqn:Ef; inversion H2; subst; cbn [ids_of flat_map];
      rewrite ?frag_ids_set_created, ?frag_ids_set_updated, ?frag_ids_set_created; f_equal; eapply IH; eauto.
Qed.

Lemma in_insert_frag f g l : In g (insert_frag f l) <-> g = f \/ In g l.
Proof.
  induction l as [|x tl IH]; cbn [insert_frag].
  - cbn. intuition.
  - destruct (f_id f <? f_id x); cbn [In]; [intuition|]. rewrite IH. intuition.
Qed.

Lemma in_sort_frags_gen : forall l acc g, In g (fold_left (fun a f => insert_frag f a) l acc) <-> In g l \/ In g acc.
Proof.
  induction l as [|x tl IH]; intros acc g; cbn [fold_left].
  - cbn. intuition.
  - rewrite IH, in_insert_frag. cbn [In]. intuition.
Qed.

Lemma in_sort_frags l g : In g (sort_frags l) <-> In g l.
Proof. unfold sort_frags. rewrite in_sort_frags_gen. cbn. intuition. Qed.

Lemma in_ids_sort fs r : In r (ids_of (sort_frags fs)) <-> In r (ids_of fs).
Proof.
  rewrite !in_ids_of. split; intros (f & Hf & Hr); exists f; split; auto; apply in_sort_frags; auto.
Qed.

(* ---------------------------------------------------------------- arms that only move fragments around *)
Lemma replace_all_ids upd f r :
  In r (frag_ids (replace_all upd f)) -> In r (frag_ids f) \/ In r (ids_of upd).
Proof.
  unfold replace_all. revert f. induction upd as [|u tl IH]; intros f H; cbn [fold_left] in H; [left; exact H|].
  apply IH in H. destruct H as [H|H].
  - destruct (f_id u =? f_id f).
    + right. cbn [ids_of flat_map]. apply in_app_iff. left. exact H.
    + left. exact H.
  - right. cbn [ids_of flat_map]. apply in_app_iff. right. exact H.
Qed.

Lemma replace_first_ids upd f r :
  In r (frag_ids (replace_first upd f)) -> In r (frag_ids f) \/ In r (ids_of upd).
Proof.
  unfold replace_first. destruct (find _ upd) as [u|] eqn:E; intro H; [|left; exact H].
  right. apply find_some in E as [E _]. apply in_ids_of. exists u. split; auto.
Qed.

Lemma rewrite_group_ids final fid g final' fid' :
  rewrite_group final fid g = Ok (final', fid') ->
  forall r, In r (ids_of final') -> In r (ids_of final) \/ In r (ids_of (snd g)).
Proof.
  unfold rewrite_group. destruct (fst g) as [|o0 otl]; [discriminate|].
  destruct (index_of_id final o0 0) as [start|]; [|discriminate].
  intro H. apply bind_ok in H as (contig & _ & H).
  pose proof (fragments_with_ids_ids (snd g) fid) as Hn.
  destruct contig; inversion H; subst; intros r Hr.
  - rewrite !ids_of_app in Hr. apply in_app_iff in Hr as [Hr|Hr].
    + left. apply in_ids_of in Hr as (f & Hf & Hr). apply in_ids_of. exists f. split; auto.
      eapply in_firstn; exact Hf.
    + apply in_app_iff in Hr as [Hr|Hr].
      * right. rewrite <- Hn. exact Hr.
      * left. apply in_ids_of in Hr as (f & Hf & Hr). apply in_ids_of. exists f. split; auto.
        eapply in_skipn; exact Hf.
  - rewrite ids_of_app in Hr. apply in_app_iff in Hr as [Hr|Hr].
    + left. apply in_ids_of in Hr as (f & Hf & Hr). apply filter_In in Hf as [Hf _]. apply in_ids_of. exists f; auto.
    + right. rewrite <- Hn. exact Hr.
Qed.

Lemma rewrite_groups_ids : forall gs final fid final' fid',
  rewrite_groups final fid gs = Ok (final', fid') ->
  forall r, In r (ids_of final') -> In r (ids_of final) \/ In r (flat_map (fun g => ids_of (snd g)) gs).
Proof.
  induction gs as [|g tl IH]; intros final fid final' fid' H r Hr; cbn [rewrite_groups] in H.
  - inversion H; subst. left; exact Hr.
  - apply bind_ok in H as ([f1 fid1] & H1 & H2). cbn [fst snd] in H2.
    destruct (IH _ _ _ _ H2 r Hr) as [Hl|Hl].
    + destruct (rewrite_group_ids _ _ _ _ _ H1 r Hl) as [Hx|Hx]; [left; exact Hx|].
      right. cbn [flat_map]. apply in_app_iff. left; exact Hx.
    + right. cbn [flat_map]. apply in_app_iff. right; exact Hl.
Qed.

(* row ids supplied by the transaction itself *)
Definition txn_ids (t : txn) : list N :=
  match t with
  | TAppend news => ids_of news
  | TOverwrite news => ids_of news
  | TDelete upd _ => ids_of upd
  | TUpdate _ upd news => ids_of upd ++ ids_of news
  | TRewrite gs => flat_map (fun g => ids_of (snd g)) gs
  | TReserve _ => []
  | TNoop => []
  end.

Definition base_next (cur : option manifest) : N := match cur with Some m => m_next m | None => 0 end.

Lemma in_map_replace_all upd l r :
  In r (ids_of (map (replace_all upd) l)) -> In r (ids_of l) \/ In r (ids_of upd).
Proof.
  intro H. apply in_ids_of in H as (f & Hf & Hr). apply in_map_iff in Hf as (g & Eg & Hg). subst f.
  apply replace_all_ids in Hr as [Hr|Hr]; [left|right; exact Hr]. apply in_ids_of. exists g; auto.
Qed.
Lemma in_map_replace_first upd l r :
  In r (ids_of (map (replace_first upd) l)) -> In r (ids_of l) \/ In r (ids_of upd).
Proof.
  intro H. apply in_ids_of in H as (f & Hf & Hr). apply in_map_iff in Hf as (g & Eg & Hg). subst f.
  apply replace_first_ids in Hr as [Hr|Hr]; [left|right; exact Hr]. apply in_ids_of. exists g; auto.
Qed.
Lemma in_ids_filter (p : frag -> bool) l r : In r (ids_of (filter p l)) -> In r (ids_of l).
Proof.
  intro H. apply in_ids_of in H as (f & Hf & Hr). apply filter_In in Hf as [Hf _]. apply in_ids_of. exists f; auto.
Qed.

(* The arm: every id of the result comes from the existing fragments, from the transaction, or from the
   interval the counter moved over; the counter only grows; the interval is used completely. *)
Lemma build_arm_ids existing fid0 onr v t final onr' :
  build_arm existing fid0 onr v t = Ok (final, onr') ->
  (match onr, onr' with
   | Some nr, Some nr' => nr <= nr' /\
        (forall r, In r (ids_of final) -> In r (ids_of existing) \/ In r (txn_ids t) \/ nr <= r < nr') /\
        (forall r, nr <= r < nr' -> In r (ids_of final))
   | None, None => forall r, In r (ids_of final) -> In r (ids_of existing) \/ In r (txn_ids t)
   | _, _ => False
   end).
Proof.
  destruct t as [news|news|upd gone|removed upd news|gs|n|]; cbn [build_arm txn_ids]; intro H.
  - (* append *)
    destruct onr as [nr|].
    + apply bind_ok in H as ([nr1 nf1] & H1 & H). cbn [fst snd] in H. apply bind_ok in H as (nf2 & H2 & H). inversion H; subst.
      apply assign_row_ids_spec in H1 as (A1 & A2 & A3 & A4). apply stamp_new_ids in H2.
      rewrite fragments_with_ids_ids in A2.
      repeat split; auto.
      * intros r Hr. rewrite ids_of_app, H2 in Hr. apply in_app_iff in Hr as [Hr|Hr]; [left; exact Hr|].
        destruct (A2 r Hr) as [Hx|Hx]; auto.
      * intros r Hr. rewrite ids_of_app, H2. apply in_app_iff. right. apply A3; exact Hr.
    + inversion H; subst. intros r Hr. rewrite ids_of_app, fragments_with_ids_ids in Hr.
      apply in_app_iff in Hr as [Hr|Hr]; auto.
  - (* overwrite *)
    destruct onr as [nr|].
    + apply bind_ok in H as ([nr1 nf1] & H1 & H). cbn [fst snd] in H. apply bind_ok in H as (nf2 & H2 & H). inversion H; subst.
      apply assign_row_ids_spec in H1 as (A1 & A2 & A3 & A4). apply stamp_new_ids in H2.
      rewrite fragments_with_ids_ids in A2.
      repeat split; auto.
      * intros r Hr. rewrite H2 in Hr. destruct (A2 r Hr) as [Hx|Hx]; auto.
      * intros r Hr. rewrite H2. apply A3; exact Hr.
    + inversion H; subst. intros r Hr. rewrite fragments_with_ids_ids in Hr. auto.
  - (* delete *)
    inversion H; subst. destruct onr' as [nr|].
    + repeat split; [lia| |intros r Hr; lia].
      intros r Hr. apply in_map_replace_all in Hr as [Hr|Hr]; [left; eapply in_ids_filter; exact Hr | right; left; exact Hr].
    + intros r Hr. apply in_map_replace_all in Hr as [Hr|Hr]; [left; eapply in_ids_filter; exact Hr | right; exact Hr].
  - (* update *)
    destruct onr as [nr|].
    + apply bind_ok in H as ([nr1 nf1] & H1 & H). cbn [fst snd] in H. apply bind_ok in H as (nf2 & H2 & H). inversion H; subst.
      apply assign_row_ids_spec in H1 as (A1 & A2 & A3 & A4). apply stamp_updated_ids in H2.
      rewrite fragments_with_ids_ids in A2.
      repeat split; auto.
      * intros r Hr. rewrite ids_of_app, H2 in Hr. apply in_app_iff in Hr as [Hr|Hr].
        -- apply in_map_replace_first in Hr as [Hr|Hr]; [left; eapply in_ids_filter; exact Hr|].
           right; left. apply in_app_iff; left; exact Hr.
        -- destruct (A2 r Hr) as [Hx|Hx]; auto. right; left. apply in_app_iff; right; exact Hx.
      * intros r Hr. rewrite ids_of_app, H2. apply in_app_iff. right. apply A3; exact Hr.
    + inversion H; subst. intros r Hr. rewrite ids_of_app, fragments_with_ids_ids in Hr.
      apply in_app_iff in Hr as [Hr|Hr].
      * apply in_map_replace_first in Hr as [Hr|Hr]; [left; eapply in_ids_filter; exact Hr|].
        right. apply in_app_iff; left; exact Hr.
      * right. apply in_app_iff; right; exact Hr.
  - (* rewrite *)
    apply bind_ok in H as ([f1 fid1] & H1 & H). cbn [fst snd] in H. inversion H; subst.
    pose proof (rewrite_groups_ids _ _ _ _ _ H1) as R.
    destruct onr' as [nr|].
    + repeat split; [lia| |intros r Hr; lia]. intros r Hr. destruct (R r Hr); auto.
    + exact R.
  - inversion H; subst. destruct onr' as [nr|].
    + repeat split; [lia| |intros r Hr; lia]. auto.
    + auto.
  - inversion H; subst. destruct onr' as [nr|].
    + repeat split; [lia| |intros r Hr; lia]. auto.
    + auto.
Qed.

Lemma build_manifest_ids cur st t m' :
  build_manifest cur st t = Ok m' ->
  base_next cur <= m_next m' /\
  (forall r, In r (all_ids m') ->
      In r (ids_of (existing_of cur)) \/ In r (txn_ids t) \/ base_next cur <= r < m_next m') /\
  (forall r, base_next cur <= r < m_next m' -> In r (all_ids m')) /\
  m_version m' = new_version_of cur /\
  (match cur with Some m => m_aux m' = m_aux m | None => True end).
Proof.
  unfold build_manifest.
  destruct (st && match cur with Some m => negb (m_stable m) | None => false end) eqn:E1; [discriminate|].
  destruct (match cur with None => negb (is_overwrite t) | Some _ => false end) eqn:E2; [discriminate|].
  intro H. apply bind_ok in H as ([final onr'] & Harm & H). cbn [fst snd] in H.
  destruct ((existsb has_ids (sort_frags final) || st) && negb (forallb has_ids (sort_frags final))); [discriminate|].
  apply bind_ok in H as (mf & _ & H).
  inversion H; subst; clear H. cbn [m_next m_frags all_ids m_version m_aux].
  apply build_arm_ids in Harm.
  assert (Hs : forall r, In r (flat_map frag_ids (sort_frags final)) <-> In r (ids_of final)) by (intro r; apply in_ids_sort).
  unfold start_nr, base_next in *.
  destruct cur as [m|].
  - destruct (m_stable m).
    + destruct onr' as [nr'|]; [|contradiction]. destruct Harm as (A1 & A2 & A3).
      repeat split; auto.
      * intros r Hr. apply Hs in Hr. exact (A2 r Hr).
      * intros r Hr. apply Hs. exact (A3 r Hr).
    + destruct onr' as [nr'|]; [contradiction|].
      repeat split; auto; try lia; try (intros r Hr; lia).
      intros r Hr. apply Hs in Hr. destruct (Harm r Hr); auto.
  - destruct st.
    + destruct onr' as [nr'|]; [|contradiction]. destruct Harm as (A1 & A2 & A3).
      repeat split; auto.
      * intros r Hr. apply Hs in Hr. exact (A2 r Hr).
      * intros r Hr. apply Hs. exact (A3 r Hr).
    + destruct onr' as [nr'|]; [contradiction|].
      repeat split; auto; try lia; try (intros r Hr; lia).
      intros r Hr. apply Hs in Hr. destruct (Harm r Hr); auto.
Qed.

(* ---------------------------------------------------------------- the writers only carry existing ids *)
Lemma in_live_from {A} (x : A) : forall l off del, In x (live_from off del l) -> In x l.
Proof.
  induction l as [|y tl IH]; intros off del H; cbn [live_from] in H; [exact H|].
  destruct (memN off del); [right; eapply IH; exact H|].
  destruct H as [H|H]; [left; exact H | right; eapply IH; exact H].
Qed.

Lemma in_split_sizes {A} (x : A) : forall sizes l c, In c (split_sizes l sizes) -> In x c -> In x l.
Proof.
  induction sizes as [|s tl IH]; intros l c Hc Hx; cbn [split_sizes] in Hc; [contradiction|].
  destruct Hc as [Hc|Hc].
  - subst c. eapply in_firstn; exact Hx.
  - eapply in_skipn. eapply IH; eauto.
Qed.

Lemma find_frag_in fs i f : find_frag fs i = Some f -> In f fs.
Proof. unfold find_frag. intro H. apply find_some in H as [H _]; exact H. Qed.

Lemma compact_carry_ids olds news nf :
  compact_carry olds news = Ok nf -> forall r, In r (ids_of nf) -> In r (ids_of olds).
Proof.
  unfold compact_carry. destruct (forallb _ olds); [|discriminate].
  match goal with |- context [if ?c then Panic else _] => destruct c end; [discriminate|].
  intro H; inversion H; subst; clear H. intros r Hr.
  apply in_ids_of in Hr as (f & Hf & Hr). apply in_map_iff in Hf as (x & Ex & Hx). subst f.
  cbn [frag_ids f_ids] in Hr.
  destruct x as [nw [[a b] c]]. cbn [fst snd] in Hr.
  apply in_combine_r in Hx. apply in_combine_l in Hx. apply in_combine_l in Hx.
  pose proof (in_split_sizes r _ _ _ Hx Hr) as Hin.
  apply in_flat_map in Hin as (g & Hg & Hin). apply in_live_from in Hin.
  apply in_ids_of. exists g. split; auto.
Qed.

Lemma lower_groups_ids sb ex : forall gs gs',
  lower_groups sb ex gs = Ok gs' ->
  forall r, In r (flat_map (fun g => ids_of (snd g)) gs') -> In r (ids_of ex).
Proof.
  induction gs as [|g tl IH]; intros gs' H r Hr; cbn [lower_groups] in H.
  - inversion H; subst. contradiction.
  - apply bind_ok in H as (g' & Hg & H). apply bind_ok in H as (tl' & Ht & H). inversion H; subst.
    cbn [flat_map] in Hr. apply in_app_iff in Hr as [Hr|Hr]; [|eapply IH; eauto].
    unfold lower_group in Hg. destruct sb.
    + apply bind_ok in Hg as (nf & Hc & Hg). inversion Hg; subst. cbn [snd] in Hr.
      apply (compact_carry_ids _ _ _ Hc) in Hr.
      apply in_ids_of in Hr as (f & Hf & Hr). apply in_flat_map in Hf as (i & _ & Hf).
      destruct (find_frag ex i) eqn:E; [|contradiction]. destruct Hf as [Hf|[]]. subst f0.
      apply in_ids_of. exists f. split; auto. eapply find_frag_in; eauto.
    + inversion Hg; subst. cbn [snd] in Hr. exfalso.
      apply in_ids_of in Hr as (f & Hf & Hr). apply in_map_iff in Hf as (x & Ex & _). subst f. exact Hr.
Qed.

Lemma with_dv_ids ex l r : In r (ids_of (flat_map (with_dv ex) l)) -> In r (ids_of ex).
Proof.
  intro H. apply in_ids_of in H as (f & Hf & Hr). apply in_flat_map in Hf as (x & _ & Hf).
  unfold with_dv in Hf. destruct (find_frag ex (fst x)) eqn:E; [|contradiction]. destruct Hf as [Hf|[]]. subst f.
  rewrite frag_ids_set_del in Hr. apply in_ids_of. exists f0. split; auto. eapply find_frag_in; eauto.
Qed.

Lemma frag_ids_refresh_full f v : frag_ids (refresh_full f v) = frag_ids f.
Proof. unfold refresh_full. destruct (0 <? f_phys f); reflexivity. Qed.
Lemma frag_ids_refresh_partial f o v p : frag_ids (refresh_partial f o v p) = frag_ids f.
Proof. unfold refresh_partial. destruct (0 <? f_phys f); reflexivity. Qed.

Lemma rewrite_cols_ids sb ex v p l r : In r (ids_of (flat_map (rewrite_cols sb ex v p) l)) -> In r (ids_of ex).
Proof.
  intro H. apply in_ids_of in H as (f & Hf & Hr). apply in_flat_map in Hf as (x & _ & Hf).
  unfold rewrite_cols in Hf. destruct (find_frag ex (fst x)) eqn:E; [|contradiction].
  destruct sb; [destruct (nlen (snd x) =? f_phys f0)|]; destruct Hf as [Hf|[]]; subst f;
    rewrite ?frag_ids_refresh_full, ?frag_ids_refresh_partial in Hr;
    apply in_ids_of; exists f0; split; auto; eapply find_frag_in; eauto.
Qed.

Lemma ids_of_fresh_none sizes : ids_of (map (fun s => fresh_frag s None) sizes) = [].
Proof. induction sizes as [|s tl IH]; cbn; auto. Qed.

Lemma lower_ids cur o t :
  lower cur o = Ok t -> op_ok cur o = true -> forall r, In r (txn_ids t) -> In r (all_ids cur).
Proof.
  unfold all_ids. fold (ids_of (m_frags cur)).
  destruct o as [sizes|sizes|upd gone|removed upd news|rew|groups|n| |v]; cbn [lower]; intros H Hok r Hr.
  - inversion H; subst; clear H; cbn [txn_ids] in Hr. rewrite ids_of_fresh_none in Hr. contradiction.
  - inversion H; subst; clear H; cbn [txn_ids] in Hr. rewrite ids_of_fresh_none in Hr. contradiction.
  - inversion H; subst; clear H; cbn [txn_ids] in Hr. eapply with_dv_ids; exact Hr.
  - inversion H; subst; clear H; cbn [txn_ids] in Hr.
    apply in_app_iff in Hr as [Hr|Hr]; [eapply with_dv_ids; exact Hr|].
    cbn [op_ok] in Hok. rewrite forallb_forall in Hok.
    apply in_ids_of in Hr as (f & Hf & Hr). apply in_map_iff in Hf as (x & Ex & Hx). subst f.
    specialize (Hok x Hx). rewrite forallb_forall in Hok.
    assert (Hin : In r (snd x)).
    { unfold frag_ids, fresh_frag in Hr. cbn [f_ids] in Hr. destruct (snd x); [contradiction | exact Hr]. }
    specialize (Hok r Hin). apply memN_true in Hok. exact Hok.
  - inversion H; subst; clear H; cbn [txn_ids] in Hr.
    rewrite app_nil_r in Hr. eapply rewrite_cols_ids; exact Hr.
  - apply bind_ok in H as (gs & Hg & H). inversion H; subst. cbn [txn_ids] in Hr.
    eapply lower_groups_ids; eauto.
  - inversion H; subst; clear H; cbn [txn_ids] in Hr. contradiction.
  - inversion H; subst; clear H; cbn [txn_ids] in Hr. contradiction.
  - discriminate.
Qed.

(* ---------------------------------------------------------------- the history invariant *)
Definition ids_below (m : manifest) : Prop := forall r, In r (all_ids m) -> r < m_next m.

(* every version's ids are below its own mark, and marks never decrease towards the latest version *)
Fixpoint hist_inv (h : history) : Prop :=
  match h with
  | [] => True
  | m :: tl => ids_below m /\ (forall m0, In m0 tl -> m_next m0 <= m_next m) /\ hist_inv tl
  end.

Lemma hist_inv_in h : hist_inv h -> forall m, In m h -> ids_below m /\ m_next m <= next_of h.
Proof.
  destruct h as [|l tl]; intros H m Hm; [contradiction|]. cbn [hist_inv] in H. destruct H as (H1 & H2 & H3).
  cbn [next_of]. destruct Hm as [Hm|Hm].
  - subst. split; auto. lia.
  - split; [|apply H2; exact Hm]. clear H1 H2. revert m Hm. induction tl as [|x tl IH]; intros m Hm; [contradiction|].
    cbn [hist_inv] in H3. destruct H3 as (A & B & C). destruct Hm as [Hm|Hm]; [subst; exact A | apply IH; auto].
Qed.

Lemma find_version_in h v m : find_version h v = Some m -> In m h /\ m_version m = v.
Proof. unfold find_version. intro H. apply find_some in H as [H1 H2]. apply N.eqb_eq in H2. auto. Qed.

(* one step: facts about the new manifest relative to the history *)
Lemma step_facts st h o m' :
  hist_inv h -> step st h o = Ok m' -> (match h with l :: _ => op_ok l o = true | [] => True end) ->
  next_of h <= m_next m' /\
  (forall r, In r (all_ids m') -> (exists m, In m h /\ In r (all_ids m)) \/ next_of h <= r < m_next m') /\
  (forall r, next_of h <= r < m_next m' -> In r (all_ids m')).
Proof.
  intros Hinv Hs Hok. destruct h as [|latest tl]; cbn [step next_of] in *.
  - destruct o; try discriminate. apply build_manifest_ids in Hs as (B1 & B2 & B3 & _).
    cbn [base_next existing_of txn_ids] in *. rewrite ids_of_fresh_none in B2.
    repeat split; auto. intros r Hr. destruct (B2 r Hr) as [H|[H|H]]; try contradiction. right; exact H.
  - destruct (is_restore o) eqn:Er.
    + destruct o; try discriminate. destruct (find_version (latest :: tl) v) as [old|] eqn:Ef; [|discriminate].
      inversion Hs; subst; clear Hs. apply find_version_in in Ef as [Hin _].
      destruct (hist_inv_in _ Hinv _ Hin) as [Hb Hle]. cbn [next_of] in Hle.
      cbn [restore m_next all_ids m_frags]. repeat split; try lia; try (intros r Hr; lia).
      intros r Hr. left. exists old. split; auto.
    + assert (Hs' : bind (lower latest o) (fun t => build_manifest (Some latest) (m_stable latest) t) = Ok m')
        by (destruct o; try discriminate; exact Hs).
      apply bind_ok in Hs' as (t & Hl & Hb).
      apply build_manifest_ids in Hb as (B1 & B2 & B3 & _). cbn [base_next existing_of] in *.
      repeat split; auto.
      intros r Hr. destruct (B2 r Hr) as [H|[H|H]].
      * left. exists latest. split; [left; reflexivity | exact H].
      * left. exists latest. split; [left; reflexivity |]. eapply lower_ids; eauto.
      * right; exact H.
Qed.

Lemma step_inv st h o m' :
  hist_inv h -> step st h o = Ok m' -> (match h with l :: _ => op_ok l o = true | [] => True end) ->
  hist_inv (m' :: h).
Proof.
  intros Hinv Hs Hok. pose proof (step_facts _ _ _ _ Hinv Hs Hok) as (F1 & F2 & F3).
  cbn [hist_inv]. repeat split; auto.
  - intros r Hr. destruct (F2 r Hr) as [(m & Hm & Hin)|H]; [|lia].
    destruct (hist_inv_in _ Hinv _ Hm) as [Hb Hle]. specialize (Hb r Hin). lia.
  - intros m0 Hm0. destruct (hist_inv_in _ Hinv _ Hm0) as [_ Hle]. lia.
Qed.

Lemma run_from_inv st : forall ops h h',
  hist_inv h -> run_from st h ops = Ok h' -> run_ok st h ops = true -> hist_inv h'.
Proof.
  induction ops as [|o tl IH]; intros h h' Hinv Hr Hok; cbn [run_from run_ok] in *.
  - inversion Hr; subst; exact Hinv.
  - apply bind_ok in Hr as (m & Hs & Hr). rewrite Hs in Hok. apply andb_true_iff in Hok as [Ho Hok].
    eapply IH; [|exact Hr|exact Hok]. eapply step_inv; eauto. destruct h; auto.
Qed.

Lemma run_inv st ops h : run st ops = Ok h -> run_ok st [] ops = true -> hist_inv h.
Proof. intros. eapply run_from_inv; eauto. exact I. Qed.

(* ---------------------------------------------------------------- C07 *)
(* A row id handed out by any step of any history is used by the new version and by no earlier version. *)
Lemma ids_never_reused st ops h o m' :
  run st ops = Ok h -> run_ok st [] ops = true ->
  step st h o = Ok m' -> (match h with l :: _ => op_ok l o = true | [] => True end) ->
  forall r, In r (handed_out h m') ->
    In r (all_ids m') /\ forall m, In m h -> ~ In r (all_ids m).
Proof.
  intros Hrun Hok Hs Ho r Hr. pose proof (run_inv _ _ _ Hrun Hok) as Hinv.
  pose proof (step_facts _ _ _ _ Hinv Hs Ho) as (F1 & F2 & F3).
  unfold handed_out in Hr. apply in_nseq in Hr.
  split; [apply F3; lia|].
  intros m Hm Hin. destruct (hist_inv_in _ Hinv _ Hm) as [Hb Hle]. specialize (Hb r Hin). lia.
Qed.

(* Conversely every id of the new version that no earlier version had was handed out by this step. *)
Lemma new_ids_are_handed_out st ops h o m' :
  run st ops = Ok h -> run_ok st [] ops = true ->
  step st h o = Ok m' -> (match h with l :: _ => op_ok l o = true | [] => True end) ->
  forall r, In r (all_ids m') -> (forall m, In m h -> ~ In r (all_ids m)) -> In r (handed_out h m').
Proof.
  intros Hrun Hok Hs Ho r Hr Hnew. pose proof (run_inv _ _ _ Hrun Hok) as Hinv.
  pose proof (step_facts _ _ _ _ Hinv Hs Ho) as (F1 & F2 & F3).
  destruct (F2 r Hr) as [(m & Hm & Hin)|H]; [exfalso; exact (Hnew m Hm Hin)|].
  unfold handed_out. apply in_nseq. lia.
Qed.

(* the high-water mark over a whole history *)
Lemma high_water_mark st ops h :
  run st ops = Ok h -> run_ok st [] ops = true ->
  forall m, In m h -> m_next m <= next_of h /\ forall r, In r (all_ids m) -> r < next_of h.
Proof.
  intros Hrun Hok m Hm. pose proof (run_inv _ _ _ Hrun Hok) as Hinv.
  destruct (hist_inv_in _ Hinv _ Hm) as [Hb Hle]. split; auto. intros r Hr. specialize (Hb r Hr). lia.
Qed.

(* restore republishes exactly the old version's fragments (rows, row ids, version columns, deletion
   vectors) and its schema/index token under the next version number *)
Lemma restore_content st latest tl v old :
  find_version (latest :: tl) v = Some old ->
  exists m', step st (latest :: tl) (ORestore v) = Ok m' /\
    m_frags m' = m_frags old /\ m_aux m' = m_aux old /\ m_stable m' = m_stable old /\
    m_version m' = m_version latest + 1 /\ m_version old = v /\ In old (latest :: tl) /\
    m_next m' = N.max (m_next old) (m_next latest).
Proof.
  intro Hf. cbn [step]. rewrite Hf. eexists. split; [reflexivity|].
  apply find_version_in in Hf as [Hin Hv]. cbn [restore m_frags m_aux m_stable m_version m_next]. repeat split; auto.
Qed.

Lemma restore_unknown_version st h v : find_version h v = None -> step st h (ORestore v) = Err.
Proof. intro Hf. destruct h as [|l tl]; cbn [step]; [reflexivity|]. rewrite Hf. reflexivity. Qed.

(* ---------------------------------------------------------------- reads through the session cache *)
Lemma olist_eqb_eq a b : olist_eqb a b = true <-> a = b.
Proof.
  unfold olist_eqb. destruct a as [x|], b as [y|]; cbn [option_eqb]; split; intro H; try discriminate; try reflexivity.
  - f_equal. apply (list_eqb_eq N.eqb N.eqb_eq). exact H.
  - inversion H; subst. apply (list_eqb_eq N.eqb N.eqb_eq). reflexivity.
Qed.

Lemma existsb_false {A} (p : A -> bool) l : existsb p l = false -> forall x, In x l -> p x = false.
Proof.
  intros H x Hx. destruct (p x) eqn:E; [|reflexivity].
  assert (existsb p l = true) by (apply existsb_exists; exists x; auto). congruence.
Qed.

Lemma no_conflict h : Known_C07_fragment_id_cache_after_overwrite h = false ->
  forall m1 m2 f1 f2, In m1 h -> In m2 h -> In f1 (m_frags m1) -> In f2 (m_frags m2) ->
    f_id f1 = f_id f2 -> f_ids f1 = f_ids f2.
Proof.
  unfold Known_C07_fragment_id_cache_after_overwrite, frag_conflict. intros H m1 m2 f1 f2 H1 H2 F1 F2 E.
  pose proof (existsb_false _ _ H m1 H1) as A. cbn beta in A.
  pose proof (existsb_false _ _ A m2 H2) as B. cbn beta in B.
  pose proof (existsb_false _ _ B f1 F1) as C. cbn beta in C.
  pose proof (existsb_false _ _ C f2 F2) as D. cbn beta in D.
  rewrite E, N.eqb_refl in D. cbn [andb] in D. apply negb_false_iff in D. apply olist_eqb_eq in D. exact D.
Qed.

(* every cached sequence was decoded from some fragment of some version of the history *)
Definition coherent (c : cache) (h : history) : Prop :=
  forall i l, cache_get c i = Some l ->
    exists m f, In m h /\ In f (m_frags m) /\ f_id f = i /\ frag_ids f = l.

Lemma coherent_nil h : coherent [] h.
Proof. intros i l H. discriminate. Qed.

Lemma read_ids_exact h c m f :
  Known_C07_fragment_id_cache_after_overwrite h = false -> coherent c h -> In m h -> In f (m_frags m) ->
  fst (read_ids c f) = frag_ids f /\ coherent (snd (read_ids c f)) h.
Proof.
  intros Hk Hc Hm Hf. unfold read_ids. destruct (cache_get c (f_id f)) as [l|] eqn:E; cbn [fst snd].
  - split; [|exact Hc]. destruct (Hc _ _ E) as (m' & f' & Hm' & Hf' & Ei & El).
    pose proof (no_conflict h Hk m' m f' f Hm' Hm Hf' Hf Ei) as Eq. subst l. unfold frag_ids. rewrite Eq. reflexivity.
  - split; [reflexivity|]. intros i l H. cbn [cache_get] in H. destruct (f_id f =? i) eqn:Ei.
    + apply N.eqb_eq in Ei. inversion H; subst. exists m, f. auto.
    + apply Hc. exact H.
Qed.

Lemma scan_ids_exact h m : Known_C07_fragment_id_cache_after_overwrite h = false -> In m h ->
  forall fs c, incl fs (m_frags m) -> coherent c h ->
    fst (scan_ids c fs) = map frag_ids fs /\ coherent (snd (scan_ids c fs)) h.
Proof.
  intros Hk Hm. induction fs as [|f tl IH]; intros c Hi Hc; cbn [scan_ids map fst snd].
  - split; auto.
  - assert (Hf : In f (m_frags m)) by (apply Hi; left; reflexivity).
    destruct (read_ids_exact h c m f Hk Hc Hm Hf) as [R1 R2].
    destruct (IH (snd (read_ids c f))) as [S1 S2]; [intros x Hx; apply Hi; right; exact Hx | exact R2 |].
    split; [rewrite R1, S1; reflexivity | exact S2].
Qed.

(* the cache only ever holds sequences decoded from fragments of the history (class or not) *)
Lemma scan_ids_coherent h m : In m h ->
  forall fs c, incl fs (m_frags m) -> coherent c h -> coherent (snd (scan_ids c fs)) h.
Proof.
  intros Hm. induction fs as [|f tl IH]; intros c Hi Hc; cbn [scan_ids snd]; [exact Hc|].
  apply IH; [intros x Hx; apply Hi; right; exact Hx|].
  unfold read_ids. destruct (cache_get c (f_id f)) as [l|] eqn:E; cbn [snd]; [exact Hc|].
  intros i l H. cbn [cache_get] in H. destruct (f_id f =? i) eqn:Ei.
  - apply N.eqb_eq in Ei. inversion H; subst. exists m, f. repeat split; auto. apply Hi; left; reflexivity.
  - apply Hc. exact H.
Qed.

(* ---------------------------------------------------------------- fragment ids along a history *)
(* "next fragment id" of a manifest: what a non-overwrite write starts numbering new fragments with *)
Definition hw (m : manifest) : N := match max_fragment_id m with Some x => x + 1 | None => 0 end.
(* the stored mark covers the fragment list *)
Definition mark_ok (m : manifest) : Prop :=
  match m_maxfrag m with
  | Some x => forall f, In f (m_frags m) -> f_id f <= x
  | None => m_frags m = []
  end.

Lemma max_id_gen : forall fs a, a <= fold_left (fun a f => N.max a (f_id f)) fs a /\
  forall f, In f fs -> f_id f <= fold_left (fun a f => N.max a (f_id f)) fs a.
Proof.
  induction fs as [|g tl IH]; intros a; cbn [fold_left].
  - split; [lia | intros f []].
  - destruct (IH (N.max a (f_id g))) as [I1 I2]. split; [lia|].
    intros f [Hf|Hf]; [subst; lia | apply I2; exact Hf].
Qed.
Lemma max_id_ge fs f : In f fs -> f_id f <= max_id fs.
Proof. unfold max_id. apply (max_id_gen fs 0). Qed.

Lemma mark_ok_hw m : mark_ok m -> forall f, In f (m_frags m) -> f_id f < hw m.
Proof.
  unfold mark_ok, hw, max_fragment_id. destruct (m_maxfrag m) as [x|]; intros H f Hf.
  - specialize (H f Hf). lia.
  - rewrite H in Hf. contradiction.
Qed.

Lemma update_maxfrag_spec old fs mf :
  update_maxfrag old fs = Ok mf ->
  (fs = [] /\ mf = old) \/
  (fs <> [] /\ exists x, mf = Some x /\ (forall f, In f fs -> f_id f <= x) /\
               match old with Some c => c <= x | None => True end).
Proof.
  unfold update_maxfrag. destruct fs as [|f tl]; [intro H; inversion H; left; auto|].
  destruct (two32 <=? max_id (f :: tl)); [discriminate|].
  intro H. right. split; [discriminate|].
  destruct old as [c|]; inversion H; subst; clear H.
  - destruct (c <? max_id (f :: tl)) eqn:E; eexists; split; try reflexivity; split.
    + intros g Hg. apply max_id_ge; exact Hg.
    + lia.
    + intros g Hg. pose proof (max_id_ge _ _ Hg). lia.
    + lia.
  - eexists; split; [reflexivity|]. split; [intros g Hg; apply max_id_ge; exact Hg | exact I].
Qed.

Definition sig (f : frag) : N * option (list N) := (f_id f, f_ids f).

(* --- where the fragments of the arm's result come from --- *)
Lemma fragments_with_ids_zero : forall fs fid,
  (forall f, In f fs -> f_id f = 0) -> forall f', In f' (fst (fragments_with_ids fs fid)) -> fid <= f_id f'.
Proof.
  induction fs as [|f tl IH]; intros fid Hz f' Hf'; cbn [fragments_with_ids] in Hf'; [contradiction|].
  rewrite (Hz f (or_introl eq_refl)), N.eqb_refl in Hf'. cbn [fst] in Hf'. destruct Hf' as [Hf'|Hf'].
  - subst. cbn. lia.
  - assert (fid + 1 <= f_id f') by (apply (IH (fid + 1)); [intros g Hg; apply Hz; right; exact Hg | exact Hf']). lia.
Qed.

Lemma fragments_with_ids_nonzero : forall fs fid,
  (forall f, In f fs -> f_id f <> 0) -> fst (fragments_with_ids fs fid) = fs.
Proof.
  induction fs as [|f tl IH]; intros fid Hz; cbn [fragments_with_ids]; [reflexivity|].
  destruct (f_id f =? 0) eqn:E; [apply N.eqb_eq in E; exfalso; exact (Hz f (or_introl eq_refl) E)|].
  cbn [fst]. f_equal. apply IH. intros g Hg; apply Hz; right; exact Hg.
Qed.

Lemma assign_row_ids_fid : forall fs nr nr' fs',
  assign_row_ids nr fs = Ok (nr', fs') -> map f_id fs' = map f_id fs.
Proof.
  induction fs as [|f tl IH]; intros nr nr' fs' H; cbn [assign_row_ids] in H.
  - inversion H; reflexivity.
  - destruct (f_ids f) as [ids|].
    + destruct (nlen ids ?= f_phys f).
      * apply bind_ok in H as ([a b] & H1 & H2). cbn [fst snd] in H2. inversion H2; subst. cbn [map]. f_equal. eapply IH; eauto.
      * destruct (two64 <=? _); [discriminate|]. apply bind_ok in H as ([a b] & H1 & H2). cbn [fst snd] in H2. inversion H2; subst.
        cbn [map]. f_equal. eapply IH; eauto.
      * discriminate.
    + destruct (two64 <=? _); [discriminate|]. apply bind_ok in H as ([a b] & H1 & H2). cbn [fst snd] in H2. inversion H2; subst.
      cbn [map]. f_equal. eapply IH; eauto.
Qed.

Lemma stamp_new_fid : forall fs v fs', stamp_new fs v = Ok fs' -> map f_id fs' = map f_id fs.
Proof.
  induction fs as [|f tl IH]; intros v fs' H; cbn [stamp_new] in H; [inversion H; reflexivity|].
  apply bind_ok in H as (vm & _ & H). apply bind_ok in H as (tl' & H1 & H2). inversion H2; subst.
  cbn [map]. f_equal. eapply IH; eauto.
Qed.
Lemma stamp_updated_fid : forall ex fs v fs', stamp_updated ex fs v = Ok fs' -> map f_id fs' = map f_id fs.
Proof.
  induction fs as [|f tl IH]; intros v fs' H; cbn [stamp_updated] in H; [inversion H; reflexivity|].
  apply bind_ok in H as (vm & _ & H). apply bind_ok in H as (tl' & H1 & H2).
  destruct (f_ids f); inversion H2; subst; cbn [map]; f_equal; eapply IH; eauto.
Qed.

Lemma in_map_fid_ge (l l' : list frag) b :
  map f_id l' = map f_id l -> (forall f, In f l -> b <= f_id f) -> forall f', In f' l' -> b <= f_id f'.
Proof.
  intros E H f' Hf'. assert (Hin : In (f_id f') (map f_id l)) by (rewrite <- E; apply in_map; exact Hf').
  apply in_map_iff in Hin as (f & Ef & Hf). rewrite <- Ef. apply H; exact Hf.
Qed.

Lemma replace_all_cases upd f : replace_all upd f = f \/ (In (replace_all upd f) upd /\ f_id (replace_all upd f) = f_id f).
Proof.
  unfold replace_all. revert f. induction upd as [|u tl IH]; intro f; cbn [fold_left]; [left; reflexivity|].
  destruct (f_id u =? f_id f) eqn:E.
  - apply N.eqb_eq in E. destruct (IH u) as [H|[H1 H2]].
    + right. rewrite H. split; [left; reflexivity | exact E].
    + right. split; [right; exact H1 | lia].
  - destruct (IH f) as [H|[H1 H2]]; [left; exact H | right; split; [right; exact H1 | exact H2]].
Qed.
Lemma replace_first_cases upd f : replace_first upd f = f \/ (In (replace_first upd f) upd /\ f_id (replace_first upd f) = f_id f).
Proof.
  unfold replace_first. destruct (find _ upd) as [u|] eqn:E; [|left; reflexivity].
  apply find_some in E as [E1 E2]. apply N.eqb_eq in E2. right. split; auto.
Qed.

(* fragments the writers put into `updated_fragments` are existing fragments with their id and row ids *)
Definition derived (ex : list frag) (l : list frag) : Prop := forall u, In u l -> exists f0, In f0 ex /\ sig f0 = sig u.

Lemma with_dv_derived ex l : derived ex (flat_map (with_dv ex) l).
Proof.
  intros u Hu. apply in_flat_map in Hu as (x & _ & Hu). unfold with_dv in Hu.
  destruct (find_frag ex (fst x)) as [f0|] eqn:E; [|contradiction]. destruct Hu as [Hu|[]]. subst u.
  exists f0. split; [eapply find_frag_in; eauto | reflexivity].
Qed.
Lemma rewrite_cols_derived sb ex v p l : derived ex (flat_map (rewrite_cols sb ex v p) l).
Proof.
  intros u Hu. apply in_flat_map in Hu as (x & _ & Hu). unfold rewrite_cols in Hu.
  destruct (find_frag ex (fst x)) as [f0|] eqn:E; [|contradiction].
  destruct sb; [destruct (nlen (snd x) =? f_phys f0)|]; destruct Hu as [Hu|[]]; subst u; exists f0; (split; [eapply find_frag_in; eauto|]).
  - unfold refresh_full. destruct (0 <? f_phys f0); reflexivity.
  - unfold refresh_partial. destruct (0 <? f_phys f0); reflexivity.
  - reflexivity.
Qed.

Lemma kept_all_derived ex upd (p : frag -> bool) f' :
  derived ex upd -> In f' (map (replace_all upd) (filter p ex)) -> exists f0, In f0 ex /\ sig f0 = sig f'.
Proof.
  intros Hd H. apply in_map_iff in H as (f & Ef & Hf). apply filter_In in Hf as [Hf _]. subst f'.
  destruct (replace_all_cases upd f) as [E|[E _]]; [rewrite E; exists f; auto | apply Hd; exact E].
Qed.
Lemma kept_first_derived ex upd (p : frag -> bool) f' :
  derived ex upd -> In f' (map (replace_first upd) (filter p ex)) -> exists f0, In f0 ex /\ sig f0 = sig f'.
Proof.
  intros Hd H. apply in_map_iff in H as (f & Ef & Hf). apply filter_In in Hf as [Hf _]. subst f'.
  destruct (replace_first_cases upd f) as [E|[E _]]; [rewrite E; exists f; auto | apply Hd; exact E].
Qed.

Lemma rewrite_group_in final fid g final' fid' :
  rewrite_group final fid g = Ok (final', fid') ->
  forall f', In f' final' -> In f' final \/ In f' (fst (fragments_with_ids (snd g) fid)).
Proof.
  unfold rewrite_group. destruct (fst g) as [|o0 otl]; [discriminate|].
  destruct (index_of_id final o0 0) as [start|]; [|discriminate].
  intro H. apply bind_ok in H as (contig & _ & H).
  destruct contig; inversion H; subst; intros f' Hf'.
  - apply in_app_iff in Hf' as [Hf'|Hf']; [left; eapply in_firstn; exact Hf'|].
    apply in_app_iff in Hf' as [Hf'|Hf']; [right; exact Hf' | left; eapply in_skipn; exact Hf'].
  - apply in_app_iff in Hf' as [Hf'|Hf']; [left; apply filter_In in Hf' as [Hf' _]; exact Hf' | right; exact Hf'].
Qed.

Lemma rewrite_groups_in : forall gs final fid final' fid',
  rewrite_groups final fid gs = Ok (final', fid') ->
  (forall g f, In g gs -> In f (snd g) -> f_id f <> 0) ->
  forall f', In f' final' -> In f' final \/ exists g, In g gs /\ In f' (snd g).
Proof.
  induction gs as [|g tl IH]; intros final fid final' fid' H Hnz f' Hf'; cbn [rewrite_groups] in H.
  - inversion H; subst. left; exact Hf'.
  - apply bind_ok in H as ([f1 fid1] & H1 & H2). cbn [fst snd] in H2.
    destruct (IH _ _ _ _ H2 (fun g0 f0 Hg0 => Hnz g0 f0 (or_intror Hg0)) f' Hf') as [Hl|(g0 & Hg0 & Hin)].
    + destruct (rewrite_group_in _ _ _ _ _ H1 f' Hl) as [Hx|Hx]; [left; exact Hx|].
      rewrite fragments_with_ids_nonzero in Hx by (intros f0 Hf0; apply (Hnz g f0 (or_introl eq_refl) Hf0)).
      right. exists g. split; [left; reflexivity | exact Hx].
    + right. exists g0. split; [right; exact Hg0 | exact Hin].
Qed.

Lemma compact_carry_fids olds news nf :
  compact_carry olds news = Ok nf -> forall f, In f nf -> In (f_id f) (map fst news).
Proof.
  unfold compact_carry. destruct (forallb _ olds); [|discriminate].
  match goal with |- context [if ?c then Panic else _] => destruct c end; [discriminate|].
  intro H; inversion H; subst; clear H. intros f Hf.
  apply in_map_iff in Hf as (x & Ex & Hx). subst f. cbn [f_id].
  destruct x as [nw rest]. apply in_combine_l in Hx. cbn [fst]. apply in_map. exact Hx.
Qed.

Lemma lower_groups_fids sb ex : forall gs gs',
  lower_groups sb ex gs = Ok gs' ->
  forall g' f, In g' gs' -> In f (snd g') -> In (f_id f) (flat_map (fun g => map fst (snd g)) gs).
Proof.
  induction gs as [|g tl IH]; intros gs' H g' f Hg' Hf; cbn [lower_groups] in H.
  - inversion H; subst. contradiction.
  - apply bind_ok in H as (g1 & Hg & H). apply bind_ok in H as (tl' & Ht & H). inversion H; subst.
    cbn [flat_map]. apply in_app_iff. destruct Hg' as [Hg'|Hg'].
    + subst g'. left. unfold lower_group in Hg. destruct sb.
      * apply bind_ok in Hg as (nf & Hc & Hg). inversion Hg; subst. cbn [snd] in Hf.
        eapply compact_carry_fids; eauto.
      * inversion Hg; subst. cbn [snd] in Hf. apply in_map_iff in Hf as (x & Ex & Hx). subst f. cbn [f_id].
        apply in_map; exact Hx.
    + right. eapply IH; eauto.
Qed.

Lemma map_fid_zero {A} (k : A -> frag) (l : list A) :
  (forall a, f_id (k a) = 0) -> forall f, In f (map k l) -> f_id f = 0.
Proof. intros H f Hf. apply in_map_iff in Hf as (a & Ea & _). subst f. apply H. Qed.

(* origin of every fragment of the manifest a non-overwrite, non-restore step builds *)
Lemma step_frag_origin st cur tl o m' :
  mark_ok cur -> step st (cur :: tl) o = Ok m' -> is_restore o = false -> frag_ok (cur :: tl) o = true ->
  forall f', In f' (m_frags m') ->
    (exists f0, In f0 (m_frags cur) /\ sig f0 = sig f') \/ hw cur <= f_id f' \/
    (~ In (f_id f') (hist_frag_ids (cur :: tl))).
Proof.
  intros Hmk Hs Hr Hok f' Hf'.
  assert (Hs' : bind (lower cur o) (fun t => build_manifest (Some cur) (m_stable cur) t) = Ok m')
    by (destruct o; try discriminate; exact Hs).
  apply bind_ok in Hs' as (t & Hl & Hb). unfold build_manifest in Hb.
  destruct (m_stable cur && negb (m_stable cur)); [discriminate|]. cbn match in Hb.
  apply bind_ok in Hb as ([final onr'] & Harm & Hb). cbn [fst snd] in Hb.
  destruct ((existsb has_ids (sort_frags final) || m_stable cur) && negb (forallb has_ids (sort_frags final))); [discriminate|].
  apply bind_ok in Hb as (mf & _ & Hb). inversion Hb; subst; clear Hb. cbn [m_frags] in Hf'.
  apply (proj1 (in_sort_frags _ _)) in Hf'. cbn [existing_of new_version_of] in Harm.
  assert (Hfid0 : is_overwrite t = false -> start_fid (Some cur) t = hw cur).
  { intro E. unfold start_fid, hw. rewrite E. reflexivity. }
  assert (Hnew : forall (news nf1 nf2 : list frag),
            (forall f, In f news -> f_id f = 0) ->
            map f_id nf1 = map f_id (fst (fragments_with_ids news (hw cur))) ->
            map f_id nf2 = map f_id nf1 -> In f' nf2 -> hw cur <= f_id f').
  { intros news nf1 nf2 Hz E1 E2 Hin. eapply in_map_fid_ge; [exact E2| |exact Hin].
    eapply in_map_fid_ge; [exact E1|]. apply fragments_with_ids_zero; exact Hz. }
  assert (Hfresh : forall sizes f, In f (map (fun s => fresh_frag s None) sizes) -> f_id f = 0).
  { intros sizes f Hf. apply in_map_iff in Hf as (s & Es & _). subst f. reflexivity. }
  destruct o as [sizes|sizes|upd gone|removed upd news|rew|groups|n| |v]; cbn [lower] in Hl; try discriminate.  (* Overwrite is excluded by frag_ok, Restore by hypothesis *)
  - (* append *)
    inversion Hl; subst t; clear Hl. cbn [build_arm] in Harm. rewrite Hfid0 in Harm by reflexivity.
    destruct (start_nr (Some cur) (m_stable cur)) as [nr|].
    + apply bind_ok in Harm as ([nr1 nf1] & H1 & Harm). cbn [fst snd] in Harm. apply bind_ok in Harm as (nf2 & H2 & Harm).
      inversion Harm; subst; clear Harm. apply in_app_iff in Hf' as [Hf'|Hf'].
      * left. exists f'. auto.
      * right; left. eapply (Hnew _ nf1 nf2 (Hfresh sizes)); [eapply assign_row_ids_fid; exact H1 | eapply stamp_new_fid; exact H2 | exact Hf'].
    + inversion Harm; subst; clear Harm. apply in_app_iff in Hf' as [Hf'|Hf'].
      * left. exists f'. auto.
      * right; left. apply (fragments_with_ids_zero _ _ (Hfresh sizes) _ Hf').
  - (* delete *)
    inversion Hl; subst t; clear Hl. cbn [build_arm] in Harm. inversion Harm; subst; clear Harm.
    left. eapply kept_all_derived; [apply with_dv_derived | exact Hf'].
  - (* update *)
    inversion Hl; subst t; clear Hl. cbn [build_arm] in Harm. rewrite Hfid0 in Harm by reflexivity.
    destruct (start_nr (Some cur) (m_stable cur)) as [nr|].
    + apply bind_ok in Harm as ([nr1 nf1] & H1 & Harm). cbn [fst snd] in Harm. apply bind_ok in Harm as (nf2 & H2 & Harm).
      inversion Harm; subst; clear Harm. apply in_app_iff in Hf' as [Hf'|Hf'].
      * left. eapply kept_first_derived; [apply with_dv_derived | exact Hf'].
      * right; left.
        match type of H1 with
        | assign_row_ids _ (fst (fragments_with_ids ?nw _)) = _ =>
            assert (Hz : forall f, In f nw -> f_id f = 0) by (apply map_fid_zero; intro a; reflexivity)
        end.
        eapply (Hnew _ nf1 nf2 Hz); [eapply assign_row_ids_fid; exact H1 | eapply stamp_updated_fid; exact H2 | exact Hf'].
    + inversion Harm; subst; clear Harm. apply in_app_iff in Hf' as [Hf'|Hf'].
      * left. eapply kept_first_derived; [apply with_dv_derived | exact Hf'].
      * right; left.
        match type of Hf' with
        | In _ (fst (fragments_with_ids ?nw _)) =>
            assert (Hz : forall f, In f nw -> f_id f = 0) by (apply map_fid_zero; intro a; reflexivity)
        end.
        apply (fragments_with_ids_zero _ _ Hz _ Hf').
  - (* update columns *)
    inversion Hl; subst t; clear Hl. cbn [build_arm] in Harm. cbn [fragments_with_ids fst] in Harm.
    destruct (start_nr (Some cur) (m_stable cur)) as [nr|].
    + cbn [assign_row_ids bind fst snd stamp_updated] in Harm. inversion Harm; subst; clear Harm.
      rewrite app_nil_r in Hf'. left. eapply kept_first_derived; [apply rewrite_cols_derived | exact Hf'].
    + inversion Harm; subst; clear Harm.
      rewrite app_nil_r in Hf'. left. eapply kept_first_derived; [apply rewrite_cols_derived | exact Hf'].
  - (* compaction *)
    apply bind_ok in Hl as (gs & Hg & Hl). inversion Hl; subst t; clear Hl. cbn [build_arm] in Harm.
    apply bind_ok in Harm as ([f1 fid1] & H1 & Harm). cbn [fst snd] in Harm. inversion Harm; subst; clear Harm.
    cbn [frag_ok] in Hok. rewrite forallb_forall in Hok.
    assert (Hgood : forall g' f, In g' gs -> In f (snd g') -> f_id f <> 0 /\ ~ In (f_id f) (hist_frag_ids (cur :: tl))).
    { intros g' f Hg' Hf. pose proof (lower_groups_fids _ _ _ _ Hg g' f Hg' Hf) as Hin.
      specialize (Hok _ Hin). apply andb_true_iff in Hok as [A B].
      apply negb_true_iff in A. apply N.eqb_neq in A. apply negb_true_iff in B.
      split; [exact A|]. intro C. apply memN_true in C. congruence. }
    destruct (rewrite_groups_in _ _ _ _ _ H1 (fun g0 f0 Hg0 Hf0 => proj1 (Hgood g0 f0 Hg0 Hf0)) f' Hf') as [Hx|(g0 & Hg0 & Hx)].
    + left. exists f'. auto.
    + right; right. exact (proj2 (Hgood g0 f' Hg0 Hx)).
  - inversion Hl; subst t; clear Hl. cbn [build_arm] in Harm. inversion Harm; subst; clear Harm. left. exists f'. auto.
  - inversion Hl; subst t; clear Hl. cbn [build_arm] in Harm. inversion Harm; subst; clear Harm. left. exists f'. auto.
Qed.

Lemma nodupb_NoDup l : nodupb l = true -> NoDup l.
Proof.
  induction l as [|x tl IH]; cbn [nodupb]; intro H; [constructor|].
  apply andb_true_iff in H as [H1 H2]. constructor; [|apply IH; exact H2].
  intro C. apply memN_true in C. rewrite C in H1. discriminate.
Qed.

Lemma nodup_map_inj {A B} (g : A -> B) l a b :
  NoDup (map g l) -> In a l -> In b l -> g a = g b -> a = b.
Proof.
  induction l as [|x tl IH]; intros Hn Ha Hb E; [contradiction|].
  cbn [map] in Hn. inversion Hn as [|? ? Hnot Hn']; subst.
  destruct Ha as [Ha|Ha], Hb as [Hb|Hb]; subst.
  - reflexivity.
  - exfalso. apply Hnot. rewrite E. apply in_map; exact Hb.
  - exfalso. apply Hnot. rewrite <- E. apply in_map; exact Ha.
  - apply IH; auto.
Qed.

Lemma mark_ok_getter m : mark_ok m ->
  max_fragment_id m = m_maxfrag m.
Proof.
  unfold mark_ok, max_fragment_id. destruct (m_maxfrag m); intro H; [reflexivity|]. rewrite H. reflexivity.
Qed.

Lemma build_manifest_mark cur st t m' :
  build_manifest (Some cur) st t = Ok m' -> mark_ok cur -> mark_ok m' /\ hw cur <= hw m'.
Proof.
  unfold build_manifest. destruct (st && negb (m_stable cur)); [discriminate|]. cbn match.
  intros H Hmk. apply bind_ok in H as ([final onr'] & _ & H). cbn [fst snd] in H.
  destruct ((existsb has_ids (sort_frags final) || st) && negb (forallb has_ids (sort_frags final))); [discriminate|].
  apply bind_ok in H as (mf & Hu & H).
  assert (Hcur : hw cur = match m_maxfrag cur with Some x => x + 1 | None => 0 end).
  { unfold hw. rewrite (mark_ok_getter _ Hmk). reflexivity. }
  apply update_maxfrag_spec in Hu.
  assert (Hgoal : forall mfin, (mfin = mf \/ exists n, mfin = Some (match mf with Some x => x | None => 0 end + n)) ->
            mark_ok (mkMan (m_version cur + 1) (match onr' with Some nr => nr | None => m_next cur end) mfin
                           (existsb has_ids (sort_frags final) || st) (sort_frags final) (m_aux cur)) /\
            hw cur <= hw (mkMan (m_version cur + 1) (match onr' with Some nr => nr | None => m_next cur end) mfin
                           (existsb has_ids (sort_frags final) || st) (sort_frags final) (m_aux cur))).
  { intros mfin Hm. rewrite Hcur. unfold mark_ok, hw, max_fragment_id. cbn [m_maxfrag m_frags].
    destruct Hu as [[E1 E2]|(Hne & x & Ex & Hall & Hold)].
    - rewrite E1. subst mf. destruct Hm as [Hm|(n & Hm)]; subst mfin.
      + destruct (m_maxfrag cur); split; auto; try lia. intros f [].
      + split; [intros f []|]. destruct (m_maxfrag cur); lia.
    - subst mf. destruct Hm as [Hm|(n & Hm)]; subst mfin.
      + split; [exact Hall|]. destruct (m_maxfrag cur); lia.
      + split; [intros f Hf; specialize (Hall f Hf); lia|]. destruct (m_maxfrag cur); lia. }
  destruct t; inversion H; subst; clear H; cbn [new_version_of]; apply Hgoal; auto.
  right. eexists; reflexivity.
Qed.

Lemma omax_ge a b : match omax a b with
                    | Some z => (match a with Some x => x <= z | None => True end) /\ (match b with Some y => y <= z | None => True end)
                    | None => a = None /\ b = None
                    end.
Proof. destruct a, b; cbn [omax]; auto; split; auto; lia. Qed.

Lemma restore_mark latest old : mark_ok latest -> mark_ok old ->
  mark_ok (restore latest old) /\ hw latest <= hw (restore latest old) /\ hw old <= hw (restore latest old).
Proof.
  intros Hl Ho. pose proof (mark_ok_getter _ Hl) as Hl'. pose proof (mark_ok_getter _ Ho) as Ho'.
  assert (Er : m_maxfrag (restore latest old) = omax (m_maxfrag old) (m_maxfrag latest))
    by (cbn [restore m_maxfrag]; rewrite Hl', Ho'; reflexivity).
  assert (Ef : m_frags (restore latest old) = m_frags old) by reflexivity.
  pose proof (omax_ge (m_maxfrag old) (m_maxfrag latest)) as Hm.
  assert (Hmark : mark_ok (restore latest old)).
  { unfold mark_ok. rewrite Er, Ef. unfold mark_ok in Ho.
    destruct (omax (m_maxfrag old) (m_maxfrag latest)) as [z|].
    - destruct Hm as [H1 _]. intros f Hf. destruct (m_maxfrag old) as [x|]; [specialize (Ho f Hf); lia | rewrite Ho in Hf; contradiction].
    - destruct Hm as [H1 _]. rewrite H1 in Ho. exact Ho. }
  split; [exact Hmark|]. unfold hw. rewrite (mark_ok_getter _ Hmark), Er, Hl', Ho'.
  destruct (omax (m_maxfrag old) (m_maxfrag latest)) as [z|].
  - destruct Hm as [H1 H2]. split; [destruct (m_maxfrag latest); lia | destruct (m_maxfrag old); lia].
  - destruct Hm as [H1 H2]. rewrite H1, H2. split; lia.
Qed.

(* history invariant for fragment ids *)
Fixpoint frag_inv (h : history) : Prop :=
  match h with
  | [] => True
  | m :: tl => mark_ok m /\ (forall m0, In m0 tl -> hw m0 <= hw m) /\ frag_inv tl
  end.

Lemma frag_inv_in h : frag_inv h -> forall m, In m h ->
  mark_ok m /\ match h with l :: _ => hw m <= hw l | [] => True end.
Proof.
  destruct h as [|l tl]; intros H m Hm; [contradiction|]. cbn [frag_inv] in H. destruct H as (H1 & H2 & H3).
  destruct Hm as [Hm|Hm]; [subst; split; [exact H1 | lia]|].
  split; [|apply H2; exact Hm]. clear H1 H2. revert m Hm. induction tl as [|x tl IH]; intros m Hm; [contradiction|].
  cbn [frag_inv] in H3. destruct H3 as (A & B & C). destruct Hm as [Hm|Hm]; [subst; exact A | apply IH; auto].
Qed.

(* a fragment id denotes the same row id sequence wherever it occurs in the history *)
Definition no_conflict_prop (h : history) : Prop :=
  forall m1 m2 f1 f2, In m1 h -> In m2 h -> In f1 (m_frags m1) -> In f2 (m_frags m2) ->
    f_id f1 = f_id f2 -> f_ids f1 = f_ids f2.

Lemma in_hist_frag_ids h m f : In m h -> In f (m_frags m) -> In (f_id f) (hist_frag_ids h).
Proof. intros Hm Hf. unfold hist_frag_ids. apply in_flat_map. exists m. split; auto. apply in_map; exact Hf. Qed.

Lemma step_frag_inv st h o m' :
  frag_inv h -> no_conflict_prop h -> step st h o = Ok m' -> frag_ok h o = true ->
  NoDup (map f_id (m_frags m')) ->
  frag_inv (m' :: h) /\ no_conflict_prop (m' :: h).
Proof.
  intros Hinv Hnc Hs Hok Hnd.
  assert (Hself : forall f1 f2, In f1 (m_frags m') -> In f2 (m_frags m') -> f_id f1 = f_id f2 -> f_ids f1 = f_ids f2).
  { intros f1 f2 H1 H2 E. rewrite (nodup_map_inj f_id _ f1 f2 Hnd H1 H2 E). reflexivity. }
  destruct h as [|cur tl].
  - (* creation *)
    cbn [step] in Hs. destruct o; try discriminate.
    split.
    + cbn [frag_inv]. repeat split; auto; [|intros m0 []].
      unfold build_manifest in Hs. cbn match in Hs. destruct (st && false); [discriminate|]. cbn [negb is_overwrite] in Hs.
      apply bind_ok in Hs as ([final onr'] & _ & Hs). cbn [fst snd] in Hs.
      destruct ((existsb has_ids (sort_frags final) || st) && negb (forallb has_ids (sort_frags final))); [discriminate|].
      apply bind_ok in Hs as (mf & Hu & Hs). inversion Hs; subst; clear Hs.
      apply update_maxfrag_spec in Hu. unfold mark_ok. cbn [m_maxfrag m_frags].
      destruct Hu as [[E1 E2]|(Hne & x & Ex & Hall & _)]; subst mf; [exact E1 | exact Hall].
    + intros m1 m2 f1 f2 [H1|[]] [H2|[]]; subst. apply Hself.
  - destruct (frag_inv_in _ Hinv cur (or_introl eq_refl)) as [Hmk _].
    destruct (is_restore o) eqn:Er.
    + (* restore *)
      destruct o; try discriminate. cbn [step] in Hs.
      destruct (find_version (cur :: tl) v) as [old|] eqn:Ef; [|discriminate]. inversion Hs; subst m'; clear Hs.
      apply find_version_in in Ef as [Hin _].
      destruct (frag_inv_in _ Hinv old Hin) as [Hmo Hle]. destruct (restore_mark cur old Hmk Hmo) as (R1 & R2 & R3).
      split.
      * cbn [frag_inv]. split; [exact R1|]. split; [|exact Hinv].
        intros m0 Hm0. destruct (frag_inv_in _ Hinv m0 Hm0) as [_ Hle0]. lia.
      * intros m1 m2 f1 f2 H1 H2 F1 F2 E.
        assert (Hx : forall m, In m (restore cur old :: cur :: tl) -> forall f, In f (m_frags m) ->
                       exists m0, In m0 (cur :: tl) /\ In f (m_frags m0)).
        { intros m [Hm|Hm] f Hf; [subst m; exists old; auto | exists m; auto]. }
        destruct (Hx m1 H1 f1 F1) as (a & Ha & Fa). destruct (Hx m2 H2 f2 F2) as (b & Hb & Fb).
        exact (Hnc a b f1 f2 Ha Hb Fa Fb E).
    + (* ordinary step *)
      assert (Hs' : bind (lower cur o) (fun t => build_manifest (Some cur) (m_stable cur) t) = Ok m')
        by (destruct o; try discriminate; exact Hs).
      apply bind_ok in Hs' as (t & Hl & Hb). destruct (build_manifest_mark _ _ _ _ Hb Hmk) as [M1 M2].
      pose proof (step_frag_origin _ _ _ _ _ Hmk Hs Er Hok) as Horig.
      split.
      * cbn [frag_inv]. split; [exact M1|]. split; [|exact Hinv].
        intros m0 Hm0. destruct (frag_inv_in _ Hinv m0 Hm0) as [_ Hle0]. lia.
      * assert (Hcross : forall f' m f, In f' (m_frags m') -> In m (cur :: tl) -> In f (m_frags m) ->
                           f_id f' = f_id f -> f_ids f' = f_ids f).
        { intros f' m f Hf' Hm Hf E. destruct (Horig f' Hf') as [(f0 & Hf0 & Es)|[Hge|Hnot]].
          - unfold sig in Es. injection Es as E1 E2. rewrite <- E2.
            apply (Hnc cur m f0 f (or_introl eq_refl) Hm Hf0 Hf). lia.
          - exfalso. destruct (frag_inv_in _ Hinv m Hm) as [Hmm Hle]. pose proof (mark_ok_hw _ Hmm f Hf). lia.
          - exfalso. apply Hnot. rewrite E. eapply in_hist_frag_ids; eauto. }
        intros m1 m2 f1 f2 [H1|H1] [H2|H2] F1 F2 E; subst.
        -- apply Hself; auto.
        -- eapply Hcross; eauto.
        -- symmetry. eapply Hcross; eauto.
        -- exact (Hnc m1 m2 f1 f2 H1 H2 F1 F2 E).
Qed.

Lemma run_from_incl st : forall ops h h', run_from st h ops = Ok h' -> incl h h'.
Proof.
  induction ops as [|o tl IH]; intros h h' H; cbn [run_from] in H.
  - inversion H; subst. apply incl_refl.
  - apply bind_ok in H as (m & _ & H). intros x Hx. apply (IH _ _ H). right; exact Hx.
Qed.

Lemma run_from_frag st : forall ops h h',
  frag_inv h -> no_conflict_prop h -> run_from st h ops = Ok h' -> run_frag_ok st h ops = true ->
  (forall m, In m h' -> NoDup (map f_id (m_frags m))) ->
  frag_inv h' /\ no_conflict_prop h'.
Proof.
  induction ops as [|o tl IH]; intros h h' Hinv Hnc Hr Hok Hnd; cbn [run_from run_frag_ok] in *.
  - inversion Hr; subst; auto.
  - apply bind_ok in Hr as (m & Hs & Hr). rewrite Hs in Hok. apply andb_true_iff in Hok as [Ho Hok].
    assert (Hm : In m h') by (apply (run_from_incl _ _ _ _ Hr); left; reflexivity).
    destruct (step_frag_inv _ _ _ _ Hinv Hnc Hs Ho (Hnd m Hm)) as [I1 I2].
    eapply IH; eauto.
Qed.

(* Fragment ids are never reused across a history unless an Overwrite intervenes. *)
Lemma fragment_ids_never_reused st ops h :
  run st ops = Ok h -> run_frag_ok st [] ops = true -> frag_ids_unique h = true ->
  Known_C07_fragment_id_cache_after_overwrite h = false.
Proof.
  intros Hr Hok Hu.
  assert (Hnd : forall m, In m h -> NoDup (map f_id (m_frags m))).
  { intros m Hm. unfold frag_ids_unique in Hu. rewrite forallb_forall in Hu. apply nodupb_NoDup. apply Hu; exact Hm. }
  destruct (run_from_frag st ops [] h I (fun m1 m2 f1 f2 H => match H with end) Hr Hok Hnd) as [_ Hnc].
  destruct (Known_C07_fragment_id_cache_after_overwrite h) eqn:E; [exfalso|reflexivity].
  unfold Known_C07_fragment_id_cache_after_overwrite, frag_conflict in E.
  apply existsb_exists in E as (m1 & H1 & E). apply existsb_exists in E as (m2 & H2 & E).
  apply existsb_exists in E as (f1 & F1 & E). apply existsb_exists in E as (f2 & F2 & E).
  apply andb_true_iff in E as [Ea Eb]. apply N.eqb_eq in Ea. apply negb_true_iff in Eb.
  pose proof (Hnc m1 m2 f1 f2 H1 H2 F1 F2 Ea) as Eq. apply olist_eqb_eq in Eq. congruence.
Qed.
