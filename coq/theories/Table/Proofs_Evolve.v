(* Table/Proofs_Evolve.v - proofs for property C14 over Table/Model_Evolve.v. *)
From LanceV Require Import Common.Base Table.Model_Evolve.
Local Open Scope Z_scope.

(* ================================================================ reflection, maxima *)
Lemma zmem_In x l : zmem x l = true <-> In x l.
Proof.
  unfold zmem. rewrite existsb_exists. split.
  - intros [y [I E]]. apply Z.eqb_eq in E. subst. exact I.
  - intro I. exists x. split; [exact I | apply Z.eqb_refl].
Qed.
Lemma zmem_false x l : zmem x l = false <-> ~ In x l.
Proof. rewrite <- zmem_In. destruct (zmem x l); split; intro H; try reflexivity; try discriminate; try (intro; discriminate); exfalso; apply H; reflexivity. Qed.
Lemma nodupz_NoDup l : nodupz l = true <-> NoDup l.
Proof.
  induction l as [|x r IH]; cbn [nodupz]; [split; [constructor | reflexivity]|].
  rewrite andb_true_iff, negb_true_iff, zmem_false, IH. split; [intros [A B]; constructor; assumption | intro H; inversion H; subst; split; assumption].
Qed.
Lemma zmax_ge l x : In x l -> x <= zmax_list l.
Proof. induction l as [|y r IH]; intro I; [destruct I|]. cbn [zmax_list fold_right]. fold (zmax_list r). destruct I as [E|I]; [subst; lia | specialize (IH I); lia]. Qed.
Lemma zmax_ge_m1 l : -1 <= zmax_list l.
Proof. induction l as [|y r IH]; cbn [zmax_list fold_right]; [lia | fold (zmax_list r); lia]. Qed.
Lemma schema_le_max t x : In x (schema_ids t) -> x <= max_field_id t.
Proof. intro I. unfold max_field_id. pose proof (zmax_ge _ _ I). lia. Qed.
Lemma file_le_max t g f x : In g (t_frags t) -> In f (eg_files g) -> In x (ef_fields f) -> x <= max_field_id t.
Proof.
  intros Ig If Ix. unfold max_field_id. assert (I : In x (file_ids t)).
  { unfold file_ids. apply in_flat_map. exists g. split; [exact Ig|]. apply in_flat_map. exists f. split; assumption. }
  pose proof (zmax_ge _ _ I). lia.
Qed.

Lemma fresh_ids_spec : forall names next x, In x (map fst (fresh_ids next names)) -> next <= x.
Proof. induction names as [|n r IH]; intros next x I; [destruct I|]. cbn [fresh_ids map fst] in I. destruct I as [E|I]; [lia | specialize (IH _ _ I); lia]. Qed.
Lemma fresh_ids_NoDup : forall names next, NoDup (map fst (fresh_ids next names)).
Proof.
  induction names as [|n r IH]; intro next; [constructor|]. cbn [fresh_ids map fst]. constructor; [|apply IH].
  intro I. apply fresh_ids_spec in I. lia.
Qed.
Lemma fresh_ids_names : forall names next, map snd (fresh_ids next names) = names.
Proof. induction names as [|n r IH]; intro next; [reflexivity|]. cbn [fresh_ids map snd]. rewrite IH. reflexivity. Qed.

(* ================================================================ reading a column *)
Lemma find_filter_keep {A} (p q : A -> bool) : (forall x, p x = true -> q x = true) -> forall l, find p (filter q l) = find p l.
Proof.
  intros H. induction l as [|x r IH]; [reflexivity|]. cbn [filter find]. destruct (q x) eqn:Q; cbn [find].
  - destruct (p x); [reflexivity | exact IH].
  - destruct (p x) eqn:P; [rewrite (H x P) in Q; discriminate | exact IH].
Qed.
Lemma find_app_last {A} (p : A -> bool) l y : p y = false -> find p (l ++ [y]) = find p l.
Proof. intro H. induction l as [|x r IH]; cbn [app find]; [rewrite H; reflexivity | destruct (p x); [reflexivity | exact IH]]. Qed.

(* the relation "same fragment, same rows, field [fid] is read from the same data file" *)
Definition same_read (fid : Z) (g g' : efrag) : Prop :=
  eg_id g' = eg_id g /\ eg_rows g' = eg_rows g /\ file_of g' fid = file_of g fid.
Lemma same_read_refl fid g : same_read fid g g. Proof. repeat split. Qed.
Lemma same_read_trans fid a b c : same_read fid a b -> same_read fid b c -> same_read fid a c.
Proof. intros [A1 [A2 A3]] [B1 [B2 B3]]. repeat split; congruence. Qed.

Lemma same_read_drop_dead fid g : 0 <= fid -> same_read fid g (drop_dead_files g).
Proof.
  intro P. repeat split. unfold file_of, drop_dead_files. cbn [eg_files]. apply find_filter_keep.
  intros f H. unfold has_live. apply existsb_exists. exists fid. split; [apply zmem_In; exact H|].
  apply negb_true_iff. apply Z.eqb_neq. unfold TOMB. lia.
Qed.
Lemma same_read_project fid ids g : In fid ids -> same_read fid g (project_frag ids g).
Proof.
  intro I. repeat split. unfold file_of, project_frag. cbn [eg_files]. apply find_filter_keep.
  intros f H. apply existsb_exists. exists fid. split; [apply zmem_In; exact H | apply zmem_In; exact I].
Qed.
Lemma same_read_add_file fid g p ids : ~ In fid ids -> same_read fid g (mkEfrag (eg_id g) (eg_rows g) (eg_files g ++ [mkEfile p ids])).
Proof. intro H. repeat split. unfold file_of. cbn [eg_files]. apply find_app_last. cbn [ef_fields]. apply zmem_false. exact H. Qed.

Lemma Forall2_map_r {A} (R : A -> A -> Prop) (h : A -> A) l : (forall x, In x l -> R x (h x)) -> Forall2 R l (map h l).
Proof. induction l as [|x r IH]; intro H; [constructor|]. cbn [map]. constructor; [apply H; left; reflexivity | apply IH; intros y I; apply H; right; exact I]. Qed.
Lemma Forall2_trans_ {A} (R : A -> A -> Prop) : (forall a b c, R a b -> R b c -> R a c) ->
  forall l1 l2 l3, Forall2 R l1 l2 -> Forall2 R l2 l3 -> Forall2 R l1 l3.
Proof.
  intros T l1 l2 l3 H. revert l3. induction H as [|a b r1 r2 Hab _ IH]; intros l3 H3; inversion H3; subst; constructor; [eapply T; eassumption | apply IH; assumption].
Qed.

Lemma add_files_same fid ids : ~ In fid ids -> forall frags paths, length paths = length frags ->
  Forall2 (same_read fid) frags (add_files ids paths frags).
Proof.
  intros H. unfold add_files. induction frags as [|g r IH]; intros [|p ps] L; cbn [length] in L; try discriminate; [constructor|].
  cbn [combine map fst snd]. constructor; [|apply IH; lia].
  destruct p as [p|]; [apply same_read_add_file; exact H | apply same_read_refl].
Qed.

Section Read.
Variable V : Type.
Variable null : V.
(* EXTERNAL: the column of field [fid] stored in the data file [path] *)
Variable cell : N -> Z -> list V.

Definition read_col (g : efrag) (fid : Z) : list V :=
  match file_of g fid with
  | Some f => cell (ef_path f) fid
  | None => repeat null (N.to_nat (eg_rows g))
  end.
(* a column of the table: per fragment (id, rows, values incl. deleted positions), in fragment order *)
Definition read_table (t : etable) (fid : Z) : list (N * N * list V) :=
  map (fun g => (eg_id g, eg_rows g, read_col g fid)) (t_frags t).

Lemma same_read_table fid l l' : Forall2 (same_read fid) l l' ->
  map (fun g => (eg_id g, eg_rows g, read_col g fid)) l' = map (fun g => (eg_id g, eg_rows g, read_col g fid)) l.
Proof.
  induction 1 as [|g g' r r' [A [B C]] _ IH]; [reflexivity|]. cbn [map]. rewrite IH. unfold read_col. rewrite A, B, C. reflexivity.
Qed.

(* ---------------------------------------------------------------- T1: the other columns *)
Theorem other_columns_fixed t o t' fid :
  wf_table t = true -> apply_op t o = Ok t' ->
  In fid (schema_ids t) -> In fid (schema_ids t') ->
  read_table t' fid = read_table t fid.
Proof.
  intros WF H I I'. unfold wf_table in WF. apply andb_true_iff in WF as [_ NN]. rewrite forallb_forall in NN.
  assert (P : 0 <= fid) by (apply Z.leb_le; apply NN; exact I).
  assert (LM : fid <= max_field_id t) by (apply schema_le_max; exact I).
  unfold read_table. apply same_read_table.
  destruct o as [names paths | names | a b | name paths]; cbn [apply_op] in H.
  - (* add *)
    unfold add_columns in H. destruct (existsb _ names); [discriminate|]. destruct (negb (nodupn names)); [discriminate|].
    destruct (negb (Nat.eqb (length paths) (length (t_frags t)))) eqn:L; [discriminate|]. apply negb_false_iff in L. apply Nat.eqb_eq in L.
    inversion H; subst t'. clear H. cbn [t_frags].
    eapply Forall2_trans_; [exact (same_read_trans fid) | apply add_files_same; [|exact L] | apply Forall2_map_r; intros; apply same_read_drop_dead; exact P].
    intro J. apply fresh_ids_spec in J. lia.
  - (* drop *)
    unfold drop_columns in H. destruct (negb (forallb _ names)); [discriminate|].
    destruct (filter (fun p => negb (existsb (N.eqb (snd p)) names)) (t_schema t)) as [|s0 sr] eqn:ES; [discriminate|].
    inversion H; subst t'. clear H. unfold project in *. cbn [t_frags schema_ids t_schema] in *. rewrite map_map.
    apply Forall2_map_r. intros g _. eapply same_read_trans; [apply same_read_project; exact I' | apply same_read_drop_dead; exact P].
  - (* rename *)
    unfold rename_column in H. destruct (name_id t a); [|discriminate]. destruct (existsb (N.eqb b) (schema_names t) && negb (N.eqb a b)); [discriminate|].
    inversion H; subst t'. clear H. unfold project in *. cbn [t_frags schema_ids t_schema] in *. rewrite map_map.
    apply Forall2_map_r. intros g _. eapply same_read_trans; [apply same_read_project; exact I' | apply same_read_drop_dead; exact P].
  - (* cast *)
    unfold cast_column in H. destruct (name_id t name) as [old|]; [|discriminate].
    destruct (negb (Nat.eqb (length paths) (length (t_frags t)))) eqn:L; [discriminate|]. apply negb_false_iff in L. apply Nat.eqb_eq in L.
    inversion H; subst t'. clear H. cbn [t_frags schema_ids t_schema] in *. rewrite map_map.
    eapply Forall2_trans_; [exact (same_read_trans fid) | apply (add_files_same fid [max_field_id t + 1]); [|rewrite map_length; exact L] |].
    + intros [E|[]]. lia.
    + apply Forall2_map_r. intros g _. eapply same_read_trans; [apply same_read_project; exact I' | apply same_read_drop_dead; exact P].
Qed.

(* fragments (ids, physical rows) and their order never change *)
Theorem rows_fixed t o t' : apply_op t o = Ok t' ->
  map (fun g => (eg_id g, eg_rows g)) (t_frags t') = map (fun g => (eg_id g, eg_rows g)) (t_frags t).
Proof.
  assert (AF : forall ids frags paths, length paths = length frags ->
            map (fun g => (eg_id g, eg_rows g)) (add_files ids paths frags) = map (fun g => (eg_id g, eg_rows g)) frags).
  { intros ids. unfold add_files. induction frags as [|g r IH]; intros [|p ps] L; cbn [length] in L; try discriminate; [reflexivity|].
    cbn [combine map fst snd]. rewrite IH by lia. destruct p; reflexivity. }
  intro H. destruct o as [names paths | names | a b | name paths]; cbn [apply_op] in H.
  - unfold add_columns in H. destruct (existsb _ names); [discriminate|]. destruct (negb (nodupn names)); [discriminate|].
    destruct (negb (Nat.eqb (length paths) (length (t_frags t)))) eqn:L; [discriminate|]. apply negb_false_iff in L. apply Nat.eqb_eq in L.
    inversion H; subst t'. cbn [t_frags]. rewrite map_map. cbn [drop_dead_files eg_id eg_rows]. apply AF. exact L.
  - unfold drop_columns in H. destruct (negb (forallb _ names)); [discriminate|].
    destruct (filter _ (t_schema t)); [discriminate|]. inversion H; subst t'. unfold project. cbn [t_frags]. rewrite !map_map. reflexivity.
  - unfold rename_column in H. destruct (name_id t a); [|discriminate]. destruct (_ && _); [discriminate|].
    inversion H; subst t'. unfold project. cbn [t_frags]. rewrite !map_map. reflexivity.
  - unfold cast_column in H. destruct (name_id t name); [|discriminate].
    destruct (negb (Nat.eqb (length paths) (length (t_frags t)))) eqn:L; [discriminate|]. apply negb_false_iff in L. apply Nat.eqb_eq in L.
    inversion H; subst t'. cbn [t_frags]. rewrite !map_map. cbn [drop_dead_files project_frag eg_id eg_rows]. apply AF. rewrite map_length. exact L.
Qed.

(* ---------------------------------------------------------------- T2 / T3: the added columns *)
(* no data file of the table lists an id above max_field_id *)
Lemma fresh_not_in_files t g nid : In g (t_frags t) -> max_field_id t < nid -> file_of g nid = None.
Proof.
  intros Ig L. unfold file_of. destruct (find (fun f => zmem nid (ef_fields f)) (eg_files g)) as [f|] eqn:E; [|reflexivity].
  apply find_some in E as [If Hf]. apply zmem_In in Hf. pose proof (file_le_max t g f nid Ig If Hf). lia.
Qed.

Theorem added_values t names paths t' :
  add_columns t names paths = Ok t' ->
  let new := fresh_ids (max_field_id t + 1) names in
  t_schema t' = t_schema t ++ new
  /\ map snd new = names
  /\ (forall nid, In nid (map fst new) -> max_field_id t < nid /\ ~ In nid (schema_ids t) /\ ~ In nid (file_ids t))
  /\ forall j g nid, nth_error (t_frags t) j = Some g -> In nid (map fst new) ->
       exists g', nth_error (t_frags t') j = Some g' /\ eg_id g' = eg_id g /\ eg_rows g' = eg_rows g /\
         match nth_error paths j with
         | Some (Some p) => read_col g' nid = cell p nid          (* exactly the values written for this column *)
         | _ => read_col g' nid = repeat null (N.to_nat (eg_rows g))   (* AllNulls *)
         end.
Proof.
  intros H new. unfold add_columns in H. destruct (existsb _ names); [discriminate|]. destruct (negb (nodupn names)); [discriminate|].
  destruct (negb (Nat.eqb (length paths) (length (t_frags t)))) eqn:L; [discriminate|]. apply negb_false_iff in L. apply Nat.eqb_eq in L.
  inversion H; subst t'. clear H. fold new. cbn [t_schema t_frags]. split; [reflexivity|]. split; [apply fresh_ids_names|]. split.
  - intros nid I. apply fresh_ids_spec in I. repeat split; [lia | intro J; apply schema_le_max in J; lia |].
    intro J. unfold max_field_id in I. pose proof (zmax_ge _ _ J). lia.
  - intros j g nid Ej I.
    assert (NN : 0 <= nid) by (apply fresh_ids_spec in I; unfold max_field_id in I; pose proof (zmax_ge_m1 (schema_ids t)); lia).
    assert (FR : forall g0, In g0 (t_frags t) -> file_of g0 nid = None) by (intros g0 I0; apply (fresh_not_in_files t); [exact I0 | apply fresh_ids_spec in I; lia]).
    revert j g paths L Ej FR. generalize (t_frags t). intro frags.
    induction frags as [|g0 r IH]; intros j g paths L Ej FR; [destruct j; discriminate|].
    destruct paths as [|p ps]; cbn [length] in L; [discriminate|]. unfold add_files. cbn [combine map fst snd].
    destruct j as [|j]; cbn [nth_error] in *.
    + inversion Ej; subst g0. clear Ej. eexists. split; [reflexivity|].
      destruct p as [p|]; cbn [drop_dead_files eg_id eg_rows eg_files]; repeat split.
      * unfold read_col, file_of. cbn [eg_files drop_dead_files].
        rewrite (find_filter_keep (fun f => zmem nid (ef_fields f)) has_live).
        -- specialize (FR g (or_introl eq_refl)). unfold file_of in FR.
           assert (Q : find (fun f => zmem nid (ef_fields f)) (eg_files g ++ [mkEfile p (map fst new)]) = Some (mkEfile p (map fst new))).
           { clear - FR I. induction (eg_files g) as [|f fs IHf]; cbn [app find ef_fields] in *.
             - replace (zmem nid (map fst new)) with true by (symmetry; apply zmem_In; exact I). reflexivity.
             - destruct (zmem nid (ef_fields f)); [discriminate | apply IHf; exact FR]. }
           rewrite Q. reflexivity.
        -- intros f Hf. unfold has_live. apply existsb_exists. exists nid. split; [apply zmem_In; exact Hf | apply negb_true_iff; apply Z.eqb_neq; unfold TOMB; lia].
      * unfold read_col, file_of. cbn [eg_files drop_dead_files eg_rows].
        rewrite (find_filter_keep (fun f => zmem nid (ef_fields f)) has_live).
        -- specialize (FR g (or_introl eq_refl)). unfold file_of in FR. rewrite FR. reflexivity.
        -- intros f Hf. unfold has_live. apply existsb_exists. exists nid. split; [apply zmem_In; exact Hf | apply negb_true_iff; apply Z.eqb_neq; unfold TOMB; lia].
    + apply (IH j g ps); [lia | exact Ej | intros g1 I1; apply FR; right; exact I1].
Qed.

End Read.

(* ================================================================ T4: field ids stay unique *)
Lemma NoDup_app_new (l1 l2 : list Z) : NoDup l1 -> NoDup l2 -> (forall x, In x l1 -> ~ In x l2) -> NoDup (l1 ++ l2).
Proof.
  induction l1 as [|a r IH]; intros H1 H2 D; cbn [app]; [exact H2|]. inversion H1; subst. constructor.
  - rewrite in_app_iff. intros [I|I]; [contradiction | exact (D a (or_introl eq_refl) I)].
  - apply IH; [assumption | assumption | intros x Hx; apply D; right; exact Hx].
Qed.
Lemma NoDup_map_filter_ {A B} (f : A -> B) (p : A -> bool) l : NoDup (map f l) -> NoDup (map f (filter p l)).
Proof.
  induction l as [|x r IH]; intro H; [constructor|]. cbn [map] in H. inversion H; subst. cbn [filter]. destruct (p x); cbn [map]; [|apply IH; assumption].
  constructor; [|apply IH; assumption]. intro I. apply H2. apply in_map_iff in I as [y [E Iy]]. apply filter_In in Iy as [Iy _]. apply in_map_iff. exists y. split; assumption.
Qed.

Theorem ids_unique t o t' : wf_table t = true -> apply_op t o = Ok t' -> wf_table t' = true.
Proof.
  unfold wf_table. rewrite !andb_true_iff. intros [ND NN] H. apply nodupz_NoDup in ND. rewrite forallb_forall in NN.
  destruct o as [names paths | names | a b | name paths]; cbn [apply_op] in H.
  - unfold add_columns in H. destruct (existsb _ names); [discriminate|]. destruct (negb (nodupn names)); [discriminate|].
    destruct (negb (Nat.eqb _ _)); [discriminate|]. inversion H; subst t'. clear H. unfold schema_ids. cbn [t_schema]. rewrite map_app. split.
    + apply nodupz_NoDup. apply NoDup_app_new; [exact ND | apply fresh_ids_NoDup|].
      intros x I J. apply fresh_ids_spec in J. apply schema_le_max in I. lia.
    + apply forallb_forall. intros x I. apply in_app_iff in I as [I|I]; [apply NN; exact I|].
      apply fresh_ids_spec in I. apply Z.leb_le. unfold max_field_id in I. pose proof (zmax_ge_m1 (schema_ids t)). lia.
  - unfold drop_columns in H. destruct (negb (forallb _ names)); [discriminate|].
    destruct (filter (fun p => negb (existsb (N.eqb (snd p)) names)) (t_schema t)) as [|s0 sr] eqn:ES; [discriminate|].
    inversion H; subst t'. clear H. unfold project, schema_ids. cbn [t_schema]. rewrite <- ES. split.
    + apply nodupz_NoDup. apply NoDup_map_filter_. exact ND.
    + apply forallb_forall. intros x I. apply NN. apply in_map_iff in I as [y [E Iy]]. apply filter_In in Iy as [Iy _]. apply in_map_iff. exists y. split; assumption.
  - unfold rename_column in H. destruct (name_id t a); [|discriminate]. destruct (_ && _); [discriminate|].
    inversion H; subst t'. clear H. unfold project, schema_ids. cbn [t_schema]. rewrite map_map.
    rewrite (map_ext _ fst) by (intros [i n]; cbn [fst snd]; destruct (N.eqb n a); reflexivity).
    split; [apply nodupz_NoDup; exact ND | apply forallb_forall; exact NN].
  - unfold cast_column in H. destruct (name_id t name) as [old|]; [|discriminate]. destruct (negb (Nat.eqb _ _)); [discriminate|].
    inversion H; subst t'. clear H. unfold schema_ids in *. cbn [t_schema]. rewrite map_map.
    set (nid := max_field_id t + 1).
    assert (FR : ~ In nid (map fst (t_schema t))) by (intro J; apply (schema_le_max t) in J; unfold nid in J; lia).
    split.
    + apply nodupz_NoDup. clear NN. induction (t_schema t) as [|[i n] r IH]; [constructor|]. cbn [map fst] in *. inversion ND; subst.
      assert (FRr : ~ In nid (map fst r)) by (intro J; apply FR; right; exact J).
      destruct (i =? old) eqn:E; cbn [fst]; constructor; try (apply IH; assumption).
      * intro J. apply in_map_iff in J as [[i2 n2] [E2 I2]]. cbn [fst] in E2. destruct (i2 =? old) eqn:E3; cbn [fst] in E2.
        -- apply Z.eqb_eq in E, E3. subst. apply H1. apply in_map_iff. exists (old, n2). split; [reflexivity | exact I2].
        -- subst i2. apply FRr. apply in_map_iff. exists (nid, n2). split; [reflexivity | exact I2].
      * intro J. apply in_map_iff in J as [[i2 n2] [E2 I2]]. cbn [fst] in E2. destruct (i2 =? old) eqn:E3; cbn [fst] in E2.
        -- subst i. apply FR. left. reflexivity.
        -- subst i2. apply H1. apply in_map_iff. exists (i, n2). split; [reflexivity | exact I2].
    + apply forallb_forall. intros x I. apply in_map_iff in I as [[i n] [E Iy]]. cbn [fst] in E. destruct (i =? old); cbn [fst] in E; subst x.
      * apply Z.leb_le. unfold nid, max_field_id. pose proof (zmax_ge_m1 (schema_ids t)). lia.
      * apply NN. apply in_map_iff. exists (i, n). split; [reflexivity | exact Iy].
Qed.

(* ================================================================ histories of schema operations *)
Fixpoint run (t : etable) (ops : list eop) : outcome (list etable) :=
  match ops with
  | [] => Ok [t]
  | o :: r => match apply_op t o with
              | Ok t1 => match run t1 r with Ok l => Ok (t :: l) | Err => Err | Panic => Panic end
              | Err => Err
              | Panic => Panic
              end
  end.

Lemma run_head t ops l : run t ops = Ok l -> exists r, l = t :: r.
Proof.
  destruct ops as [|o r]; cbn [run]; intro H; [inversion H; eexists; reflexivity|].
  destruct (apply_op t o) as [t1| |]; try discriminate. destruct (run t1 r) as [l1| |]; try discriminate. inversion H. eexists; reflexivity.
Qed.

Theorem history_columns_fixed (V : Type) (null : V) (cell : N -> Z -> list V) : forall ops t l fid,
  wf_table t = true -> run t ops = Ok l ->
  (forall u, In u l -> In fid (schema_ids u)) ->
  forall u, In u l -> wf_table u = true /\ read_table V null cell u fid = read_table V null cell t fid
                      /\ map (fun g => (eg_id g, eg_rows g)) (t_frags u) = map (fun g => (eg_id g, eg_rows g)) (t_frags t).
Proof.
  induction ops as [|o r IH]; intros t l fid WF H ALL u Iu; cbn [run] in H.
  - inversion H; subst l. destruct Iu as [E|[]]. subst u. repeat split; assumption.
  - destruct (apply_op t o) as [t1| |] eqn:E1; try discriminate. destruct (run t1 r) as [l1| |] eqn:E2; try discriminate.
    inversion H; subst l. clear H. destruct Iu as [E|Iu]; [subst u; repeat split; assumption|].
    assert (WF1 : wf_table t1 = true) by (eapply ids_unique; eassumption).
    assert (I1 : In t1 l1) by (destruct (run_head _ _ _ E2) as [r1 Er]; subst l1; left; reflexivity).
    destruct (IH t1 l1 fid WF1 E2 (fun u0 I0 => ALL u0 (or_intror I0)) u Iu) as [A [B C]].
    split; [exact A|]. split.
    + rewrite B. apply other_columns_fixed with (o := o); [exact WF | exact E1 | apply ALL; left; reflexivity | apply ALL; right; exact I1].
    + rewrite C. eapply rows_fixed. exact E1.
Qed.
