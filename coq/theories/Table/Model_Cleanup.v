(* C08 - cleanup of old versions: rust/lance/src/dataset/cleanup.rs transcribed.
   Executable definitions only (proofs are in Proofs_Cleanup.v).

     CleanupPolicy::should_clean                       should_clean
     CleanupPolicyBuilder::retain_n_versions           retain_n_versions      (indexing `versions[len - n]`: Panic for n = 0)
     CleanupTask::process_manifest_file / _manifest    process_manifest_file  (working set, referenced vs verified, tagged old,
                                                                               earliest retained manifest time)
     CleanupTask::path_if_not_referenced               path_if_not_referenced (arm by arm, incl. the `_indices` fall-through)
     CleanupTask::delete_unreferenced_files            delete_unreferenced_files (read_dir_all(unmodified_since), 7-day threshold, stats)
     CleanupTask::run                                  run_cleanup            (Err on tagged old versions)
     auto_cleanup_hook                                 auto_cleanup_hook      (`version % interval`: Panic for interval = 0)

   Paths are relative to the dataset base: a list of segments, a segment a list of bytes.  The Rust
   code tests string prefixes of the '/'-joined relative path (`starts_with("data")` etc.), takes
   `parts().nth(1)` and `extension()` (object_store 0.12): transcribed on `join p`.
   Times are nanoseconds since the Unix epoch (manifest.timestamp(), ObjectMeta.last_modified, utc_now()). *)
From LanceV Require Import Common.Base.
From Coq Require Export Strings.String Strings.Ascii.
Local Open Scope N_scope.

Definition seg := list N.
Definition path := list seg.

(* string literal -> bytes (ASCII), used by the transcription and by the correspondence shards *)
Fixpoint sg (s : string) : seg :=
  match s with EmptyString => [] | String a r => N_of_ascii a :: sg r end.
Arguments sg _%string.

Definition seg_eqb : seg -> seg -> bool := list_eqb N.eqb.
Definition path_eqb : path -> path -> bool := list_eqb seg_eqb.
Definition mem_seg (x : seg) (l : list seg) : bool := existsb (seg_eqb x) l.
Definition mem_path (x : path) (l : list path) : bool := existsb (path_eqb x) l.
Definition mem_N (x : N) (l : list N) : bool := existsb (N.eqb x) l.
Definition nlen {A} (l : list A) : N := N.of_nat (List.length l).

(* Path::as_ref(): segments joined by '/' (47) *)
Fixpoint join (p : path) : list N :=
  match p with
  | [] => []
  | s :: r => match r with [] => s | _ :: _ => s ++ 47 :: join r end
  end.

(* str::starts_with *)
Fixpoint prefixb (pre s : list N) : bool :=
  match pre, s with
  | [], _ => true
  | a :: pre', b :: s' => N.eqb a b && prefixb pre' s'
  | _ :: _, [] => false
  end.

Definition starts_with (p : path) (pre : string) : bool := prefixb (sg pre) (join p).
Arguments starts_with p pre%string.

(* Path::filename(): the last segment *)
Definition filename (p : path) : option seg :=
  match rev p with [] => None | f :: _ => Some f end.

(* str::rsplit_once('.') then the right part: the bytes after the last '.' (46) *)
Fixpoint after_last_dot (s : seg) : option seg :=
  match s with
  | [] => None
  | c :: r => match after_last_dot r with
              | Some e => Some e
              | None => if c =? 46 then Some r else None
              end
  end.

(* Path::extension(): None without a '.', None for an empty extension *)
Definition extension (p : path) : option seg :=
  match filename p with
  | None => None
  | Some f => match after_last_dot f with Some [] => None | x => x end
  end.

Inductive ekind := XLance | XManifest | XArrowBin | XTxn | XOther.
Definition ext_kind (e : option seg) : ekind :=
  match e with
  | None => XOther
  | Some x =>
      if seg_eqb x (sg "lance") then XLance
      else if seg_eqb x (sg "manifest") then XManifest
      else if seg_eqb x (sg "arrow") || seg_eqb x (sg "bin") then XArrowBin
      else if seg_eqb x (sg "txn") then XTxn
      else XOther
  end.

(* ------------------------------------------------------------------------------------------ *)
(* manifests, policy, inspection                                                                *)
(* ------------------------------------------------------------------------------------------ *)
(* what process_manifest extracts from one manifest: relative paths data/<file.path>,
   _deletions/<frag>-<read_version>-<id>.<arrow|bin>, _transactions/<transaction_file>, index uuids *)
Record refs := { r_data : list path; r_del : list path; r_tx : list path; r_idx : list seg }.
Definition no_refs : refs := {| r_data := []; r_del := []; r_tx := []; r_idx := [] |}.
Definition refs_add (a b : refs) : refs :=
  {| r_data := r_data b ++ r_data a; r_del := r_del b ++ r_del a; r_tx := r_tx b ++ r_tx a; r_idx := r_idx b ++ r_idx a |}.

Record manifest := { m_path : path; m_version : N; m_ts : N; m_size : N; m_refs : refs }.

Record policy := { before_timestamp : option N; before_version : option N;
                   delete_unverified : bool; error_if_tagged_old_versions : bool }.

(* CleanupPolicy::should_clean *)
Definition should_clean (pol : policy) (m : manifest) : bool :=
  (match before_timestamp pol with Some t => m_ts m <? t | None => true end)
  && (match before_version pol with Some v => m_version m <? v | None => true end).

(* process_manifest_file: `is_latest || !should_clean || is_tagged`; dsv = self.dataset.version().version *)
Definition is_latest (dsv : N) (m : manifest) : bool := dsv <=? m_version m.
Definition in_working_set (dsv : N) (tags : list N) (pol : policy) (m : manifest) : bool :=
  is_latest dsv m || negb (should_clean pol m) || mem_N (m_version m) tags.

Record inspection := { i_old : list manifest;          (* old_manifests (we keep the record; the code keeps the path) *)
                       i_ref : refs;                   (* referenced_files *)
                       i_ver : refs;                   (* verified_files *)
                       i_tagged_old : list N;          (* tagged_old_versions *)
                       i_earliest : option N }.        (* earliest_retained_manifest_time *)
Definition inspection0 : inspection :=
  {| i_old := []; i_ref := no_refs; i_ver := no_refs; i_tagged_old := []; i_earliest := None |}.

Definition process_manifest_file (dsv : N) (tags : list N) (pol : policy) (insp : inspection) (m : manifest) : inspection :=
  let tagged := mem_N (m_version m) tags in
  let ws := in_working_set dsv tags pol m in
  {| i_old := if ws then i_old insp else i_old insp ++ [m];
     i_ref := if ws then refs_add (i_ref insp) (m_refs m) else i_ref insp;
     i_ver := if ws then i_ver insp else refs_add (i_ver insp) (m_refs m);
     i_tagged_old := if tagged && negb (is_latest dsv m) && should_clean pol m
                     then m_version m :: i_tagged_old insp else i_tagged_old insp;
     i_earliest := if ws then
                     match i_earliest insp with
                     | Some ts => if m_ts m <? ts then Some (m_ts m) else Some ts
                     | None => Some (m_ts m)
                     end
                   else i_earliest insp |}.

(* try_for_each_concurrent: the result does not depend on the order (sets, minimum) *)
Definition process_manifests (dsv : N) (tags : list N) (pol : policy) (ms : list manifest) : inspection :=
  fold_left (process_manifest_file dsv tags pol) ms inspection0.

(* ------------------------------------------------------------------------------------------ *)
(* path_if_not_referenced: true = Ok(Some(path)) (delete), false = Ok(None)                     *)
(* ------------------------------------------------------------------------------------------ *)
Definition path_if_not_referenced (p : path) (maybe_in_progress : bool) (insp : inspection) : bool :=
  if starts_with p "_versions/.tmp" then
    (if maybe_in_progress then false else true)
  else
    let idx_arm : option bool :=            (* Some b: the `_indices` block returned; None: fell through *)
      if starts_with p "_indices" then
        match nth_error p 1 with
        | Some uuid =>
            if mem_seg uuid (r_idx (i_ref insp)) then Some false
            else if negb maybe_in_progress then Some true
            else if mem_seg uuid (r_idx (i_ver insp)) then Some true
            else None
        | None => Some false
        end
      else None in
    match idx_arm with
    | Some b => b
    | None =>
        match ext_kind (extension p) with
        | XLance =>
            if starts_with p "data" then
              if mem_path p (r_data (i_ref insp)) then false
              else if negb maybe_in_progress then true
              else if mem_path p (r_data (i_ver insp)) then true
              else false
            else false
        | XManifest => false
        | XArrowBin =>
            if starts_with p "_deletions" then
              if mem_path p (r_del (i_ref insp)) then false
              else if negb maybe_in_progress then true
              else if mem_path p (r_del (i_ver insp)) then true
              else false
            else false
        | XTxn =>
            if starts_with p "_transactions" then
              if mem_path p (r_tx (i_ref insp)) then false
              else if negb maybe_in_progress || mem_path p (r_tx (i_ver insp)) then true
              else false
            else false
        | XOther => false
        end
    end.

(* ------------------------------------------------------------------------------------------ *)
(* delete_unreferenced_files / run                                                              *)
(* ------------------------------------------------------------------------------------------ *)
Record file := { f_path : path; f_mtime : N; f_size : N }.

(* UNVERIFIED_THRESHOLD_DAYS = 7 *)
Definition seven_days : N := 7 * 86400 * 1000000000.
Definition verification_threshold (now : N) : N := now - seven_days.

(* read_dir_all(base, unmodified_since) : last_modified <= unmodified_since *)
Definition listed (insp : inspection) (f : file) : bool :=
  match i_earliest insp with Some t => f_mtime f <=? t | None => true end.

Definition maybe_in_progress (pol : policy) (now : N) (f : file) : bool :=
  negb (delete_unverified pol) && (verification_threshold now <=? f_mtime f).

(* the decision for one listed object *)
Definition removes (pol : policy) (now : N) (insp : inspection) (f : file) : bool :=
  listed insp f && path_if_not_referenced (f_path f) (maybe_in_progress pol now f) insp.

Definition sum_N (l : list N) : N := fold_right N.add 0 l.

Record removal := { rm_files : list file;          (* unreferenced_paths *)
                    rm_manifests : list manifest;  (* old_manifests *)
                    rm_bytes : N;                  (* RemovalStats.bytes_removed *)
                    rm_old_versions : N }.         (* RemovalStats.old_versions *)

Definition delete_unreferenced_files (pol : policy) (now : N) (insp : inspection) (files : list file) : removal :=
  let del := filter (removes pol now insp) files in
  {| rm_files := del; rm_manifests := i_old insp;
     rm_bytes := sum_N (map f_size del) + sum_N (map m_size (i_old insp));
     rm_old_versions := nlen (i_old insp) |}.

(* CleanupTask::run.  dsv: version of the handle; tags: versions of all tags *)
Definition run_cleanup (dsv : N) (tags : list N) (pol : policy) (now : N)
           (ms : list manifest) (files : list file) : outcome removal :=
  let insp := process_manifests dsv tags pol ms in
  if error_if_tagged_old_versions pol && negb (match i_tagged_old insp with [] => true | _ => false end)
  then Err
  else Ok (delete_unreferenced_files pol now insp files).

(* the store after cleanup *)
Definition files_after (r : removal) (files : list file) : list file :=
  filter (fun f => negb (mem_path (f_path f) (map f_path (rm_files r)))) files.
Definition manifests_after (r : removal) (ms : list manifest) : list manifest :=
  filter (fun m => negb (mem_path (m_path m) (map m_path (rm_manifests r)))) ms.

(* ------------------------------------------------------------------------------------------ *)
(* what a manifest needs                                                                        *)
(* ------------------------------------------------------------------------------------------ *)
(* files of index <uuid> live under _indices/<uuid>/ *)
Definition index_uuid (p : path) : option seg :=
  match p with s :: u :: _ => if seg_eqb s (sg "_indices") then Some u else None | _ => None end.

Definition needs_refs (r : refs) (p : path) : bool :=
  mem_path p (r_data r) || mem_path p (r_del r) || mem_path p (r_tx r)
  || match index_uuid p with Some u => mem_seg u (r_idx r) | None => false end.
Definition needs (m : manifest) (p : path) : bool := needs_refs (m_refs m) p.

(* what the decision tree can connect p with: as needs_refs, but the `_indices` block of
   path_if_not_referenced tests a string prefix (so _indicesX/<uuid>/.. counts as well) *)
Definition touches (r : refs) (p : path) : bool :=
  needs_refs r p
  || (starts_with p "_indices" && match nth_error p 1 with Some u => mem_seg u (r_idx r) | None => false end).

(* shape of the relative paths process_manifest produces *)
Definition under (dir : string) (p : path) : bool :=
  match p with s :: _ :: _ => seg_eqb s (sg dir) | _ => false end.
Arguments under dir%string p.
Definition wf_refs (r : refs) : bool :=
  forallb (under "data") (r_data r) && forallb (under "_deletions") (r_del r) && forallb (under "_transactions") (r_tx r).

(* manifest files: _versions/<name>.manifest, <name> not starting with ".tmp" *)
Definition wf_manifest_path (p : path) : bool :=
  match p with
  | [d; f] => seg_eqb d (sg "_versions") && negb (prefixb (sg ".tmp") f)
              && match ext_kind (extension p) with XManifest => true | _ => false end
  | _ => false
  end.

(* ------------------------------------------------------------------------------------------ *)
(* F7: references from outside (branches, shallow clones) into this dataset's directory        *)
(* ------------------------------------------------------------------------------------------ *)
(* `ext`: for every branch / shallow clone, the references it holds INTO the cleaned dataset's
   directory (as relative paths of that directory).  process_manifests never looks at them. *)
Definition kept_needs (dsv : N) (tags : list N) (pol : policy) (ms : list manifest) (p : path) : bool :=
  existsb (fun m => in_working_set dsv tags pol m && needs m p) ms.
Definition kept_idx (dsv : N) (tags : list N) (pol : policy) (ms : list manifest) (u : seg) : bool :=
  existsb (fun m => in_working_set dsv tags pol m && mem_seg u (r_idx (m_refs m))) ms.

(* class of finding F7: some branch / shallow clone references a file (or index) of this dataset
   that no retained version of this dataset references *)
Definition Known_C08_cleanup_ignores_branch_refs (dsv : N) (tags : list N) (pol : policy)
           (ms : list manifest) (ext : list refs) : bool :=
  existsb (fun r =>
     negb (forallb (kept_needs dsv tags pol ms) (r_data r ++ r_del r ++ r_tx r))
     || negb (forallb (kept_idx dsv tags pol ms) (r_idx r))) ext.

(* ------------------------------------------------------------------------------------------ *)
(* retain_n_versions, auto_cleanup_hook                                                         *)
(* ------------------------------------------------------------------------------------------ *)
Fixpoint insert_sorted (x : N) (l : list N) : list N :=
  match l with [] => [x] | y :: r => if x <=? y then x :: l else y :: insert_sorted x r end.
Definition sort_N (l : list N) : list N := fold_right insert_sorted [] l.

(* dataset.versions(): every manifest under _versions, sorted by version *)
Definition versions_of (ms : list manifest) : list N := sort_N (map m_version ms).

(* `if versions.len() <= n { versions[0] } else { versions[versions.len() - n] }` *)
Definition retain_n_versions (versions : list N) (n : N) : outcome N :=
  let len := nlen versions in
  if len <=? n then match versions with [] => Panic | v :: _ => Ok v end
  else match nth_error versions (N.to_nat (len - n)) with Some v => Ok v | None => Panic end.

(* a config value: absent, present but unparsable, parsed *)
Inductive cfgval := Absent | Bad | Good (v : N).
Record auto_cfg := { ac_interval : cfgval;          (* lance.auto_cleanup.interval : u64 *)
                     ac_older_than : cfgval;        (* lance.auto_cleanup.older_than : duration, ns *)
                     ac_retain : cfgval }.          (* lance.auto_cleanup.retain_versions : usize *)

(* Ok None: the hook does nothing; Ok (Some pol): it calls cleanup_with_policy(pol) *)
Definition auto_cleanup_hook (cfg : auto_cfg) (version : N) (now : N) (versions : list N) : outcome (option policy) :=
  match ac_interval cfg with
  | Absent => Ok None
  | Bad => Err
  | Good i =>
      if i =? 0 then Panic                                  (* `manifest.version % interval` *)
      else if negb (version mod i =? 0) then Ok None
      else
        match ac_older_than cfg with
        | Bad => Err
        | o =>
            let bt := match o with Good d => Some (now - d) | _ => None end in
            match ac_retain cfg with
            | Bad => Err
            | Absent => Ok (Some {| before_timestamp := bt; before_version := None;
                                    delete_unverified := false; error_if_tagged_old_versions := true |})
            | Good n =>
                match retain_n_versions versions n with
                | Ok v => Ok (Some {| before_timestamp := bt; before_version := Some v;
                                      delete_unverified := false; error_if_tagged_old_versions := true |})
                | Err => Err
                | Panic => Panic
                end
            end
        end
  end.

(* ------------------------------------------------------------------------------------------ *)
(* cleanup interleaved with concurrent writers                                                  *)
(* ------------------------------------------------------------------------------------------ *)
(* A writer (append, delete, update, compaction, index creation, overwrite): puts its new files one
   store call at a time, then publishes a manifest of version latest+1 whose references are a
   subset (w_keep / w_keep_idx) of the references of the version that is latest at that moment, plus
   its own (w_own).  A writer that is not scheduled again has failed / crashed.
   Manifest files are identified by their version (ManifestNamingScheme::manifest_path is a function
   of the version): deleting an old manifest is `ECDeleteManifest v`. *)
Record writer := { w_puts : list file; w_keep : path -> bool; w_keep_idx : seg -> bool; w_own : refs;
                   w_mpath : path; w_ts : N; w_msize : N }.

Definition keep_refs (k : path -> bool) (ki : seg -> bool) (r : refs) : refs :=
  {| r_data := filter k (r_data r); r_del := filter k (r_del r); r_tx := filter k (r_tx r); r_idx := filter ki (r_idx r) |}.

Record wstate := { ws_todo : list file; ws_committed : option manifest }.

Inductive cphase :=
| CStart                                   (* before process_manifests *)
| CFailed                                  (* run returned Err (tagged old versions) *)
| CInspected (insp : inspection).          (* delete_unreferenced_files in progress *)

Record world := { wd_files : list file;            (* objects below the base, manifests excluded *)
                  wd_manifests : list manifest;    (* published manifests *)
                  wd_phase : cphase;
                  wd_pending : list path;          (* objects decided, not yet deleted (remove_stream) *)
                  wd_pending_m : list N;           (* versions of the old manifests not yet deleted *)
                  wd_removed : list path;          (* objects deleted by cleanup so far *)
                  wd_writers : N -> wstate }.

Inductive event :=
| ECInspect                                (* list_manifest_locations + read every manifest *)
| ECSee (p : path)                         (* the listing yields object p; decide *)
| ECDelete (p : path)                      (* remove_stream deletes object p *)
| ECDeleteManifest (v : N)                 (* remove_stream deletes the manifest of version v *)
| EW (t : N).                              (* the next store call of writer t *)

Definition latest_version (ms : list manifest) : N := fold_right N.max 0 (map m_version ms).
Definition latest_refs (ms : list manifest) : refs :=
  match filter (fun m => m_version m =? latest_version ms) ms with m :: _ => m_refs m | [] => no_refs end.

Fixpoint find_file (p : path) (fs : list file) : option file :=
  match fs with [] => None | f :: r => if path_eqb p (f_path f) then Some f else find_file p r end.

Definition set_writer (w : N -> wstate) (t : N) (s : wstate) : N -> wstate :=
  fun x => if N.eqb x t then s else w x.

Section Interleaving.
  Variable dsv : N.
  Variable tags : list N.
  Variable pol : policy.
  Variable now : N.
  Variable writers : N -> writer.

  Definition step (w : world) (e : event) : world :=
    match e with
    | ECInspect =>
        match wd_phase w with
        | CStart =>
            let insp := process_manifests dsv tags pol (wd_manifests w) in
            if error_if_tagged_old_versions pol && negb (match i_tagged_old insp with [] => true | _ => false end)
            then {| wd_files := wd_files w; wd_manifests := wd_manifests w; wd_phase := CFailed;
                    wd_pending := wd_pending w; wd_pending_m := wd_pending_m w;
                    wd_removed := wd_removed w; wd_writers := wd_writers w |}
            else {| wd_files := wd_files w; wd_manifests := wd_manifests w; wd_phase := CInspected insp;
                    wd_pending := wd_pending w; wd_pending_m := map m_version (i_old insp);
                    wd_removed := wd_removed w; wd_writers := wd_writers w |}
        | _ => w
        end
    | ECSee p =>
        match wd_phase w, find_file p (wd_files w) with
        | CInspected insp, Some f =>
            if removes pol now insp f
            then {| wd_files := wd_files w; wd_manifests := wd_manifests w; wd_phase := wd_phase w;
                    wd_pending := p :: wd_pending w; wd_pending_m := wd_pending_m w;
                    wd_removed := wd_removed w; wd_writers := wd_writers w |}
            else w
        | _, _ => w
        end
    | ECDelete p =>
        if mem_path p (wd_pending w)
        then {| wd_files := filter (fun f => negb (path_eqb p (f_path f))) (wd_files w);
                wd_manifests := wd_manifests w;
                wd_phase := wd_phase w;
                wd_pending := filter (fun q => negb (path_eqb p q)) (wd_pending w);
                wd_pending_m := wd_pending_m w;
                wd_removed := p :: wd_removed w; wd_writers := wd_writers w |}
        else w
    | ECDeleteManifest v =>
        if mem_N v (wd_pending_m w)
        then {| wd_files := wd_files w;
                wd_manifests := filter (fun m => negb (m_version m =? v)) (wd_manifests w);
                wd_phase := wd_phase w;
                wd_pending := wd_pending w;
                wd_pending_m := filter (fun x => negb (x =? v)) (wd_pending_m w);
                wd_removed := wd_removed w; wd_writers := wd_writers w |}
        else w
    | EW t =>
        let s := wd_writers w t in
        match ws_committed s, ws_todo s with
        | Some _, _ => w
        | None, f :: rest =>
            {| wd_files := f :: wd_files w; wd_manifests := wd_manifests w; wd_phase := wd_phase w;
               wd_pending := wd_pending w; wd_pending_m := wd_pending_m w; wd_removed := wd_removed w;
               wd_writers := set_writer (wd_writers w) t {| ws_todo := rest; ws_committed := None |} |}
        | None, [] =>
            let wr := writers t in
            let m := {| m_path := w_mpath wr; m_version := latest_version (wd_manifests w) + 1;
                        m_ts := w_ts wr; m_size := w_msize wr;
                        m_refs := refs_add (keep_refs (w_keep wr) (w_keep_idx wr) (latest_refs (wd_manifests w))) (w_own wr) |} in
            {| wd_files := wd_files w; wd_manifests := m :: wd_manifests w; wd_phase := wd_phase w;
               wd_pending := wd_pending w; wd_pending_m := wd_pending_m w; wd_removed := wd_removed w;
               wd_writers := set_writer (wd_writers w) t {| ws_todo := []; ws_committed := Some m |} |}
        end
    end.

  Definition run (evs : list event) (w : world) : world := fold_left step evs w.

  Definition init (files : list file) (ms : list manifest) : world :=
    {| wd_files := files; wd_manifests := ms; wd_phase := CStart; wd_pending := []; wd_pending_m := [];
       wd_removed := [];
       wd_writers := fun t => {| ws_todo := w_puts (writers t); ws_committed := None |} |}.
End Interleaving.

(* ------------------------------------------------------------------------------------------ *)
(* correspondence checkers                                                                      *)
(* ------------------------------------------------------------------------------------------ *)
(* recorded shapes *)
Definition crefs : Type := (list path * list path) * (list path * list seg).
Definition cmanifest : Type := (path * (N * (N * N))) * crefs.       (* (path, (version, (ts, size))), refs *)
Definition cfile : Type := path * (N * N).                           (* path, (mtime, size) *)
Definition cpolicy : Type := (option N * option N) * (bool * bool).  (* (before_ts, before_version), (delete_unverified, error_if_tagged) *)

Definition mk_refs (c : crefs) : refs :=
  {| r_data := fst (fst c); r_del := snd (fst c); r_tx := fst (snd c); r_idx := snd (snd c) |}.
Definition mk_manifest (c : cmanifest) : manifest :=
  let '((p, (v, (ts, sz))), r) := c in {| m_path := p; m_version := v; m_ts := ts; m_size := sz; m_refs := mk_refs r |}.
Definition mk_file (c : cfile) : file := {| f_path := fst c; f_mtime := fst (snd c); f_size := snd (snd c) |}.
Definition mk_policy (c : cpolicy) : policy :=
  {| before_timestamp := fst (fst c); before_version := snd (fst c);
     delete_unverified := fst (snd c); error_if_tagged_old_versions := snd (snd c) |}.

(* positions (0-based, ascending) of the elements of l satisfying f *)
Fixpoint positions {A} (f : A -> bool) (l : list A) (i : N) : list N :=
  match l with [] => [] | x :: r => if f x then i :: positions f r (i + 1) else positions f r (i + 1) end.

(* observable result of one cleanup: which of the objects below the base (manifest files included)
   and which manifests are gone *)
Definition deleted_positions (r : removal) (ms : list manifest) (files : list file) : list N * list N :=
  let gone := map f_path (rm_files r) ++ map m_path (rm_manifests r) in
  (positions (fun f => mem_path (f_path f) gone) files 0,
   positions (fun m => mem_path (m_path m) gone) ms 0).

(* cleanup_with_policy on a directory.
   input : ((dataset version of the handle, tag versions), (policy, now)), (manifests, files)
   output: Err, or ((positions of deleted files, positions of deleted manifests), (bytes_removed, old_versions)) *)
Definition chk_cleanup (i : ((N * list N) * (cpolicy * N)) * (list cmanifest * list cfile))
                       (o : outcome ((list N * list N) * (N * N))) : bool :=
  let '(((dsv, tags), (cp, now)), (cms, cfs)) := i in
  let ms := map mk_manifest cms in
  let fs := map mk_file cfs in
  match run_cleanup dsv tags (mk_policy cp) now ms fs, o with
  | Ok r, Ok ((df, dm), (bytes, oldv)) =>
      let '(df', dm') := deleted_positions r ms fs in
      list_eqb N.eqb df df' && list_eqb N.eqb dm dm' && (bytes =? rm_bytes r) && (oldv =? rm_old_versions r)
  | Err, Err => true
  | Panic, Panic => true
  | _, _ => false
  end.

(* CleanupPolicyBuilder::retain_n_versions through the builder: input (versions present, n), output before_version *)
Definition chk_retain (i : list N * N) (o : outcome N) : bool :=
  outcome_eqb N.eqb (retain_n_versions (sort_N (fst i)) (snd i)) o.

Definition mk_cfgval (c : N * N) : cfgval := match fst c with 0 => Absent | 1 => Bad | _ => Good (snd c) end.

(* a commit with auto cleanup configured: the hook runs after the manifest of `version` is written.
   input : ((interval, (older_than, retain)) as (tag, value), version), then the chk_cleanup input without policy
   output: (panicked?, (positions of deleted files, positions of deleted manifests)); an Err of the hook is
           only logged by commit_transaction, so it shows as "nothing deleted" *)
Definition chk_auto (i : (((N * N) * ((N * N) * (N * N))) * N) * (((N * list N) * N) * (list cmanifest * list cfile)))
                    (o : bool * (list N * list N)) : bool :=
  let '(((ci, (co, cr)), version), (((dsv, tags), now), (cms, cfs))) := i in
  let ms := map mk_manifest cms in
  let fs := map mk_file cfs in
  let cfg := {| ac_interval := mk_cfgval ci; ac_older_than := mk_cfgval co; ac_retain := mk_cfgval cr |} in
  let nothing := (negb (fst o)) && list_eqb N.eqb (fst (snd o)) [] && list_eqb N.eqb (snd (snd o)) [] in
  match auto_cleanup_hook cfg version now (versions_of ms) with
  | Panic => fst o
  | Err | Ok None => nothing
  | Ok (Some pol) =>
      match run_cleanup dsv tags pol now ms fs with
      | Ok r => let '(df', dm') := deleted_positions r ms fs in
                negb (fst o) && list_eqb N.eqb (fst (snd o)) df' && list_eqb N.eqb (snd (snd o)) dm'
      | _ => nothing
      end
  end.

(* the class predicate evaluated by the harness must be the predicate of the theorem *)
Definition chk_class (i : ((N * list N) * cpolicy) * (list cmanifest * list crefs)) (o : bool) : bool :=
  let '(((dsv, tags), cp), (cms, ext)) := i in
  Bool.eqb (Known_C08_cleanup_ignores_branch_refs dsv tags (mk_policy cp) (map mk_manifest cms) (map mk_refs ext)) o.

(* path classification used by the harness generators (extension / prefix / second segment):
   output (extension, (starts_with flags: tmp, _indices, data, _deletions, _transactions), nth(1)) *)
Definition chk_path (p : path) (o : option seg * ((list bool) * option seg)) : bool :=
  option_eqb seg_eqb (extension p) (fst o)
  && list_eqb Bool.eqb [starts_with p "_versions/.tmp"; starts_with p "_indices"; starts_with p "data";
                        starts_with p "_deletions"; starts_with p "_transactions"] (fst (snd o))
  && option_eqb seg_eqb (nth_error p 1) (snd (snd o)).
