(* Proofs for C17: the version columns a scan shows (Model_Versions.view of the manifest that
   Model_Restore.step builds) agree with the reference ledger (Model_Versions.spec_step) for every history
   of creates, appends, deletes, updates, merge-style updates, in-place column rewrites, compactions and
   restores on a table with stable row ids - except, in the created_at column, for the rows named by the
   two known classes (DESIGN section 6 F5). *)
From LanceV Require Import Common.Base Table.Model_Restore Table.Proofs_Restore Table.Model_Versions.
Local Open Scope N_scope.

(* ================================================================ lists *)
Lemma nlen_cons {A} (x : A) l : nlen (x :: l) = nlen l + 1.
Proof. unfold nlen. cbn [length]. lia. Qed.
Lemma nlen_nil {A} : nlen (@nil A) = 0.
Proof. reflexivity. Qed.
Lemma nlen_app {A} (a b : list A) : nlen (a ++ b) = nlen a + nlen b.
Proof. unfold nlen. rewrite app_length. lia. Qed.
Lemma nlen_zero {A} (l : list A) : nlen l = 0 -> l = [].
Proof. destruct l; [reflexivity|]. rewrite nlen_cons. lia. Qed.

Lemma nseq_zero s : nseq s 0 = [].
Proof. reflexivity. Qed.
Lemma nseq_succ s n : nseq s (n + 1) = s :: nseq (s + 1) n.
Proof.
  unfold nseq. replace (N.to_nat (n + 1)) with (S (N.to_nat n)) by lia. cbn [seq map].
  f_equal; [lia|]. rewrite <- seq_shift, map_map. apply map_ext. intro i. lia.
Qed.
Lemma nlen_nseq s n : nlen (nseq s n) = n.
Proof. unfold nlen, nseq. rewrite map_length, seq_length. lia. Qed.
Lemma nlen_uniform n v : nlen (uniform n v) = n.
Proof. unfold nlen, uniform. rewrite repeat_length. lia. Qed.
Lemma in_uniform n v x : In x (uniform n v) -> x = v.
Proof. unfold uniform. intro H. apply repeat_spec in H. exact H. Qed.
Lemma uniform_zero v w : uniform 0 v = uniform 0 w.
Proof. reflexivity. Qed.

Lemma in_combine_both {A B} (a : A) (b : B) la lb : In (a, b) (combine la lb) -> In a la /\ In b lb.
Proof. intro H. split; [eapply in_combine_l | eapply in_combine_r]; exact H. Qed.

Lemma combine_app {A B} (a1 a2 : list A) (b1 b2 : list B) :
  length a1 = length b1 -> combine (a1 ++ a2) (b1 ++ b2) = combine a1 b1 ++ combine a2 b2.
Proof.
  revert b1. induction a1 as [|x tl IH]; intros [|y b1] H; cbn in *; try discriminate; [reflexivity|].
  f_equal. apply IH. lia.
Qed.

Lemma combine_skipn {A B} n (a : list A) (b : list B) : skipn n (combine a b) = combine (skipn n a) (skipn n b).
Proof.
  revert a b. induction n as [|n IH]; intros a b; [reflexivity|].
  destruct a as [|x a]; [reflexivity|]. destruct b as [|y b]; [cbn; destruct (skipn n a); reflexivity|].
  cbn [skipn combine]. apply IH.
Qed.

(* ---- live: positions kept by a deletion vector ---- *)
Lemma live_from_combine {A B} : forall (a : list A) (b : list B) off del,
  live_from off del (combine a b) = combine (live_from off del a) (live_from off del b).
Proof.
  induction a as [|x a IH]; intros [|y b] off del; cbn [combine live_from]; try reflexivity.
  - destruct (memN off del); [|cbn [combine]]; destruct (live_from (off + 1) del a); reflexivity.
  - destruct (memN off del); [apply IH | cbn [combine]; f_equal; apply IH].
Qed.

Lemma live_from_app {A} : forall (a b : list A) off del,
  live_from off del (a ++ b) = live_from off del a ++ live_from (off + nlen a) del b.
Proof.
  induction a as [|x a IH]; intros b off del; cbn [app live_from].
  - rewrite nlen_nil, N.add_0_r. reflexivity.
  - rewrite IH, nlen_cons. replace (off + 1 + nlen a) with (off + (nlen a + 1)) by lia.
    destruct (memN off del); reflexivity.
Qed.

Lemma subsetN_in a b x : subsetN a b = true -> In x a -> In x b.
Proof. unfold subsetN. rewrite forallb_forall. intros H Hx. apply memN_true. apply H; exact Hx. Qed.

Lemma memN_false x l : memN x l = false <-> ~ In x l.
Proof. rewrite <- memN_true. destruct (memN x l); split; intro H; congruence. Qed.

Lemma live_from_mono {A} : forall (l : list A) off del del' x,
  (forall o, In o del -> In o del') -> In x (live_from off del' l) -> In x (live_from off del l).
Proof.
  induction l as [|y l IH]; intros off del del' x Hs H; cbn [live_from] in *; [exact H|].
  destruct (memN off del') eqn:E'.
  - destruct (memN off del); [|right]; eapply IH; eauto.
  - destruct (memN off del) eqn:E.
    + exfalso. apply memN_true in E. apply Hs in E. apply memN_false in E'. contradiction.
    + destruct H as [H|H]; [left; exact H | right; eapply IH; eauto].
Qed.

(* membership in live_from with the position made explicit *)
Lemma live_from_pos {A} : forall (l : list A) off del x,
  In x (live_from off del l) <-> exists o, In (o, x) (combine (nseq off (nlen l)) l) /\ memN o del = false.
Proof.
  induction l as [|y l IH]; intros off del x; cbn [live_from].
  - split; [intros [] | intros (o & H & _); exact H].
  - rewrite nlen_cons, nseq_succ. cbn [combine]. destruct (memN off del) eqn:E.
    + rewrite IH. split.
      * intros (o & H & Ho). exists o. split; [right; exact H | exact Ho].
      * intros (o & [H|H] & Ho); [inversion H; subst; congruence | exists o; auto].
    + cbn [In]. rewrite IH. split.
      * intros [H|(o & H & Ho)]; [subst; exists off; split; [left; reflexivity | exact E] | exists o; split; [right; exact H | exact Ho]].
      * intros (o & [H|H] & Ho); [inversion H; subst; left; reflexivity | right; exists o; auto].
Qed.

(* ---- positions ---- *)
Lemma in_combine_nseq_bounds {A} : forall (l : list A) s n o x, In (o, x) (combine (nseq s n) l) -> s <= o < s + n.
Proof. intros l s n o x H. apply in_combine_l in H. apply in_nseq in H. exact H. Qed.

Lemma combine_nseq_nthN {A} : forall (l : list A) s o x d,
  In (o, x) (combine (nseq s (nlen l)) l) -> nthN l (o - s) d = x.
Proof.
  induction l as [|y l IH]; intros s o x d H; [contradiction|].
  rewrite nlen_cons, nseq_succ in H. cbn [combine In] in H. destruct H as [H|H].
  - inversion H; subst. cbn [nthN]. rewrite N.sub_diag. reflexivity.
  - pose proof (in_combine_nseq_bounds _ _ _ _ _ H) as Hb. cbn [nthN].
    destruct (o - s =? 0) eqn:E; [apply N.eqb_eq in E; lia|].
    replace (o - s - 1) with (o - (s + 1)) by lia. apply IH. exact H.
Qed.

Lemma nthN_in_combine {A} : forall (l : list A) s o d, o < nlen l -> In (s + o, nthN l o d) (combine (nseq s (nlen l)) l).
Proof.
  induction l as [|y l IH]; intros s o d H; [rewrite nlen_nil in H; lia|].
  rewrite nlen_cons in H. rewrite nlen_cons, nseq_succ. cbn [combine nthN]. destruct (o =? 0) eqn:E.
  - apply N.eqb_eq in E. subst. left. f_equal. lia.
  - apply N.eqb_neq in E. right. replace (s + o) with (s + 1 + (o - 1)) by lia. apply IH. lia.
Qed.

Lemma nth_optN_nthN {A} : forall (l : list A) o d r, nth_optN l o = Some r -> nthN l o d = r /\ o < nlen l.
Proof.
  induction l as [|y l IH]; intros o d r H; cbn [nth_optN nthN] in *; [discriminate|].
  rewrite nlen_cons. destruct (o =? 0) eqn:E.
  - inversion H; subst. split; [reflexivity | lia].
  - apply N.eqb_neq in E. destruct (IH _ d _ H) as [H1 H2]. split; [exact H1 | lia].
Qed.
Lemma nthN_nth_optN {A} : forall (l : list A) o d, o < nlen l -> nth_optN l o = Some (nthN l o d).
Proof.
  induction l as [|y l IH]; intros o d H; [rewrite nlen_nil in H; lia|].
  rewrite nlen_cons in H. cbn [nth_optN nthN]. destruct (o =? 0) eqn:E; [reflexivity|].
  apply N.eqb_neq in E. apply IH. lia.
Qed.

(* three aligned columns *)
Lemma combine3_pos {A B C} : forall (a : list A) (b : list B) (c : list C) s o x y z,
  nlen b = nlen a -> nlen c = nlen a ->
  In (o, (x, (y, z))) (combine (nseq s (nlen a)) (combine a (combine b c))) ->
  In (o, x) (combine (nseq s (nlen a)) a) /\ In (o, y) (combine (nseq s (nlen b)) b) /\ In (o, z) (combine (nseq s (nlen c)) c).
Proof.
  induction a as [|x0 a IH]; intros b c s o x y z Hb Hc H; [contradiction|].
  destruct b as [|y0 b]; [rewrite nlen_nil, nlen_cons in Hb; lia|].
  destruct c as [|z0 c]; [rewrite nlen_nil, nlen_cons in Hc; lia|].
  rewrite !nlen_cons in *. rewrite !nseq_succ in *. cbn [combine In] in *. destruct H as [H|H].
  - inversion H; subst. repeat split; left; reflexivity.
  - destruct (IH b c (s + 1) o x y z) as (H1 & H2 & H3); try lia; [exact H|]. repeat split; right; assumption.
Qed.

Lemma combine3_of_pos {A B C} : forall (a : list A) (b : list B) (c : list C) s o x y z,
  nlen b = nlen a -> nlen c = nlen a ->
  In (o, x) (combine (nseq s (nlen a)) a) -> In (o, y) (combine (nseq s (nlen b)) b) -> In (o, z) (combine (nseq s (nlen c)) c) ->
  In (o, (x, (y, z))) (combine (nseq s (nlen a)) (combine a (combine b c))).
Proof.
  induction a as [|x0 a IH]; intros b c s o x y z Hb Hc H1 H2 H3; [contradiction|].
  destruct b as [|y0 b]; [rewrite nlen_nil, nlen_cons in Hb; lia|].
  destruct c as [|z0 c]; [rewrite nlen_nil, nlen_cons in Hc; lia|].
  rewrite !nlen_cons in *. rewrite !nseq_succ in *. cbn [combine In] in *.
  destruct H1 as [H1|H1].
  - inversion H1; subst.
    destruct H2 as [H2|H2]; [|apply in_combine_nseq_bounds in H2; lia].
    destruct H3 as [H3|H3]; [|apply in_combine_nseq_bounds in H3; lia].
    inversion H2; inversion H3; subst. left; reflexivity.
  - pose proof (in_combine_nseq_bounds _ _ _ _ _ H1) as B1.
    destruct H2 as [H2|H2]; [inversion H2; subst; lia|].
    destruct H3 as [H3|H3]; [inversion H3; subst; lia|].
    right. apply IH; try lia; assumption.
Qed.

Lemma in_combine_pos {A} : forall (l : list A) s x, In x l -> exists o, In (o, x) (combine (nseq s (nlen l)) l).
Proof.
  induction l as [|y l IH]; intros s x H; [contradiction|].
  rewrite nlen_cons, nseq_succ. cbn [combine]. destruct H as [H|H].
  - subst. exists s. left; reflexivity.
  - destruct (IH (s + 1) x H) as (o & Ho). exists o. right; exact Ho.
Qed.

(* ---- split_sizes ---- *)
Lemma split_sizes_rows {A B C} : forall sizes (a : list A) (b : list B) (c : list C) ca cb cc,
  In ((ca, cb), cc) (combine (combine (split_sizes a sizes) (split_sizes b sizes)) (split_sizes c sizes)) ->
  (forall x, In x (combine ca (combine cb cc)) -> In x (combine a (combine b c))).
Proof.
  induction sizes as [|s tl IH]; intros a b c ca cb cc H x Hx; cbn [split_sizes combine] in H; [contradiction|].
  destruct H as [H|H].
  - inversion H; subst. rewrite <- !combine_firstn in Hx. eapply in_firstn; exact Hx.
  - specialize (IH _ _ _ _ _ _ H x Hx). rewrite <- !combine_skipn in IH. eapply in_skipn; exact IH.
Qed.

Lemma split_sizes_len {A} : forall sizes (l : list A) , nlen l = sumN sizes ->
  forall c s, In (c, s) (combine (split_sizes l sizes) sizes) -> nlen c = s.
Proof.
  induction sizes as [|s0 tl IH]; intros l Hl c s H; cbn [split_sizes combine] in H; [contradiction|].
  cbn [sumN fold_right] in Hl. fold (sumN tl) in Hl. destruct H as [H|H].
  - inversion H; subst. unfold nlen in *. rewrite firstn_length. lia.
  - eapply (IH (skipn (N.to_nat s0) l)); [|exact H]. unfold nlen in *. rewrite skipn_length. lia.
Qed.

(* ================================================================ rows of a fragment *)
Definition cs_of (f : frag) : list N := match f_created f with Some l => l | None => uniform (f_phys f) 1 end.
Definition us_of (f : frag) : list N := match f_updated f with Some l => l | None => uniform (f_phys f) 1 end.
(* physical rows (deleted ones included) and visible rows *)
Definition prows (f : frag) : list vrow := combine (frag_ids f) (combine (cs_of f) (us_of f)).
Definition vrows (f : frag) : list vrow := live (f_del f) (prows f).

(* what every fragment of a table with stable row ids looks like *)
Definition wf_frag (f : frag) : Prop :=
  (exists ids, f_ids f = Some ids) /\
  nlen (frag_ids f) = f_phys f /\ nlen (cs_of f) = f_phys f /\ nlen (us_of f) = f_phys f /\
  (f_created f = None -> f_phys f = 0) /\ (f_updated f = None -> f_phys f = 0).

Lemma firstn_nlen {A} (l : list A) : firstn (N.to_nat (nlen l)) l = l.
Proof. unfold nlen. rewrite Nat2N.id. apply firstn_all. Qed.

Lemma vcol_wf o phys l : (match o with Some x => x | None => uniform phys 1 end) = l -> nlen l = phys -> vcol o phys = Ok l.
Proof.
  intros E Hl. unfold vcol. destruct o as [x|]; subst l.
  - rewrite Hl, N.leb_refl. f_equal. rewrite <- Hl at 1. apply firstn_nlen.
  - reflexivity.
Qed.

Lemma frag_view_wf f : wf_frag f -> frag_view f = Ok (vrows f).
Proof.
  intros ((ids & Ei) & H1 & H2 & H3 & _). unfold frag_view, vrows, prows, frag_ids in *. rewrite Ei in *.
  rewrite H1, N.eqb_refl. rewrite (vcol_wf (f_created f) (f_phys f) (cs_of f) eq_refl H2).
  rewrite (vcol_wf (f_updated f) (f_phys f) (us_of f) eq_refl H3). reflexivity.
Qed.

Lemma view_frags_wf : forall fs, (forall f, In f fs -> wf_frag f) -> view_frags fs = Ok (flat_map vrows fs).
Proof.
  induction fs as [|f tl IH]; intro H; cbn [view_frags flat_map]; [reflexivity|].
  rewrite (frag_view_wf f (H f (or_introl eq_refl))). cbn [bind]. rewrite IH by (intros g Hg; apply H; right; exact Hg).
  reflexivity.
Qed.

Lemma in_vrows_prows f x : In x (vrows f) -> In x (prows f).
Proof. unfold vrows, live. apply in_live_from. Qed.

(* ================================================================ the ledger *)
Lemma lget_insert V : forall ids L r,
  lget (insert V L ids) r = if memN r ids then Some (V, V) else lget L r.
Proof.
  unfold insert. induction ids as [|x tl IH]; intros L r; cbn [fold_left memN existsb]; [reflexivity|].
  rewrite IH. cbn [lget]. fold (memN r tl). rewrite (N.eqb_sym r x).
  destruct (memN r tl); [rewrite orb_true_r; reflexivity|]. rewrite orb_false_r. destruct (x =? r); reflexivity.
Qed.

Lemma created_of_cons L V x v r : fst v = created_of L V x -> created_of ((x, v) :: L) V r = created_of L V r.
Proof.
  intro E. unfold created_of at 1. cbn [lget]. destruct (x =? r) eqn:Ex; [|reflexivity].
  apply N.eqb_eq in Ex. subst. exact E.
Qed.

Lemma lget_touch V : forall ids L r,
  lget (touch V L ids) r = if memN r ids then Some (created_of L V r, V) else lget L r.
Proof.
  unfold touch. induction ids as [|x tl IH]; intros L r; cbn [fold_left memN existsb]; [reflexivity|].
  rewrite IH. fold (memN r tl). rewrite (N.eqb_sym r x). rewrite created_of_cons by reflexivity.
  cbn [lget]. destruct (memN r tl); [rewrite orb_true_r; reflexivity|]. rewrite orb_false_r.
  destruct (x =? r) eqn:Ex; [|reflexivity]. apply N.eqb_eq in Ex. subst. reflexivity.
Qed.

Lemma lfind_cons lh k L v : lfind ((k, L) :: lh) v = if k =? v then Some L else lfind lh v.
Proof. reflexivity. Qed.

(* ================================================================ the invariant *)
(* a row agrees with the ledger: it is known, its created_at is right unless it is tainted, and (for a
   visible row) its last_updated_at is right *)
Definition row_ok (L : ledger) (T : list N) (vis : bool) (x : vrow) : Prop :=
  exists c0 u0, lget L (fst x) = Some (c0, u0) /\
    (~ In (fst x) T -> fst (snd x) = c0) /\ (vis = true -> snd (snd x) = u0).

Definition Inv (m : manifest) (L : ledger) (T : list N) : Prop :=
  m_stable m = true /\
  (forall f, In f (m_frags m) -> wf_frag f) /\
  (forall f x, In f (m_frags m) -> In x (prows f) -> row_ok L T false x) /\
  (forall f x, In f (m_frags m) -> In x (vrows f) -> row_ok L T true x) /\
  (forall r, lget L r <> None -> r < m_next m).

Lemma row_ok_weaken L T T' vis x : (forall r, In r T -> In r T') -> row_ok L T vis x -> row_ok L T' vis x.
Proof. intros Hs (c0 & u0 & H1 & H2 & H3). exists c0, u0. repeat split; auto. Qed.

Lemma Inv_weaken m L T T' : (forall r, In r T -> In r T') -> Inv m L T -> Inv m L T'.
Proof.
  intros Hs (I0 & I1 & I2 & I3 & I4). split; [exact I0|]. split; [exact I1|].
  split; [intros f x Hf Hx; eapply row_ok_weaken; eauto|]. split; [intros f x Hf Hx; eapply row_ok_weaken; eauto | exact I4].
Qed.

(* building the invariant of the new manifest fragment by fragment *)
Lemma Inv_intro m L T :
  m_stable m = true ->
  (forall f, In f (m_frags m) -> wf_frag f /\ (forall x, In x (prows f) -> row_ok L T false x) /\
                                  (forall x, In x (vrows f) -> row_ok L T true x)) ->
  (forall r, lget L r <> None -> r < m_next m) -> Inv m L T.
Proof.
  intros H0 H H4. split; [exact H0|]. split; [intros f Hf; apply (H f Hf)|].
  split; [intros f x Hf; apply (H f Hf)|]. split; [intros f x Hf; apply (H f Hf) | exact H4].
Qed.

(* frames: a fragment that keeps its rows and whose deletion vector grows *)
Definition same_rows (f f' : frag) : Prop :=
  f_ids f' = f_ids f /\ f_created f' = f_created f /\ f_updated f' = f_updated f /\ f_phys f' = f_phys f.

Lemma same_rows_prows f f' : same_rows f f' -> prows f' = prows f.
Proof. intros (A & B & C & D). unfold prows, frag_ids, cs_of, us_of. rewrite A, B, C, D. reflexivity. Qed.
Lemma same_rows_wf f f' : same_rows f f' -> wf_frag f -> wf_frag f'.
Proof.
  intros (A & B & C & D) W. unfold wf_frag, frag_ids, cs_of, us_of in *. rewrite A, B, C, D. exact W.
Qed.
Lemma same_rows_vrows f f' x :
  same_rows f f' -> (forall o, In o (f_del f) -> In o (f_del f')) -> In x (vrows f') -> In x (vrows f).
Proof.
  intros S Hd H. unfold vrows, live in *. rewrite (same_rows_prows _ _ S) in H. eapply live_from_mono; eauto.
Qed.

(* ================================================================ shape of one step *)
Lemma step_shape st cur tl o m' :
  m_stable cur = true -> step st (cur :: tl) o = Ok m' -> is_restore o = false ->
  exists t final nr',
    lower cur o = Ok t /\
    build_arm (m_frags cur) (start_fid (Some cur) t) (Some (m_next cur)) (m_version cur + 1) t = Ok (final, Some nr') /\
    (forall f, In f (m_frags m') <-> In f final) /\ m_next m' = nr' /\ m_version m' = m_version cur + 1 /\
    m_stable m' = true.
Proof.
  intros Hst Hs Hr.
  assert (Hs' : bind (lower cur o) (fun t => build_manifest (Some cur) (m_stable cur) t) = Ok m')
    by (destruct o; try discriminate; exact Hs).
  apply bind_ok in Hs' as (t & Hl & Hb). unfold build_manifest in Hb. rewrite Hst in Hb. cbn [negb andb] in Hb.
  apply bind_ok in Hb as ([final onr'] & Harm & Hb). cbn [fst snd] in Hb.
  destruct ((existsb has_ids (sort_frags final) || true) && negb (forallb has_ids (sort_frags final))); [discriminate|].
  apply bind_ok in Hb as (mf & _ & Hb).
  unfold start_nr in Harm. rewrite Hst in Harm. cbn [existing_of new_version_of] in Harm.
  pose proof (build_arm_ids _ _ _ _ _ _ _ Harm) as Hi. destruct onr' as [nr'|]; [|contradiction].
  exists t, final, nr'. split; [exact Hl|]. split; [exact Harm|].
  inversion Hb; subst; clear Hb. cbn [m_frags m_next m_version m_stable new_version_of].
  repeat split; try reflexivity.
  - apply (proj1 (in_sort_frags _ _)).
  - apply (proj2 (in_sort_frags _ _)).
  - apply orb_true_r.
Qed.

(* ================================================================ new fragments of Append / Overwrite *)
Definition blank (f : frag) : Prop := f_ids f = None /\ f_created f = None /\ f_updated f = None /\ f_del f = [].

Lemma fragments_with_ids_in : forall fs fid f',
  In f' (fst (fragments_with_ids fs fid)) -> exists f i, In f fs /\ f' = set_id f i.
Proof.
  induction fs as [|f tl IH]; intros fid f' H; cbn [fragments_with_ids] in H; [contradiction|].
  destruct (f_id f =? 0); cbn [fst] in H; destruct H as [H|H].
  - subst. exists f, fid. split; [left; reflexivity | reflexivity].
  - destruct (IH _ _ H) as (g & i & Hg & E). exists g, i. split; [right; exact Hg | exact E].
  - subst. exists f', (f_id f'). split; [left; reflexivity | destruct f'; reflexivity].
  - destruct (IH _ _ H) as (g & i & Hg & E). exists g, i. split; [right; exact Hg | exact E].
Qed.

(* what assign_row_ids does to a fragment that brings no version metadata: the ids it carries, then fresh ones *)
Lemma assign_row_ids_in : forall fs nr nr1 fs1,
  assign_row_ids nr fs = Ok (nr1, fs1) ->
  forall f1, In f1 fs1 -> exists f a,
    In f fs /\ nr <= a /\ a + (f_phys f - nlen (frag_ids f)) <= nr1 /\
    f_ids f1 = Some (frag_ids f ++ nseq a (f_phys f - nlen (frag_ids f))) /\
    nlen (frag_ids f) <= f_phys f /\
    f_id f1 = f_id f /\ f_phys f1 = f_phys f /\ f_created f1 = f_created f /\ f_updated f1 = f_updated f /\ f_del f1 = f_del f.
Proof.
  induction fs as [|f tl IH]; intros nr nr1 fs1 H f1 Hf1; cbn [assign_row_ids] in H.
  - inversion H; subst. contradiction.
  - destruct (f_ids f) as [ids|] eqn:Ef.
    + destruct (nlen ids ?= f_phys f) eqn:Ec.
      * apply N.compare_eq in Ec. apply bind_ok in H as ([a b] & H1 & H2). cbn [fst snd] in H2. inversion H2; subst.
        pose proof (assign_row_ids_spec _ _ _ _ H1) as (Hle & _).
        destruct Hf1 as [Hf1|Hf1].
        -- subst f1. exists f, nr. unfold frag_ids. rewrite Ef, Ec, N.sub_diag. cbn [nseq]. rewrite app_nil_r.
           repeat split; auto; try lia. left; reflexivity.
        -- destruct (IH _ _ _ H1 _ Hf1) as (g & a0 & Hg & A1 & A2 & A3). exists g, a0. repeat split; try apply A3; auto; try lia. right; exact Hg.
      * apply N.compare_lt_iff in Ec. destruct (two64 <=? _); [discriminate|].
        apply bind_ok in H as ([a b] & H1 & H2). cbn [fst snd] in H2. inversion H2; subst.
        pose proof (assign_row_ids_spec _ _ _ _ H1) as (Hle & _).
        destruct Hf1 as [Hf1|Hf1].
        -- subst f1. exists f, nr. unfold frag_ids. rewrite Ef. cbn [set_ids f_ids f_id f_phys f_created f_updated f_del].
           repeat split; auto; try lia; [left; reflexivity | apply N.lt_le_incl; exact Ec].
        -- destruct (IH _ _ _ H1 _ Hf1) as (g & a0 & Hg & A1 & A2 & A3). exists g, a0. repeat split; try apply A3; auto; try lia. right; exact Hg.
      * discriminate.
    + destruct (two64 <=? _); [discriminate|].
      apply bind_ok in H as ([a b] & H1 & H2). cbn [fst snd] in H2. inversion H2; subst.
      pose proof (assign_row_ids_spec _ _ _ _ H1) as (Hle & _).
      destruct Hf1 as [Hf1|Hf1].
      * subst f1. exists f, nr. unfold frag_ids. rewrite Ef. cbn [nlen length app N.of_nat]. rewrite N.sub_0_r.
        cbn [set_ids f_ids f_id f_phys f_created f_updated f_del]. repeat split; auto; try lia.
        left; reflexivity.
      * destruct (IH _ _ _ H1 _ Hf1) as (g & a0 & Hg & A1 & A2 & A3). exists g, a0. repeat split; try apply A3; auto; try lia. right; exact Hg.
Qed.

Lemma stamp_new_in : forall fs v fs2, stamp_new fs v = Ok fs2 ->
  forall f2, In f2 fs2 -> exists f1 vm, In f1 fs /\ build_version_meta f1 v = Ok vm /\ f2 = set_created (set_updated f1 vm) vm.
Proof.
  induction fs as [|f tl IH]; intros v fs2 H f2 Hf2; cbn [stamp_new] in H.
  - inversion H; subst. contradiction.
  - apply bind_ok in H as (vm & Hv & H). apply bind_ok in H as (tl' & Ht & H). inversion H; subst.
    destruct Hf2 as [Hf2|Hf2].
    + subst. exists f, vm. split; [left; reflexivity | split; [exact Hv | reflexivity]].
    + destruct (IH _ _ Ht _ Hf2) as (f1 & vm1 & A & B & C). exists f1, vm1. split; [right; exact A | split; assumption].
Qed.

Lemma stamp_updated_in : forall ex fs v fs2, stamp_updated ex fs v = Ok fs2 ->
  forall f2, In f2 fs2 -> exists f1 vm, In f1 fs /\ build_version_meta f1 v = Ok vm /\
    match f_ids f1 with
    | Some ids => f2 = set_updated (set_created f1 (Some (map (created_lookup ex) ids))) vm
    | None => f2 = set_created (set_updated f1 vm) vm
    end.
Proof.
  induction fs as [|f tl IH]; intros v fs2 H f2 Hf2; cbn [stamp_updated] in H.
  - inversion H; subst. contradiction.
  - apply bind_ok in H as (vm & Hv & H). apply bind_ok in H as (tl' & Ht & H).
    destruct (f_ids f) eqn:Ef; inversion H; subst; destruct Hf2 as [Hf2|Hf2].
    + subst. exists f, vm. split; [left; reflexivity | split; [exact Hv | rewrite Ef; reflexivity]].
    + destruct (IH _ _ Ht _ Hf2) as (f1 & vm1 & A & B & C). exists f1, vm1. split; [right; exact A | split; assumption].
    + subst. exists f, vm. split; [left; reflexivity | split; [exact Hv | rewrite Ef; reflexivity]].
    + destruct (IH _ _ Ht _ Hf2) as (f1 & vm1 & A & B & C). exists f1, vm1. split; [right; exact A | split; assumption].
Qed.

Lemma build_version_meta_ok f v vm : build_version_meta f v = Ok vm ->
  vm = if 0 <? f_phys f then Some (uniform (f_phys f) v) else None.
Proof.
  unfold build_version_meta. destruct (0 <? f_phys f); [destruct (f_ids f); [|discriminate]|]; intro H; inversion H; reflexivity.
Qed.

(* a version column that is uniformly v (empty when the fragment is empty) *)
Lemma uniform_col p v (o : option (list N)) :
  o = (if 0 <? p then Some (uniform p v) else None) ->
  (match o with Some l => l | None => uniform p 1 end) = uniform p v /\ (o = None -> p = 0).
Proof.
  intro E. destruct (0 <? p) eqn:Ep; subst o.
  - split; [reflexivity | discriminate].
  - apply N.ltb_ge in Ep. assert (p = 0) by lia. subst p. split; [reflexivity | reflexivity].
Qed.

Lemma in_combine_map {A B C} (g : A -> B) : forall (l : list A) (us : list C) r c u,
  In (r, (c, u)) (combine l (combine (map g l) us)) -> In r l /\ c = g r /\ In u us.
Proof.
  induction l as [|x l IH]; intros us r c u H; [contradiction|].
  destruct us as [|u0 us]; [contradiction|]. cbn [map combine In] in H. destruct H as [H|H].
  - inversion H; subst. repeat split; left; reflexivity.
  - destruct (IH _ _ _ _ H) as (A1 & A2 & A3). repeat split; [right; exact A1 | exact A2 | right; exact A3].
Qed.

(* new fragments of Append / Overwrite *)
Lemma appended_frags sizes fid0 nr V nr1 nf1 nf2 :
  assign_row_ids nr (fst (fragments_with_ids (map (fun s => fresh_frag s None) sizes) fid0)) = Ok (nr1, nf1) ->
  stamp_new nf1 V = Ok nf2 ->
  forall f, In f nf2 -> wf_frag f /\ f_del f = [] /\ (forall x, In x (prows f) -> nr <= fst x < nr1 /\ snd x = (V, V)).
Proof.
  intros Ha Hs f Hf. destruct (stamp_new_in _ _ _ Hs _ Hf) as (f1 & vm & Hf1 & Hv & Ef).
  destruct (assign_row_ids_in _ _ _ _ Ha _ Hf1) as (f0 & a & Hf0 & A1 & A2 & A3 & A4 & A5 & A6 & A7 & A8 & A9).
  destruct (fragments_with_ids_in _ _ _ Hf0) as (g & i & Hg & Eg). apply in_map_iff in Hg as (s & Es & _). subst g f0.
  cbn [frag_ids set_id fresh_frag f_ids f_phys f_created f_updated f_del nlen length N.of_nat app] in *.
  rewrite N.sub_0_r in *.
  apply build_version_meta_ok in Hv. rewrite A6 in Hv.
  destruct (uniform_col s V vm Hv) as [U1 U2].
  assert (Eids : frag_ids f = nseq a s) by (subst f; unfold frag_ids; cbn [set_created set_updated f_ids]; rewrite A3; reflexivity).
  assert (Ecs : cs_of f = uniform s V) by (subst f; unfold cs_of; cbn [set_created set_updated f_created f_phys]; rewrite A6; exact U1).
  assert (Eus : us_of f = uniform s V) by (subst f; unfold us_of; cbn [set_created set_updated f_updated f_phys]; rewrite A6; exact U1).
  assert (Eph : f_phys f = s) by (subst f; cbn; exact A6).
  split; [|split].
  - unfold wf_frag. rewrite Eids, Ecs, Eus, Eph, nlen_nseq, nlen_uniform. repeat split; auto.
    + subst f. cbn [set_created set_updated f_ids]. eexists; exact A3.
    + subst f. cbn [set_created set_updated f_created]. exact U2.
    + subst f. cbn [set_created set_updated f_updated]. exact U2.
  - subst f. cbn. exact A9.
  - intros [r [c u]] Hx. unfold prows in Hx. rewrite Eids, Ecs, Eus in Hx.
    apply in_combine_both in Hx as [H1 H2]. apply in_combine_both in H2 as [H2 H3].
    apply in_uniform in H2. apply in_uniform in H3. apply in_nseq in H1. subst. cbn [fst snd]. split; [lia | reflexivity].
Qed.

Lemma nlen_map {A B} (g : A -> B) l : nlen (map g l) = nlen l.
Proof. unfold nlen. rewrite map_length. reflexivity. Qed.

(* new fragments of Update (rewritten and inserted rows) *)
Lemma updated_frags (news : list (N * list N)) ex fid0 nr V nr1 nf1 nf2 :
  assign_row_ids nr (fst (fragments_with_ids
      (map (fun x : N * list N => fresh_frag (fst x) (match snd x with [] => None | l => Some l end)) news) fid0)) = Ok (nr1, nf1) ->
  stamp_updated ex nf1 V = Ok nf2 ->
  forall f, In f nf2 -> wf_frag f /\ f_del f = [] /\
    (forall x, In x (prows f) ->
       (In (fst x) (flat_map snd news) \/ nr <= fst x < nr1) /\ snd x = (created_lookup ex (fst x), V)).
Proof.
  intros Ha Hs f Hf. destruct (stamp_updated_in _ _ _ _ Hs _ Hf) as (f1 & vm & Hf1 & Hv & Ef).
  destruct (assign_row_ids_in _ _ _ _ Ha _ Hf1) as (f0 & a & Hf0 & A1 & A2 & A3 & A4 & A5 & A6 & A7 & A8 & A9).
  destruct (fragments_with_ids_in _ _ _ Hf0) as (g & i & Hg & Eg). apply in_map_iff in Hg as (x0 & Es & Hx0). subst g f0.
  assert (Ecar : frag_ids (set_id (fresh_frag (fst x0) (match snd x0 with [] => None | l => Some l end)) i) = snd x0).
  { unfold frag_ids. cbn [set_id fresh_frag f_ids]. destruct (snd x0); reflexivity. }
  rewrite Ecar in *. cbn [set_id fresh_frag f_phys f_created f_updated f_del] in *.
  rewrite A3 in Ef. apply build_version_meta_ok in Hv. rewrite A6 in Hv.
  destruct (uniform_col (fst x0) V vm Hv) as [U1 U2].
  set (ids1 := snd x0 ++ nseq a (fst x0 - nlen (snd x0))) in *.
  assert (Eids : frag_ids f = ids1) by (subst f; unfold frag_ids; cbn [set_created set_updated f_ids]; rewrite A3; reflexivity).
  assert (Ecs : cs_of f = map (created_lookup ex) ids1) by (subst f; reflexivity).
  assert (Eus : us_of f = uniform (fst x0) V) by (subst f; unfold us_of; cbn [set_created set_updated f_updated f_phys]; rewrite A6; exact U1).
  assert (Eph : f_phys f = fst x0) by (subst f; cbn; exact A6).
  assert (Hlen : nlen ids1 = fst x0) by (unfold ids1; rewrite nlen_app, nlen_nseq; lia).
  split; [|split].
  - unfold wf_frag. rewrite Eids, Ecs, Eus, Eph, nlen_map, nlen_uniform, Hlen. repeat split; auto.
    + subst f. cbn [set_created set_updated f_ids]. eexists; exact A3.
    + subst f. cbn [set_created set_updated f_created]. discriminate.
    + subst f. cbn [set_created set_updated f_updated]. exact U2.
  - subst f. cbn. exact A9.
  - intros [r [c u]] Hx. unfold prows in Hx. rewrite Eids, Ecs, Eus in Hx.
    apply in_combine_map in Hx as (H1 & H2 & H3). apply in_uniform in H3. subst c u. cbn [fst snd].
    split; [|reflexivity]. unfold ids1 in H1. apply in_app_iff in H1 as [H1|H1].
    + left. apply in_flat_map. exists x0. split; assumption.
    + right. apply in_nseq in H1. lia.
Qed.

(* ================================================================ fragments that stay (Delete / Update) *)
Lemma find_frag_some fs i f : find_frag fs i = Some f -> In f fs /\ f_id f = i.
Proof. unfold find_frag. intro H. apply find_some in H as [H1 H2]. apply N.eqb_eq in H2. auto. Qed.

Lemma find_frag_unique : forall fs f, NoDup (map f_id fs) -> In f fs -> find_frag fs (f_id f) = Some f.
Proof.
  unfold find_frag. induction fs as [|g tl IH]; intros f Hn Hf; [contradiction|].
  cbn [map] in Hn. inversion Hn as [|? ? Hnot Hn']; subst. cbn [find]. destruct (f_id g =? f_id f) eqn:E.
  - destruct Hf as [Hf|Hf]; [subst; reflexivity|]. exfalso. apply N.eqb_eq in E. apply Hnot. rewrite E. apply in_map; exact Hf.
  - destruct Hf as [Hf|Hf]; [subst; rewrite N.eqb_refl in E; discriminate | apply IH; assumption].
Qed.

Section Lowered.
  Variable k : frag -> N * list N -> frag.
  Hypothesis Hk : forall f0 x, f_id (k f0 x) = f_id f0.
  Variable ex : list frag.
  Hypothesis Hex : NoDup (map f_id ex).

  Definition lowered (upd : list (N * list N)) : list frag :=
    flat_map (fun x => match find_frag ex (fst x) with Some f0 => [k f0 x] | None => [] end) upd.

  Lemma lowered_ids upd u : In u (lowered upd) -> exists x, In x upd /\ f_id u = fst x.
  Proof.
    intro H. apply in_flat_map in H as (x & Hx & H). destruct (find_frag ex (fst x)) as [f0|] eqn:E; [|contradiction].
    destruct H as [H|[]]. subst u. apply find_frag_some in E as [_ E]. exists x. split; [exact Hx | rewrite Hk; exact E].
  Qed.

  Lemma replace_first_lowered : forall upd f, In f ex ->
    replace_first (lowered upd) f = match entry_for upd f with Some x => k f x | None => f end.
  Proof.
    intros upd f Hf. unfold replace_first, entry_for.
    assert (H : find (fun u => f_id u =? f_id f) (lowered upd) = option_map (k f) (find (fun x => fst x =? f_id f) upd)).
    { induction upd as [|x tl IH]; [reflexivity|]. cbn [lowered flat_map find]. fold (lowered tl).
      destruct (fst x =? f_id f) eqn:E.
      - apply N.eqb_eq in E. rewrite E, (find_frag_unique _ _ Hex Hf). cbn [app find]. rewrite Hk, N.eqb_refl. reflexivity.
      - destruct (find_frag ex (fst x)) as [f0|] eqn:E0; [|exact IH].
        apply find_frag_some in E0 as [_ E0]. cbn [app find]. rewrite Hk, E0, E. exact IH. }
    rewrite H. destruct (find _ upd); reflexivity.
  Qed.

  Lemma replace_all_id l f : f_id (replace_all l f) = f_id f.
  Proof.
    unfold replace_all. revert f. induction l as [|u tl IH]; intro f; cbn [fold_left]; [reflexivity|].
    rewrite IH. destruct (f_id u =? f_id f) eqn:E; [apply N.eqb_eq in E; exact E | reflexivity].
  Qed.
  Lemma replace_all_none l f : (forall u, In u l -> f_id u <> f_id f) -> replace_all l f = f.
  Proof.
    unfold replace_all. revert f. induction l as [|u tl IH]; intros f H; cbn [fold_left]; [reflexivity|].
    destruct (f_id u =? f_id f) eqn:E; [apply N.eqb_eq in E; exfalso; exact (H u (or_introl eq_refl) E)|].
    apply IH. intros v Hv. apply H. right; exact Hv.
  Qed.
  Lemma replace_all_app l1 l2 f : replace_all (l1 ++ l2) f = replace_all l2 (replace_all l1 f).
  Proof. unfold replace_all. apply fold_left_app. Qed.

  Lemma replace_all_lowered : forall upd f, NoDup (map fst upd) -> In f ex ->
    replace_all (lowered upd) f = match entry_for upd f with Some x => k f x | None => f end.
  Proof.
    unfold entry_for. induction upd as [|x tl IH]; intros f Hn Hf; [reflexivity|].
    cbn [map] in Hn. inversion Hn as [|? ? Hnot Hn']; subst.
    cbn [lowered flat_map find]. fold (lowered tl). rewrite replace_all_app. destruct (fst x =? f_id f) eqn:E.
    - apply N.eqb_eq in E. rewrite E, (find_frag_unique _ _ Hex Hf).
      assert (E1 : replace_all [k f x] f = k f x) by (unfold replace_all; cbn [fold_left]; rewrite Hk, N.eqb_refl; reflexivity).
      rewrite E1. apply replace_all_none. intros u Hu C. apply lowered_ids in Hu as (y & Hy & Ey).
      apply Hnot. rewrite E, <- (Hk f x), <- C, Ey. apply in_map; exact Hy.
    - assert (E1 : replace_all (match find_frag ex (fst x) with Some f0 => [k f0 x] | None => [] end) f = f).
      { apply replace_all_none. intros u Hu. destruct (find_frag ex (fst x)) as [f0|] eqn:E0; [|contradiction].
        destruct Hu as [Hu|[]]. subst u. apply find_frag_some in E0 as [_ E0]. rewrite Hk, E0. apply N.eqb_neq; exact E. }
      rewrite E1. apply IH; assumption.
  Qed.
End Lowered.

Lemma with_dv_lowered ex upd : flat_map (with_dv ex) upd = lowered (fun f0 x => set_del f0 (snd x)) ex upd.
Proof. reflexivity. Qed.

Definition refreshed (V prev : N) (f0 : frag) (x : N * list N) : frag :=
  if nlen (snd x) =? f_phys f0 then refresh_full f0 V else refresh_partial f0 (snd x) V prev.

Lemma rewrite_cols_lowered ex V prev rew :
  flat_map (rewrite_cols true ex V prev) rew = lowered (refreshed V prev) ex rew.
Proof.
  unfold lowered. apply flat_map_ext. intro x. unfold rewrite_cols, refreshed.
  destruct (find_frag ex (fst x)); [|reflexivity]. destruct (nlen (snd x) =? f_phys f); reflexivity.
Qed.

Lemma refreshed_id V prev f0 x : f_id (refreshed V prev f0 x) = f_id f0.
Proof.
  unfold refreshed, refresh_full, refresh_partial. destruct (nlen (snd x) =? f_phys f0); destruct (0 <? f_phys f0); reflexivity.
Qed.

(* ================================================================ in-place column rewrites *)
Lemma map_nthN_id {A} (d : A) : forall (us : list A) s,
  map (fun pos => nthN us (pos - s) d) (nseq s (nlen us)) = us.
Proof.
  induction us as [|y us IH]; intro s; [reflexivity|].
  rewrite nlen_cons, nseq_succ. cbn [map nthN]. rewrite N.sub_diag, N.eqb_refl. f_equal.
  rewrite <- (IH (s + 1)) at 2. apply map_ext_in. intros pos Hp. apply in_nseq in Hp.
  destruct (pos - s =? 0) eqn:E; [apply N.eqb_eq in E; lia|]. f_equal. lia.
Qed.
Lemma map_nthN_id0 {A} (d : A) (us : list A) : map (fun pos => nthN us pos d) (nseq 0 (nlen us)) = us.
Proof. rewrite <- (map_nthN_id d us 0) at 2. apply map_ext. intro pos. rewrite N.sub_0_r. reflexivity. Qed.

Definition retouch (us T : list N) (V : N) : list N :=
  map (fun pv : N * N => if memN (fst pv) T then V else snd pv) (combine (nseq 0 (nlen us)) us).

Lemma nlen_combine_nseq {A} (l : list A) s : nlen (combine (nseq s (nlen l)) l) = nlen l.
Proof. unfold nlen. rewrite combine_length. fold (nlen (nseq s (N.of_nat (length l)))). 
  pose proof (nlen_nseq s (N.of_nat (length l))) as H. unfold nlen in H. lia. Qed.
Lemma nlen_retouch us T V : nlen (retouch us T V) = nlen us.
Proof. unfold retouch. rewrite nlen_map. apply nlen_combine_nseq. Qed.

Lemma map_const_uniform {A} (l : list A) (v : N) : map (fun _ => v) l = uniform (nlen l) v.
Proof. unfold uniform, nlen. rewrite Nat2N.id. induction l; cbn; [reflexivity | f_equal; assumption]. Qed.

Lemma retouch_all us V : retouch us (nseq 0 (nlen us)) V = uniform (nlen us) V.
Proof.
  unfold retouch. rewrite <- (nlen_combine_nseq us 0) at 2. rewrite <- map_const_uniform.
  apply map_ext_in. intros [o u] H. apply in_combine_l in H. cbn [fst].
  assert (E : memN o (nseq 0 (nlen us)) = true) by (apply memN_true; exact H). rewrite E. reflexivity.
Qed.

Lemma combine_map_pos {B C} (g : N * B -> C) : forall (l : list B) s o y,
  In (o, y) (combine (nseq s (nlen l)) (map g (combine (nseq s (nlen l)) l))) ->
  exists u, In (o, u) (combine (nseq s (nlen l)) l) /\ y = g (o, u).
Proof.
  induction l as [|x l IH]; intros s o y H; [contradiction|].
  rewrite nlen_cons, nseq_succ in *. cbn [combine map In] in *. destruct H as [H|H].
  - inversion H; subst. exists x. split; [left; reflexivity | reflexivity].
  - destruct (IH _ _ _ H) as (u & Hu & Ey). exists u. split; [right; exact Hu | exact Ey].
Qed.

Lemma us_of_refreshed V prev f x : wf_frag f ->
  us_of (refreshed V prev f x) = retouch (us_of f) (touched_offs f (snd x)) V.
Proof.
  intros (_ & _ & _ & Hu & _ & Hn). unfold refreshed, touched_offs. destruct (nlen (snd x) =? f_phys f) eqn:E.
  - replace (nseq 0 (f_phys f)) with (nseq 0 (nlen (us_of f))) by (rewrite Hu; reflexivity).
    rewrite retouch_all, Hu. unfold refresh_full. destruct (0 <? f_phys f) eqn:Ep.
    + reflexivity.
    + apply N.ltb_ge in Ep. assert (f_phys f = 0) by lia. rewrite H in *. apply nlen_zero in Hu. rewrite Hu. reflexivity.
  - unfold refresh_partial. destruct (0 <? f_phys f) eqn:Ep.
    + unfold us_of at 1. cbn [set_updated f_updated]. unfold retouch. rewrite Hu.
      destruct (f_updated f) as [us|] eqn:Eu.
      * unfold us_of in Hu |- *. rewrite Eu in *. rewrite <- Hu. rewrite map_nthN_id0. reflexivity.
      * specialize (Hn eq_refl). apply N.ltb_lt in Ep. lia.
    + apply N.ltb_ge in Ep. assert (f_phys f = 0) by lia. rewrite H in *. apply nlen_zero in Hu. rewrite Hu. reflexivity.
Qed.

Lemma refreshed_same V prev f x :
  f_ids (refreshed V prev f x) = f_ids f /\ f_created (refreshed V prev f x) = f_created f /\
  f_phys (refreshed V prev f x) = f_phys f /\ f_del (refreshed V prev f x) = f_del f.
Proof.
  unfold refreshed, refresh_full, refresh_partial. destruct (nlen (snd x) =? f_phys f); destruct (0 <? f_phys f); repeat split; reflexivity.
Qed.

Lemma refreshed_updated_some V prev f x : f_updated (refreshed V prev f x) = None -> f_updated f = None.
Proof.
  unfold refreshed, refresh_full, refresh_partial. destruct (nlen (snd x) =? f_phys f); destruct (0 <? f_phys f); cbn; auto; discriminate.
Qed.

(* rows of a refreshed fragment, position by position *)
Lemma refreshed_rows V prev f x : wf_frag f ->
  let f' := refreshed V prev f x in
  wf_frag f' /\
  forall o r c u', In (o, (r, (c, u'))) (combine (nseq 0 (f_phys f)) (prows f')) ->
    exists u, In (o, (r, (c, u))) (combine (nseq 0 (f_phys f)) (prows f)) /\
              u' = if memN o (touched_offs f (snd x)) then V else u.
Proof.
  intros W f'. pose proof W as ((ids & Ei) & H1 & H2 & H3 & H4 & H5).
  destruct (refreshed_same V prev f x) as (S1 & S2 & S3 & S4). fold f' in S1, S2, S3, S4.
  pose proof (us_of_refreshed V prev f x W) as Eu. fold f' in Eu.
  assert (Eid : frag_ids f' = frag_ids f) by (unfold frag_ids; rewrite S1; reflexivity).
  assert (Ecs : cs_of f' = cs_of f) by (unfold cs_of; rewrite S2, S3; reflexivity).
  split.
  - unfold wf_frag. rewrite Eid, Ecs, Eu, nlen_retouch, S1, S2, S3. repeat split; auto.
    + exists ids; exact Ei.
    + intro Hn. apply H5. eapply refreshed_updated_some; exact Hn.
  - intros o r c u' H. unfold prows in *. rewrite Eid, Ecs, Eu in H.
    rewrite <- H1 in H at 1.
    apply combine3_pos in H as (P1 & P2 & P3); [|lia | rewrite nlen_retouch; lia].
    unfold retouch in P3. rewrite nlen_map, nlen_combine_nseq in P3.
    apply combine_map_pos in P3 as (u & Pu & Eu'). cbn [fst snd] in Eu'.
    exists u. split; [|exact Eu']. rewrite <- H1 at 1. apply combine3_of_pos; try lia; assumption.
Qed.

(* ================================================================ compaction *)
Lemma live_from_length {A B} : forall (a : list A) (b : list B) off del,
  length a = length b -> length (live_from off del a) = length (live_from off del b).
Proof.
  induction a as [|x a IH]; intros [|y b] off del H; cbn in H; try discriminate; [reflexivity|].
  cbn [live_from]. destruct (memN off del); cbn [length]; [|f_equal]; apply IH; lia.
Qed.

Lemma nlen_eq_length {A B} (a : list A) (b : list B) : nlen a = nlen b -> length a = length b.
Proof. unfold nlen. lia. Qed.

Lemma created_default_wf f : wf_frag f -> created_or_default f = cs_of f.
Proof.
  intros ((ids & Ei) & H1 & _). unfold created_or_default, cs_of, row_count. destruct (f_created f); [reflexivity|].
  unfold frag_ids in H1. rewrite Ei in *. rewrite H1. reflexivity.
Qed.
Lemma updated_default_wf f : wf_frag f -> updated_or_default f = us_of f.
Proof.
  intros W. pose proof W as (_ & _ & H2 & H3 & _ & H5). unfold updated_or_default, us_of.
  destruct (f_updated f); [reflexivity|]. rewrite (created_default_wf _ W). specialize (H5 eq_refl).
  rewrite H5 in *. apply nlen_zero in H2. rewrite H2. reflexivity.
Qed.

Lemma vrows_columns f : vrows f = combine (live (f_del f) (frag_ids f)) (combine (live (f_del f) (cs_of f)) (live (f_del f) (us_of f))).
Proof.
  unfold vrows, prows, live. rewrite (live_from_combine (frag_ids f) (combine (cs_of f) (us_of f))).
  rewrite (live_from_combine (cs_of f) (us_of f)). reflexivity.
Qed.

Lemma flat_map_vrows : forall olds, (forall f, In f olds -> wf_frag f) ->
  combine (flat_map (fun f => live (f_del f) (frag_ids f)) olds)
          (combine (flat_map (fun f => live (f_del f) (cs_of f)) olds) (flat_map (fun f => live (f_del f) (us_of f)) olds))
  = flat_map vrows olds.
Proof.
  induction olds as [|f tl IH]; intro W; cbn [flat_map]; [reflexivity|].
  destruct (W f (or_introl eq_refl)) as (_ & H1 & H2 & H3 & _).
  assert (L1 : length (live (f_del f) (cs_of f)) = length (live (f_del f) (us_of f)))
    by (unfold live; apply live_from_length; apply nlen_eq_length; lia).
  assert (L2 : length (live (f_del f) (frag_ids f)) = length (live (f_del f) (cs_of f)))
    by (unfold live; apply live_from_length; apply nlen_eq_length; lia).
  rewrite (combine_app _ _ _ _ L1).
  rewrite combine_app by (rewrite combine_length, <- L1, Nat.min_id; exact L2).
  rewrite IH by (intros g Hg; apply W; right; exact Hg). rewrite vrows_columns. reflexivity.
Qed.

Lemma combine_aligned {P A B C S} (g : P -> S) : forall (ps : list P) (la : list A) (lb : list B) (lc : list C) p a b c,
  In (p, ((a, b), c)) (combine ps (combine (combine la lb) lc)) ->
  In (a, g p) (combine la (map g ps)) /\ In (b, g p) (combine lb (map g ps)) /\ In (c, g p) (combine lc (map g ps)).
Proof.
  induction ps as [|p0 ps IH]; intros la lb lc p a b c H; [contradiction|].
  destruct la as [|a0 la]; [contradiction|]. destruct lb as [|b0 lb]; [contradiction|]. destruct lc as [|c0 lc]; [contradiction|].
  cbn [combine map In] in *. destruct H as [H|H].
  - inversion H; subst. repeat split; left; reflexivity.
  - destruct (IH _ _ _ _ _ _ _ H) as (X & Y & Z). repeat split; right; assumption.
Qed.

Lemma compact_rows olds news nf :
  (forall f, In f olds -> wf_frag f) -> compact_carry olds news = Ok nf ->
  forall f', In f' nf -> wf_frag f' /\ f_del f' = [] /\ forall x, In x (prows f') -> exists f, In f olds /\ In x (vrows f).
Proof.
  intros W. unfold compact_carry. destruct (forallb _ olds); [|discriminate].
  set (IDS := flat_map (fun f => live (f_del f) (match f_ids f with Some x => x | None => [] end)) olds).
  set (CS := flat_map (fun f => live (f_del f) (created_or_default f)) olds).
  set (US := flat_map (fun f => live (f_del f) (updated_or_default f)) olds).
  destruct (negb (nlen IDS =? sumN (map snd news)) || negb (nlen CS =? sumN (map snd news)) || negb (nlen US =? sumN (map snd news))) eqn:El; [discriminate|].
  apply orb_false_iff in El as [El E3]. apply orb_false_iff in El as [E1 E2].
  apply negb_false_iff in E1, E2, E3. apply N.eqb_eq in E1, E2, E3.
  intro H; inversion H; subst nf; clear H. intros f' Hf'.
  apply in_map_iff in Hf' as ([[fid size] [[a b] c]] & Ef & Hin). cbn [fst snd] in Ef. subst f'.
  pose proof (combine_aligned snd _ _ _ _ _ _ _ _ Hin) as (La & Lb & Lc). cbn [snd] in La, Lb, Lc.
  pose proof (split_sizes_len _ _ E1 _ _ La) as Na. pose proof (split_sizes_len _ _ E2 _ _ Lb) as Nb.
  pose proof (split_sizes_len _ _ E3 _ _ Lc) as Nc.
  split; [|split].
  - unfold wf_frag, frag_ids, cs_of, us_of. cbn [f_ids f_created f_updated f_phys]. repeat split; auto; try discriminate. eexists; reflexivity.
  - reflexivity.
  - intros x Hx. unfold prows, frag_ids, cs_of, us_of in Hx. cbn [f_ids f_created f_updated f_phys] in Hx.
    apply in_combine_r in Hin. pose proof (split_sizes_rows _ _ _ _ _ _ _ Hin x Hx) as Hall.
    assert (EC : CS = flat_map (fun f => live (f_del f) (cs_of f)) olds).
    { unfold CS. clear - W. induction olds as [|f tl IH]; [reflexivity|]. cbn [flat_map].
      rewrite (created_default_wf f (W f (or_introl eq_refl))), IH; [reflexivity | intros g Hg; apply W; right; exact Hg]. }
    assert (EU : US = flat_map (fun f => live (f_del f) (us_of f)) olds).
    { unfold US. clear - W. induction olds as [|f tl IH]; [reflexivity|]. cbn [flat_map].
      rewrite (updated_default_wf f (W f (or_introl eq_refl))), IH; [reflexivity | intros g Hg; apply W; right; exact Hg]. }
    assert (Eall : combine IDS (combine CS US) = flat_map vrows olds).
    { rewrite EC, EU. exact (flat_map_vrows olds W). }
    rewrite Eall in Hall. apply in_flat_map in Hall. exact Hall.
Qed.

(* ================================================================ ledger frames *)
Lemma row_ok_insert L T T' V fresh nxt vis x :
  (forall r, lget L r <> None -> r < nxt) -> (forall r, In r fresh -> nxt <= r) -> (forall r, In r T -> In r T') ->
  row_ok L T vis x -> row_ok (insert V L fresh) T' vis x.
Proof.
  intros Hb Hf Hs (c0 & u0 & H1 & H2 & H3). exists c0, u0. repeat split; auto.
  rewrite lget_insert. destruct (memN (fst x) fresh) eqn:E; [|exact H1].
  apply memN_true in E. apply Hf in E. assert (fst x < nxt) by (apply Hb; congruence). lia.
Qed.

Lemma row_ok_fresh L T V fresh r : In r fresh -> In r T -> forall c, row_ok (insert V L fresh) T true (r, (c, V)).
Proof.
  intros Hr Ht c. exists V, V. cbn [fst snd]. rewrite lget_insert.
  assert (E : memN r fresh = true) by (apply memN_true; exact Hr). rewrite E. repeat split; auto. intro C. contradiction.
Qed.

Lemma row_ok_fresh_new L T V fresh r : In r fresh -> row_ok (insert V L fresh) T true (r, (V, V)).
Proof.
  intros Hr. exists V, V. cbn [fst snd]. rewrite lget_insert.
  assert (E : memN r fresh = true) by (apply memN_true; exact Hr). rewrite E. repeat split; auto.
Qed.

Lemma row_ok_touch_created L T V ids x : row_ok L T false x -> row_ok (touch V L ids) T false x.
Proof.
  intros (c0 & u0 & H1 & H2 & _). destruct x as [r [c u]]. cbn [fst snd] in *.
  unfold row_ok. cbn [fst snd]. rewrite lget_touch. destruct (memN r ids).
  - exists c0, V. unfold created_of. rewrite H1. cbn [fst snd]. repeat split; auto. discriminate.
  - exists c0, u0. cbn [fst snd]. repeat split; auto. discriminate.
Qed.

Lemma row_ok_touch_vis L T V ids x : row_ok L T true x -> ~ In (fst x) ids -> row_ok (touch V L ids) T true x.
Proof.
  intros (c0 & u0 & H1 & H2 & H3) Hn. exists c0, u0. repeat split; auto. rewrite lget_touch.
  apply memN_false in Hn. rewrite Hn. exact H1.
Qed.

Lemma row_ok_touched L T V ids r c u : row_ok L T false (r, (c, u)) -> In r ids -> row_ok (touch V L ids) T true (r, (c, V)).
Proof.
  intros (c0 & u0 & H1 & H2 & _) Hi. cbn [fst snd] in *. exists c0, V. cbn [fst snd]. rewrite lget_touch.
  assert (E : memN r ids = true) by (apply memN_true; exact Hi). rewrite E. unfold created_of. rewrite H1. repeat split; auto.
Qed.

Lemma row_ok_vis_false L T x : row_ok L T true x -> row_ok L T false x.
Proof. intros (c0 & u0 & H1 & H2 & _). exists c0, u0. repeat split; auto. discriminate. Qed.

Lemma row_ok_false_u L T r c u u' : row_ok L T false (r, (c, u)) -> row_ok L T false (r, (c, u')).
Proof. intros (c0 & u0 & H1 & H2 & _). exists c0, u0. cbn [fst snd] in *. repeat split; auto. discriminate. Qed.

Lemma lget_touch_bound L V ids nxt :
  (forall r, lget L r <> None -> r < nxt) -> (forall r, In r ids -> r < nxt) ->
  forall r, lget (touch V L ids) r <> None -> r < nxt.
Proof.
  intros Hb Hi r H. rewrite lget_touch in H. destruct (memN r ids) eqn:E; [apply Hi; apply memN_true; exact E | apply Hb; exact H].
Qed.
Lemma lget_insert_bound L V fresh nxt nxt' :
  (forall r, lget L r <> None -> r < nxt) -> nxt <= nxt' -> (forall r, In r fresh -> r < nxt') ->
  forall r, lget (insert V L fresh) r <> None -> r < nxt'.
Proof.
  intros Hb Hle Hf r H. rewrite lget_insert in H. destruct (memN r fresh) eqn:E; [apply Hf; apply memN_true; exact E|].
  specialize (Hb r H). lia.
Qed.

Lemma live_nil {A} (l : list A) : live [] l = l.
Proof. unfold live. generalize 0. induction l as [|x l IH]; intro off; cbn [live_from memN existsb]; [reflexivity | f_equal; apply IH]. Qed.

Lemma nlen_prows f : wf_frag f -> nlen (prows f) = f_phys f.
Proof.
  intros (_ & H1 & H2 & H3 & _). unfold prows, vrow. unfold nlen in *.
  rewrite !combine_length. lia.
Qed.

(* a visible row, with its offset *)
Lemma vrows_pos f x : wf_frag f -> In x (vrows f) <->
  exists o, In (o, x) (combine (nseq 0 (f_phys f)) (prows f)) /\ memN o (f_del f) = false.
Proof. intro W. unfold vrows, live. rewrite live_from_pos, (nlen_prows f W). reflexivity. Qed.

Lemma prows_pos f o r c u : wf_frag f -> In (o, (r, (c, u))) (combine (nseq 0 (f_phys f)) (prows f)) ->
  nthN (frag_ids f) o 0 = r /\ nth_optN (frag_ids f) o = Some r /\ o < f_phys f.
Proof.
  intros W H. pose proof W as (_ & H1 & H2 & H3 & _). unfold prows in H. rewrite <- H1 in H at 1.
  apply combine3_pos in H as (P1 & _ & _); try lia.
  pose proof (in_combine_nseq_bounds _ _ _ _ _ P1) as Hb. pose proof (combine_nseq_nthN _ _ _ _ 0 P1) as En.
  rewrite N.sub_0_r in En. split; [exact En|]. split; [|lia]. rewrite (nthN_nth_optN _ _ 0) by lia. f_equal; exact En.
Qed.

(* the address-decoding lookup of the Update arm is right for a row id that is its own address *)
Lemma created_lookup_addr_ok cur L T r :
  (forall f, In f (m_frags cur) -> wf_frag f) ->
  (forall f x, In f (m_frags cur) -> In x (prows f) -> row_ok L T false x) ->
  addr_ok cur r = true -> ~ In r T ->
  exists c0 u0, lget L r = Some (c0, u0) /\ created_lookup (m_frags cur) r = c0.
Proof.
  intros W I2 Ha Hn. unfold addr_ok, created_lookup in *.
  destruct (find_frag_last (m_frags cur) (N.shiftr r 32)) as [f|] eqn:Ef; [|discriminate].
  assert (Hf : In f (m_frags cur)).
  { unfold find_frag_last in Ef. apply find_some in Ef as [Ef _]. apply in_rev. exact Ef. }
  destruct (nth_optN (frag_ids f) (N.land r (two32 - 1))) as [r'|] eqn:En; [|discriminate].
  apply N.eqb_eq in Ha. subst r'. set (off := N.land r (two32 - 1)) in *.
  pose proof (W f Hf) as Wf. pose proof Wf as (_ & H1 & H2 & H3 & H4 & _).
  destruct (nth_optN_nthN _ _ 0 _ En) as [E1 Hlt].
  assert (Ecs : match f_created f with Some cs => nthN cs off 1 | None => 1 end = nthN (cs_of f) off 1).
  { unfold cs_of. destruct (f_created f); [reflexivity|]. specialize (H4 eq_refl). lia. }
  rewrite Ecs.
  assert (Hrow : In (r, (nthN (cs_of f) off 1, nthN (us_of f) off 0)) (prows f)).
  { unfold prows. apply (in_combine_r (nseq 0 (nlen (frag_ids f)))) with (x := 0 + off).
    apply combine3_of_pos; try lia.
    - rewrite <- E1. apply nthN_in_combine. lia.
    - apply nthN_in_combine. lia.
    - apply nthN_in_combine. lia. }
  destruct (I2 f _ Hf Hrow) as (c0 & u0 & G1 & G2 & _). cbn [fst snd] in *. exists c0, u0. split; [exact G1 | apply G2; exact Hn].
Qed.

(* ================================================================ one step preserves the invariant *)
Lemma rewrite_groups_in2 : forall gs final fid final' fid',
  rewrite_groups final fid gs = Ok (final', fid') ->
  forall f', In f' final' -> In f' final \/ exists g f i, In g gs /\ In f (snd g) /\ f' = set_id f i.
Proof.
  induction gs as [|g tl IH]; intros final fid final' fid' H f' Hf'; cbn [rewrite_groups] in H.
  - inversion H; subst. left; exact Hf'.
  - apply bind_ok in H as ([f1 fid1] & H1 & H2). cbn [fst snd] in H2.
    destruct (IH _ _ _ _ H2 f' Hf') as [Hl|(g0 & f & i & Hg0 & Hin & E)].
    + destruct (rewrite_group_in _ _ _ _ _ H1 f' Hl) as [Hx|Hx]; [left; exact Hx|].
      destruct (fragments_with_ids_in _ _ _ Hx) as (f & i & Hf & E). right. exists g, f, i. split; [left; reflexivity | split; assumption].
    + right. exists g0, f, i. split; [right; exact Hg0 | split; assumption].
Qed.

Lemma lower_groups_in ex : forall gs0 gs, lower_groups true ex gs0 = Ok gs ->
  forall g, In g gs -> exists g0, In g0 gs0 /\
    compact_carry (flat_map (fun i => match find_frag ex i with Some f => [f] | None => [] end) (fst g0)) (snd g0) = Ok (snd g).
Proof.
  induction gs0 as [|g0 tl IH]; intros gs H g Hg; cbn [lower_groups] in H.
  - inversion H; subst. contradiction.
  - apply bind_ok in H as (g1 & H1 & H). apply bind_ok in H as (tl' & Ht & H). inversion H; subst.
    destruct Hg as [Hg|Hg].
    + subst g. unfold lower_group in H1. apply bind_ok in H1 as (nf & Hc & H1). inversion H1; subst. cbn [snd].
      exists g0. split; [left; reflexivity | exact Hc].
    + destruct (IH _ Ht _ Hg) as (g2 & A & B). exists g2. split; [right; exact A | exact B].
Qed.

Lemma set_id_same f i : same_rows f (set_id f i) /\ f_del (set_id f i) = f_del f.
Proof. repeat split. Qed.

Lemma forallb_nseq (p : N -> bool) n o : forallb p (nseq 0 n) = true -> o < n -> p o = true.
Proof. intros H Ho. rewrite forallb_forall in H. apply H. apply in_nseq. lia. Qed.

Lemma step_inv17 st cur tl o m' L lh T :
  Inv cur L T -> NoDup (map f_id (m_frags cur)) ->
  step st (cur :: tl) o = Ok m' -> is_restore o = false -> op_ok cur o = true -> op_ok17 cur o = true ->
  Inv m' (spec_step (m_version m') (Some cur) (handed_out (cur :: tl) m') L lh o)
         (T ++ taint_step (Some cur) (handed_out (cur :: tl) m') o).
Proof.
  intros (I0 & I1 & I2 & I3 & I4) Hnd Hs Hr Hok Hok17.
  destruct (step_shape _ _ _ _ _ I0 Hs Hr) as (t & final & nr' & Hl & Harm & Hfin & Hnext & Hver & Hst).
  pose proof (build_arm_ids _ _ _ _ _ _ _ Harm) as (Hle & _ & _).
  unfold handed_out. cbn [next_of]. rewrite Hnext. set (fresh := nseq (m_next cur) (nr' - m_next cur)).
  assert (Hfresh : forall r, In r fresh <-> m_next cur <= r < nr') by (intro r; unfold fresh; rewrite in_nseq; lia).
  rewrite Hver. set (V := m_version cur + 1).
  assert (HT : forall T2 r, In r T -> In r (T ++ T2)) by (intros T2 r Hr0; apply in_or_app; left; exact Hr0).
  destruct o as [sizes|sizes|upd gone|removed upd news|rew|groups|n| |v]; cbn [lower] in Hl; try discriminate;
    cbn [spec_step taint_step].
  - (* ---- append *)
    inversion Hl; subst t; clear Hl. cbn [build_arm] in Harm.
    apply bind_ok in Harm as ([nr1 nf1] & H1 & Harm). cbn [fst snd] in Harm. apply bind_ok in Harm as (nf2 & H2 & Harm).
    inversion Harm; subst final nr1; clear Harm. rewrite app_nil_r.
    apply Inv_intro; [exact Hst | | rewrite Hnext; apply (lget_insert_bound L V fresh (m_next cur) nr' I4 Hle); intros r Hr0; apply Hfresh in Hr0; lia].
    intros f' Hf'. apply Hfin in Hf'. apply in_app_iff in Hf' as [Hf'|Hf'].
    + split; [apply I1; exact Hf'|]. split; intros x Hx.
      * eapply row_ok_insert; [exact I4 | intros r Hr0; apply Hfresh in Hr0; lia | intros r Hr0; exact Hr0 | exact (I2 f' x Hf' Hx)].
      * eapply row_ok_insert; [exact I4 | intros r Hr0; apply Hfresh in Hr0; lia | intros r Hr0; exact Hr0 | exact (I3 f' x Hf' Hx)].
    + unfold V. destruct (appended_frags _ _ _ _ _ _ _ H1 H2 f' Hf') as (W & Hd & Hrows).
      split; [exact W|]. 
      assert (Hall : forall x, In x (prows f') -> row_ok (insert (m_version cur + 1) L fresh) T true x).
      { intros [r cu] Hx. destruct (Hrows _ Hx) as [Hb Ecu]. cbn [fst snd] in *. subst cu.
        apply row_ok_fresh_new. apply Hfresh. exact Hb. }
      split; intros x Hx; [apply row_ok_vis_false; apply Hall; exact Hx | apply Hall; apply in_vrows_prows; exact Hx].
  - (* ---- overwrite *)
    inversion Hl; subst t; clear Hl. cbn [build_arm] in Harm.
    apply bind_ok in Harm as ([nr1 nf1] & H1 & Harm). cbn [fst snd] in Harm. apply bind_ok in Harm as (nf2 & H2 & Harm).
    inversion Harm; subst final nr1; clear Harm. rewrite app_nil_r.
    apply Inv_intro; [exact Hst | | rewrite Hnext; apply (lget_insert_bound L V fresh (m_next cur) nr' I4 Hle); intros r Hr0; apply Hfresh in Hr0; lia].
    intros f' Hf'. apply Hfin in Hf'.
    unfold V. destruct (appended_frags _ _ _ _ _ _ _ H1 H2 f' Hf') as (W & Hd & Hrows).
    split; [exact W|].
    assert (Hall : forall x, In x (prows f') -> row_ok (insert (m_version cur + 1) L fresh) T true x).
    { intros [r cu] Hx. destruct (Hrows _ Hx) as [Hb Ecu]. cbn [fst snd] in *. subst cu.
      apply row_ok_fresh_new. apply Hfresh. exact Hb. }
    split; intros x Hx; [apply row_ok_vis_false; apply Hall; exact Hx | apply Hall; apply in_vrows_prows; exact Hx].
  - (* ---- delete *)
    inversion Hl; subst t; clear Hl. cbn [build_arm] in Harm. inversion Harm; subst final nr'; clear Harm. rewrite app_nil_r.
    cbn [op_ok17] in Hok17. apply andb_true_iff in Hok17 as [Hnu Hgrow]. apply nodupb_NoDup in Hnu.
    apply Inv_intro; [exact Hst | | intros r0 Hr0; pose proof (I4 r0 Hr0); lia].
    intros f' Hf'. apply Hfin in Hf'. apply in_map_iff in Hf' as (f & Ef & Hf). apply filter_In in Hf as [Hf _].
    rewrite with_dv_lowered in Ef. rewrite (replace_all_lowered (fun f0 x => set_del f0 (snd x)) (fun f0 x => eq_refl) _ Hnd upd f Hnu Hf) in Ef.
    assert (Hsame : same_rows f f' /\ (forall o, In o (f_del f) -> In o (f_del f'))).
    { unfold dv_grows in Hgrow. rewrite forallb_forall in Hgrow. specialize (Hgrow f Hf). unfold dv_after in Hgrow.
      destruct (entry_for upd f) as [x|]; subst f'.
      - split; [repeat split|]. intros o Ho. cbn [set_del f_del]. eapply subsetN_in; eauto.
      - split; [repeat split | auto]. }
    destruct Hsame as [Hsame Hdel].
    split; [eapply same_rows_wf; eauto|]. split; intros x Hx.
    + rewrite (same_rows_prows _ _ Hsame) in Hx. eapply I2; eauto.
    + eapply I3; [exact Hf|]. eapply same_rows_vrows; eauto.
  - (* ---- update (rewrite rows) *)
    inversion Hl; subst t; clear Hl. cbn [build_arm] in Harm.
    apply bind_ok in Harm as ([nr1 nf1] & H1 & Harm). cbn [fst snd] in Harm. apply bind_ok in Harm as (nf2 & H2 & Harm).
    inversion Harm; subst final nr1; clear Harm.
    cbn [op_ok17] in Hok17. apply andb_true_iff in Hok17 as [Hok17 Hgone]. apply andb_true_iff in Hok17 as [Hnu Hgrow].
    apply nodupb_NoDup in Hnu. cbn [op_ok] in Hok.
    set (carried := flat_map snd news) in *. set (L1 := touch V L carried).
    assert (Hcar : forall r, In r carried -> In r (all_ids cur)).
    { intros r Hr0. unfold carried in Hr0. apply in_flat_map in Hr0 as (x & Hx & Hr0). rewrite forallb_forall in Hok.
      specialize (Hok x Hx). rewrite forallb_forall in Hok. apply memN_true. apply Hok; exact Hr0. }
    assert (Hphys : forall r, In r (all_ids cur) -> exists c0 u0, lget L r = Some (c0, u0)).
    { intros r Hr0. unfold all_ids in Hr0. apply in_flat_map in Hr0 as (f & Hf & Hr0).
      pose proof (I1 f Hf) as (_ & A1 & A2 & A3 & _).
      assert (exists cu, In (r, cu) (prows f)) as (cu & Hcu).
      { unfold prows. destruct (in_combine_pos _ 0 _ Hr0) as (o & Ho).
        pose proof (in_combine_nseq_bounds _ _ _ _ _ Ho) as Hb.
        exists (nthN (cs_of f) o 1, nthN (us_of f) o 0).
        apply (in_combine_r (nseq 0 (nlen (frag_ids f)))) with (x := o). apply combine3_of_pos; try lia; [exact Ho | |].
        - replace o with (0 + o) at 1 by lia. apply nthN_in_combine. lia.
        - replace o with (0 + o) at 1 by lia. apply nthN_in_combine. lia. }
      destruct (I2 f _ Hf Hcu) as (c0 & u0 & G & _). exists c0, u0. exact G. }
    assert (Hcarlt : forall r, In r carried -> r < m_next cur).
    { intros r Hr0. destruct (Hphys r (Hcar r Hr0)) as (c0 & u0 & G). apply I4. congruence. }
    assert (HL1 : forall r, lget L1 r <> None -> r < m_next cur) by (apply lget_touch_bound; assumption).
    apply Inv_intro; [exact Hst | | rewrite Hnext; apply (lget_insert_bound L1 V fresh (m_next cur) nr' HL1 Hle); intros r Hr0; apply Hfresh in Hr0; lia].
    intros f' Hf'. apply Hfin in Hf'. apply in_app_iff in Hf' as [Hf'|Hf'].
    + (* a fragment that stays *)
      apply in_map_iff in Hf' as (f & Ef & Hf). apply filter_In in Hf as [Hf Hrem]. apply negb_true_iff in Hrem.
      rewrite with_dv_lowered in Ef. rewrite (replace_first_lowered (fun f0 x => set_del f0 (snd x)) (fun f0 x => eq_refl) _ Hnd upd f Hf) in Ef.
      assert (Hsame : same_rows f f' /\ (forall o, In o (f_del f) -> In o (f_del f')) /\ f_del f' = dv_after upd f).
      { unfold dv_grows in Hgrow. rewrite forallb_forall in Hgrow. specialize (Hgrow f Hf). unfold dv_after in *.
        destruct (entry_for upd f) as [x|]; subst f'.
        - split; [repeat split|]. split; [|reflexivity]. intros o Ho. cbn [set_del f_del]. eapply subsetN_in; eauto.
        - split; [repeat split | auto]. }
      destruct Hsame as (Hsame & Hdel & Edv).
      pose proof (same_rows_wf _ _ Hsame (I1 f Hf)) as W'.
      split; [exact W'|]. split; intros x Hx.
      * rewrite (same_rows_prows _ _ Hsame) in Hx.
        eapply (row_ok_insert L1 T); [exact HL1 | intros r Hr0; apply Hfresh in Hr0; lia | intros r Hr0; apply HT; exact Hr0 |].
        unfold L1. apply row_ok_touch_created. exact (I2 f x Hf Hx).
      * (* visible afterwards: not one of the rewritten rows *)
        assert (Hnot : ~ In (fst x) carried).
        { apply (vrows_pos _ _ W') in Hx as (o & Ho & Hdv). rewrite (same_rows_prows _ _ Hsame) in Ho.
          destruct Hsame as (_ & _ & _ & Eph). rewrite Eph in Ho. destruct x as [r [c u]].
          destruct (prows_pos _ _ _ _ _ (I1 f Hf) Ho) as (En & _ & Hlt).
          rewrite forallb_forall in Hgone. specialize (Hgone f Hf). rewrite Hrem in Hgone. cbn [orb] in Hgone.
          pose proof (forallb_nseq _ _ o Hgone Hlt) as Hp. cbn beta in Hp. rewrite <- Edv, Hdv, En in Hp. cbn [orb] in Hp.
          apply negb_true_iff in Hp. apply memN_false in Hp. exact Hp. }
        eapply (row_ok_insert L1 T); [exact HL1 | intros r Hr0; apply Hfresh in Hr0; lia | intros r Hr0; apply HT; exact Hr0 |].
        unfold L1. apply row_ok_touch_vis; [|exact Hnot]. apply (I3 f x Hf). eapply same_rows_vrows; eauto.
    + (* a new fragment: rewritten rows, then inserted rows *)
      unfold V in *.
      destruct (updated_frags _ _ _ _ _ _ _ _ H1 H2 f' Hf') as (W & Hd & Hrows).
      split; [exact W|].
      assert (Hall : forall x, In x (prows f') ->
                row_ok (insert (m_version cur + 1) L1 fresh) (T ++ filter (fun r => negb (addr_ok cur r)) carried ++ fresh) true x).
      { intros [r [c u]] Hx. destruct (Hrows _ Hx) as [Hor Ecu]. cbn [fst snd] in *. inversion Ecu; subst c u; clear Ecu.
        destruct Hor as [Hc|Hb].
        - (* carried *)
          pose proof (Hcarlt r Hc) as Hlt.
          destruct (Hphys r (Hcar r Hc)) as (c0 & u0 & G).
          exists c0, (m_version cur + 1). cbn [fst snd]. rewrite lget_insert.
          assert (E : memN r fresh = false) by (apply memN_false; intro C; apply Hfresh in C; lia). rewrite E.
          unfold L1. rewrite lget_touch. assert (E2 : memN r carried = true) by (apply memN_true; exact Hc). rewrite E2.
          unfold created_of. rewrite G. cbn [fst]. split; [reflexivity|]. split; [|intros _; reflexivity].
          intro Hn. assert (Ha : addr_ok cur r = true).
          { destruct (addr_ok cur r) eqn:Ea; [reflexivity|]. exfalso. apply Hn. apply in_or_app. right. apply in_or_app. left.
            apply filter_In. split; [exact Hc | rewrite Ea; reflexivity]. }
          assert (HnT : ~ In r T) by (intro C; apply Hn; apply in_or_app; left; exact C).
          destruct (created_lookup_addr_ok cur L T r I1 I2 Ha HnT) as (c1 & u1 & G1 & G2). congruence.
        - (* inserted *)
          apply row_ok_fresh; [apply Hfresh; exact Hb|]. apply in_or_app. right. apply in_or_app. right. apply Hfresh; exact Hb. }
      split; intros x Hx; [apply row_ok_vis_false; apply Hall; exact Hx | apply Hall; apply in_vrows_prows; exact Hx].
  - (* ---- in-place column rewrite *)
    inversion Hl; subst t; clear Hl. rewrite I0 in Harm. cbn [build_arm fragments_with_ids fst assign_row_ids bind snd stamp_updated] in Harm.
    inversion Harm; subst final nr'; clear Harm. rewrite app_nil_r.
    cbn [op_ok17] in Hok17. apply andb_true_iff in Hok17 as [Hnu Hpos]. apply nodupb_NoDup in Hnu.
    set (U := rewritten_ids cur rew) in *.
    apply Inv_intro; [exact Hst | |].
    2:{ intros r0 Hr00. assert (r0 < m_next cur); [|lia]. revert r0 Hr00.
        apply lget_touch_bound; [exact I4|]. intros r Hr0. unfold U, rewritten_ids in Hr0.
        apply in_flat_map in Hr0 as (x & Hx & Hr0). destruct (find_frag (m_frags cur) (fst x)) as [f|] eqn:Ef; [|contradiction].
        apply find_frag_some in Ef as [Hf _]. unfold ids_at in Hr0. apply in_flat_map in Hr0 as (o & _ & Hr0).
        destruct (nth_optN (frag_ids f) o) as [r'|] eqn:En; [|contradiction]. destruct Hr0 as [Hr0|[]]. subst r'.
        pose proof (I1 f Hf) as Wf. pose proof Wf as (_ & A1 & A2 & A3 & _).
        destruct (nth_optN_nthN _ _ 0 _ En) as [E1 Hlt].
        assert (Hrow : In (r, (nthN (cs_of f) o 1, nthN (us_of f) o 0)) (prows f)).
        { unfold prows. apply (in_combine_r (nseq 0 (nlen (frag_ids f)))) with (x := 0 + o).
          apply combine3_of_pos; try lia; [rewrite <- E1|..]; apply nthN_in_combine; lia. }
        destruct (I2 f _ Hf Hrow) as (c0 & u0 & G & _). apply I4. cbn [fst] in G. congruence. }
    intros f' Hf'. apply Hfin in Hf'. rewrite app_nil_r in Hf'.
    apply in_map_iff in Hf' as (f & Ef & Hf). apply filter_In in Hf as [Hf _].
    rewrite rewrite_cols_lowered in Ef.
    rewrite (replace_first_lowered _ (refreshed_id (m_version cur + 1) (m_version cur)) _ Hnd rew f Hf) in Ef.
    pose proof (I1 f Hf) as Wf.
    rewrite forallb_forall in Hpos. specialize (Hpos f Hf). cbn zeta in Hpos.
    unfold V.
    destruct (entry_for rew f) as [x0|] eqn:Een.
    + (* rewritten fragment *)
      subst f'. destruct (refreshed_rows (m_version cur + 1) (m_version cur) f x0 Wf) as [W' Hrows].
      destruct (refreshed_same (m_version cur + 1) (m_version cur) f x0) as (_ & _ & Sph & Sdel).
      split; [exact W'|]. split; intros [r [c u']] Hx.
      * destruct (in_combine_pos _ 0 _ Hx) as (o & Ho). rewrite (nlen_prows _ W'), Sph in Ho.
        destruct (Hrows _ _ _ _ Ho) as (u & Hu & _). apply in_combine_r in Hu.
        apply row_ok_touch_created. eapply row_ok_false_u. eapply I2; eauto.
      * apply (vrows_pos _ _ W') in Hx as (o & Ho & Hdv). rewrite Sph in Ho. rewrite Sdel in Hdv.
        destruct (Hrows _ _ _ _ Ho) as (u & Hu & Eu').
        destruct (prows_pos _ _ _ _ _ Wf Hu) as (En & Eno & Hlt).
        pose proof (forallb_nseq _ _ o Hpos Hlt) as Hp. cbn beta in Hp. rewrite Hdv, En in Hp. cbn [orb] in Hp.
        assert (Hvis : In (r, (c, u)) (vrows f)) by (apply (vrows_pos _ _ Wf); exists o; split; assumption).
        destruct (memN o (touched_offs f (snd x0))) eqn:Et; subst u'.
        -- (* touched: the id is one of the rewritten ids *)
           apply (row_ok_touched L T _ U r c u); [eapply I2; [exact Hf | apply in_combine_r in Hu; exact Hu]|].
           unfold U, rewritten_ids. apply in_flat_map. unfold entry_for in Een. apply find_some in Een as [Hx0 Eid].
           apply N.eqb_eq in Eid. exists x0. split; [exact Hx0|]. rewrite Eid, (find_frag_unique _ _ Hnd Hf).
           unfold ids_at. apply in_flat_map. exists o. split; [apply memN_true; exact Et | rewrite Eno; left; reflexivity].
        -- cbn [orb] in Hp. apply negb_true_iff in Hp. apply memN_false in Hp.
           apply row_ok_touch_vis; [eapply I3; eauto | exact Hp].
    + (* untouched fragment *)
      subst f'. split; [exact Wf|]. split; intros x Hx.
      * apply row_ok_touch_created. eapply I2; eauto.
      * apply row_ok_touch_vis; [eapply I3; eauto|].
        apply (vrows_pos _ _ Wf) in Hx as (o & Ho & Hdv). destruct x as [r [c u]].
        destruct (prows_pos _ _ _ _ _ Wf Ho) as (En & _ & Hlt).
        pose proof (forallb_nseq _ _ o Hpos Hlt) as Hp. cbn beta in Hp. rewrite Hdv, En in Hp. cbn [orb memN existsb] in Hp.
        apply negb_true_iff in Hp. apply memN_false in Hp. exact Hp.
  - (* ---- compaction *)
    rewrite I0 in Hl. apply bind_ok in Hl as (gs & Hg & Hl). inversion Hl; subst t; clear Hl. cbn [build_arm] in Harm.
    apply bind_ok in Harm as ([f1 fid1] & H1 & Harm). cbn [fst snd] in Harm. inversion Harm; subst final nr'; clear Harm. rewrite app_nil_r.
    apply Inv_intro; [exact Hst | | intros r0 Hr0; pose proof (I4 r0 Hr0); lia].
    intros f' Hf'. apply Hfin in Hf'.
    destruct (rewrite_groups_in2 _ _ _ _ _ H1 f' Hf') as [Hex|(g & f & i & Hgin & Hfin2 & Ef)].
    + split; [apply I1; exact Hex|]. split; intros x Hx; [eapply I2 | eapply I3]; eauto.
    + destruct (lower_groups_in _ _ _ Hg g Hgin) as (g0 & _ & Hc).
      assert (Wolds : forall f0, In f0 (flat_map (fun i0 => match find_frag (m_frags cur) i0 with Some f2 => [f2] | None => [] end) (fst g0)) ->
                                 wf_frag f0 /\ In f0 (m_frags cur)).
      { intros f0 H0. apply in_flat_map in H0 as (i0 & _ & H0). destruct (find_frag (m_frags cur) i0) as [f2|] eqn:E2; [|contradiction].
        destruct H0 as [H0|[]]. subst f2. apply find_frag_some in E2 as [E2 _]. split; [apply I1|]; exact E2. }
      destruct (compact_rows _ _ _ (fun f0 H0 => proj1 (Wolds f0 H0)) Hc f Hfin2) as (W & Hd & Hrows).
      destruct (set_id_same f i) as [Ss Sd]. subst f'.
      split; [eapply same_rows_wf; eauto|].
      assert (Hall : forall x, In x (prows f) -> row_ok L T true x).
      { intros x Hx. destruct (Hrows x Hx) as (f0 & Hf0 & Hv). eapply I3; [apply (Wolds f0 Hf0) | exact Hv]. }
      split; intros x Hx.
      * rewrite (same_rows_prows _ _ Ss) in Hx. apply row_ok_vis_false. apply Hall; exact Hx.
      * apply in_vrows_prows in Hx. rewrite (same_rows_prows _ _ Ss) in Hx. apply Hall; exact Hx.
  - (* ---- reserve fragment ids *)
    inversion Hl; subst t; clear Hl. cbn [build_arm] in Harm. inversion Harm; subst final nr'; clear Harm. rewrite app_nil_r.
    apply Inv_intro; [exact Hst | | intros r0 Hr0; pose proof (I4 r0 Hr0); lia].
    intros f' Hf'. apply Hfin in Hf'. split; [apply I1; exact Hf'|]. split; intros x Hx; [eapply I2 | eapply I3]; eauto.
  - (* ---- no-op on fragments *)
    inversion Hl; subst t; clear Hl. cbn [build_arm] in Harm. inversion Harm; subst final nr'; clear Harm. rewrite app_nil_r.
    apply Inv_intro; [exact Hst | | intros r0 Hr0; pose proof (I4 r0 Hr0); lia].
    intros f' Hf'. apply Hfin in Hf'. split; [apply I1; exact Hf'|]. split; intros x Hx; [eapply I2 | eapply I3]; eauto.
Qed.

(* ================================================================ creation and restore *)
Lemma create_inv o m' :
  step true [] o = Ok m' ->
  Inv m' (spec_step (m_version m') None (handed_out [] m') [] [] o) ([] ++ taint_step None (handed_out [] m') o)
  /\ m_version m' = 1.
Proof.
  cbn [step]. destruct o; try discriminate. intro H. unfold build_manifest in H. cbn [andb negb is_overwrite] in H.
  apply bind_ok in H as ([final onr'] & Harm & H). cbn [fst snd] in H.
  destruct ((existsb has_ids (sort_frags final) || true) && negb (forallb has_ids (sort_frags final))); [discriminate|].
  apply bind_ok in H as (mf & _ & H).
  cbn [existing_of start_fid start_nr new_version_of is_overwrite build_arm] in Harm.
  apply bind_ok in Harm as ([nr1 nf1] & H1 & Harm). cbn [fst snd] in Harm. apply bind_ok in Harm as (nf2 & H2 & Harm).
  inversion Harm; subst final onr'; clear Harm. inversion H; subst m'; clear H.
  cbn [m_version m_next new_version_of next_of spec_step taint_step app]. split; [|reflexivity].
  unfold handed_out. cbn [next_of m_next]. rewrite N.sub_0_r.
  apply Inv_intro; cbn [m_stable m_frags m_next].
  - apply orb_true_r.
  - intros f' Hf'. apply (proj1 (in_sort_frags _ _)) in Hf'.
    destruct (appended_frags _ _ _ _ _ _ _ H1 H2 f' Hf') as (W & Hd & Hrows). split; [exact W|].
    assert (Hall : forall x, In x (prows f') -> row_ok (insert 1 [] (nseq 0 nr1)) [] true x).
    { intros [r cu] Hx. destruct (Hrows _ Hx) as [Hb Ecu]. cbn [fst snd] in *. subst cu.
      apply row_ok_fresh_new. apply in_nseq. lia. }
    split; intros x Hx; [apply row_ok_vis_false; apply Hall; exact Hx | apply Hall; apply in_vrows_prows; exact Hx].
  - intros r Hr. rewrite lget_insert in Hr. destruct (memN r (nseq 0 nr1)) eqn:E; [|cbn in Hr; congruence].
    apply memN_true in E. apply in_nseq in E. lia.
Qed.

Lemma restore_inv latest old L T : Inv old L T -> Inv (restore latest old) L T.
Proof.
  intros (I0 & I1 & I2 & I3 & I4). unfold Inv. cbn [restore m_stable m_frags m_next].
  split; [exact I0|]. split; [exact I1|]. split; [exact I2|]. split; [exact I3|].
  intros r Hr. specialize (I4 r Hr). lia.
Qed.

(* ================================================================ the whole history *)
Definition SInv (s : sstate) : Prop :=
  let '(h, L, lh, T) := s in
  match h with
  | [] => L = [] /\ lh = [] /\ T = []
  | latest :: _ =>
      lfind lh (m_version latest) = Some L /\
      (forall m, In m h -> exists Lm, lfind lh (m_version m) = Some Lm /\ Inv m Lm T) /\
      (forall m, In m h -> m_version m <= m_version latest)
  end.

Lemma spec_from_incl st : forall ops h L lh T h' L' lh' T',
  spec_from st (h, L, lh, T) ops = Ok (h', L', lh', T') -> incl h h'.
Proof.
  induction ops as [|o tl IH]; intros h L lh T h' L' lh' T' H; cbn [spec_from] in H.
  - inversion H; subst. apply incl_refl.
  - apply bind_ok in H as (m & _ & H). intros x Hx. apply (IH _ _ _ _ _ _ _ _ H). right; exact Hx.
Qed.

Lemma step_version st cur tl o m' : step st (cur :: tl) o = Ok m' -> m_version m' = m_version cur + 1.
Proof.
  intro Hs. destruct (is_restore o) eqn:Er.
  - destruct o; try discriminate. cbn [step] in Hs. destruct (find_version (cur :: tl) v); [|discriminate].
    inversion Hs; subst. reflexivity.
  - assert (Hs' : bind (lower cur o) (fun t => build_manifest (Some cur) (m_stable cur) t) = Ok m')
      by (destruct o; try discriminate; exact Hs).
    apply bind_ok in Hs' as (t & _ & Hb). apply build_manifest_ids in Hb as (_ & _ & _ & Hv & _). exact Hv.
Qed.

Lemma spec_step_inv cur tl L lh T o m' :
  SInv (cur :: tl, L, lh, T) -> NoDup (map f_id (m_frags cur)) ->
  step true (cur :: tl) o = Ok m' -> op_ok cur o = true -> op_ok17 cur o = true ->
  let fresh := handed_out (cur :: tl) m' in
  let L' := spec_step (m_version m') (Some cur) fresh L lh o in
  SInv (m' :: cur :: tl, L', (m_version m', L') :: lh, T ++ taint_step (Some cur) fresh o).
Proof.
  intros (HL & Hall & Hver) Hnd Hs Hok Hok17 fresh L'.
  pose proof (step_version _ _ _ _ _ Hs) as Hv.
  assert (Hnew : Inv m' L' (T ++ taint_step (Some cur) fresh o)).
  { destruct (Hall cur (or_introl eq_refl)) as (Lc & Ec & Ic). rewrite HL in Ec. inversion Ec; subst Lc.
    destruct (is_restore o) eqn:Er.
    - destruct o; try discriminate. cbn [step] in Hs. destruct (find_version (cur :: tl) v) as [old|] eqn:Ef; [|discriminate].
      inversion Hs; subst m'. apply find_version_in in Ef as [Hin Evo].
      destruct (Hall old Hin) as (Lo & Eo & Io). unfold L'. cbn [spec_step taint_step]. rewrite <- Evo, Eo, app_nil_r.
      apply restore_inv. exact Io.
    - unfold L', fresh. eapply step_inv17; eauto. }
  cbn [SInv]. split; [rewrite lfind_cons, N.eqb_refl; reflexivity|]. split.
  - intros m [Hm|Hm].
    + subst m. exists L'. split; [rewrite lfind_cons, N.eqb_refl; reflexivity | exact Hnew].
    + destruct (Hall m Hm) as (Lm & Em & Im). exists Lm. split.
      * rewrite lfind_cons. specialize (Hver m Hm). destruct (m_version m' =? m_version m) eqn:E; [apply N.eqb_eq in E; lia | exact Em].
      * eapply Inv_weaken; [|exact Im]. intros r Hr. apply in_or_app. left; exact Hr.
  - intros m [Hm|Hm]; [subst; lia | specialize (Hver m Hm); lia].
Qed.

Lemma spec_from_inv : forall ops h L lh T s',
  SInv (h, L, lh, T) -> spec_from true (h, L, lh, T) ops = Ok s' -> run_ok17 true h ops = true ->
  (forall m, In m (fst (fst (fst s'))) -> NoDup (map f_id (m_frags m))) -> SInv s'.
Proof.
  induction ops as [|o tl IH]; intros h L lh T s' Hinv Hr Hok Hnd; cbn [spec_from run_ok17] in *.
  - inversion Hr; subst. exact Hinv.
  - apply bind_ok in Hr as (m' & Hs & Hr). rewrite Hs in Hok. apply andb_true_iff in Hok as [Ho Hok].
    destruct s' as [[[h' L'] lh'] T']. cbn [fst] in Hnd.
    pose proof (spec_from_incl _ _ _ _ _ _ _ _ _ _ Hr) as Hincl.
    eapply IH; [|exact Hr|exact Hok|exact Hnd].
    destruct h as [|cur tl0].
    + cbn [SInv] in Hinv. destruct Hinv as (E1 & E2 & E3). subst L lh T.
      destruct (create_inv _ _ Hs) as [Hc Hv1]. cbn [SInv].
      split; [rewrite lfind_cons, N.eqb_refl; reflexivity|]. split.
      * intros m [Hm|[]]. subst m. eexists. split; [rewrite lfind_cons, N.eqb_refl; reflexivity | exact Hc].
      * intros m [Hm|[]]. subst. lia.
    + apply andb_true_iff in Ho as [Ho1 Ho2]. apply spec_step_inv; auto.
      apply Hnd. apply Hincl. right. left. reflexivity.
Qed.

(* ================================================================ C17 *)
(* every visible row of the latest version carries the ledger's last_updated_at, and the ledger's created_at
   unless its row id is tainted (rewritten by an Update whose lookup missed, or inserted by an Update) *)
Lemma versions_correct ops h L lh T :
  spec_run true ops = Ok (h, L, lh, T) -> run_ok17 true [] ops = true -> frag_ids_unique h = true ->
  forall latest tl rows, h = latest :: tl -> view latest = Ok rows ->
  forall r c u, In (r, (c, u)) rows ->
    exists c0, lget L r = Some (c0, u) /\ (~ In r T -> c = c0).
Proof.
  intros Hr Hok Hu latest tl rows Eh Hv r c u Hin.
  assert (Hnd : forall m, In m h -> NoDup (map f_id (m_frags m))).
  { intros m Hm. unfold frag_ids_unique in Hu. rewrite forallb_forall in Hu. apply nodupb_NoDup. apply Hu; exact Hm. }
  pose proof (spec_from_inv ops [] [] [] [] _ (conj eq_refl (conj eq_refl eq_refl)) Hr Hok Hnd) as Hinv. subst h. cbn [SInv] in Hinv.
  destruct Hinv as (HL & Hall & _). destruct (Hall latest (or_introl eq_refl)) as (Lm & Em & (I0 & I1 & I2 & I3 & I4)).
  rewrite HL in Em. inversion Em; subst Lm.
  unfold view in Hv. rewrite (view_frags_wf _ I1) in Hv. inversion Hv; subst rows.
  apply in_flat_map in Hin as (f & Hf & Hx). destruct (I3 f _ Hf Hx) as (c0 & u0 & G1 & G2 & G3). cbn [fst snd] in *.
  exists c0. rewrite <- (G3 eq_refl) in G1. split; [exact G1 | exact G2].
Qed.

(* a table with stable row ids can always be scanned with its version columns *)
Lemma view_defined ops h L lh T :
  spec_run true ops = Ok (h, L, lh, T) -> run_ok17 true [] ops = true -> frag_ids_unique h = true ->
  forall m, In m h -> exists rows, view m = Ok rows.
Proof.
  intros Hr Hok Hu m Hm.
  assert (Hnd : forall m, In m h -> NoDup (map f_id (m_frags m))).
  { intros m0 Hm0. unfold frag_ids_unique in Hu. rewrite forallb_forall in Hu. apply nodupb_NoDup. apply Hu; exact Hm0. }
  pose proof (spec_from_inv ops [] [] [] [] _ (conj eq_refl (conj eq_refl eq_refl)) Hr Hok Hnd) as Hinv. destruct h as [|latest tl]; [contradiction|].
  cbn [SInv] in Hinv. destruct Hinv as (_ & Hall & _). destruct (Hall m Hm) as (Lm & _ & (_ & I1 & _)).
  exists (flat_map vrows (m_frags m)). apply view_frags_wf. exact I1.
Qed.

(* ================================================================ the classes and the taint *)
Lemma filter_nil_existsb {A} (p : A -> bool) l : existsb p l = false -> filter p l = [].
Proof.
  induction l as [|x l IH]; cbn [existsb filter]; intro H; [reflexivity|].
  apply orb_false_iff in H as [H1 H2]. rewrite H1. apply IH; exact H2.
Qed.

Lemma no_class_no_taint st : forall ops h L lh T h' L' lh' T',
  spec_from st (h, L, lh, T) ops = Ok (h', L', lh', T') ->
  known_nonaddress_from st h ops = false -> known_inserted_from st h ops = false -> T' = T.
Proof.
  induction ops as [|o tl IH]; intros h L lh T h' L' lh' T' H K1 K2; cbn [spec_from known_nonaddress_from known_inserted_from] in *.
  - inversion H; subst; reflexivity.
  - apply bind_ok in H as (m' & Hs & H). rewrite Hs in K1, K2.
    apply orb_false_iff in K1 as [K1a K1b]. apply orb_false_iff in K2 as [K2a K2b].
    rewrite (IH _ _ _ _ _ _ _ _ H K1b K2b).
    assert (E : taint_step match h with l :: _ => Some l | [] => None end (handed_out h m') o = []).
    { destruct o; try reflexivity. destruct h as [|cur tl0]; [reflexivity|]. cbn [taint_step].
      rewrite (filter_nil_existsb _ _ K1a). apply negb_false_iff in K2a. apply N.eqb_eq in K2a.
      unfold handed_out. rewrite K2a, N.sub_diag. reflexivity. }
    rewrite E. apply app_nil_r.
Qed.

Lemma outside_classes_untainted ops h L lh T :
  spec_run true ops = Ok (h, L, lh, T) ->
  Known_C17_update_created_at_nonaddress_rowid true ops = false ->
  Known_C17_update_inserted_row_created_at true ops = false -> T = [].
Proof. intros H K1 K2. eapply no_class_no_taint; eauto. Qed.

(* outside both classes: both version columns of every visible row are the ledger's *)
Lemma versions_correct_outside ops h L lh T :
  spec_run true ops = Ok (h, L, lh, T) -> run_ok17 true [] ops = true -> frag_ids_unique h = true ->
  Known_C17_update_created_at_nonaddress_rowid true ops = false ->
  Known_C17_update_inserted_row_created_at true ops = false ->
  forall latest tl rows, h = latest :: tl -> view latest = Ok rows ->
  forall r c u, In (r, (c, u)) rows -> lget L r = Some (c, u).
Proof.
  intros Hr Hok Hu K1 K2 latest tl rows Eh Hv r c u Hin.
  pose proof (outside_classes_untainted _ _ _ _ _ Hr K1 K2) as ET. subst T.
  destruct (versions_correct _ _ _ _ _ Hr Hok Hu _ _ _ Eh Hv _ _ _ Hin) as (c0 & G1 & G2).
  rewrite (G2 (fun C => C)). exact G1.
Qed.

(* DatasetDelta: exactly the rows the ledger says were inserted, or updated but not inserted, in (b, e] *)
Definition ledger_inserted (L : ledger) (b e : N) (x : vrow) : bool :=
  match lget L (fst x) with Some v => (b <? fst v) && (fst v <=? e) | None => false end.
Definition ledger_updated (L : ledger) (b e : N) (x : vrow) : bool :=
  match lget L (fst x) with Some v => (fst v <=? b) && (b <? snd v) && (snd v <=? e) | None => false end.

Lemma delta_exact ops h L lh T :
  spec_run true ops = Ok (h, L, lh, T) -> run_ok17 true [] ops = true -> frag_ids_unique h = true ->
  Known_C17_update_created_at_nonaddress_rowid true ops = false ->
  Known_C17_update_inserted_row_created_at true ops = false ->
  forall latest tl rows b e, h = latest :: tl -> view latest = Ok rows ->
    delta_inserted latest b e = Ok (filter (ledger_inserted L b e) rows) /\
    delta_updated latest b e = Ok (filter (ledger_updated L b e) rows).
Proof.
  intros Hr Hok Hu K1 K2 latest tl rows b e Eh Hv.
  pose proof (versions_correct_outside _ _ _ _ _ Hr Hok Hu K1 K2 _ _ _ Eh Hv) as Hall.
  unfold delta_inserted, delta_updated. rewrite Hv. cbn [bind]. split; f_equal; apply filter_ext_in; intros [r [c u]] Hin;
    unfold is_inserted, is_updated, ledger_inserted, ledger_updated; cbn [fst snd]; rewrite (Hall _ _ _ Hin); reflexivity.
Qed.

(* with tainted rows around, the last_updated_at half of the feed is still exact *)
Lemma delta_updated_sound ops h L lh T :
  spec_run true ops = Ok (h, L, lh, T) -> run_ok17 true [] ops = true -> frag_ids_unique h = true ->
  forall latest tl rows, h = latest :: tl -> view latest = Ok rows ->
  forall r c u, In (r, (c, u)) rows -> exists c0, lget L r = Some (c0, u).
Proof.
  intros Hr Hok Hu latest tl rows Eh Hv r c u Hin.
  destruct (versions_correct _ _ _ _ _ Hr Hok Hu _ _ _ Eh Hv _ _ _ Hin) as (c0 & G1 & _). exists c0; exact G1.
Qed.
