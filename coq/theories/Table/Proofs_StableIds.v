(* Table/Proofs_StableIds.v - stable row ids: uniqueness, monotone next_row_id, stability, resolvability (C18). *)
From LanceV Require Import Common.Base Meta.Model_Flags Table.Model_Manifest Table.Proofs_ManifestBase Table.Proofs_Manifest Table.Model_StableIds.
From Coq Require Import Permutation.
Local Open Scope N_scope.

(* ================================================================ subsequences *)
Inductive subseq {A} : list A -> list A -> Prop :=
| ss_nil : subseq [] []
| ss_skip a l1 l2 : subseq l1 l2 -> subseq l1 (a :: l2)
| ss_take a l1 l2 : subseq l1 l2 -> subseq (a :: l1) (a :: l2).

Lemma subseq_refl {A} (l : list A) : subseq l l.
Proof. induction l; constructor; assumption. Qed.
Lemma subseq_nil {A} (l : list A) : subseq [] l.
Proof. induction l; constructor; assumption. Qed.
Lemma subseq_In {A} (a b : list A) x : subseq a b -> In x a -> In x b.
Proof. induction 1; intro I; [exact I | right; auto | destruct I as [E|I]; [left; exact E | right; auto]]. Qed.
Lemma subseq_NoDup {A} (a b : list A) : subseq a b -> NoDup b -> NoDup a.
Proof.
  induction 1; intro N; [constructor | inversion N; auto | inversion N; subst; constructor; [|auto]].
  intro I. apply H2. eapply subseq_In; eassumption.
Qed.
Lemma subseq_app {A} (a1 b1 a2 b2 : list A) : subseq a1 b1 -> subseq a2 b2 -> subseq (a1 ++ a2) (b1 ++ b2).
Proof. induction 1; intro S; cbn [app]; [exact S | apply ss_skip; auto | apply ss_take; auto]. Qed.
Lemma subseq_filter {A} (p : A -> bool) l : subseq (filter p l) l.
Proof. induction l as [|a r IH]; cbn [filter]; [constructor | destruct (p a); [apply ss_take | apply ss_skip]; exact IH]. Qed.
Lemma subseq_trans {A} (a b c : list A) : subseq a b -> subseq b c -> subseq a c.
Proof.
  intros S1 S2. revert a S1. induction S2; intros x S1; [exact S1 | apply ss_skip; auto |].
  inversion S1; subst; [apply ss_skip; auto | apply ss_take; auto].
Qed.
Lemma subseq_flat_map {A B} (f g : A -> list B) l : (forall x, In x l -> subseq (f x) (g x)) -> subseq (flat_map f l) (flat_map g l).
Proof. induction l as [|a r IH]; intro H; cbn [flat_map]; [constructor | apply subseq_app; [apply H; left; reflexivity | apply IH; intros x I; apply H; right; exact I]]. Qed.

(* ================================================================ ranges *)
Lemma n_range_In s k x : In x (n_range s k) <-> s <= x /\ x < s + k.
Proof.
  unfold n_range. rewrite in_map_iff. split.
  - intros [i [E I]]. apply in_seq in I. lia.
  - intros [L U]. exists (N.to_nat (x - s)). split; [lia | apply in_seq; lia].
Qed.
Lemma n_range_NoDup s k : NoDup (n_range s k).
Proof.
  unfold n_range. apply FinFun.Injective_map_NoDup; [|apply seq_NoDup]. intros a b E. lia.
Qed.

(* ================================================================ live ids depend on (phys, row ids, deleted) only *)
Definition iv (f : Fragment) : option N * option (list N) * list N := (fr_phys f, fr_row_ids f, fr_deleted f).

Lemma live_from_fst a b p d : forall ids pos, map fst (live_rows_from a p d pos ids) = map fst (live_rows_from b p d pos ids).
Proof. induction ids as [|r ids IH]; intro pos; cbn [live_rows_from]; [reflexivity|]. rewrite !map_app, (IH (pos + 1)). destruct (_ && _); reflexivity. Qed.
Lemma live_ids_of_iv f g : iv f = iv g -> live_ids_of f = live_ids_of g.
Proof.
  unfold iv, live_ids_of, live_rows_of. intro E. inversion E as [[E1 E2 E3]]. rewrite E1, E2, E3.
  destruct (fr_row_ids g); [|reflexivity]. destruct (fr_phys g); [|reflexivity]. apply live_from_fst.
Qed.
Lemma ids_of_iv f g : iv f = iv g -> ids_of f = ids_of g.
Proof. unfold iv, ids_of. intro E. inversion E as [[E1 E2 E3]]. rewrite E2. reflexivity. Qed.
Lemma ids_by_view l1 l2 : map iv l1 = map iv l2 -> all_ids_l l1 = all_ids_l l2 /\ live_ids_l l1 = live_ids_l l2.
Proof.
  revert l2. induction l1 as [|f r IH]; intros [|g r2] E; cbn [map] in E; try discriminate; [split; reflexivity|].
  assert (E1 : iv f = iv g) by (exact (f_equal (fun l => hd (iv f) l) E)).
  assert (E2 : map iv r = map iv r2) by (exact (f_equal (@tl _) E)).
  destruct (IH _ E2) as [A B]. unfold all_ids_l, live_ids_l in *. cbn [flat_map].
  rewrite A, B, (ids_of_iv _ _ E1), (live_ids_of_iv _ _ E1). split; reflexivity.
Qed.
Lemma iv_set_id f i : iv (set_id f i) = iv f. Proof. destruct f; reflexivity. Qed.
Lemma iv_set_files f l : iv (set_files f l) = iv f. Proof. destruct f; reflexivity. Qed.
Lemma iv_set_versions f c u : iv (set_versions f c u) = iv f. Proof. destruct f; reflexivity. Qed.

Lemma live_from_subseq a p d : forall ids pos, subseq (map fst (live_rows_from a p d pos ids)) ids.
Proof. induction ids as [|r ids IH]; intro pos; cbn [live_rows_from]; [constructor|]. rewrite map_app. destruct (_ && _); cbn [map app]; constructor; apply IH. Qed.
Lemma live_subseq_ids f : subseq (live_ids_of f) (ids_of f).
Proof. unfold live_ids_of, live_rows_of, ids_of. destruct (fr_row_ids f) as [ids|]; [|constructor]. destruct (fr_phys f); [apply live_from_subseq | apply subseq_nil]. Qed.
Lemma live_l_subseq l : subseq (live_ids_l l) (all_ids_l l).
Proof. apply subseq_flat_map. intros f _. apply live_subseq_ids. Qed.

(* more deletions: fewer live rows *)
Lemma live_from_grow a p d d' : (forall x, In x d -> In x d') ->
  forall ids pos, subseq (map fst (live_rows_from a p d' pos ids)) (map fst (live_rows_from a p d pos ids)).
Proof.
  intros INC. induction ids as [|r ids IH]; intro pos; cbn [live_rows_from]; [constructor|]. rewrite !map_app.
  apply subseq_app; [|apply IH]. destruct (pos <? p); cbn [andb]; [|constructor].
  destruct (n_mem pos d) eqn:M.
  - apply n_mem_In in M. apply INC in M. apply n_mem_In in M. rewrite M. constructor.
  - cbn [negb]. destruct (n_mem pos d'); cbn [negb map]; [apply subseq_nil | apply subseq_refl].
Qed.
Lemma incl_n_In a b : incl_n a b = true -> forall x, In x a -> In x b.
Proof. unfold incl_n. rewrite forallb_forall. intros H x I. apply n_mem_In. apply H. exact I. Qed.
Lemma ln_eqb_eq a b : ln_eqb a b = true -> a = b.
Proof. apply list_eqb_eq. intros x y. apply N.eqb_eq. Qed.
Lemma oln_eqb_eq a b : oln_eqb a b = true -> a = b.
Proof. destruct a, b; cbn; intro H; try discriminate; [f_equal; apply ln_eqb_eq; exact H | reflexivity]. Qed.
Lemma on_eqb_eq (a b : option N) : option_eqb N.eqb a b = true -> a = b.
Proof. destruct a, b; cbn; intro H; try discriminate; [f_equal; apply N.eqb_eq; exact H | reflexivity]. Qed.

Lemma deletion_grows_live f u : deletion_grows f u = true -> subseq (live_ids_of u) (live_ids_of f) /\ ids_of u = ids_of f.
Proof.
  unfold deletion_grows. rewrite !andb_true_iff. intros [[P R] D]. apply on_eqb_eq in P. apply oln_eqb_eq in R.
  unfold live_ids_of, live_rows_of, ids_of. rewrite <- P, <- R. split; [|reflexivity].
  destruct (fr_row_ids f); [|constructor]. destruct (fr_phys f); [|constructor].
  rewrite (live_from_fst (fr_id u) (fr_id f)). apply live_from_grow. apply incl_n_In. exact D.
Qed.

(* ================================================================ the invariant as a Prop *)
Definition Inv (n : N) (l : list Fragment) : Prop := (forall x, In x (all_ids_l l) -> x < n) /\ NoDup (live_ids_l l).
Lemma ids_inv_l_iff n l : ids_inv_l n l = true <-> Inv n l.
Proof.
  unfold ids_inv_l, Inv. rewrite andb_true_iff, forallb_forall, nodup_n_NoDup. split; intros [A B]; (split; [|exact B]); intros x I; specialize (A x I); [apply N.ltb_lt in A | apply N.ltb_lt]; exact A.
Qed.
Lemma live_In_all l x : In x (live_ids_l l) -> In x (all_ids_l l).
Proof. apply subseq_In. apply live_l_subseq. Qed.

Lemma flat_map_perm {A B} (g : A -> list B) l1 l2 : Permutation l1 l2 -> Permutation (flat_map g l1) (flat_map g l2).
Proof.
  induction 1 as [| x l l' _ IH | x y l | l l' l'' _ IH1 _ IH2]; cbn [flat_map];
    [apply Permutation_refl | apply Permutation_app_head; exact IH | rewrite !app_assoc; apply Permutation_app_tail; apply Permutation_app_comm | eapply Permutation_trans; eassumption].
Qed.
Lemma Inv_perm n l1 l2 : Permutation l1 l2 -> Inv n l1 -> Inv n l2.
Proof.
  intros P [A B]. split.
  - intros x I. apply A. eapply Permutation_in; [apply Permutation_sym; apply (flat_map_perm ids_of); exact P | exact I].
  - eapply Permutation_NoDup; [apply (flat_map_perm live_ids_of); exact P | exact B].
Qed.
Lemma Inv_view n l1 l2 : map iv l1 = map iv l2 -> Inv n l1 -> Inv n l2.
Proof. intros E [A B]. destruct (ids_by_view _ _ E) as [EA EL]. unfold Inv. rewrite <- EA, <- EL. split; assumption. Qed.
Lemma Inv_mono n n' l : n <= n' -> Inv n l -> Inv n' l.
Proof. intros L [A B]. split; [intros x I; specialize (A x I); lia | exact B]. Qed.

Lemma all_ids_app a b : all_ids_l (a ++ b) = all_ids_l a ++ all_ids_l b.
Proof. apply flat_map_app. Qed.
Lemma live_ids_app a b : live_ids_l (a ++ b) = live_ids_l a ++ live_ids_l b.
Proof. apply flat_map_app. Qed.

Lemma Inv_app n a b :
  Inv n a -> (forall x, In x (all_ids_l b) -> x < n) -> NoDup (live_ids_l b) ->
  (forall x, In x (live_ids_l a) -> ~ In x (live_ids_l b)) -> Inv n (a ++ b).
Proof.
  intros [A1 A2] B1 B2 D. split.
  - intros x I. rewrite all_ids_app in I. apply in_app_iff in I as [I|I]; [apply A1 | apply B1]; exact I.
  - rewrite live_ids_app. apply NoDup_app_intro; assumption.
Qed.

(* fragments of a list with pairwise different identities have disjoint live ids *)
Lemma flat_map_disjoint {A B} (g : A -> list B) : forall l a b x,
  NoDup (flat_map g l) -> In a l -> In b l -> a <> b -> In x (g a) -> ~ In x (g b).
Proof.
  induction l as [|c r IH]; intros a b x ND Ia Ib NE Xa Xb; [destruct Ia|]. cbn [flat_map] in ND.
  destruct Ia as [Ea|Ia], Ib as [Eb|Ib]; subst.
  - contradiction.
  - eapply NoDup_app_disj; [exact ND | exact Xa | apply in_flat_map; exists b; split; assumption].
  - eapply NoDup_app_disj; [exact ND | exact Xb | apply in_flat_map; exists a; split; assumption].
  - eapply IH; [eapply NoDup_app_r; exact ND | exact Ia | exact Ib | exact NE | exact Xa | exact Xb].
Qed.

(* a list whose fragments embed, with distinct fragment ids, into the fragments of [ex] (same id, at most the
   live rows of the original): uniqueness and the bound carry over *)
Lemma embed_Inv n ex : forall l',
  Inv n ex -> NoDup (frag_ids l') ->
  (forall f', In f' l' -> exists f, In f ex /\ fr_id f = fr_id f' /\ subseq (live_ids_of f') (live_ids_of f) /\ ids_of f' = ids_of f) ->
  Inv n l' /\ (forall x, In x (live_ids_l l') -> In x (live_ids_l ex)).
Proof.
  intros l' [A B]. induction l' as [|f' r IH]; intros ND EM.
  - split; [split; [intros x [] | constructor] | intros x []].
  - unfold frag_ids in ND. cbn [map] in ND. inversion ND; subst.
    destruct IH as [[A' B'] INC]; [assumption | intros g I; apply EM; right; exact I|].
    destruct (EM f' (or_introl eq_refl)) as [f [If [Eid [SS EI]]]].
    assert (INCf : forall x, In x (live_ids_of f') -> In x (live_ids_l ex)).
    { intros x I. apply in_flat_map. exists f. split; [exact If | eapply subseq_In; eassumption]. }
    split; [split|].
    + intros x I. unfold all_ids_l in I. cbn [flat_map] in I. apply in_app_iff in I as [I|I]; [|apply A'; exact I].
      apply A. apply in_flat_map. exists f. split; [exact If | rewrite <- EI; exact I].
    + unfold live_ids_l. cbn [flat_map]. apply NoDup_app_intro; [| exact B' |].
      * eapply subseq_NoDup; [exact SS|]. clear - B If. unfold live_ids_l in B. induction ex as [|c r IH]; [destruct If|].
        cbn [flat_map] in B. destruct If as [E|I]; [subst; eapply NoDup_app_l; exact B | apply IH; [eapply NoDup_app_r; exact B | exact I]].
      * intros x Xf Xr. apply in_flat_map in Xr as [g' [Ig' Xg']].
        destruct (EM g' (or_intror Ig')) as [g [Ig [Eg [SSg _]]]].
        assert (NE : f <> g).
        { intro E. subst g. apply H1. apply in_map_iff. exists g'. split; [congruence | exact Ig']. }
        eapply (flat_map_disjoint live_ids_of ex f g x B If Ig NE); [eapply subseq_In; [exact SS | exact Xf] | eapply subseq_In; [exact SSg | exact Xg']].
    + intros x I. unfold live_ids_l in I. cbn [flat_map] in I. apply in_app_iff in I as [I|I]; [apply INCf; exact I | apply INC; exact I].
Qed.

(* ================================================================ id assignment *)
Lemma fwi_iv : forall l fid, map iv (fst (fragments_with_ids l fid)) = map iv l.
Proof.
  induction l as [|f r IH]; intro fid; [reflexivity|]. cbn [fragments_with_ids]. destruct (fr_id f =? 0).
  - specialize (IH (fid + 1)). destruct (fragments_with_ids r (fid + 1)). cbn [fst map] in *. rewrite IH, iv_set_id. reflexivity.
  - specialize (IH fid). destruct (fragments_with_ids r fid). cbn [fst map] in *. rewrite IH. reflexivity.
Qed.

Lemma ids_of_set_row_ids f r : ids_of (set_row_ids f (Some r)) = r.
Proof. destruct f; reflexivity. Qed.

Lemma assign_ids : forall l n n' l', assign_row_ids n l = Ok (n', l') ->
  n <= n'
  /\ (forall x, In x (all_ids_l l') -> In x (all_ids_l l) \/ (n <= x /\ x < n'))
  /\ (NoDup (all_ids_l l) -> (forall x, In x (all_ids_l l) -> x < n) -> NoDup (all_ids_l l')).
Proof.
  induction l as [|f r IH]; intros n n' l' H; cbn [assign_row_ids] in H.
  - inversion H; subst. repeat split; [lia | intros x [] | intros; constructor].
  - destruct (fr_phys f) as [p|]; [|discriminate]. unfold all_ids_l in *. cbn [flat_map].
    destruct (fr_row_ids f) as [ids|] eqn:ER.
    + assert (EI : ids_of f = ids) by (unfold ids_of; rewrite ER; reflexivity). rewrite EI in *.
      destruct (len_n ids =? p).
      * bind_as H q E. destruct q as [m r']. inversion H; subst. destruct (IH _ _ _ E) as [L [M D]]. cbn [flat_map].
        repeat split; [exact L | |].
        -- intros x I. apply in_app_iff in I as [I|I]; [left; apply in_or_app; left; exact I|]. destruct (M x I) as [J|J]; [left; apply in_or_app; right; exact J | right; exact J].
        -- intros ND LT. apply NoDup_app_intro; [eapply NoDup_app_l; exact ND | apply D; [eapply NoDup_app_r; exact ND | intros x I; apply LT; apply in_or_app; right; exact I] |].
           intros x I J. destruct (M x J) as [K|K]; [eapply NoDup_app_disj; [exact ND | exact I | exact K] | specialize (LT x (in_or_app _ _ x (or_introl I))); lia].
      * destruct (len_n ids <? p); [|discriminate]. destruct (two64 <=? n + (p - len_n ids)); [discriminate|].
        bind_as H q E. destruct q as [m r']. inversion H; subst. destruct (IH _ _ _ E) as [L [M D]]. cbn [flat_map].
        rewrite ids_of_set_row_ids.
        repeat split; [lia | |].
        -- intros x I. apply in_app_iff in I as [I|I].
           ++ apply in_app_iff in I as [I|I]; [left; apply in_or_app; left; exact I | apply n_range_In in I; right; lia].
           ++ destruct (M x I) as [J|J]; [left; apply in_or_app; right; exact J | right; lia].
        -- intros ND LT. apply NoDup_app_intro.
           ++ apply NoDup_app_intro; [eapply NoDup_app_l; exact ND | apply n_range_NoDup |].
              intros x I J. apply n_range_In in J. specialize (LT x (in_or_app _ _ x (or_introl I))). lia.
           ++ apply D; [eapply NoDup_app_r; exact ND | intros x I; specialize (LT x (in_or_app _ _ x (or_intror I))); lia].
           ++ intros x I J. apply in_app_iff in I as [I|I].
              ** destruct (M x J) as [K|K]; [eapply NoDup_app_disj; [exact ND | exact I | exact K] | specialize (LT x (in_or_app _ _ x (or_introl I))); lia].
              ** apply n_range_In in I. destruct (M x J) as [K|K]; [specialize (LT x (in_or_app _ _ x (or_intror K))); lia | lia].
    + assert (EI : ids_of f = []) by (unfold ids_of; rewrite ER; reflexivity). rewrite EI in *.
      destruct (two64 <=? n + p); [discriminate|].
      bind_as H q E. destruct q as [m r']. inversion H; subst. destruct (IH _ _ _ E) as [L [M D]]. cbn [flat_map].
      rewrite ids_of_set_row_ids. cbn [app].
      repeat split; [lia | |].
      * intros x I. apply in_app_iff in I as [I|I]; [apply n_range_In in I; right; lia | destruct (M x I) as [J|J]; [left; exact J | right; lia]].
      * intros ND LT. apply NoDup_app_intro; [apply n_range_NoDup | apply D; [exact ND | intros x I; specialize (LT x I); lia] |].
        intros x I J. apply n_range_In in I. destruct (M x J) as [K|K]; [specialize (LT x K); lia | lia].
Qed.

Lemma assign_iv_phys_del : forall l n n' l', assign_row_ids n l = Ok (n', l') ->
  map (fun f => (fr_phys f, fr_deleted f, fr_id f)) l' = map (fun f => (fr_phys f, fr_deleted f, fr_id f)) l.
Proof.
  induction l as [|f r IH]; intros n n' l' H; cbn [assign_row_ids] in H; [inversion H; reflexivity|].
  destruct (fr_phys f) as [p|] eqn:EP; [|discriminate].
  destruct (fr_row_ids f) as [ids|].
  - destruct (len_n ids =? p).
    + bind_as H q E. destruct q as [m r']. inversion H; subst. cbn [map]. rewrite (IH _ _ _ E). reflexivity.
    + destruct (len_n ids <? p); [|discriminate]. destruct (two64 <=? _); [discriminate|].
      bind_as H q E. destruct q as [m r']. inversion H; subst. cbn [map]. rewrite (IH _ _ _ E). destruct f; reflexivity.
  - destruct (two64 <=? _); [discriminate|].
    bind_as H q E. destruct q as [m r']. inversion H; subst. cbn [map]. rewrite (IH _ _ _ E). destruct f; reflexivity.
Qed.

Lemma stamp_new_iv v : forall l l', stamp_new_fragments v l = Ok l' -> map iv l' = map iv l.
Proof.
  induction l as [|f r IH]; intros l' H; cbn [stamp_new_fragments] in H; [inversion H; reflexivity|].
  bind_as H vm E. bind_as H r' E2. inversion H; subst. cbn [map]. rewrite (IH _ E2), iv_set_versions. reflexivity.
Qed.
Lemma stamp_updated_iv ex v : forall l l', stamp_updated_fragments ex v l = Ok l' -> map iv l' = map iv l.
Proof.
  induction l as [|f r IH]; intros l' H; cbn [stamp_updated_fragments] in H; [inversion H; reflexivity|].
  bind_as H f' E. bind_as H r' E2. inversion H; subst. cbn [map]. rewrite (IH _ E2). f_equal.
  destruct (fr_row_ids f); bind_as E vm E3; inversion E; subst; apply iv_set_versions.
Qed.

(* ================================================================ handle_rewrite_fragments as a permutation *)
Lemma contiguous_split : forall old l, contiguous_from l old = Some true ->
  frag_ids (firstn (length old) l) = old /\ l = firstn (length old) l ++ skipn (length old) l.
Proof.
  induction old as [|i old IH]; intros l H; [split; [reflexivity | reflexivity]|].
  destruct l as [|f l]; cbn [contiguous_from] in H; [discriminate|]. destruct (fr_id f =? i) eqn:E; [|discriminate].
  apply N.eqb_eq in E. destruct (IH _ H) as [A B]. cbn [length firstn skipn]. unfold frag_ids in *. cbn [map app].
  split; [rewrite A, E; reflexivity | rewrite <- B; reflexivity].
Qed.

Lemma filter_none {A} (p : A -> bool) l : (forall x, In x l -> p x = false) -> filter p l = [].
Proof. induction l as [|a r IH]; intro H; cbn [filter]; [reflexivity|]. rewrite (H a (or_introl eq_refl)). apply IH. intros x I. apply H. right. exact I. Qed.
Lemma filter_all {A} (p : A -> bool) l : (forall x, In x l -> p x = true) -> filter p l = l.
Proof. induction l as [|a r IH]; intro H; cbn [filter]; [reflexivity|]. rewrite (H a (or_introl eq_refl)), IH; [reflexivity|]. intros x I. apply H. right. exact I. Qed.

Lemma contiguous_filter : forall final first old_rest start,
  position_of first final = Some start ->
  contiguous_from (skipn (S start) final) old_rest = Some true ->
  NoDup (frag_ids final) ->
  firstn start final ++ skipn (start + length (first :: old_rest)) final
  = filter (fun f => negb (n_mem (fr_id f) (first :: old_rest))) final.
Proof.
  induction final as [|f r IH]; intros first old_rest start P C ND; [discriminate|].
  cbn [position_of] in P. unfold frag_ids in ND. cbn [map] in ND. inversion ND; subst.
  destruct (fr_id f =? first) eqn:E.
  - inversion P; subst start. apply N.eqb_eq in E. cbn [skipn firstn app length plus] in *.
    destruct (contiguous_split _ _ C) as [A B]. cbn [filter].
    replace (negb (n_mem (fr_id f) (first :: old_rest))) with false by (symmetry; apply negb_false_iff; apply n_mem_In; left; symmetry; exact E).
    rewrite B at 2. rewrite filter_app_eq, filter_none, filter_all; [reflexivity | |].
    + intros x I. apply negb_true_iff. apply n_mem_false. intros [J|J].
      * apply H1. apply in_map_iff. exists x. split; [congruence | eapply In_skipn; exact I].
      * rewrite <- A in J. apply in_map_iff in J as [y [Ey Iy]].
        assert (ND2 : NoDup (map fr_id (firstn (length old_rest) r ++ skipn (length old_rest) r))) by (rewrite <- B; exact H2).
        rewrite map_app in ND2. eapply NoDup_app_disj; [exact ND2 | apply in_map_iff; exists y; split; [exact Ey | exact Iy] | apply in_map; exact I].
    + intros x I. apply negb_false_iff. apply n_mem_In. right. rewrite <- A. apply in_map. exact I.
  - destruct (position_of first r) as [k|] eqn:PK; [|discriminate]. inversion P; subst start.
    cbn [firstn skipn app plus]. change (skipn (S (S k)) (f :: r)) with (skipn (S k) r) in C. rewrite (IH first old_rest k PK C H2).
    cbn [filter]. replace (negb (n_mem (fr_id f) (first :: old_rest))) with true; [reflexivity|].
    symmetry. apply negb_true_iff. apply n_mem_false. intros [J|J].
    + apply N.eqb_neq in E. congruence.
    + destruct (contiguous_split _ _ C) as [A _]. rewrite <- A in J. apply H1.
      apply in_map_iff in J as [y [Ey Iy]]. apply in_map_iff. exists y. split; [exact Ey|]. eapply In_skipn. eapply In_firstn. exact Iy.
Qed.

Fixpoint new_assigned (groups : list RewriteGroup) (fid : N) : list Fragment :=
  match groups with
  | [] => []
  | g :: r => let '(nf, fid1) := fragments_with_ids (rg_new g) fid in nf ++ new_assigned r fid1
  end.
Lemma new_assigned_iv : forall groups fid, map iv (new_assigned groups fid) = map iv (flat_map rg_new groups).
Proof.
  induction groups as [|g r IH]; intro fid; [reflexivity|]. cbn [new_assigned flat_map].
  pose proof (fwi_iv (rg_new g) fid) as Q. destruct (fragments_with_ids (rg_new g) fid) as [nf fid1]. cbn [fst] in Q.
  rewrite !map_app, Q, IH. reflexivity.
Qed.

Lemma filter_filter {A} (p q : A -> bool) l : filter p (filter q l) = filter (fun x => q x && p x) l.
Proof. induction l as [|a r IH]; cbn [filter]; [reflexivity|]. destruct (q a); cbn [filter andb]; [destruct (p a); rewrite IH; reflexivity | exact IH]. Qed.
Lemma Permutation_filter {A} (p : A -> bool) l1 l2 : Permutation l1 l2 -> Permutation (filter p l1) (filter p l2).
Proof.
  induction 1 as [| x l l' _ IH | x y l | l l' l'' _ IH1 _ IH2]; cbn [filter];
    [apply Permutation_refl | destruct (p x); [apply perm_skip|]; exact IH | destruct (p x), (p y); try apply Permutation_refl; apply perm_swap | eapply Permutation_trans; eassumption].
Qed.

Lemma hrf_perm (E : list N) : forall groups final fid final' fid',
  handle_rewrite_fragments final groups fid = Ok (final', fid') ->
  NoDup (frag_ids final) -> NoDup (reserved_ids groups) ->
  (forall x, In x (frag_ids final) -> ~ In x (reserved_ids groups)) ->
  (forall x, In x (frag_ids final) -> x < fid) ->
  (forall x, In x (reserved_ids groups) -> x < fid) ->
  (forall i, In i (flat_map rg_old groups) -> In i E) ->
  (forall x, In x (reserved_ids groups) -> ~ In x E) -> (forall x, In x E -> x < fid) ->
  Permutation final' (filter (fun f => negb (n_mem (fr_id f) (flat_map rg_old groups))) final ++ new_assigned groups fid).
Proof.
  induction groups as [|g rest IH]; intros final fid final' fid' H ND NR DJ LT LR OE RE EF.
  - cbn [handle_rewrite_fragments] in H. inversion H; subst. cbn [flat_map new_assigned n_mem existsb negb]. rewrite app_nil_r, filter_all; [apply Permutation_refl | reflexivity].
  - cbn [handle_rewrite_fragments] in H.
    destruct (rg_old g) as [|first old_rest] eqn:EO; [discriminate|].
    destruct (position_of first final) as [start|] eqn:PS; [|discriminate].
    destruct (contiguous_from (skipn (S start) final) old_rest) as [contiguous|] eqn:CT; [|discriminate].
    cbn [new_assigned]. destruct (fragments_with_ids (rg_new g) fid) as [newf fid1] eqn:EFW.
    unfold reserved_ids in *. cbn [flat_map] in *. rewrite nz_ids_app in *. rewrite EO in *.
    destruct (fwi_ids _ _ _ _ EFW) as [L1 [M1 D1]].
    assert (NDnew : NoDup (frag_ids newf)).
    { apply D1; [eapply NoDup_app_l; exact NR | intros x I; apply LR; apply in_or_app; left; exact I]. }
    set (kept := filter (fun f => negb (n_mem (fr_id f) (first :: old_rest))) final).
    assert (EQ : (if contiguous then firstn start final ++ newf ++ skipn (start + length (first :: old_rest)) final
                  else kept ++ newf) = (if contiguous then firstn start final ++ newf ++ skipn (start + length (first :: old_rest)) final else kept ++ newf)) by reflexivity.
    assert (PERM : Permutation (if contiguous then firstn start final ++ newf ++ skipn (start + length (first :: old_rest)) final
                                else kept ++ newf) (kept ++ newf)).
    { destruct contiguous; [|apply Permutation_refl]. unfold kept. rewrite <- (contiguous_filter final first old_rest start PS CT ND).
      rewrite <- app_assoc. apply Permutation_app_head. apply Permutation_app_comm. }
    assert (INkept : forall x, In x (frag_ids kept) -> In x (frag_ids final)) by (intros x I; eapply In_map_filter; exact I).
    assert (NDkept : NoDup (frag_ids kept)) by (apply NoDup_map_filter; exact ND).
    assert (DISJ : forall x, In x (frag_ids kept) -> ~ In x (frag_ids newf)).
    { intros x I J. specialize (INkept x I). destruct (M1 x J) as [K|K]; [apply (DJ x INkept); apply in_or_app; left; exact K | specialize (LT x INkept); lia]. }
    assert (NEWE : forall x, In x (frag_ids newf) -> ~ In x E).
    { intros x I J. destruct (M1 x I) as [K|K]; [apply (RE x); [apply in_or_app; left; exact K | exact J] | specialize (EF x J); lia]. }
    assert (ND2 : NoDup (frag_ids (kept ++ newf))) by (unfold frag_ids; rewrite map_app; apply NoDup_app_intro; assumption).
    clear EQ.
    eapply Permutation_trans.
    + eapply IH; [exact H | | eapply NoDup_app_r; exact NR | | | | | |].
      * eapply Permutation_NoDup; [apply Permutation_sym; apply frag_ids_perm; exact PERM | exact ND2].
      * intros x I J. apply (Permutation_in _ (frag_ids_perm _ _ PERM)) in I. unfold frag_ids in I. rewrite map_app in I.
        apply in_app_iff in I as [I|I]; [apply (DJ x (INkept x I)); apply in_or_app; right; exact J|].
        destruct (M1 x I) as [K|K]; [eapply NoDup_app_disj; [exact NR | exact K | exact J] | assert (x < fid) by (apply LR; apply in_or_app; right; exact J); lia].
      * intros x I. apply (Permutation_in _ (frag_ids_perm _ _ PERM)) in I. unfold frag_ids in I. rewrite map_app in I.
        apply in_app_iff in I as [I|I]; [specialize (LT x (INkept x I)); lia|].
        destruct (M1 x I) as [K|K]; [assert (x < fid) by (apply LR; apply in_or_app; left; exact K); lia | lia].
      * intros x I. assert (x < fid) by (apply LR; apply in_or_app; right; exact I). lia.
      * intros i I. apply OE. apply in_or_app. right. exact I.
      * intros x I. apply RE. apply in_or_app. right. exact I.
      * intros x I. specialize (EF x I). lia.
    + (* filter (not in olds rest) (kept ++ newf) = filter (not in old_g ++ olds rest) final ++ newf *)
      eapply Permutation_trans; [apply Permutation_app_tail; apply Permutation_filter; exact PERM|].
      rewrite filter_app_eq. unfold kept. rewrite filter_filter.
      rewrite (filter_all _ newf).
      * rewrite <- app_assoc. apply Permutation_app_tail.
        erewrite filter_ext; [apply Permutation_refl|]. intro f. cbn beta.
        unfold n_mem. rewrite existsb_app. rewrite negb_orb. reflexivity.
      * intros x I. apply negb_true_iff. apply n_mem_false. intro J. apply (NEWE (fr_id x)); [apply in_map; exact I | apply OE; apply in_or_app; right; exact J].
Qed.

(* ================================================================ the invariant through build_manifest *)
Lemma remove_tombstoned_iv l : map iv (remove_tombstoned_data_files l) = map iv l.
Proof. unfold remove_tombstoned_data_files. rewrite map_map. apply map_ext. intro f. apply iv_set_files. Qed.
Lemma Inv_finish n l : Inv n l -> Inv n (remove_tombstoned_data_files (sort_frags l)).
Proof. intro H. eapply Inv_view; [symmetry; apply remove_tombstoned_iv|]. eapply Inv_perm; [apply Permutation_sym; apply sort_frags_perm | exact H]. Qed.

Lemma no_row_ids_all l : forallb (fun f => negb (is_some (fr_row_ids f))) l = true -> all_ids_l l = [].
Proof.
  induction l as [|f r IH]; cbn [forallb]; intro H; [reflexivity|]. apply andb_true_iff in H as [A B].
  unfold all_ids_l in *. cbn [flat_map]. rewrite (IH B). unfold ids_of. destruct (fr_row_ids f); [discriminate | reflexivity].
Qed.

Lemma find_by_id_in ex i f : find (fun g => fr_id g =? i) ex = Some f -> In f ex /\ fr_id f = i.
Proof. intro F. apply find_some in F as [I E]. apply N.eqb_eq in E. split; assumption. Qed.

Lemma updates_embed ex upd g f :
  updates_ok ex upd = true -> (g = f \/ In g upd) -> In f ex -> fr_id g = fr_id f ->
  exists f0, In f0 ex /\ fr_id f0 = fr_id g /\ subseq (live_ids_of g) (live_ids_of f0) /\ ids_of g = ids_of f0.
Proof.
  intros U [E|I] If Eid.
  - subst g. exists f. repeat split; [exact If | apply subseq_refl].
  - unfold updates_ok in U. pose proof (forallb_In _ _ _ U I) as K. cbn beta in K.
    destruct (find (fun f1 => fr_id f1 =? fr_id g) ex) as [f0|] eqn:F.
    + destruct (find_by_id_in _ _ _ F) as [I0 E0]. destruct (deletion_grows_live _ _ K) as [S EI]. exists f0. repeat split; assumption.
    + exfalso. pose proof (find_none _ _ F f If) as Z. cbn beta in Z. apply N.eqb_neq in Z. apply Z. symmetry. exact Eid.
Qed.

(* new fragments of Append / Overwrite / Update after id + row id assignment *)
Lemma new_part_ids n l l2 n' :
  assign_row_ids n l = Ok (n', l2) ->
  NoDup (all_ids_l l) -> (forall x, In x (all_ids_l l) -> x < n) ->
  n <= n' /\ (forall x, In x (all_ids_l l2) -> x < n') /\ NoDup (live_ids_l l2)
  /\ (forall x, In x (all_ids_l l2) -> In x (all_ids_l l) \/ n <= x).
Proof.
  intros H ND LT. destruct (assign_ids _ _ _ _ H) as [L [M D]]. repeat split; [exact L | | |].
  - intros x I. destruct (M x I) as [J|J]; [specialize (LT x J); lia | lia].
  - eapply subseq_NoDup; [apply live_l_subseq | apply D; assumption].
  - intros x I. destruct (M x I) as [J|J]; [left; exact J | right; lia].
Qed.

Lemma replace_all_embed ex : forall repl out, replace_all ex repl = Ok out ->
  forall nf, In nf out -> exists f, In f ex /\ fr_id f = fr_id nf /\ iv nf = iv f.
Proof.
  induction repl as [|[id nfile] r IH]; intros out H nf I; cbn [replace_all] in H; [inversion H; subst; destruct I|].
  destruct (find (fun f => fr_id f =? id) ex) as [frag|] eqn:F; [|discriminate].
  bind_as H x E. bind_as H r' E2. inversion H; subst out. destruct I as [Ex|I]; [subst x | eapply IH; eassumption].
  unfold replace_in_fragment in E. bind_as E files EF. destruct (fragment_eqb _ _); [discriminate|]. inversion E; subst nf.
  exists frag. destruct (find_by_id_in _ _ _ F) as [If _]. split; [exact If | split; [symmetry; apply fr_id_set_files | apply iv_set_files]].
Qed.

Lemma same_rows_iv : forall a b, list_eqb same_rows a b = true -> map iv a = map iv b.
Proof.
  induction a as [|f r IH]; intros [|g r2] H; cbn [list_eqb] in H; try discriminate; [reflexivity|].
  apply andb_true_iff in H as [S H]. cbn [map]. rewrite (IH _ H). f_equal.
  unfold same_rows in S. rewrite !andb_true_iff in S. destruct S as [[[_ P] R] D].
  unfold iv. rewrite (on_eqb_eq _ _ P), (oln_eqb_eq _ _ R), (ln_eqb_eq _ _ D). reflexivity.
Qed.

(* live ids of the old fragments of the groups are live ids of the table, pairwise disjoint between fragments *)
Lemma lookup_frags_In ex ids f : In f (lookup_frags ex ids) -> In f ex /\ In (fr_id f) ids.
Proof.
  unfold lookup_frags. intro I. apply in_flat_map in I as [i [Ii If]].
  destruct (find (fun g => fr_id g =? i) ex) as [f0|] eqn:F; [|destruct If]. destruct If as [E|[]]. subst f0.
  destruct (find_by_id_in _ _ _ F) as [A B]. split; [exact A | rewrite B; exact Ii].
Qed.

Ltac conj4 := split; [|split; [|split]].

Lemma arm_ids m op cfg schema n final idx nri' :
  wf_manifest m = true -> m_next_row_id m = Some n -> Inv n (m_fragments m) ->
  op_ok true (Some m) op = true -> op_ids_ok m op = true ->
  op_schema (Some m) op = Ok schema ->
  build_arm (Some m) op cfg schema (start_fragment_id (Some m) op) (cur_indices (Some m)) (Some n) = Ok (final, idx, nri') ->
  exists n', nri' = Some n' /\ n <= n' /\ Inv n' final
             /\ (forall x, In x (live_ids_l final) -> In x (live_ids_l (m_fragments m)) \/ n <= x).
Proof.
  intros W EN INV OK OI SCH H.
  assert (US : uses_stable m = true) by (unfold uses_stable; rewrite EN; reflexivity).
  assert (WC : wf_cur true (Some m)) by (split; assumption).
  destruct (arm_ok (Some m) op cfg schema (Some n) true final idx nri' WC OK eq_refl SCH H) as [CF [NDF _]].
  destruct (wf_facts true m W US) as [_ [C1 [N1 [_ [_ L1]]]]].
  set (ex := m_fragments m) in *.
  assert (SAME : forall n0, nri' = Some n0 -> n0 = n -> map iv final = map iv ex ->
            exists n', nri' = Some n' /\ n <= n' /\ Inv n' final /\ (forall x, In x (live_ids_l final) -> In x (live_ids_l ex) \/ n <= x)).
  { intros n0 E1 E2 V. subst n0. exists n. conj4; [exact E1 | lia | eapply Inv_view; [symmetry; exact V | exact INV] |].
    intros x I. left. destruct (ids_by_view _ _ V) as [_ EL]. rewrite <- EL. exact I. }
  assert (EMB : forall n0, nri' = Some n0 -> n0 = n ->
            (forall f', In f' final -> exists f, In f ex /\ fr_id f = fr_id f' /\ subseq (live_ids_of f') (live_ids_of f) /\ ids_of f' = ids_of f) ->
            exists n', nri' = Some n' /\ n <= n' /\ Inv n' final /\ (forall x, In x (live_ids_l final) -> In x (live_ids_l ex) \/ n <= x)).
  { intros n0 E1 E2 EM. subst n0. destruct (embed_Inv n ex final INV NDF EM) as [IF INC].
    exists n. conj4; [exact E1 | lia | exact IF | intros x I; left; apply INC; exact I]. }
  destruct op; cbn [build_arm with_existing] in H; cbn [mbind] in H.
  - (* Append *)
    bind_as H q E. destruct q as [newf nri1]. inversion H; subst final idx nri'. clear H.
    unfold stamp_if_stable in E. bind_as E q EA. destruct q as [n' l2]. bind_as E l3 ES. inversion E; subst newf nri1. clear E.
    cbn [op_ids_ok] in OI. pose proof (no_row_ids_all _ OI) as NOID.
    set (l1 := fst (fragments_with_ids fragments (start_fragment_id (Some m) (Append fragments)))) in *.
    destruct (ids_by_view _ _ (fwi_iv fragments (start_fragment_id (Some m) (Append fragments)))) as [A1 _]. fold l1 in A1. rewrite NOID in A1.
    destruct (new_part_ids n l1 l2 n' EA) as [L [B [NDl FR]]]; [rewrite A1; constructor | rewrite A1; intros x [] |].
    destruct (ids_by_view _ _ (stamp_new_iv _ _ _ ES)) as [A3 L3].
    exists n'. conj4; [reflexivity | lia | |].
    + apply Inv_app; [eapply Inv_mono; [exact L | exact INV] | rewrite A3; exact B | rewrite L3; exact NDl |].
      intros x I J. rewrite L3 in J. apply live_In_all in J. destruct (FR x J) as [K|K]; [rewrite A1 in K; destruct K|].
      destruct INV as [IA _]. specialize (IA x (live_In_all _ _ I)). lia.
    + intros x I. rewrite live_ids_app in I. apply in_app_iff in I as [I|I]; [left; exact I|].
      rewrite L3 in I. apply live_In_all in I. destruct (FR x I) as [K|K]; [rewrite A1 in K; destruct K | right; exact K].
  - (* Delete *)
    inversion H; subst final idx nri'. clear H. apply (EMB n eq_refl eq_refl). intros f' I.
    apply in_map_iff in I as [f [Ef If]]. apply filter_In in If as [If _].
    destruct (apply_updates_last_cases updated_fragments f) as [CS EI]. rewrite Ef in *.
    cbn [op_ids_ok] in OI. eapply updates_embed; [exact OI | | exact If | exact EI].
    destruct CS as [A|A]; [left; exact A | right; exact A].
  - (* Overwrite *)
    bind_as H q E. destruct q as [newf nri1]. inversion H; subst final idx nri'. clear H.
    unfold stamp_if_stable in E. bind_as E q EA. destruct q as [n' l2]. bind_as E l3 ES. inversion E; subst newf nri1. clear E.
    cbn [op_ids_ok] in OI. pose proof (no_row_ids_all _ OI) as NOID.
    set (l1 := fst (fragments_with_ids fragments (start_fragment_id (Some m) (Overwrite fragments schema0 has_config_upsert)))) in *.
    destruct (ids_by_view _ _ (fwi_iv fragments (start_fragment_id (Some m) (Overwrite fragments schema0 has_config_upsert)))) as [A1 _]. fold l1 in A1. rewrite NOID in A1.
    destruct (new_part_ids n l1 l2 n' EA) as [L [B [NDl FR]]]; [rewrite A1; constructor | rewrite A1; intros x [] |].
    destruct (ids_by_view _ _ (stamp_new_iv _ _ _ ES)) as [A3 L3].
    exists n'. conj4; [reflexivity | lia | split; [rewrite A3; exact B | rewrite L3; exact NDl] |].
    intros x I. rewrite L3 in I. apply live_In_all in I. destruct (FR x I) as [K|K]; [rewrite A1 in K; destruct K | right; exact K].
  - (* CreateIndex *)
    inversion H; subst final idx nri'. exact (SAME n eq_refl eq_refl eq_refl).
  - (* Rewrite *)
    bind_as H q E. destruct q as [final0 fid0]. bind_as H idx0 EI. inversion H; subst final idx nri'. clear H.
    cbn [op_ok] in OK. rewrite !andb_true_iff in OK. destruct OK as [[[OC ON] OR] _].
    cbn [op_ids_ok] in OI. apply andb_true_iff in OI as [OG OD].
    cbn [start_fragment_id] in E.
    set (start := match max_fragment_id m with Some id => id + 1 | None => 0 end) in *.
    assert (RES : forall x, In x (reserved_ids groups) -> ~ In x (frag_ids ex) /\ x < start).
    { intros x I. pose proof (forallb_In _ _ x OR I) as K. apply andb_true_iff in K as [K1 K2]. split.
      - apply negb_true_iff in K1. apply n_mem_false. exact K1.
      - unfold start. destruct (max_fragment_id m) as [mx|]; [apply N.leb_le in K2; lia | discriminate]. }
    assert (OLD : forall i, In i (flat_map rg_old groups) -> In i (frag_ids ex)).
    { intros i I. apply in_flat_map in I as [g [Ig Ii]]. pose proof (forallb_In _ _ g OG Ig) as K.
      rewrite !andb_true_iff in K. destruct K as [[[K _] _] _]. exact (incl_n_In _ _ K i Ii). }
    pose proof (hrf_perm (frag_ids ex) groups ex start final0 fid0 E N1 (proj1 (nodup_n_NoDup _) ON)
                  (fun x I J => proj1 (RES x J) I) L1 (fun x I => proj2 (RES x I)) OLD (fun x I => proj1 (RES x I)) L1) as PERM.
    set (surv := filter (fun f => negb (n_mem (fr_id f) (flat_map rg_old groups))) ex) in *.
    set (news := flat_map rg_new groups).
    assert (VIEW : map iv (surv ++ new_assigned groups start) = map iv (surv ++ news)) by (rewrite !map_app, new_assigned_iv; reflexivity).
    (* live ids of the new fragments are live ids of retired old fragments *)
    assert (NEWLIVE : forall x, In x (all_ids_l news) -> exists f, In f ex /\ In (fr_id f) (flat_map rg_old groups) /\ In x (live_ids_of f)).
    { intros x I. unfold news, all_ids_l in I. apply in_flat_map in I as [a [Ia Ix]]. apply in_flat_map in Ia as [g [Ig Ia]].
      pose proof (forallb_In _ _ g OG Ig) as K. rewrite !andb_true_iff in K. destruct K as [[[_ _] K3] _].
      assert (Ix' : In x (all_ids_l (rg_new g))) by (apply in_flat_map; exists a; split; assumption).
      pose proof (incl_n_In _ _ K3 x Ix') as J. apply in_flat_map in J as [f [If Jx]].
      destruct (lookup_frags_In _ _ _ If) as [A B]. exists f. repeat split; [exact A | apply in_flat_map; exists g; split; assumption | exact Jx]. }
    assert (NDNEW : NoDup (live_ids_l news)).
    { unfold news. clear - OG OD INV N1 ex. destruct INV as [_ NDL].
      induction groups as [|g r IH]; [constructor|]. cbn [flat_map forallb] in *. apply andb_true_iff in OG as [Kg OG].
      rewrite !andb_true_iff in Kg. destruct Kg as [[[K1 K2] K3] K4].
      assert (ODr : nodup_n (flat_map rg_old r) = true) by (apply nodup_n_NoDup; apply nodup_n_NoDup in OD; eapply NoDup_app_r; exact OD).
      rewrite live_ids_app. apply NoDup_app_intro; [apply nodup_n_NoDup; exact K2 | apply IH; assumption |].
      intros x I J.
      (* x is live in an old fragment of g and in an old fragment of a later group: two different fragments of ex *)
      apply live_In_all in I. pose proof (incl_n_In _ _ K3 x I) as I1. apply in_flat_map in I1 as [f [If Xf]].
      destruct (lookup_frags_In _ _ _ If) as [Af Bf].
      apply in_flat_map in J as [a [Ia Xa]]. apply in_flat_map in Ia as [g2 [Ig2 Ia]].
      pose proof (forallb_In _ _ g2 OG Ig2) as K. rewrite !andb_true_iff in K. destruct K as [[[_ _] K3'] _].
      assert (Xa' : In x (all_ids_l (rg_new g2))) by (apply live_In_all; apply in_flat_map; exists a; split; assumption).
      pose proof (incl_n_In _ _ K3' x Xa') as I2. apply in_flat_map in I2 as [f2 [If2 Xf2]].
      destruct (lookup_frags_In _ _ _ If2) as [Af2 Bf2].
      assert (NE : f <> f2).
      { intro EQ. subst f2. apply nodup_n_NoDup in OD. eapply NoDup_app_disj; [exact OD | exact Bf | apply in_flat_map; exists g2; split; assumption]. }
      exact (flat_map_disjoint live_ids_of ex f f2 x NDL Af Af2 NE Xf Xf2). }
    assert (INVS : Inv n surv).
    { destruct (embed_Inv n ex surv INV (NoDup_map_filter _ _ _ N1)) as [IS _]; [|exact IS].
      intros f' I. apply filter_In in I as [I _]. exists f'. repeat split; [exact I | apply subseq_refl]. }
    assert (INV2 : Inv n (surv ++ news)).
    { apply Inv_app; [exact INVS | | exact NDNEW |].
      - intros x I. destruct (NEWLIVE x I) as [f [If [_ Xf]]]. destruct INV as [IA _]. apply IA. apply live_In_all. apply in_flat_map. exists f. split; assumption.
      - intros x I J. apply live_In_all in J. destruct (NEWLIVE x J) as [f [If [Bf Xf]]].
        apply in_flat_map in I as [s0 [Is Xs]]. apply filter_In in Is as [Is NS]. apply negb_true_iff in NS. apply n_mem_false in NS.
        assert (NE : s0 <> f) by (intro EQ; subst s0; contradiction).
        destruct INV as [_ NDL]. exact (flat_map_disjoint live_ids_of ex s0 f x NDL Is If NE Xs Xf). }
    exists n. conj4; [reflexivity | lia | |].
    + eapply Inv_perm; [apply Permutation_sym; exact PERM|]. eapply Inv_view; [symmetry; exact VIEW | exact INV2].
    + intros x I. left. apply (Permutation_in _ (flat_map_perm live_ids_of _ _ PERM)) in I.
      destruct (ids_by_view _ _ VIEW) as [_ EL]. unfold live_ids_l in EL. rewrite EL in I. fold (live_ids_l (surv ++ news)) in I.
      rewrite live_ids_app in I. apply in_app_iff in I as [I|I].
      * apply in_flat_map in I as [s0 [Is Xs]]. apply filter_In in Is as [Is _]. apply in_flat_map. exists s0. split; assumption.
      * apply live_In_all in I. destruct (NEWLIVE x I) as [f [If [_ Xf]]]. apply in_flat_map. exists f. split; assumption.
  - (* DataReplacement *)
    destruct (negb (fields_all_same replacements)); [discriminate|].
    bind_as H replaced ER. inversion H; subst final idx nri'. clear H. apply (EMB n eq_refl eq_refl). intros f' I.
    apply in_app_iff in I as [I|I].
    + destruct (replace_all_embed _ _ _ ER f' I) as [f [If [Eid V]]]. exists f. repeat split; [exact If | exact Eid | rewrite (live_ids_of_iv _ _ V); apply subseq_refl | apply ids_of_iv; exact V].
    + apply filter_In in I as [I _]. exists f'. repeat split; [exact I | apply subseq_refl].
  - (* Merge *)
    inversion H; subst final idx nri'. cbn [op_ids_ok] in OI. apply (SAME n eq_refl eq_refl). symmetry. apply same_rows_iv. exact OI.
  - (* ReserveFragments *)
    inversion H; subst final idx nri'. exact (SAME n eq_refl eq_refl eq_refl).
  - (* Update *)
    bind_as H idx1 EP. bind_as H q E1. destruct q as [new1 nri1]. bind_as H idx2 ER. bind_as H q E2. destruct q as [new2 nri2].
    inversion H; subst final idx nri'. clear H.
    bind_as E1 q EA. destruct q as [n1 la]. bind_as E1 lb ES. inversion E1; subst new1 nri1. clear E1.
    bind_as E2 q EB. destruct q as [n2 lc]. inversion E2; subst new2 nri2. clear E2.
    cbn [op_ok] in OK. apply andb_true_iff in OK as [OU ONW]. destruct (unassigned_split _ _ ONW) as [_ NF].
    cbn [op_ids_ok] in OI. rewrite !andb_true_iff in OI. destruct OI as [[[UO CN] CI] CD].
    set (l1 := fst (fragments_with_ids new_fragments (start_fragment_id (Some m) (Update removed_fragment_ids updated_fragments new_fragments fields_modified fields_for_preserving_frag_bitmap update_mode)))) in *.
    pose proof (fwi_forallb (new_fragment_ok true) (fun f i Hf => eq_trans (new_fragment_ok_set_id true f i) Hf) new_fragments (start_fragment_id (Some m) (Update removed_fragment_ids updated_fragments new_fragments fields_modified fields_for_preserving_frag_bitmap update_mode)) NF) as Q. fold l1 in Q.
    destruct (ids_by_view _ _ (fwi_iv new_fragments (start_fragment_id (Some m) (Update removed_fragment_ids updated_fragments new_fragments fields_modified fields_for_preserving_frag_bitmap update_mode)))) as [A1 _]. fold l1 in A1.
    assert (CLT : forall x, In x (all_ids_l l1) -> x < n).
    { intros x I. rewrite A1 in I. destruct INV as [IA _]. apply IA. apply live_In_all. exact (incl_n_In _ _ CI x I). }
    destruct (new_part_ids n l1 la n1 EA) as [L [B [NDl FR]]]; [rewrite A1; apply nodup_n_NoDup; exact CN | exact CLT |].
    destruct (assign_row_ids_ok _ _ _ _ EA Q) as [AOK _]. destruct (stamp_updated_ok _ _ _ _ ES AOK) as [CS _].
    assert (AS : forallb assigned lb = true) by (eapply forallb_impl; [|exact CS]; intros f _; apply consistent_assigned).
    rewrite (assign_row_ids_complete _ n1 AS) in EB. inversion EB; subst n2 lc. clear EB.
    pose proof (stamp_updated_iv _ _ _ _ ES) as VS. destruct (ids_by_view _ _ VS) as [A3 L3].
    set (old_part := flat_map (apply_updates_first removed_fragment_ids updated_fragments) ex) in *.
    assert (EMO : forall f', In f' old_part -> exists f, In f ex /\ fr_id f = fr_id f' /\ subseq (live_ids_of f') (live_ids_of f) /\ ids_of f' = ids_of f).
    { intros f' I. apply in_flat_map in I as [f [If Ig]]. destruct (apply_updates_first_cases _ _ f f' Ig) as [CS' EI].
      eapply updates_embed; [exact UO | | exact If | exact EI]. destruct CS' as [A|A]; [left; exact A | right; exact A]. }
    assert (NDO : NoDup (frag_ids old_part)).
    { unfold frag_ids in NDF. rewrite map_app in NDF. eapply NoDup_app_l; exact NDF. }
    destruct (embed_Inv n ex old_part INV NDO EMO) as [IO INCO].
    exists n1. conj4; [reflexivity | lia | |].
    + apply Inv_app; [eapply Inv_mono; [exact L | exact IO] | rewrite A3; exact B | rewrite L3; exact NDl |].
      intros x I J. rewrite L3 in J. apply live_In_all in J. destruct (FR x J) as [K|K].
      * rewrite A1 in K. unfold disjoint_n in CD. pose proof (forallb_In _ _ x CD K) as D. apply negb_true_iff in D. apply n_mem_false in D. exact (D I).
      * destruct INV as [IA _]. specialize (IA x (live_In_all _ _ (INCO x I))). lia.
    + intros x I. rewrite live_ids_app in I. apply in_app_iff in I as [I|I]; [left; apply INCO; exact I|].
      rewrite L3 in I. apply live_In_all in I. destruct (FR x I) as [K|K]; [left; rewrite A1 in K; exact (incl_n_In _ _ CI x K) | right; exact K].
  - (* Project *)
    inversion H; subst final idx nri'. apply (SAME n eq_refl eq_refl). rewrite map_map. apply map_ext. intro f. apply iv_set_files.
  - (* UpdateConfig *)
    inversion H; subst final idx nri'. exact (SAME n eq_refl eq_refl eq_refl).
Qed.

(* compaction loses no row id: every id live before a Rewrite is live after it *)
Lemma rewrite_keeps m groups ri fri cfg schema n final idx nri' :
  wf_manifest m = true -> m_next_row_id m = Some n ->
  op_ok true (Some m) (Rewrite groups ri fri) = true -> op_ids_ok m (Rewrite groups ri fri) = true ->
  build_arm (Some m) (Rewrite groups ri fri) cfg schema (start_fragment_id (Some m) (Rewrite groups ri fri)) (cur_indices (Some m)) (Some n) = Ok (final, idx, nri') ->
  forall x, In x (live_ids_l (m_fragments m)) -> In x (live_ids_l final).
Proof.
  intros W EN OK OI H.
  assert (US : uses_stable m = true) by (unfold uses_stable; rewrite EN; reflexivity).
  destruct (wf_facts true m W US) as [_ [C1 [N1 [_ [_ L1]]]]].
  set (ex := m_fragments m) in *.
  cbn [build_arm with_existing] in H; cbn [mbind] in H.
  bind_as H q E. destruct q as [final0 fid0]. bind_as H idx0 EI. inversion H; subst final idx nri'. clear H.
  cbn [op_ok] in OK. rewrite !andb_true_iff in OK. destruct OK as [[[OC ON] OR] _].
  cbn [op_ids_ok] in OI. apply andb_true_iff in OI as [OG OD].
  cbn [start_fragment_id] in E.
  set (start := match max_fragment_id m with Some id => id + 1 | None => 0 end) in *.
  assert (RES : forall x, In x (reserved_ids groups) -> ~ In x (frag_ids ex) /\ x < start).
  { intros x I. pose proof (forallb_In _ _ x OR I) as K. apply andb_true_iff in K as [K1 K2]. split.
    - apply negb_true_iff in K1. apply n_mem_false. exact K1.
    - unfold start. destruct (max_fragment_id m) as [mx|]; [apply N.leb_le in K2; lia | discriminate]. }
  assert (OLD : forall i, In i (flat_map rg_old groups) -> In i (frag_ids ex)).
  { intros i I. apply in_flat_map in I as [g [Ig Ii]]. pose proof (forallb_In _ _ g OG Ig) as K.
    rewrite !andb_true_iff in K. destruct K as [[[K _] _] _]. exact (incl_n_In _ _ K i Ii). }
  pose proof (hrf_perm (frag_ids ex) groups ex start final0 fid0 E N1 (proj1 (nodup_n_NoDup _) ON)
                (fun x I J => proj1 (RES x J) I) L1 (fun x I => proj2 (RES x I)) OLD (fun x I => proj1 (RES x I)) L1) as PERM.
  set (surv := filter (fun f => negb (n_mem (fr_id f) (flat_map rg_old groups))) ex) in *.
  set (news := flat_map rg_new groups).
  assert (VIEW : map iv (surv ++ new_assigned groups start) = map iv (surv ++ news)) by (rewrite !map_app, new_assigned_iv; reflexivity).
  intros x I. apply (Permutation_in _ (Permutation_sym (flat_map_perm live_ids_of _ _ PERM))).
  destruct (ids_by_view _ _ VIEW) as [_ EL]. unfold live_ids_l in EL. rewrite EL. fold (live_ids_l (surv ++ news)).
  rewrite live_ids_app. apply in_or_app.
  apply in_flat_map in I as [f [If Xf]].
  destruct (n_mem (fr_id f) (flat_map rg_old groups)) eqn:M.
  - right. apply n_mem_In in M. apply in_flat_map in M as [g [Ig Io]].
    pose proof (forallb_In _ _ g OG Ig) as K. rewrite !andb_true_iff in K. destruct K as [[[_ _] _] K4].
    assert (LK : In f (lookup_frags ex (rg_old g))).
    { unfold lookup_frags. apply in_flat_map. exists (fr_id f). split; [exact Io|].
      destruct (find (fun g0 => fr_id g0 =? fr_id f) ex) as [f0|] eqn:F.
      - destruct (find_by_id_in _ _ _ F) as [I0 E0]. left.
        (* unique fragment ids *)
        clear - N1 I0 E0 If. unfold frag_ids in N1. induction ex as [|a r IH]; [destruct If|]. cbn [map] in N1. inversion N1; subst.
        destruct I0 as [A|A], If as [B|B]; subst; try reflexivity.
        + exfalso. apply H1. apply in_map_iff. exists f. split; [symmetry; exact E0 | exact B].
        + exfalso. apply H1. apply in_map_iff. exists f0. split; [exact E0 | exact A].
        + apply IH; assumption.
      - exfalso. pose proof (find_none _ _ F f If) as Z. cbn beta in Z. rewrite N.eqb_refl in Z. discriminate. }
    assert (XL : In x (live_ids_l (lookup_frags ex (rg_old g)))) by (apply in_flat_map; exists f; split; assumption).
    pose proof (incl_n_In _ _ K4 x XL) as XN. unfold news. apply in_flat_map in XN as [a [Ia Xa]].
    apply in_flat_map. exists a. split; [apply in_flat_map; exists g; split; assumption | exact Xa].
  - left. apply in_flat_map. exists f. split; [apply filter_In; split; [exact If | rewrite M; reflexivity] | exact Xf].
Qed.

(* ================================================================ the shape of finish_manifest's result *)
Lemma finish_shape cur op cfg schema final idx nri m' :
  finish_manifest cur op cfg schema final idx nri = Ok m' ->
  let F := remove_tombstoned_data_files (sort_frags final) in
  m_fragments m' = F
  /\ ((m_next_row_id m' = Some (match nri with Some n => n | None => 0 end))
      \/ (m_next_row_id m' = None /\ existsb (fun f => is_some (fr_row_ids f)) F = false /\ cfg_stable cfg = false)).
Proof.
  unfold finish_manifest. intro H. set (F := remove_tombstoned_data_files (sort_frags final)) in *. cbn zeta.
  bind_as H q E. destruct q as [[version prev_max] storage]. destruct (existsb num_rows_underflows F); [discriminate|].
  bind_as H stable ES. bind_as H mx0 EM. bind_as H mx EM2. inversion H; subst m'. cbn [m_fragments m_next_row_id].
  split; [reflexivity|]. destruct (existsb (fun f => is_some (fr_row_ids f)) F || cfg_stable cfg) eqn:G.
  - destruct (forallb _ F); [|discriminate]. inversion ES; subst stable. left. reflexivity.
  - inversion ES; subst stable. right. apply orb_false_iff in G as [G1 G2]. repeat split; assumption.
Qed.

(* ================================================================ one commit *)
Lemma live_ids_eq m : live_ids m = live_ids_l (m_fragments m).
Proof. unfold live_ids, live_rows, live_ids_l, live_ids_of. rewrite !flat_map_concat_map, concat_map, map_map. reflexivity. Qed.

Theorem build_ids m op cfg m' n :
  wf_manifest m = true -> m_next_row_id m = Some n -> ids_inv m = true ->
  op_ok true (Some m) op = true -> op_ids_ok m op = true ->
  build_manifest (Some m) op cfg = Ok m' ->
  ids_inv m' = true
  /\ match m_next_row_id m' with
     | Some n' => n <= n' /\ (forall x, In x (live_ids m') -> In x (live_ids m) \/ n <= x)
     | None => m_fragments m' = [] /\ cfg_stable cfg = false
     end.
Proof.
  intros W EN II OK OI H.
  assert (US : uses_stable m = true) by (unfold uses_stable; rewrite EN; reflexivity).
  assert (INV : Inv n (m_fragments m)) by (unfold ids_inv in II; rewrite EN in II; apply ids_inv_l_iff; exact II).
  unfold build_manifest in H. destruct (cfg_stable cfg && _); [discriminate|].
  bind_as H schema ES. bind_as H nri ENR. bind_as H r EA. destruct r as [[final idx] nri'].
  assert (nri = Some n) by (unfold start_next_row_id in ENR; rewrite EN in ENR; destruct (cfg_stable cfg); inversion ENR; reflexivity). subst nri.
  destruct (arm_ids m op cfg schema n final idx nri' W EN INV OK OI ES EA) as [n' [E1 [L [IF ST]]]]. subst nri'.
  assert (WC : wf_cur true (Some m)) by (split; assumption).
  destruct (arm_ok (Some m) op cfg schema (Some n) true final idx (Some n') WC OK eq_refl ES EA) as [CF _].
  destruct (finish_shape _ _ _ _ _ _ _ _ H) as [EF SH]. cbn zeta in *.
  pose proof (Inv_finish n' final IF) as IFF.
  assert (LIVE : live_ids_l (remove_tombstoned_data_files (sort_frags final)) = live_ids_l (sort_frags final))
    by (apply (ids_by_view _ _ (remove_tombstoned_iv (sort_frags final)))).
  destruct SH as [SH|[SH [HAS CS]]].
  - unfold ids_inv. rewrite SH, EF. split; [apply ids_inv_l_iff; exact IFF|]. split; [exact L|].
    intros x I. rewrite live_ids_eq, EF, LIVE in I. rewrite live_ids_eq.
    apply ST. eapply Permutation_in; [apply (flat_map_perm live_ids_of); apply sort_frags_perm | exact I].
  - unfold ids_inv. rewrite SH. split; [reflexivity|]. split; [|exact CS]. rewrite EF.
    assert (CFF : forallb (frag_consistent true) (remove_tombstoned_data_files (sort_frags final)) = true).
    { eapply forallb_impl; [intros f _; apply wf_fragment_consistent|]. apply remove_tombstoned_wf.
      rewrite (forallb_perm _ _ _ (sort_frags_perm final)). exact CF. }
    destruct (row_ids_flag true _ CFF) as [_ ANY]. rewrite HAS in ANY. destruct (remove_tombstoned_data_files (sort_frags final)); [reflexivity | discriminate].
Qed.

(* spec-level resolution *)
Lemma find_by_key (l : list (N * N)) k v : NoDup (map fst l) -> In (k, v) l -> find (fun p => fst p =? k) l = Some (k, v).
Proof.
  induction l as [|[a b] r IH]; intros ND I; [destruct I|]. cbn [map fst] in ND. inversion ND; subst. cbn [find fst].
  destruct I as [E|I].
  - inversion E; subst. rewrite N.eqb_refl. reflexivity.
  - destruct (a =? k) eqn:Q; [|apply IH; assumption]. apply N.eqb_eq in Q. subst a. exfalso. apply H1. apply in_map_iff. exists (k, v). split; [reflexivity | exact I].
Qed.

Theorem resolve_live m n rid addr :
  m_next_row_id m = Some n -> ids_inv m = true -> In (rid, addr) (live_rows m) -> resolve m rid = Some addr.
Proof.
  intros EN II I. unfold ids_inv in II. rewrite EN in II. apply ids_inv_l_iff in II as [_ ND].
  unfold resolve. rewrite (find_by_key (live_rows m) rid addr); [reflexivity | | exact I].
  fold (live_ids m). rewrite live_ids_eq. exact ND.
Qed.
Theorem resolve_dead m rid : ~ In rid (live_ids m) -> resolve m rid = None.
Proof.
  intro NI. unfold resolve. destruct (find (fun p => fst p =? rid) (live_rows m)) as [p|] eqn:F; [|reflexivity].
  exfalso. apply find_some in F as [I E]. apply N.eqb_eq in E. apply NI. unfold live_ids. apply in_map_iff. exists p. split; assumption.
Qed.

(* ================================================================ histories *)
Inductive id_history : list Manifest -> Prop :=
| ih_create : forall op cfg m,
    op_ok (cfg_stable cfg) None op = true ->
    (match op with Overwrite fragments _ _ => forallb (fun f => negb (is_some (fr_row_ids f))) fragments = true | _ => True end) ->
    create_step op cfg = Ok m -> id_history [m]
| ih_commit : forall latest older op us sf m,
    id_history (latest :: older) ->
    op_ok (uses_stable latest) (Some latest) op = true ->
    (uses_stable latest = true -> op_ids_ok latest op = true) ->
    (us = uses_stable latest \/ us = false) ->
    commit_step latest op us sf = Ok m -> id_history (m :: latest :: older)
| ih_restore : forall latest older old,
    id_history (latest :: older) -> In old (latest :: older) ->
    id_history (restore_step latest old :: latest :: older).

Lemma id_history_history h : id_history h -> history h.
Proof. induction 1; [eapply h_create; eassumption | eapply h_commit; eassumption | eapply h_restore; eassumption]. Qed.

Lemma check_storage_ids m m' : check_storage_version m = Ok m' -> m_fragments m' = m_fragments m /\ m_next_row_id m' = m_next_row_id m.
Proof.
  unfold check_storage_version. intro H. destruct (fver_eqb (m_storage m) Legacy).
  - destruct (try_infer_version (m_fragments m)) as [[a|]| |]; try discriminate; [|inversion H; subst; split; reflexivity].
    destruct (fver_rank (m_storage m) <? fver_rank a); inversion H; subst; split; reflexivity.
  - bind_as H x E. destruct x as [a|]; [destruct (fver_eqb a (m_storage m)); [|discriminate]|]; inversion H; subst; split; reflexivity.
Qed.

Lemma commit_ids latest op us sf m' n :
  wf_manifest latest = true -> m_next_row_id latest = Some n -> ids_inv latest = true ->
  op_ok true (Some latest) op = true -> op_ids_ok latest op = true ->
  commit_step latest op us sf = Ok m' ->
  ids_inv m' = true
  /\ match m_next_row_id m' with
     | Some n' => n <= n' /\ (forall x, In x (live_ids m') -> In x (live_ids latest) \/ n <= x)
     | None => m_fragments m' = [] /\ us = false
     end.
Proof.
  unfold commit_step. intros W EN II OK OI H. destruct (negb (validate_operation (Some latest) op)); [discriminate|].
  bind_as H m1 EB. bind_as H m2 EF.
  assert (US : uses_stable latest = true) by (unfold uses_stable; rewrite EN; reflexivity).
  assert (OK' : op_ok (table_stable (Some latest) (mkConfig us sf)) (Some latest) op = true) by (cbn [table_stable]; rewrite US; exact OK).
  pose proof (build_manifest_wf (Some latest) op _ m1 W OK' EB) as W1.
  rewrite (fix_schema_id _ W1) in EF. inversion EF; subst m2.
  destruct (build_ids latest op _ m1 n W EN II OK OI EB) as [A B]. destruct (check_storage_ids _ _ H) as [F1 F2].
  unfold ids_inv, live_ids, live_rows in *. rewrite F1, F2. split; [exact A | exact B].
Qed.

Lemma unstable_ids_inv m : m_next_row_id m = None -> ids_inv m = true.
Proof. intro E. unfold ids_inv. rewrite E. reflexivity. Qed.

Lemma create_ids op cfg m :
  op_ok (cfg_stable cfg) None op = true ->
  (match op with Overwrite fragments _ _ => forallb (fun f => negb (is_some (fr_row_ids f))) fragments = true | _ => True end) ->
  create_step op cfg = Ok m -> ids_inv m = true.
Proof.
  unfold create_step. intros OK NR H. destruct op; cbn [validate_operation negb] in H; try discriminate.
  destruct (negb (schema_fragments_valid None schema fragments)); [discriminate|].
  unfold build_manifest in H. destruct (cfg_stable cfg && false) eqn:G; [discriminate|]. clear G.
  bind_as H sc ES. bind_as H nri ENR. bind_as H r EA. destruct r as [[final idx] nri'].
  destruct (finish_shape _ _ _ _ _ _ _ _ H) as [EF SH]. cbn zeta in *.
  destruct SH as [SH|[SH _]]; [|apply unstable_ids_inv; exact SH].
  pose proof (no_row_ids_all _ NR) as NOID.
  cbn [build_arm start_fragment_id] in EA.
  destruct (ids_by_view _ _ (fwi_iv fragments 0)) as [A1 L1]. rewrite NOID in A1.
  set (l1 := fst (fragments_with_ids fragments 0)) in *.
  bind_as EA q E. destruct q as [newf nri1]. inversion EA; subst final idx nri'. clear EA.
  unfold ids_inv. rewrite SH, EF. apply ids_inv_l_iff. apply Inv_finish.
  unfold start_next_row_id in ENR. destruct (cfg_stable cfg) eqn:CS; inversion ENR; subst nri; unfold stamp_if_stable in E.
  - bind_as E q EAS. destruct q as [n' l2]. bind_as E l3 EST. inversion E; subst newf nri1. clear E.
    destruct (new_part_ids 0 l1 l2 n' EAS) as [L [B [NDl FR]]]; [rewrite A1; constructor | rewrite A1; intros x [] |].
    destruct (ids_by_view _ _ (stamp_new_iv _ _ _ EST)) as [A3 L3].
    split; [rewrite A3; exact B | rewrite L3; exact NDl].
  - inversion E; subst newf nri1. clear E.
    split; [rewrite A1; intros x [] |]. eapply subseq_NoDup; [apply live_l_subseq | rewrite A1; constructor].
Qed.

Lemma restore_ids latest old : wf_manifest old = true -> ids_inv old = true -> ids_inv (restore_step latest old) = true.
Proof.
  intros W II. unfold restore_step, ids_inv. cbn [m_next_row_id m_fragments].
  destruct (existsb (fun f => is_some (fr_row_ids f)) (m_fragments old)) eqn:ST; [|reflexivity].
  destruct (m_next_row_id old) as [n|] eqn:EN.
  - unfold ids_inv in II. rewrite EN in II. apply ids_inv_l_iff in II. apply ids_inv_l_iff. eapply Inv_mono; [|exact II]. lia.
  - (* not stable: no fragment has row ids *)
    exfalso. destruct (wf_facts false old W) as [_ [C _]]; [unfold uses_stable; rewrite EN; reflexivity|].
    destruct (row_ids_flag false _ C) as [_ ANY]. rewrite ST in ANY. discriminate.
Qed.

Theorem id_history_inv h : id_history h -> Forall (fun m => wf_manifest m = true /\ ids_inv m = true) h.
Proof.
  intro H. pose proof (history_wf h (id_history_history h H)) as WF.
  induction H as [op cfg m OK NR H | latest older op us sf m Hh IH OK OI US H | latest older old Hh IH I].
  - constructor; [|constructor]. inversion WF; subst. split; [assumption | eapply create_ids; eassumption].
  - inversion WF; subst. specialize (IH H3). constructor; [|exact IH]. split; [assumption|].
    inversion IH as [|? ? [WL IL] _]; subst. destruct (m_next_row_id latest) as [n|] eqn:EN.
    + assert (USL : uses_stable latest = true) by (unfold uses_stable; rewrite EN; reflexivity). rewrite USL in OK.
      exact (proj1 (commit_ids latest op us sf m n WL EN IL OK (OI USL) H)).
    + (* a table without stable row ids stays without *)
      apply unstable_ids_inv. unfold commit_step in H. destruct (negb (validate_operation (Some latest) op)); [discriminate|].
      bind_as H m1 EB. bind_as H m2 EF. destruct (check_storage_ids _ _ H) as [_ F2]. rewrite F2.
      assert (USL : uses_stable latest = false) by (unfold uses_stable; rewrite EN; reflexivity).
      assert (OK' : op_ok (table_stable (Some latest) (mkConfig us sf)) (Some latest) op = true) by (cbn [table_stable]; exact OK).
      rewrite USL in OK.
      pose proof (build_manifest_wf (Some latest) op _ m1 WL OK' EB) as W1. rewrite (fix_schema_id _ W1) in EF. inversion EF; subst m2.
      (* m1 is well formed with the flag computed from fragments that are consistent for `false` *)
      unfold build_manifest in EB. destruct (cfg_stable (mkConfig us sf) && _) eqn:G; [discriminate|].
      bind_as EB schema ES. bind_as EB nri ENR. bind_as EB r EA. destruct r as [[final idx] nri'].
      assert (NS : is_some nri = false).
      { unfold start_next_row_id in ENR. rewrite EN in ENR. destruct (cfg_stable (mkConfig us sf)); [discriminate | inversion ENR; reflexivity]. }
      assert (WC : wf_cur false (Some latest)) by (split; assumption).
      destruct (arm_ok (Some latest) op _ schema nri false final idx nri' WC OK NS ES EA) as [CF _].
      destruct (finish_shape _ _ _ _ _ _ _ _ EB) as [EFR SH]. cbn zeta in *.
      destruct SH as [SH|[SH _]]; [|exact SH]. exfalso.
      (* stable flag set although no fragment has row ids and cfg_stable is false *)
      unfold finish_manifest in EB. bind_as EB q E. destruct q as [[v pm] st]. destruct (existsb num_rows_underflows _); [discriminate|].
      bind_as EB stable EST. bind_as EB mx0 EM. bind_as EB mx EM2. inversion EB; subst m1. cbn [m_next_row_id] in SH.
      assert (CFF : forallb (frag_consistent false) (remove_tombstoned_data_files (sort_frags final)) = true).
      { eapply forallb_impl; [intros f _; apply wf_fragment_consistent|]. apply remove_tombstoned_wf.
        rewrite (forallb_perm _ _ _ (sort_frags_perm final)). exact CF. }
      destruct (row_ids_flag false _ CFF) as [_ ANY]. rewrite ANY in EST. cbn [andb orb] in EST.
      assert (CS : cfg_stable (mkConfig us sf) = false).
      { cbn [cfg_stable] in *. destruct us; [|reflexivity]. rewrite USL in G. cbn in G. discriminate. }
      rewrite CS in EST. inversion EST; subst stable. discriminate.
  - inversion WF; subst. specialize (IH H2). constructor; [|exact IH]. split; [assumption|].
    rewrite Forall_forall in IH. destruct (IH old I) as [WO IO]. apply restore_ids; assumption.
Qed.

(* the flag can only be lost on a table left without fragments by a commit made with use_stable_row_ids = false *)
Theorem stable_flag_sticky latest op us sf m' n :
  wf_manifest latest = true -> m_next_row_id latest = Some n -> ids_inv latest = true ->
  op_ok true (Some latest) op = true -> op_ids_ok latest op = true ->
  commit_step latest op us sf = Ok m' ->
  Known_C18_stable_flag_dropped_on_empty_table us m' = false -> uses_stable m' = true.
Proof.
  intros W EN II OK OI H K. destruct (commit_ids latest op us sf m' n W EN II OK OI H) as [_ B].
  unfold uses_stable. destruct (m_next_row_id m'); [reflexivity|]. destruct B as [B1 B2].
  unfold Known_C18_stable_flag_dropped_on_empty_table in K. rewrite B1, B2 in K. discriminate.
Qed.

Definition flag_drop_latest : Manifest := mkManifest 3 [0%Z] [] (Some 1) (Some 5) V2_0 [].
Lemma stable_flag_dropped_refuted :
  wf_manifest flag_drop_latest = true /\ ids_inv flag_drop_latest = true
  /\ exists m', commit_step flag_drop_latest UpdateConfig false None = Ok m'
       /\ Known_C18_stable_flag_dropped_on_empty_table false m' = true /\ uses_stable m' = false.
Proof. vm_compute. repeat split; try reflexivity. eexists. repeat split; reflexivity. Qed.

(* ================================================================ the row id index, for every segmentation *)
Fixpoint SS (l : list N) : Prop := match l with [] => True | x :: r => (forall y, In y r -> x < y) /\ SS r end.
Lemma strict_sorted_SS l : strict_sorted_n l = true -> SS l.
Proof.
  induction l as [|a r IH]; intro H; [exact I|]. destruct (strict_sorted_NoDup _ H) as [_ LT]. cbn [SS]. split; [exact (LT a r eq_refl)|].
  apply IH. cbn [strict_sorted_n] in H. destruct r; [reflexivity|]. apply andb_true_iff in H as [_ H]. exact H.
Qed.
Lemma SS_app a b : SS (a ++ b) -> SS a /\ SS b /\ (forall x y, In x a -> In y b -> x < y).
Proof.
  induction a as [|x r IH]; cbn [app SS]; intro H; [repeat split; [exact H | intros ? ? []]|].
  destruct H as [L H]. destruct (IH H) as [A [B C]]. repeat split; [intros y I; apply L; apply in_or_app; left; exact I | exact A | exact B |].
  intros u v [E|I] J; [subst; apply L; apply in_or_app; right; exact J | apply C; assumption].
Qed.
Lemma SS_NoDup l : SS l -> NoDup l.
Proof. induction l as [|a r IH]; cbn [SS]; intro H; [constructor|]. destruct H as [L H]. constructor; [intro I; specialize (L a I); lia | apply IH; exact H]. Qed.

Lemma fold_min_le l : forall a x, In x (a :: l) -> fold_left N.min l a <= x.
Proof. induction l as [|b r IH]; intros a x I; cbn [fold_left]; [destruct I as [E|[]]; subst; lia|]. destruct I as [E|[E|I]]; [subst; specialize (IH (N.min x b) (N.min x b) (or_introl eq_refl)); lia | subst; specialize (IH (N.min a x) (N.min a x) (or_introl eq_refl)); lia | apply IH; right; exact I]. Qed.
Lemma fold_max_ge' l : forall a x, In x (a :: l) -> x <= fold_left N.max l a.
Proof. induction l as [|b r IH]; intros a x I; cbn [fold_left]; [destruct I as [E|[]]; subst; lia|]. destruct I as [E|[E|I]]; [subst; specialize (IH (N.max x b) (N.max x b) (or_introl eq_refl)); lia | subst; specialize (IH (N.max a x) (N.max a x) (or_introl eq_refl)); lia | apply IH; right; exact I]. Qed.
Lemma fold_max_lt l : forall a y, a < y -> (forall x, In x l -> x < y) -> fold_left N.max l a < y.
Proof. induction l as [|b r IH]; intros a y A H; cbn [fold_left]; [exact A|]. apply IH; [specialize (H b (or_introl eq_refl)); lia | intros x I; apply H; right; exact I]. Qed.

Lemma chunk_bounds c x : In x (map fst c) -> chunk_lo c <= x /\ x <= chunk_hi c.
Proof.
  unfold chunk_lo, chunk_hi. intro I. destruct c as [|[k v] r]; [destruct I|]. cbn [map fst] in *. split.
  - cbn [fold_left]. rewrite N.min_id. apply fold_min_le. exact I.
  - apply (fold_max_ge' (k :: map fst r) 0 x). right. exact I.
Qed.
Lemma chunk_hi_lt c y : c <> [] -> (forall x, In x (map fst c) -> x < y) -> chunk_hi c < y.
Proof.
  unfold chunk_hi. intros NE H. apply fold_max_lt; [|exact H]. destruct c as [|[k v] r]; [contradiction|].
  specialize (H k (or_introl eq_refl)). lia.
Qed.

Lemma pair_list_eqb_eq (a b : list (N * N)) : list_eqb (pair_eqb N.eqb N.eqb) a b = true -> a = b.
Proof.
  apply list_eqb_eq. intros [x1 y1] [x2 y2]. unfold pair_eqb. cbn [fst snd]. rewrite andb_true_iff, !N.eqb_eq. split; [intros [A B]; subst; reflexivity | intro E; inversion E; split; reflexivity].
Qed.

Lemma index_get_chunks : forall chunks,
  SS (map fst (concat chunks)) -> (forall c, In c chunks -> c <> []) ->
  (forall rid addr, In (rid, addr) (concat chunks) -> index_get chunks rid = Some addr)
  /\ (forall rid, ~ In rid (map fst (concat chunks)) -> index_get chunks rid = None).
Proof.
  induction chunks as [|c cs IH]; intros S NE; [split; [intros ? ? [] | reflexivity]|].
  cbn [concat] in *. rewrite map_app in S. destruct (SS_app _ _ S) as [Sc [Scs CR]].
  destruct (IH Scs (fun c' I => NE c' (or_intror I))) as [IH1 IH2].
  assert (NEc : c <> []) by (apply NE; left; reflexivity).
  assert (OUT : forall y, In y (map fst (concat cs)) -> (chunk_lo c <=? y) && (y <=? chunk_hi c) = false).
  { intros y I. apply andb_false_iff. right. apply N.leb_gt. apply chunk_hi_lt; [exact NEc | intros x J; apply CR; assumption]. }
  unfold index_get in *. cbn [find]. split.
  - intros rid addr I. apply in_app_iff in I as [I|I].
    + destruct (chunk_bounds c rid (in_map fst _ _ I)) as [L U]. cbn [fst] in *.
      replace ((chunk_lo c <=? rid) && (rid <=? chunk_hi c)) with true by (symmetry; apply andb_true_iff; split; apply N.leb_le; assumption).
      rewrite (find_by_key c rid addr (SS_NoDup _ Sc) I). reflexivity.
    + rewrite (OUT rid (in_map fst _ _ I)). apply IH1. exact I.
  - intros rid NI. rewrite map_app, in_app_iff in NI.
    destruct ((chunk_lo c <=? rid) && (rid <=? chunk_hi c)); [|apply IH2; tauto].
    destruct (find (fun p => fst p =? rid) c) as [p|] eqn:F; [|reflexivity].
    exfalso. apply find_some in F as [I E]. apply N.eqb_eq in E. apply NI. left. apply in_map_iff. exists p. split; assumption.
Qed.

(* With monotone live ids the (unmerged) range lookup resolves every live row id to its address and no dead id,
   however the stored sequences are cut into segments *)
Theorem index_resolves m chunks :
  ids_non_monotone m = false -> is_segmentation chunks (live_rows m) = true ->
  (forall rid addr, In (rid, addr) (live_rows m) -> index_get chunks rid = Some addr)
  /\ (forall rid, ~ In rid (live_ids m) -> index_get chunks rid = None).
Proof.
  unfold ids_non_monotone, is_segmentation. intros K SG. apply negb_false_iff in K.
  apply andb_true_iff in SG as [EQ NE]. apply pair_list_eqb_eq in EQ. unfold live_ids in *. rewrite <- EQ in *.
  apply index_get_chunks; [apply strict_sorted_SS; exact K|].
  intros c I E. subst c. rewrite forallb_forall in NE. specialize (NE [] I). discriminate.
Qed.

(* the F18 shape: fragment 0 keeps ids {0,2,3} (row 1 was updated: deleted here, its id carried into fragment 1) *)
Definition f18_manifest : Manifest :=
  mkManifest 3 [0%Z]
    [mkFragment 0 (Some 4) [mkDataFile 0 [0%Z] (2, 0) 4] (Some (mkDeletionFile 0 (Some 1) [1])) (Some [0; 1; 2; 3]) None None;
     mkFragment 1 (Some 1) [mkDataFile 1 [0%Z] (2, 0) 1] None (Some [1]) None None]
    (Some 1) (Some 4) V2_0 [].
(* without merging, the chunk of fragment 0 spans 0..3 and swallows the lookup of id 1: this is why
   index_resolves needs monotone ids (or merged chunks) *)
Lemma unmerged_lookup_counterexample :
  wf_manifest f18_manifest = true /\ ids_inv f18_manifest = true /\ ids_non_monotone f18_manifest = true
  /\ exists chunks, is_segmentation chunks (live_rows f18_manifest) = true
       /\ In (1, row_address 1 0) (live_rows f18_manifest) /\ index_get chunks 1 = None.
Proof.
  vm_compute. repeat split; try reflexivity.
  exists [[(0, 0); (2, 2); (3, 3)]; [(1, 4294967296)]]. vm_compute. repeat split; try reflexivity. right. right. right. left. reflexivity.
Qed.
(* regression for the repaired F18 (repo commit ac0e2db): on the same manifest the specification resolves every
   live id, and so does the lookup over the MERGED chunk (what RowIdIndex::new builds for overlapping ranges) *)
Lemma f18_regression :
  map (resolve f18_manifest) [0; 1; 2; 3; 4] = [Some 0; Some (row_address 1 0); Some 2; Some 3; None]
  /\ map (index_get [[(0, 0); (1, row_address 1 0); (2, 2); (3, 3)]]) [0; 1; 2; 3; 4]
     = [Some 0; Some (row_address 1 0); Some 2; Some 3; None].
Proof. vm_compute. split; reflexivity. Qed.

(* compaction through the whole commit path *)
Theorem commit_rewrite_keeps latest groups ri fri us sf m' n :
  wf_manifest latest = true -> m_next_row_id latest = Some n ->
  op_ok true (Some latest) (Rewrite groups ri fri) = true -> op_ids_ok latest (Rewrite groups ri fri) = true ->
  commit_step latest (Rewrite groups ri fri) us sf = Ok m' ->
  forall x, In x (live_ids latest) -> In x (live_ids m').
Proof.
  unfold commit_step. intros W EN OK OI H. destruct (negb (validate_operation (Some latest) (Rewrite groups ri fri))); [discriminate|].
  bind_as H m1 EB. bind_as H m2 EF.
  assert (US : uses_stable latest = true) by (unfold uses_stable; rewrite EN; reflexivity).
  assert (OK' : op_ok (table_stable (Some latest) (mkConfig us sf)) (Some latest) (Rewrite groups ri fri) = true) by (cbn [table_stable]; rewrite US; exact OK).
  pose proof (build_manifest_wf (Some latest) _ _ m1 W OK' EB) as W1.
  rewrite (fix_schema_id _ W1) in EF. inversion EF; subst m2. destruct (check_storage_ids _ _ H) as [F1 _].
  unfold build_manifest in EB. destruct (cfg_stable (mkConfig us sf) && _); [discriminate|].
  bind_as EB schema ES. bind_as EB nri ENR. bind_as EB r EA. destruct r as [[final idx] nri'].
  assert (nri = Some n) by (unfold start_next_row_id in ENR; rewrite EN in ENR; destruct (cfg_stable (mkConfig us sf)); inversion ENR; reflexivity). subst nri.
  destruct (finish_shape _ _ _ _ _ _ _ _ EB) as [EFR _]. cbn zeta in EFR.
  intros x I. rewrite live_ids_eq in *. rewrite F1, EFR.
  rewrite (proj2 (ids_by_view _ _ (remove_tombstoned_iv (sort_frags final)))).
  eapply Permutation_in; [apply Permutation_sym; apply (flat_map_perm live_ids_of); apply sort_frags_perm|].
  exact (rewrite_keeps latest groups ri fri (mkConfig us sf) schema n final idx nri' W EN OK OI EA x I).
Qed.

(* ================================================================ the fragment-id keyed cache of row id sequences *)
Lemma cached_ids_ok warm m :
  Known_C18_rowid_sequence_cache_keyed_by_fragment_id warm m = false ->
  forall f, In f (m_fragments m) -> cached_ids (cache_of warm) f = ids_of f.
Proof.
  unfold Known_C18_rowid_sequence_cache_keyed_by_fragment_id. intros K f I.
  destruct (ln_eqb (cached_ids (cache_of warm) f) (ids_of f)) eqn:E; [apply ln_eqb_eq; exact E|].
  assert (existsb (fun f => negb (ln_eqb (cached_ids (cache_of warm) f) (ids_of f))) (m_fragments m) = true); [|congruence].
  apply existsb_exists. exists f. split; [exact I | rewrite E; reflexivity].
Qed.

(* create 3 rows (fragment 0, ids 0..2), overwrite with 2 rows (fragment 0 again, ids 3..4): the old version read
   through a cache warmed by the new one gets the ids [3; 4] for its fragment 0 *)
Lemma cache_clash_refuted :
  exists v1 v2, id_history [v2; v1]
    /\ Known_C18_rowid_sequence_cache_keyed_by_fragment_id v2 v1 = true
    /\ map (cached_ids (cache_of v2)) (m_fragments v1) = [[3; 4]] /\ map ids_of (m_fragments v1) = [[0; 1; 2]].
Proof.
  pose (file3 := fun path rows : N => mkDataFile path [0%Z; 1%Z; 2%Z] (2, 0) rows).
  eexists. eexists. split.
  - eapply ih_commit with (us := true) (sf := Some V2_0)
      (op := Overwrite [mkFragment 0 (Some 2) [file3 2 2] None None None None] [0%Z; 1%Z; 2%Z] false).
    + eapply ih_create with (op := Overwrite [mkFragment 0 (Some 3) [file3 1 3] None None None None] [0%Z; 1%Z; 2%Z] false) (cfg := mkConfig true (Some V2_0)); vm_compute; reflexivity.
    + vm_compute; reflexivity.
    + intros _; vm_compute; reflexivity.
    + left; reflexivity.
    + vm_compute; reflexivity.
  - vm_compute. repeat split; reflexivity.
Qed.
