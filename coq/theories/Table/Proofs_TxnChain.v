(* C03/C04/C24 - histories: what is known about every committed step, the chain of steps between a read version and
   the latest version, and what a sequence of successful conflict checks says about that chain. *)
From LanceV Require Import Common.Base Table.Model_Txn Table.Proofs_TxnBase Table.Proofs_TxnFrame.
From Coq Require Import Permutation.
Local Open Scope N_scope.

Lemma last_cons {A} : forall (r : list A) a d, last (a :: r) d = last r a.
Proof.
  induction r as [|b r IH]; intros a d; [reflexivity|]. change (last (a :: b :: r) d) with (last (b :: r) d).
  rewrite (IH b d), (IH b a). reflexivity.
Qed.
Lemma nth_error_split_skipn {A} : forall (l : list A) k e, nth_error l k = Some e -> skipn k l = e :: skipn (S k) l.
Proof.
  induction l as [|a r IH]; intros k e H; destruct k; cbn in H; try discriminate.
  - inversion H; subst. reflexivity.
  - cbn [skipn]. rewrite (IH k e H). reflexivity.
Qed.
Lemma last_skipn {A} : forall (l : list A) k e d, nth_error l k = Some e -> last (skipn (S k) l) e = last l d.
Proof.
  induction l as [|a r IH]; intros k e d H; destruct k; cbn in H; try discriminate.
  - inversion H; subst. cbn [skipn]. symmetry. apply last_cons.
  - change (skipn (S (S k)) (a :: r)) with (skipn (S k) r). rewrite (IH k e a H). symmetry. apply last_cons.
Qed.
Lemma nth_error_last {A} : forall (l : list A) e d, nth_error l (pred (length l)) = Some e -> last l d = e.
Proof.
  induction l as [|a r IH]; intros e d H; [discriminate|]. rewrite last_cons.
  destruct r as [|b r']; [cbn in H; inversion H; reflexivity|]. apply IH. exact H.
Qed.

Lemma In_skipn' {A} : forall k (l : list A) x, In x (skipn k l) -> In x l.
Proof.
  induction k as [|k IH]; intros l x H; [exact H|]. destruct l as [|a r]; [exact H|]. right. apply IH. exact H.
Qed.

Section Chain.
  Variable frows : N -> N.
  Variable fcontent : N -> Z -> N -> option N.
  Notation frag_rows := (frag_rows frows).
  Notation fcell := (fcell fcontent).
  Notation wf_frag := (wf_frag frows).
  Notation wf_manifest := (wf_manifest frows).
  Notation Sim := (Sim frows fcontent).

  (* operations a writer of the model can submit (no MemWAL / clone / base-path transactions) *)
  Definition gen_op (o : op) : Prop :=
    match o with UpdateMemWalState _ _ _ | Clone | UpdateBases _ => False | _ => True end.

  (* facts about a committed operation relative to the manifest it was applied to *)
  Definition GoodOp (m : manifest) (o : op) : Prop :=
    match o with
    | Delete upd removed | Update removed upd _ _ _ _ _ =>
        forall u c, In u upd -> ~ In (f_id u) removed -> find_frag (f_id u) (m_frags m) = Some c -> incl (dels_of c) (dels_of u)
    | Project s => incl s (m_schema m) /\ forall f, In f (m_frags m) -> keeps_file s f
    | _ => True
    end.

  Inductive StepOk (m : manifest) (o : op) (m' : manifest) : Prop :=
  | step_build : build_manifest m o = Ok m' -> GoodOp m o -> gen_op o -> StepOk m o m'
  | step_restore : forall v, o = Restore v -> StepOk m o m'.

  Inductive Chain : manifest -> list op -> manifest -> Prop :=
  | chain_nil : forall m, Chain m [] m
  | chain_cons : forall m o m1 ops m', StepOk m o m1 -> wf_manifest m1 -> Chain m1 ops m' -> Chain m (o :: ops) m'.

  (* consecutive entries of a history *)
  Fixpoint steps_ok (l : list ventry) : Prop :=
    match l with
    | e1 :: ((e2 :: _) as r) => StepOk (v_man e1) (v_op e2) (v_man e2) /\ steps_ok r
    | _ => True
    end.
  Record HistOk (h : history) : Prop := {
    h_wf : forall e, In e h -> wf_manifest (v_man e);
    h_steps : steps_ok h }.

  Lemma steps_ok_skipn : forall k l, steps_ok l -> steps_ok (skipn k l).
  Proof.
    induction k as [|k IH]; intros l H; [exact H|]. destruct l as [|e r]; [exact I|]. cbn [skipn].
    apply IH. destruct r as [|e2 r']; [exact I | exact (proj2 H)].
  Qed.
  Lemma chain_of_steps : forall r e, steps_ok (e :: r) -> (forall x, In x r -> wf_manifest (v_man x)) ->
    Chain (v_man e) (map v_op r) (v_man (last r e)).
  Proof.
    induction r as [|e2 r IH]; intros e Hs Hw; cbn [map]; [apply chain_nil|].
    destruct Hs as [H1 H2]. apply (chain_cons _ _ (v_man e2)); [exact H1 | apply Hw; left; reflexivity|].
    rewrite last_cons.
    apply IH; [exact H2 | intros x Hx; apply Hw; right; exact Hx].
  Qed.

  Lemma nth_man_some : forall h v m, nth_man h v = Some m ->
    exists e, nth_error h (N.to_nat (v - 1)) = Some e /\ v_man e = m /\ 1 <= v.
  Proof.
    intros h v m H. unfold nth_man in H. destruct v as [|p]; [discriminate|].
    destruct (nth_error h (N.to_nat (N.pos p - 1))) as [e|]; [|discriminate]. cbn [option_map] in H. inversion H; subst.
    exists e. split; [reflexivity | split; [reflexivity | lia]].
  Qed.
  (* the chain between a read version and the latest version of a good history *)
  Lemma hist_chain : forall h rv mr cur, HistOk h -> nth_man h rv = Some mr -> latest h = Some cur ->
    Chain mr (ops_since h rv) cur.
  Proof.
    intros h rv mr cur [Hw Hs] Hr Hl.
    apply nth_man_some in Hr as [e [He [Em Hv]]]. subst mr.
    unfold latest in Hl. apply nth_man_some in Hl as [el [Hel [Emc _]]]. subst cur.
    unfold ops_since.
    assert (Ek : N.to_nat rv = S (N.to_nat (rv - 1))) by lia. rewrite Ek.
    set (k := N.to_nat (rv - 1)) in *.
    pose proof (nth_error_split_skipn h k e He) as Esk.
    assert (Hlast : v_man el = v_man (last (skipn (S k) h) e)).
    { rewrite (last_skipn h k e el He). f_equal.
      unfold version_of in Hel. replace (N.to_nat (N.of_nat (length h) - 1)) with (pred (length h)) in Hel by lia.
      symmetry. apply nth_error_last. exact Hel. }
    rewrite Hlast. apply chain_of_steps.
    - rewrite <- Esk. apply steps_ok_skipn. exact Hs.
    - intros x Hx. apply Hw. apply (In_skipn' (S k)). exact Hx.
  Qed.


  (* ---------------------------------------------------------------- schema of the next manifest *)
  Lemma build_schema : forall m o m', build_manifest m o = Ok m' ->
    m_schema m' = match o with Overwrite _ s _ | Merge _ s | Project s => s | _ => m_schema m end.
  Proof.
    intros m o m' H. destruct o; cbn [build_manifest] in H; try discriminate; try (inversion H; subst; reflexivity).
    - (* Rewrite *)
      destruct (rewrite_groups _ _ groups) as [frs| |]; try discriminate.
      destruct (rewrite_indices _ _ rewritten groups) as [idx|]; [|discriminate]. inversion H; subst. reflexivity.
    - (* Overwrite *) inversion H; subst. destruct cfgv; reflexivity.
    - (* DataReplacement *)
      destruct (negb (all_same_fields (map snd repl))); [discriminate|].
      destruct (replace_all _ repl); [|discriminate]. inversion H; subst. reflexivity.
    - (* UpdateConfig *) inversion H; subst. destruct cu; reflexivity.
  Qed.

  Lemma carry_id : forall o f, f_id (carry o f) = f_id f.
  Proof. intros o f. destruct o; reflexivity. Qed.
  Lemma carry_del : forall o f, f_del (carry o f) = f_del f.
  Proof. intros o f. destruct o; reflexivity. Qed.

  (* one committed step keeps a fragment it does not touch *)
  Lemma step_untouched : forall m1 o m2 T fi f1,
    wf_manifest m1 -> wf_manifest m2 -> build_manifest m1 o = Ok m2 -> GoodOp m1 o -> touched o = Some T ->
    find_frag (f_id fi) (m_frags m1) = Some f1 -> Sim (m_schema m1) fi f1 -> ~ In (f_id fi) T ->
    exists f2, find_frag (f_id fi) (m_frags m2) = Some f2 /\ Sim (m_schema m2) fi f2 /\ f_del f2 = f_del f1
               /\ incl (schema_ids (m_schema m2)) (schema_ids (m_schema m1)).
  Proof.
    intros m1 o m2 T fi f1 Hw1 Hw2 Hb Hg Ht Hf Hs Hn.
    apply find_frag_some in Hf as [Hin Hid].
    assert (Hn' : ~ In (f_id f1) T) by (rewrite Hid; exact Hn).
    pose proof (untouched_preserved frows fcontent m1 o m2 f1 T Hb Ht Hin Hn') as U.
    set (f2 := detomb (carry o f1)) in *.
    assert (Hid2 : f_id f2 = f_id fi) by (unfold f2; rewrite detomb_id, carry_id; exact Hid).
    exists f2. destruct Hw2 as [Hnd2 [Hwf2 [Hs2 _]]]. destruct Hw1 as [_ [Hwf1 [Hs1 _]]].
    split; [rewrite <- Hid2; apply find_frag_In; assumption|].
    pose proof (build_schema _ _ _ Hb) as Es.
    assert (Hdel : f_del f2 = f_del f1) by (unfold f2; rewrite detomb_del, carry_del; reflexivity).
    destruct o; cbn [touched] in Ht; try discriminate; cbn [carry] in f2;
      try (rewrite Es; split; [apply Sim_detomb; [exact Hs1 | exact Hs] | split; [exact Hdel | apply incl_refl]]).
    (* Project *)
    destruct Hg as [Hincl Hkeep]. rewrite Es. rewrite Es in Hs2.
    assert (Hi : incl (schema_ids sch) (schema_ids (m_schema m1))).
    { intros x Hx. unfold schema_ids in *. apply in_map_iff in Hx as [p [E Hp]]. subst. apply in_map. apply Hincl. exact Hp. }
    split; [|split; [exact Hdel | exact Hi]].
    apply Sim_detomb; [exact Hs2|]. destruct Hs as [S1 [S2 [S3 S4]]]. unfold Proofs_TxnFrame.Sim.
    split; [exact S1 | split; [|split]].
    - rewrite (frag_rows_proj frows sch f1 Hs2 (Hwf1 f1 Hin) (Hkeep f1 Hin)). exact S2.
    - intros x o0 Hx. rewrite (fcell_proj fcontent sch f1 x o0 Hx). apply S3. apply Hi. exact Hx.
    - exact S4.
  Qed.

  Definition untouched_by (M : list N) (o : op) : Prop :=
    exists T, touched o = Some T /\ forall i, In i M -> ~ In i T.

  Lemma chain_untouched : forall m ops m', Chain m ops m' -> wf_manifest m ->
    forall M, (forall o, In o ops -> untouched_by M o) ->
    forall fi f1, In (f_id fi) M -> find_frag (f_id fi) (m_frags m) = Some f1 -> Sim (m_schema m) fi f1 ->
    exists f2, find_frag (f_id fi) (m_frags m') = Some f2 /\ Sim (m_schema m') fi f2 /\ f_del f2 = f_del f1
               /\ incl (schema_ids (m_schema m')) (schema_ids (m_schema m)).
  Proof.
    intros m ops m' Hc. induction Hc as [m | m o m1 ops m' Hstep Hw1 Hc IH]; intros Hw M Hu fi f1 HM Hf Hs.
    - exists f1. split; [exact Hf | split; [exact Hs | split; [reflexivity | apply incl_refl]]].
    - destruct (Hu o (or_introl eq_refl)) as [T [Ht HT]].
      destruct Hstep as [Hb Hg _ | v Ev]; [|subst o; discriminate].
      destruct (step_untouched m o m1 T fi f1 Hw Hw1 Hb Hg Ht Hf Hs (HT _ HM)) as [f2 [F1 [F2 [F3 F4]]]].
      destruct (IH Hw1 M (fun o' Ho' => Hu o' (or_intror Ho')) fi f2 HM F1 F2) as [f3 [G1 [G2 [G3 G4]]]].
      exists f3. split; [exact G1 | split; [exact G2 | split; [congruence|]]].
      intros x Hx. apply F4. apply G4. exact Hx.
  Qed.


  (* ---------------------------------------------------------------- the rebase state of a delete / update *)
  Definition init_ids (init : list (frag * bool)) : list N := map (fun p => f_id (fst p)) init.

  Lemma init_get_some : forall i init fr b, init_get i init = Some (fr, b) -> In (fr, b) init /\ f_id fr = i.
  Proof.
    intros i init fr b H. unfold init_get in H. apply find_some in H as [H E]. cbn [fst] in E. apply N.eqb_eq in E. auto.
  Qed.
  Lemma init_get_none : forall i init, init_get i init = None -> ~ In i (init_ids init).
  Proof.
    intros i init H Hin. unfold init_ids in Hin. apply in_map_iff in Hin as [p [E Hp]].
    pose proof (find_none _ _ H p Hp) as Q. cbv beta in Q. rewrite E, N.eqb_refl in Q. discriminate.
  Qed.
  Lemma init_unique : forall init fi b fr bb, NoDup (init_ids init) -> In (fi, b) init -> In (fr, bb) init ->
    f_id fi = f_id fr -> fi = fr /\ b = bb.
  Proof.
    induction init as [|p r IH]; intros fi b fr bb Hnd H1 H2 E; [destruct H1|]. cbn [init_ids map] in Hnd.
    inversion Hnd as [|? ? Hn Hr]; subst.
    destruct H1 as [H1 | H1]; destruct H2 as [H2 | H2].
    - rewrite H1 in H2. inversion H2; auto.
    - exfalso. apply Hn. subst p. cbn [fst]. rewrite E. apply (in_map (fun q => f_id (fst q)) r (fr, bb)). exact H2.
    - exfalso. apply Hn. subst p. cbn [fst]. rewrite <- E. apply (in_map (fun q => f_id (fst q)) r (fi, b)). exact H1.
    - exact (IH fi b fr bb Hr H1 H2 E).
  Qed.
  Lemma init_mark_ids : forall i bm init, init_ids (init_mark i bm init) = init_ids init.
  Proof.
    intros i bm init. unfold init_ids, init_mark. rewrite map_map. apply map_ext. intros [f b]. cbn [fst].
    destruct (N.eqb (f_id f) i); reflexivity.
  Qed.
  Lemma init_mark_In : forall i bm init fi b1, In (fi, b1) (init_mark i bm init) ->
    exists b0, In (fi, b0) init /\ b1 = (if N.eqb (f_id fi) i then b0 || bm else b0).
  Proof.
    intros i bm init fi b1 H. unfold init_mark in H. apply in_map_iff in H as [[f b] [E Hp]]. cbn [fst snd] in E.
    destruct (N.eqb (f_id f) i) eqn:Ei; injection E as E1 E2; subst f; exists b; rewrite Ei; split; [exact Hp | symmetry; exact E2 | exact Hp | symmetry; exact E2].
  Qed.
  Lemma init_has_ids : forall i init, init_has i init = true <-> In i (init_ids init).
  Proof.
    intros i init. unfold init_has, init_ids. rewrite existsb_exists, in_map_iff. split.
    - intros [p [Hp E]]. apply N.eqb_eq in E. exists p. auto.
    - intros [p [E Hp]]. exists p. split; [exact Hp | apply N.eqb_eq; exact E].
  Qed.

  Lemma chk_updated_spec : forall upd init init', NoDup (init_ids init) -> chk_updated init upd = Some init' ->
    init_ids init' = init_ids init
    /\ (forall fi b', In (fi, b') init' -> exists b, In (fi, b) init /\ (b = true -> b' = true)
          /\ (b' = false -> forall u, In u upd -> f_id u = f_id fi -> f_del u = f_del fi))
    /\ (forall fi b u, In (fi, b) init -> In u upd -> f_id u = f_id fi -> f_files u = f_files fi).
  Proof.
    induction upd as [|u rest IH]; intros init init' Hnd H; cbn [chk_updated] in H.
    - inversion H; subst. split; [reflexivity | split].
      + intros fi b' Hin. exists b'. split; [exact Hin | split; [auto | intros _ u0 []]].
      + intros fi b u0 _ [].
    - destruct (init_get (f_id u) init) as [[fr bb]|] eqn:Eg.
      + destruct (files_eqb (f_files fr) (f_files u)) eqn:Ef; [|discriminate].
        apply files_eqb_eq in Ef. apply init_get_some in Eg as [Hfr Eid].
        set (bm := negb (del_eqb (f_del u) (f_del fr))) in *.
        assert (Hnd1 : NoDup (init_ids (init_mark (f_id u) bm init))) by (rewrite init_mark_ids; exact Hnd).
        destruct (IH _ _ Hnd1 H) as [A [B C]]. split; [rewrite A; apply init_mark_ids | split].
        * intros fi b' Hin. destruct (B fi b' Hin) as [b1 [Hb1 [Hmono Hdel]]].
          apply init_mark_In in Hb1 as [b0 [Hb0 Eb1]]. exists b0. split; [exact Hb0 | split].
          -- intros Et. apply Hmono. rewrite Eb1, Et. destruct (N.eqb (f_id fi) (f_id u)); reflexivity.
          -- intros Ef' u0 [Hu0 | Hu0] Eu0.
             ++ subst u0. destruct (init_unique init fi b0 fr bb Hnd Hb0 Hfr (eq_trans (eq_sym Eu0) (eq_sym Eid))) as [E1 _]. subst fr.
                (* b' = false forces the mark of this step to be false *)
                destruct b1.
                ** specialize (Hmono eq_refl). congruence.
                ** rewrite <- Eu0, N.eqb_refl in Eb1. symmetry in Eb1. apply orb_false_iff in Eb1 as [_ Eb].
                   unfold bm in Eb. apply negb_false_iff in Eb. apply del_eqb_eq in Eb. exact Eb.
             ++ exact (Hdel Ef' u0 Hu0 Eu0).
        * intros fi b u0 Hin [Hu0 | Hu0] Eu0.
          -- subst u0. destruct (init_unique init fi b fr bb Hnd Hin Hfr (eq_trans (eq_sym Eu0) (eq_sym Eid))) as [E1 _]. subst fr.
             symmetry. exact Ef.
          -- assert (Hin' : In (fi, if N.eqb (f_id fi) (f_id u) then b || bm else b) (init_mark (f_id u) bm init)).
             { unfold init_mark. apply in_map_iff. exists (fi, b). cbn [fst snd]. split; [|exact Hin].
               destruct (N.eqb (f_id fi) (f_id u)); reflexivity. }
             exact (C _ _ u0 Hin' Hu0 Eu0).
      + destruct (IH _ _ Hnd H) as [A [B C]]. split; [exact A | split].
        * intros fi b' Hin. destruct (B fi b' Hin) as [b1 [Hb1 [Hmono Hdel]]]. exists b1. split; [exact Hb1 | split; [exact Hmono|]].
          intros Ef' u0 [Hu0 | Hu0] Eu0; [|exact (Hdel Ef' u0 Hu0 Eu0)].
          subst u0. exfalso. apply (init_get_none _ _ Eg). rewrite Eu0. unfold init_ids.
          apply (in_map (fun q => f_id (fst q)) init (fi, b1)). exact Hb1.
        * intros fi b u0 Hin [Hu0 | Hu0] Eu0; [|exact (C fi b u0 Hin Hu0 Eu0)].
          subst u0. exfalso. apply (init_get_none _ _ Eg). rewrite Eu0. unfold init_ids.
          apply (in_map (fun q => f_id (fst q)) init (fi, b)). exact Hin.
  Qed.

  Lemma check_all_cons : forall rb o os rb2, check_all rb (o :: os) = (VOk, rb2) ->
    exists rb1, check_txn rb o = (VOk, rb1) /\ check_all rb1 os = (VOk, rb2).
  Proof.
    intros rb o os rb2 H. cbn [check_all] in H. destruct (check_txn rb o) as [v rb1]. destruct v; try (inversion H; fail).
    exists rb1. split; [reflexivity | exact H].
  Qed.

  Lemma overlap_untouched : forall T M, overlapN T M = false -> forall i, In i M -> ~ In i T.
  Proof. intros T M H i Hi Ht. apply (proj1 (overlapN_false T M) H i Ht Hi). Qed.

  (* what a successful check of a delete / update against one committed operation says *)
  Lemma check_du_result : forall rb mw isu other rb', check_delete_update rb mw isu other = (VOk, rb') -> gen_op other ->
    (rb' = rb /\ untouched_by (rb_mod rb) other)
    \/ (exists upd removed init',
          (other = Delete upd removed \/ exists a b c d e, other = Update removed upd a b c d e)
          /\ chk_updated (rb_init rb) upd = Some init'
          /\ existsb (fun i => init_has i init') removed = false /\ rb' = with_init rb init').
  Proof.
    intros rb mw isu other rb' H Hg. destruct other; cbn [check_delete_update gen_op] in *; try contradiction;
      try (inversion H; fail); try (inversion H; subst; left; split; [reflexivity | exists []; split; [reflexivity | intros i _ []]]).
    - (* Delete *)
      unfold check_du_vs_du in H. destruct (negb (overlapN (ids_of upd ++ del_ids) (rb_mod rb))) eqn:Eo.
      + inversion H; subst. left. split; [reflexivity|]. exists (ids_of upd ++ del_ids). split; [reflexivity|].
        apply overlap_untouched. apply negb_true_iff. exact Eo.
      + destruct (rb_aff rb); [|inversion H]. destruct (chk_updated (rb_init rb) upd) as [init'|] eqn:Ec; [|inversion H].
        destruct (existsb (fun i => init_has i init') del_ids) eqn:Ee; inversion H; subst.
        right. exists upd, del_ids, init'. split; [left; reflexivity | auto].
    - (* Update *)
      unfold check_du_vs_du in H. destruct (negb (overlapN (ids_of upd ++ removed) (rb_mod rb))) eqn:Eo.
      + inversion H; subst. left. split; [reflexivity|]. exists (ids_of upd ++ removed). split; [reflexivity|].
        apply overlap_untouched. apply negb_true_iff. exact Eo.
      + destruct (rb_aff rb); [|inversion H]. destruct (chk_updated (rb_init rb) upd) as [init'|] eqn:Ec; [|inversion H].
        destruct (existsb (fun i => init_has i init') removed) eqn:Ee; inversion H; subst.
        right. exists upd, removed, init'. split; [right; eauto 10 | auto].
    - (* Rewrite *)
      destruct (overlapN (group_old_ids groups) (rb_mod rb)) eqn:Eo; inversion H; subst.
      left. split; [reflexivity|]. exists (group_old_ids groups). split; [reflexivity | apply overlap_untouched; exact Eo].
    - (* DataReplacement *)
      destruct (overlapN (map fst repl) (rb_mod rb)) eqn:Eo; inversion H; subst.
      left. split; [reflexivity|]. exists (map fst repl). split; [reflexivity | apply overlap_untouched; exact Eo].
  Qed.
End Chain.
