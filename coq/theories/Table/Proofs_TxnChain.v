(* C03/C04/C24 - histories: what is known about every committed step, the chain of steps between a read version and
   the latest version, and what a sequence of successful conflict checks says about that chain. *)
From LanceV Require Import Common.Base Table.Model_Txn Table.Proofs_TxnBase Table.Proofs_TxnFrame.
From Coq Require Import Permutation.
Local Open Scope N_scope.

Lemma last_cons {A} : forall (r : list A) a d, last (a :: r) d = last r a.
Proof.
  induction r as [|b r IH]; intros a d; [reflexivity|]. change (last (a :: b :: r) d) with (last (b :: r) d).
  rewrite (IH b d), (IH b a). reflexivity.
Qed.
Lemma nth_error_split_skipn {A} : forall (l : list A) k e, nth_error l k = Some e -> skipn k l = e :: skipn (S k) l.
Proof.
  induction l as [|a r IH]; intros k e H; destruct k; cbn in H; try discriminate.
  - inversion H; subst. reflexivity.
  - cbn [skipn]. rewrite (IH k e H). reflexivity.
Qed.
Lemma last_skipn {A} : forall (l : list A) k e d, nth_error l k = Some e -> last (skipn (S k) l) e = last l d.
Proof.
  induction l as [|a r IH]; intros k e d H; destruct k; cbn in H; try discriminate.
  - inversion H; subst. cbn [skipn]. symmetry. apply last_cons.
  - change (skipn (S (S k)) (a :: r)) with (skipn (S k) r). rewrite (IH k e a H). symmetry. apply last_cons.
Qed.
Lemma nth_error_last {A} : forall (l : list A) e d, nth_error l (pred (length l)) = Some e -> last l d = e.
Proof.
  induction l as [|a r IH]; intros e d H; [discriminate|]. rewrite last_cons.
  destruct r as [|b r']; [cbn in H; inversion H; reflexivity|]. apply IH. exact H.
Qed.

Section Chain.
  Variable frows : N -> N.
  Variable fcontent : N -> Z -> N -> option N.
  Notation frag_rows := (frag_rows frows).
  Notation fcell := (fcell fcontent).
  Notation wf_frag := (wf_frag frows).
  Notation wf_manifest := (wf_manifest frows).
  Notation Sim := (Sim frows fcontent).

  (* operations a writer of the model can submit (no MemWAL / clone / base-path transactions) *)
  Definition gen_op (o : op) : Prop :=
    match o with UpdateMemWalState _ _ _ | Clone | UpdateBases _ => False | _ => True end.

  (* facts about a committed operation relative to the manifest it was applied to *)
  Definition GoodOp (m : manifest) (o : op) : Prop :=
    match o with
    | Delete upd _ | Update _ upd _ _ _ _ _ =>
        forall u c, In u upd -> find_frag (f_id u) (m_frags m) = Some c -> incl (dels_of c) (dels_of u)
    | Project s => incl s (m_schema m) /\ forall f, In f (m_frags m) -> keeps_file s f
    | _ => True
    end.

  Inductive StepOk (m : manifest) (o : op) (m' : manifest) : Prop :=
  | step_build : build_manifest m o = Ok m' -> GoodOp m o -> gen_op o -> StepOk m o m'
  | step_restore : forall v, o = Restore v -> StepOk m o m'.

  Inductive Chain : manifest -> list op -> manifest -> Prop :=
  | chain_nil : forall m, Chain m [] m
  | chain_cons : forall m o m1 ops m', StepOk m o m1 -> wf_manifest m1 -> Chain m1 ops m' -> Chain m (o :: ops) m'.

  (* consecutive entries of a history *)
  Fixpoint steps_ok (l : list ventry) : Prop :=
    match l with
    | e1 :: ((e2 :: _) as r) => StepOk (v_man e1) (v_op e2) (v_man e2) /\ steps_ok r
    | _ => True
    end.
  Record HistOk (h : history) : Prop := {
    h_wf : forall e, In e h -> wf_manifest (v_man e);
    h_steps : steps_ok h }.

  Lemma steps_ok_skipn : forall k l, steps_ok l -> steps_ok (skipn k l).
  Proof.
    induction k as [|k IH]; intros l H; [exact H|]. destruct l as [|e r]; [exact I|]. cbn [skipn].
    apply IH. destruct r as [|e2 r']; [exact I | exact (proj2 H)].
  Qed.
  Lemma chain_of_steps : forall r e, steps_ok (e :: r) -> (forall x, In x r -> wf_manifest (v_man x)) ->
    Chain (v_man e) (map v_op r) (v_man (last r e)).
  Proof.
    induction r as [|e2 r IH]; intros e Hs Hw; cbn [map]; [apply chain_nil|].
    destruct Hs as [H1 H2]. apply (chain_cons _ _ (v_man e2)); [exact H1 | apply Hw; left; reflexivity|].
    rewrite last_cons.
    apply IH; [exact H2 | intros x Hx; apply Hw; right; exact Hx].
  Qed.

  Lemma nth_man_some : forall h v m, nth_man h v = Some m ->
    exists e, nth_error h (N.to_nat (v - 1)) = Some e /\ v_man e = m /\ 1 <= v.
  Proof.
    intros h v m H. unfold nth_man in H. destruct v as [|p]; [discriminate|].
    destruct (nth_error h (N.to_nat (N.pos p - 1))) as [e|]; [|discriminate]. cbn [option_map] in H. inversion H; subst.
    exists e. split; [reflexivity | split; [reflexivity | lia]].
  Qed.
  (* the chain between a read version and the latest version of a good history *)
  Lemma hist_chain : forall h rv mr cur, HistOk h -> nth_man h rv = Some mr -> latest h = Some cur ->
    Chain mr (ops_since h rv) cur.
  Proof.
    intros h rv mr cur [Hw Hs] Hr Hl.
    apply nth_man_some in Hr as [e [He [Em Hv]]]. subst mr.
    unfold latest in Hl. apply nth_man_some in Hl as [el [Hel [Emc _]]]. subst cur.
    unfold ops_since.
    assert (Ek : N.to_nat rv = S (N.to_nat (rv - 1))) by lia. rewrite Ek.
    set (k := N.to_nat (rv - 1)) in *.
    pose proof (nth_error_split_skipn h k e He) as Esk.
    assert (Hlast : v_man el = v_man (last (skipn (S k) h) e)).
    { rewrite (last_skipn h k e el He). f_equal.
      unfold version_of in Hel. replace (N.to_nat (N.of_nat (length h) - 1)) with (pred (length h)) in Hel by lia.
      symmetry. apply nth_error_last. exact Hel. }
    rewrite Hlast. apply chain_of_steps.
    - rewrite <- Esk. apply steps_ok_skipn. exact Hs.
    - intros x Hx. apply Hw. apply (In_skipn (S k)). exact Hx.
  Qed.
End Chain.
