(* C03 - every committed transaction changes the row-level reading of the table by exactly the effect it computed
   at its read version; histories of commits therefore equal the serial replay of the committed effects. *)
From LanceV Require Import Common.Base Table.Model_Txn Table.Proofs_TxnBase Table.Proofs_TxnFrame Table.Proofs_TxnChain
  Table.Proofs_TxnDU Table.Proofs_TxnAbs Table.Proofs_TxnDel.
From Coq Require Import Permutation.
Local Open Scope N_scope.

Ltac break_match_hyp H :=
  repeat match type of H with
         | context [if ?b then _ else _] => destruct b
         | context [match ?x with _ => _ end] => destruct x
         end.

Section Main.
  Variable frows : N -> N.
  Variable fcontent : N -> Z -> N -> option N.
  Notation frag_rows := (frag_rows frows).
  Notation fcell := (fcell fcontent).
  Notation flive := (flive frows).
  Notation wf_frag := (wf_frag frows).
  Notation wf_manifest := (wf_manifest frows).
  Notation Sim := (Sim frows fcontent).
  Notation Chain := (Chain frows).
  Notation HistOk := (HistOk frows).
  Notation abs := (abs frows fcontent).
  Notation live_at := (live_at frows).
  Notation cell_at := (cell_at fcontent).
  Notation apply_effect := (apply_effect frows fcontent).
  Notation commit := (commit frows).
  Notation finish := (finish frows).
  Notation mk := (mk frows).
  Notation run_step := (run_step frows).
  Notation run := (run frows).
  Notation replay := (replay frows fcontent).
  Notation new_frags_ok := (new_frags_ok frows).
  Notation next_of := (next_of).

  (* ---------------------------------------------------------------- the rebase state keeps its operation *)
  Lemma check_du_op : forall rb mw isu o v rb', check_delete_update rb mw isu o = (v, rb') -> rb_op rb' = rb_op rb.
  Proof.
    intros rb mw isu o v rb' H. destruct o; cbn [check_delete_update] in H; try (inversion H; reflexivity);
      unfold check_du_vs_du in H; break_match_hyp H; inversion H; reflexivity.
  Qed.
  Lemma check_txn_op : forall rb o v rb', check_txn rb o = (v, rb') -> rb_op rb' = rb_op rb.
  Proof.
    intros rb o v rb' H. unfold check_txn in H. destruct (rb_op rb) eqn:E; try (inversion H; subst; exact E);
      try (apply check_du_op in H; congruence).
    - (* Rewrite *) unfold check_rewrite in H. destruct o; break_match_hyp H; inversion H; subst; cbn; exact E.
    - (* CreateIndex *) unfold check_create_index in H. destruct o; break_match_hyp H; inversion H; subst; cbn; exact E.
  Qed.
  Lemma check_all_op : forall os rb v rb', check_all rb os = (v, rb') -> rb_op rb' = rb_op rb.
  Proof.
    induction os as [|o r IH]; intros rb v rb' H; cbn [check_all] in H; [inversion H; reflexivity|].
    destruct (check_txn rb o) as [v1 rb1] eqn:E. pose proof (check_txn_op _ _ _ _ E) as E1.
    destruct v1; try (inversion H; subst; exact E1). rewrite <- E1. exact (IH _ _ _ H).
  Qed.
  Lemma check_all_in : forall os rb rb', check_all rb os = (VOk, rb') ->
    forall o, In o os -> exists rb1 rb2, check_txn rb1 o = (VOk, rb2) /\ rb_op rb1 = rb_op rb.
  Proof.
    induction os as [|o r IH]; intros rb rb' H x Hx; [destruct Hx|].
    apply check_all_cons in H as [rb1 [H1 H2]]. destruct Hx as [Hx | Hx].
    - subst. exists rb, rb1. auto.
    - destruct (IH rb1 rb' H2 x Hx) as [a [b [A B]]]. exists a, b. split; [exact A|].
      rewrite B. exact (check_txn_op _ _ _ _ H1).
  Qed.

  (* ---------------------------------------------------------------- commit, unfolded *)
  Lemma commit_inv : forall h rv o aff nd h', commit h rv o aff nd = Committed h' ->
    exists mr cur rb' o' m',
      nth_man h rv = Some mr /\ latest h = Some cur
      /\ check_all (try_new (m_frags mr) o aff) (ops_since h rv) = (VOk, rb')
      /\ finish rb' (m_frags cur) nd = FOk o'
      /\ h' = h ++ [{| v_man := m'; v_op := o' |}]
      /\ ((exists v old, o' = Restore v /\ nth_man h v = Some old /\ m' = restore_manifest cur old)
          \/ ((forall v, o' <> Restore v) /\ build_manifest cur o' = Ok m')).
  Proof.
    intros h rv o aff nd h' H. unfold Model_Txn.commit in H.
    destruct (nth_man h rv) as [mr|]; [|discriminate]. destruct (latest h) as [cur|]; [|discriminate].
    destruct (check_all (try_new (m_frags mr) o aff) (ops_since h rv)) as [v rb'] eqn:Ec.
    destruct v; try discriminate.
    destruct (Model_Txn.finish frows rb' (m_frags cur) nd) as [o'| | |] eqn:Ef; try discriminate.
    exists mr, cur, rb', o'.
    destruct o'; cbn beta iota in H;
      try (match type of H with context [build_manifest cur ?oo] => destruct (build_manifest cur oo) as [m'| |] eqn:Eb end;
           [|discriminate|discriminate]; exists m'; split; [reflexivity|]; split; [reflexivity|]; split; [exact Ec|];
           split; [exact Ef|]; split; [inversion H; reflexivity|]; right; split; [intros v0 Q; discriminate | reflexivity]).
    match type of H with context [nth_man h ?x] => destruct (nth_man h x) as [old|] eqn:En; [|discriminate];
      exists (restore_manifest cur old); split; [reflexivity|]; split; [reflexivity|]; split; [exact Ec|];
      split; [exact Ef|]; split; [inversion H; reflexivity|]; left; exists x, old; auto end.
  Qed.

  Lemma latest_snoc : forall h e, latest (h ++ [e]) = Some (v_man e).
  Proof.
    intros h e. unfold latest, nth_man, version_of. rewrite app_length. cbn [length].
    replace (N.of_nat (length h + 1)) with (N.succ (N.of_nat (length h))) by lia.
    destruct (N.succ (N.of_nat (length h))) eqn:E; [lia|]. rewrite <- E.
    replace (N.to_nat (N.succ (N.of_nat (length h)) - 1)) with (length h) by lia.
    rewrite nth_error_app2 by lia. rewrite Nat.sub_diag. reflexivity.
  Qed.
  Lemma latest_last_entry : forall h cur, latest h = Some cur -> exists h0 e0, h = h0 ++ [e0] /\ v_man e0 = cur.
  Proof.
    intros h cur H. destruct h as [|a r]; [discriminate|].
    destruct (@exists_last _ (a :: r)) as [h0 [e0 E]]; [discriminate|]. rewrite E in H. rewrite latest_snoc in H.
    inversion H. exists h0, e0. auto.
  Qed.
  Lemma steps_ok_snoc : forall h0 e0 e, steps_ok (h0 ++ [e0]) -> StepOk (v_man e0) (v_op e) (v_man e) ->
    steps_ok ((h0 ++ [e0]) ++ [e]).
  Proof.
    induction h0 as [|a r IH]; intros e0 e Hs Hst; cbn [app steps_ok]; [auto|].
    destruct r as [|b r']; cbn [app] in *.
    - destruct Hs as [H1 _]. split; [exact H1 | split; [exact Hst | exact I]].
    - destruct Hs as [H1 H2]. split; [exact H1|]. apply (IH e0 e H2 Hst).
  Qed.
  Lemma HistOk_snoc : forall h cur e, HistOk h -> latest h = Some cur -> wf_manifest (v_man e) ->
    StepOk cur (v_op e) (v_man e) -> HistOk (h ++ [e]).
  Proof.
    intros h cur e [Hw Hs] Hl Hwe Hst. destruct (latest_last_entry h cur Hl) as [h0 [e0 [Eh Ec]]].
    subst h cur. split.
    - intros x Hx. apply in_app_or in Hx as [Hx | [Hx | []]]; [apply Hw; exact Hx | subst; exact Hwe].
    - apply steps_ok_snoc; assumption.
  Qed.

  (* ---------------------------------------------------------------- validity of an intent at its read version *)
  Definition rows_live (frs : list frag) (rows : list addr) : Prop :=
    forall a, In a rows -> live_at frs (fst a) (snd a) = true.

  Definition valid_intent (h : history) (rv : N) (i : intent) : Prop :=
    match nth_man h rv with
    | None => False
    | Some mr =>
        match i with
        | IAppend frs => new_frags_ok frs /\ covers_nonnull (m_schema mr) frs = true
        | IDelete rows => rows_live (m_frags mr) rows
        | IUpdateRows rows frs => rows_live (m_frags mr) rows /\ new_frags_ok frs
        | IOverwrite frs s _ => new_frags_ok frs /\ wf_schema s
        | IRestore v => exists old, nth_man h v = Some old
        | IReserve _ | IConfig _ | ICreateIndex _ _ => True
        | _ => False
        end
    end.


  (* ---------------------------------------------------------------- build_manifest, arm by arm *)
  Lemma build_reserve : forall cur n, build_manifest cur (ReserveFragments n) =
    Ok (with_maxfid (mk_manifest cur (m_schema cur) (m_frags cur) (m_indices cur))
          (Some (match m_maxfid (mk_manifest cur (m_schema cur) (m_frags cur) (m_indices cur)) with Some x => x | None => 0 end + n))).
  Proof. reflexivity. Qed.
  Lemma build_config : forall cur u, build_manifest cur (UpdateConfig (Some u) None None []) =
    Ok (with_config (mk_manifest cur (m_schema cur) (m_frags cur) (m_indices cur))
          (apply_umap (m_config (mk_manifest cur (m_schema cur) (m_frags cur) (m_indices cur))) u)).
  Proof. reflexivity. Qed.
  Lemma build_delete : forall cur upd dids, build_manifest cur (Delete upd dids) =
    Ok (let frs := map (replace_last upd) (filter (fun f => negb (memN (f_id f) dids)) (m_frags cur)) in
        mk_manifest cur (m_schema cur) frs (retain_relevant_indices (m_indices cur) (m_schema cur) frs)).
  Proof. reflexivity. Qed.
  Lemma build_update : forall cur removed upd newf fm md mw fp, build_manifest cur (Update removed upd newf fm md mw fp) =
    Ok (let kept := map (replace_first upd) (filter (fun f => negb (memN (f_id f) removed)) (m_frags cur)) in
        let frs := kept ++ fst (assign_ids (next_of cur) newf) in
        mk_manifest cur (m_schema cur) frs (retain_relevant_indices (prune_updated_fields (m_indices cur) upd fm) (m_schema cur) frs)).
  Proof. reflexivity. Qed.
  Lemma build_append : forall cur frs, build_manifest cur (Append frs) =
    Ok (mk_manifest cur (m_schema cur) (m_frags cur ++ fst (assign_ids (next_of cur) frs)) (m_indices cur)).
  Proof. reflexivity. Qed.

  (* ---------------------------------------------------------------- operations that keep the fragment list *)
  Lemma same_frags_mk : forall cur idx, wf_manifest cur ->
    let m := mk_manifest cur (m_schema cur) (m_frags cur) idx in
    (forall f o, live_at (m_frags m) f o = live_at (m_frags cur) f o)
    /\ (forall f o x, x <> (-2)%Z -> cell_at (m_frags m) f o x = cell_at (m_frags cur) f o x)
    /\ m_maxfid m = m_maxfid cur /\ wf_manifest m.
  Proof.
    intros cur idx Hw m. pose proof Hw as [Hnd [Hwf [Hs Hm]]]. split; [|split; [|split]].
    - intros f o. apply live_at_mk. exact Hnd.
    - intros f o x Hx. apply cell_at_mk; assumption.
    - unfold m. rewrite mk_manifest_maxfid. apply wf_maxfid_bound. exact Hm.
    - apply (mk_manifest_wf frows fcontent); assumption.
  Qed.

  Definition result_ok (cur : manifest) (o' : op) (m' : manifest) (e : effect) : Prop :=
    wf_manifest m' /\ GoodOp cur o' /\ exists t', apply_effect e (abs cur) = Some t' /\ table_eq (abs m') t'.

  Lemma wf_with_config : forall m c, wf_manifest m -> wf_manifest (with_config m c).
  Proof. intros m c H. exact H. Qed.

  Lemma eff_config : forall cur u m', wf_manifest cur ->
    build_manifest cur (UpdateConfig (Some u) None None []) = Ok m' ->
    result_ok cur (UpdateConfig (Some u) None None []) m' (EConfig (Some u)).
  Proof.
    intros cur u m' Hw Hb. rewrite build_config in Hb. injection Hb as Hb; subst m'.
    destruct (same_frags_mk cur (m_indices cur) Hw) as [L [C [M W]]]. pose proof Hw as [_ [_ [Hs Hm]]].
    split; [exact W | split; [exact I|]]. eexists. split; [reflexivity|].
    unfold Model_Txn.abs, Model_Txn.table_eq. cbn [t_schema t_maxfid t_config t_live t_cell with_config m_schema m_config m_frags].
    split; [reflexivity | split; [|split; [reflexivity | split]]].
    - unfold max_fragment_id. cbn [with_config m_maxfid m_frags]. fold (max_fragment_id (mk_manifest cur (m_schema cur) (m_frags cur) (m_indices cur))).
      rewrite (max_fragment_id_wf _ (proj2 (proj2 (proj2 W)))), M. symmetry. apply max_fragment_id_wf. exact Hm.
    - exact L.
    - intros f o x _ Hx. apply C. apply Hs. exact Hx.
  Qed.


  Lemma abs_maxfid : forall m, wf_manifest m -> t_maxfid (abs m) = m_maxfid m.
  Proof. intros m [_ [_ [_ H]]]. cbn [Model_Txn.abs t_maxfid]. apply max_fragment_id_wf. exact H. Qed.
  Lemma wf_maxfid_of : forall m, wf_manifest m -> wf_maxfid m.
  Proof. intros m [_ [_ [_ H]]]. exact H. Qed.

  Lemma eff_reserve : forall cur n m', wf_manifest cur ->
    build_manifest cur (ReserveFragments n) = Ok m' -> result_ok cur (ReserveFragments n) m' (EReserve n).
  Proof.
    intros cur n m' Hw Hb.
    destruct (same_frags_mk cur (m_indices cur) Hw) as [L [C [M W]]]. pose proof Hw as [_ [_ [Hs Hm]]].
    set (m := mk_manifest cur (m_schema cur) (m_frags cur) (m_indices cur)) in *.
    assert (Em' : m' = with_maxfid m (Some (match m_maxfid m with Some x => x | None => 0 end + n))).
    { pose proof (build_reserve cur n) as Q. fold m in Q. congruence. }
    clear Hb. subst m'.
    assert (W' : wf_manifest (with_maxfid m (Some (match m_maxfid m with Some x => x | None => 0 end + n)))).
    { destruct W as [W1 [W2 [W3 W4]]]. split; [exact W1 | split; [exact W2 | split; [exact W3|]]].
      unfold wf_maxfid in *. cbn [with_maxfid m_maxfid m_frags]. intros f Hf. destruct (m_maxfid m) as [M0|].
      - specialize (W4 f Hf). lia.
      - rewrite W4 in Hf. destruct Hf. }
    split; [exact W' | split; [exact I|]]. eexists. split; [reflexivity|].
    unfold Model_Txn.table_eq. rewrite (abs_maxfid _ W'). cbn [Model_Txn.abs t_schema t_maxfid t_config t_live t_cell with_maxfid m_schema m_config m_frags m_maxfid].
    split; [reflexivity | split; [|split; [reflexivity | split]]].
    - rewrite M. rewrite (max_fragment_id_wf _ Hm). reflexivity.
    - exact L.
    - intros f o x _ Hx. apply C. apply Hs. exact Hx.
  Qed.

  Lemma eff_index : forall cur newi removedi m', wf_manifest cur ->
    build_manifest cur (CreateIndex newi removedi) = Ok m' -> result_ok cur (CreateIndex newi removedi) m' ENone.
  Proof.
    intros cur newi removedi m' Hw Hb. cbn [build_manifest] in Hb. inversion Hb; subst; clear Hb.
    match goal with |- result_ok _ _ (mk_manifest _ _ _ ?idx) _ => destruct (same_frags_mk cur idx Hw) as [L [C [M W]]] end.
    pose proof Hw as [_ [_ [Hs Hm]]].
    split; [exact W | split; [exact I|]]. eexists. split; [reflexivity|].
    unfold Model_Txn.table_eq. rewrite (abs_maxfid _ W), (abs_maxfid _ Hw).
    cbn [Model_Txn.abs t_schema t_config t_live t_cell m_schema m_config m_frags].
    split; [reflexivity | split; [exact M | split; [reflexivity | split]]].
    - exact L.
    - intros f o x _ Hx. apply C. apply Hs. exact Hx.
  Qed.

  (* Restore republishes an old manifest *)
  Lemma eff_restore : forall cur old v, wf_manifest cur -> wf_manifest old ->
    wf_manifest (restore_manifest cur old) /\ StepOk cur (Restore v) (restore_manifest cur old)
    /\ exists t', apply_effect (ERestore old) (abs cur) = Some t' /\ table_eq (abs (restore_manifest cur old)) t'.
  Proof.
    intros cur old v Hw Ho. pose proof Ho as [O1 [O2 [O3 O4]]]. pose proof (wf_maxfid_of _ Hw) as Hm.
    assert (W : wf_manifest (restore_manifest cur old)).
    { split; [exact O1 | split; [exact O2 | split; [exact O3|]]]. unfold wf_maxfid, restore_manifest in *.
      cbn [with_maxfid m_maxfid m_frags]. rewrite !max_fragment_id_wf by assumption.
      destruct (m_maxfid old) as [a|]; destruct (m_maxfid cur) as [b|]; try (intros f Hf; specialize (O4 f Hf); lia); auto.
      intros f Hf. rewrite O4 in Hf. destruct Hf. }
    split; [exact W | split; [apply (step_restore _ _ _ v); reflexivity|]]. eexists. split; [reflexivity|].
    unfold Model_Txn.table_eq. rewrite (abs_maxfid _ W).
    cbn [Model_Txn.abs t_schema t_maxfid t_config t_live t_cell restore_manifest with_maxfid m_schema m_config m_frags m_maxfid].
    repeat split; reflexivity.
  Qed.

  (* Overwrite *)
  Lemma eff_overwrite : forall cur frs s c m', wf_manifest cur -> new_frags_ok frs -> wf_schema s ->
    build_manifest cur (Overwrite frs s c) = Ok m' -> result_ok cur (Overwrite frs s c) m' (EOverwrite frs s c).
  Proof.
    intros cur frs s c m' Hw Hn Hs Hb. cbn [build_manifest] in Hb.
    set (news := fst (assign_ids 0 frs)) in *.
    assert (Hnd : NoDup (ids_of news)) by (apply assign_ids_NoDup; exact (proj1 Hn)).
    assert (Hwf : forall f, In f news -> wf_frag f) by (intros f Hf; exact (assigned_wf frows frs 0 f Hn Hf)).
    assert (W0 : wf_manifest (mk_manifest cur s news [])) by (apply (mk_manifest_wf frows fcontent); assumption).
    assert (W : wf_manifest m') by (destruct c; inversion Hb; subst; exact W0).
    split; [exact W | split; [exact I|]]. eexists. split; [reflexivity|].
    unfold Model_Txn.table_eq. rewrite (abs_maxfid _ W), (abs_maxfid _ Hw). fold news.
    assert (Em : m_maxfid m' = upd_maxfid_ids (m_maxfid cur) (ids_of news)).
    { rewrite upd_maxfid_ids_omax. destruct c; inversion Hb; subst; cbn [with_config m_maxfid]; apply mk_manifest_maxfid. }
    assert (Ef : m_frags m' = m_frags (mk_manifest cur s news [])) by (destruct c; inversion Hb; subst; reflexivity).
    assert (Es : m_schema m' = s) by (destruct c; inversion Hb; subst; reflexivity).
    cbn [Model_Txn.abs t_schema t_maxfid t_config t_live t_cell]. rewrite Ef, Es.
    split; [reflexivity | split; [exact Em | split; [|split]]].
    - destruct c; inversion Hb; subst; reflexivity.
    - intros f o. apply live_at_mk. exact Hnd.
    - intros f o x _ Hx. apply cell_at_mk; [exact Hnd | apply Hs; exact Hx].
  Qed.

  (* delete-all: every fragment of the read version is dropped *)
  Lemma eff_delete_all : forall cur ids m', wf_manifest cur ->
    build_manifest cur (Delete [] ids) = Ok m' -> result_ok cur (Delete [] ids) m' (EDropFrags ids).
  Proof.
    intros cur ids m' Hw Hb. rewrite build_delete in Hb. cbv zeta in Hb. injection Hb as Hb; subst m'.
    pose proof Hw as [Hnd [Hwf [Hs Hm]]].
    set (frs := map (replace_last []) (filter (fun f => negb (memN (f_id f) ids)) (m_frags cur))).
    assert (Efrs : frs = filter (fun f => negb (memN (f_id f) ids)) (m_frags cur)).
    { unfold frs. rewrite <- (map_id (filter _ (m_frags cur))) at 2. apply map_ext. reflexivity. }
    assert (Hsub : forall i, In i (ids_of frs) -> In i (ids_of (m_frags cur))).
    { intros i Hi. rewrite Efrs in Hi. unfold ids_of in *. apply in_map_iff in Hi as [f [E Hf]]. apply filter_In in Hf as [Hf _].
      apply in_map_iff. exists f. auto. }
    assert (Hnd' : NoDup (ids_of frs)).
    { rewrite Efrs. unfold ids_of. clear - Hnd. unfold ids_of in Hnd. induction (m_frags cur) as [|a r IH]; cbn [filter map]; [constructor|].
      cbn [map] in Hnd. inversion Hnd as [|? ? Hn Hr]; subst. destruct (negb (memN (f_id a) ids)); cbn [map].
      - constructor; [|exact (IH Hr)]. intro Hx. apply Hn. apply in_map_iff in Hx as [g [E Hg]]. apply filter_In in Hg as [Hg _].
        rewrite <- E. apply in_map. exact Hg.
      - exact (IH Hr). }
    assert (W : wf_manifest (mk_manifest cur (m_schema cur) frs (retain_relevant_indices (m_indices cur) (m_schema cur) frs))).
    { apply (mk_manifest_wf frows fcontent); [exact Hnd' | | exact Hs]. intros f Hf. rewrite Efrs in Hf. apply filter_In in Hf as [Hf _]. exact (Hwf f Hf). }
    split; [exact W | split; [intros u c []|]]. eexists. split; [reflexivity|].
    unfold Model_Txn.table_eq.
    cbn [Model_Txn.abs t_schema t_maxfid t_config t_live t_cell drop_rows m_schema m_config].
    rewrite (max_fragment_id_wf _ (wf_maxfid_of _ W)), (max_fragment_id_wf _ Hm).
    assert (Hfind : forall f, find_frag f frs = if negb (memN f ids) then find_frag f (m_frags cur) else None).
    { intros f. rewrite Efrs. apply (find_frag_filter (fun i => negb (memN i ids))). }
    split; [reflexivity | split; [|split; [reflexivity | split]]].
    - rewrite mk_manifest_maxfid. rewrite <- (wf_maxfid_bound _ Hm) at 2.
      (* the maximum over a sub-list is absorbed by the stored high-water mark *)
      unfold wf_maxfid in Hm. destruct (m_maxfid cur) as [M|].
      + rewrite !lmax_bound; [reflexivity | | ]; intros x Hx; [|apply Hsub in Hx]; unfold ids_of in Hx; apply in_map_iff in Hx as [g [E Hg]]; subst; exact (Hm g Hg).
      + rewrite Hm in Efrs. cbn in Efrs. rewrite Efrs, Hm. reflexivity.
    - intros f o. rewrite live_at_mk by exact Hnd'. unfold Model_Txn.live_at. rewrite Hfind.
      destruct (memN f ids); cbn [negb]; [rewrite andb_false_r; reflexivity | rewrite andb_true_r; reflexivity].
    - intros f o x Hl Hx. rewrite live_at_mk in Hl by exact Hnd'. unfold Model_Txn.live_at in Hl. rewrite Hfind in Hl.
      rewrite cell_at_mk by (try exact Hnd'; apply Hs; exact Hx). unfold Model_Txn.cell_at. rewrite Hfind.
      destruct (memN f ids) eqn:Em; cbn [negb] in *; [discriminate | reflexivity].
  Qed.


  (* ---------------------------------------------------------------- Append *)
  Lemma eff_append : forall cur frs m', wf_manifest cur -> new_frags_ok frs ->
    covers_nonnull (m_schema cur) frs = true ->
    build_manifest cur (Append frs) = Ok m' -> result_ok cur (Append frs) m' (EAppend frs).
  Proof.
    intros cur frs m' Hw Hn Hcov Hb. pose proof Hw as [Hnd [Hwf [Hs Hm]]].
    set (news := fst (assign_ids (next_of cur) frs)).
    assert (Em' : m' = mk_manifest cur (m_schema cur) (m_frags cur ++ news) (m_indices cur)).
    { pose proof (build_append cur frs) as Q. fold news in Q. congruence. }
    clear Hb. subst m'.
    assert (Hnd' : NoDup (ids_of (m_frags cur ++ news))).
    { apply (NoDup_cur_news frows fcontent cur (m_frags cur) frs Hw (proj1 Hn) Hnd). auto. }
    assert (Hdisj : forall i, In i (ids_of news) -> ~ In i (ids_of (m_frags cur))).
    { intros i Hi. exact (fresh_disjoint frows fcontent cur frs i Hw (proj1 Hn) Hi). }
    assert (W : wf_manifest (mk_manifest cur (m_schema cur) (m_frags cur ++ news) (m_indices cur))).
    { apply (mk_manifest_wf frows fcontent); [exact Hnd' | | exact Hs]. intros f Hf. apply in_app_or in Hf as [Hf | Hf];
        [exact (Hwf f Hf) | exact (assigned_wf frows frs _ f Hn Hf)]. }
    split; [exact W | split; [exact I|]].
    unfold Model_Txn.apply_effect. cbn [Model_Txn.abs t_schema]. rewrite Hcov. eexists. split; [reflexivity|].
    unfold Model_Txn.table_eq, add_frags.
    cbn [Model_Txn.abs t_schema t_maxfid t_config t_live t_cell m_schema m_config].
    change (next_id (abs cur)) with (next_of cur). fold news.
    split; [reflexivity | split; [|split; [reflexivity | split]]].
    - rewrite (maxfid_mk frows fcontent). apply (maxfid_kept_news frows cur (m_frags cur) news Hw). auto.
    - intros f o. rewrite live_at_mk by exact Hnd'. unfold Model_Txn.live_at. rewrite (find_kept_news _ _ f Hdisj).
      destruct (find_frag f news); reflexivity.
    - intros f o x _ Hx. rewrite cell_at_mk by (try exact Hnd'; apply Hs; exact Hx). unfold Model_Txn.cell_at.
      rewrite (find_kept_news _ _ f Hdisj). destruct (find_frag f news); reflexivity.
  Qed.

  Lemma covers_incl : forall s s' frs, incl s' s -> covers_nonnull s frs = true -> covers_nonnull s' frs = true.
  Proof.
    intros s s' frs Hi H. unfold covers_nonnull in *. rewrite forallb_forall in *. intros f Hf. specialize (H f Hf).
    rewrite forallb_forall in *. intros fl Hfl. apply H. apply Hi. exact Hfl.
  Qed.

  Lemma chain_append_schema : forall mr ops cur frs, Chain mr ops cur ->
    (forall o, In o ops -> check_append o = VOk) ->
    (forall o, In o ops -> match o with Merge _ s => covers_nonnull s frs = true | _ => True end) ->
    covers_nonnull (m_schema mr) frs = true -> covers_nonnull (m_schema cur) frs = true.
  Proof.
    intros mr ops cur frs Hc. induction Hc as [m | m o m1 ops m' Hstep Hw1 Hc IH]; intros Hv Hcl H0; [exact H0|].
    apply IH; [intros o' Ho'; apply Hv; right; exact Ho' | intros o' Ho'; apply Hcl; right; exact Ho'|].
    pose proof (Hv o (or_introl eq_refl)) as Hvo. pose proof (Hcl o (or_introl eq_refl)) as Hclo.
    destruct Hstep as [Hb Hg _ | v Ev]; [|subst o; discriminate].
    rewrite (build_schema _ _ _ Hb). destruct o; try exact H0; try discriminate.
    - exact Hclo.
    - destruct Hg as [Hi _]. exact (covers_incl _ _ _ Hi H0).
  Qed.

  (* ---------------------------------------------------------------- Delete / Update (RewriteRows) *)
  Lemma eff_delete : forall cur rows upd gone o' m', wf_manifest cur ->
    du_result frows fcontent cur rows upd gone o' (fun u g => Delete u g) ->
    build_manifest cur o' = Ok m' -> result_ok cur o' m' (EDelete rows).
  Proof.
    intros cur rows upd gone o' m' Hw [gone2 [files HR]] Hb. cbv zeta in HR.
    set (upd' := patch_dels files upd) in *. set (gone' := gone ++ gone2) in *.
    set (kept := map (replace_first upd') (filter (fun f => negb (memN (f_id f) gone')) (m_frags cur))) in *.
    destruct HR as [Eo [Hndu [KL [KC [KN [KI [KW KG]]]]]]]. subst o'. pose proof Hw as [Hnd [Hwf [Hs Hm]]].
    assert (Em' : m' = mk_manifest cur (m_schema cur) kept (retain_relevant_indices (m_indices cur) (m_schema cur) kept)).
    { pose proof (build_delete cur upd' gone') as Q. cbv zeta in Q.
      replace (map (replace_last upd') (filter (fun f => negb (memN (f_id f) gone')) (m_frags cur))) with kept in Q.
      - rewrite Q in Hb. injection Hb as Hb. symmetry. exact Hb.
      - unfold kept. apply map_ext. intros f. symmetry. apply replace_last_first. exact Hndu. }
    clear Hb. subst m'.
    assert (W : wf_manifest (mk_manifest cur (m_schema cur) kept (retain_relevant_indices (m_indices cur) (m_schema cur) kept)))
      by (apply (mk_manifest_wf frows fcontent); assumption).
    split; [exact W | split; [exact KG|]]. eexists. split; [reflexivity|].
    unfold Model_Txn.table_eq. cbn [Model_Txn.abs t_schema t_maxfid t_config t_live t_cell drop_rows m_schema m_config].
    rewrite (max_fragment_id_wf _ (wf_maxfid_of _ W)), (max_fragment_id_wf _ Hm).
    split; [reflexivity | split; [|split; [reflexivity | split]]].
    - rewrite mk_manifest_maxfid. apply (maxfid_sub frows); assumption.
    - intros f o. rewrite live_at_mk by exact KN. apply KL.
    - intros f o x Hl Hx. rewrite live_at_mk in Hl by exact KN. rewrite cell_at_mk by (try exact KN; apply Hs; exact Hx).
      apply KC; assumption.
  Qed.

  Lemma eff_update_rows : forall cur rows upd gone nf fp o' m', wf_manifest cur -> new_frags_ok nf ->
    du_result frows fcontent cur rows upd gone o' (fun u g => Update g u nf [] (Some RewriteRows) None fp) ->
    build_manifest cur o' = Ok m' -> result_ok cur o' m' (EUpdateRows rows nf).
  Proof.
    intros cur rows upd gone nf fp o' m' Hw Hn [gone2 [files HR]] Hb. cbv zeta in HR.
    set (upd' := patch_dels files upd) in *. set (gone' := gone ++ gone2) in *.
    set (kept := map (replace_first upd') (filter (fun f => negb (memN (f_id f) gone')) (m_frags cur))) in *.
    destruct HR as [Eo [Hndu [KL [KC [KN [KI [KW KG]]]]]]]. subst o'. pose proof Hw as [Hnd [Hwf [Hs Hm]]].
    set (news := fst (assign_ids (next_of cur) nf)).
    assert (Em' : exists idx, m' = mk_manifest cur (m_schema cur) (kept ++ news) idx).
    { pose proof (build_update cur gone' upd' nf [] (Some RewriteRows) None fp) as Q. cbv zeta in Q. fold kept in Q. fold news in Q.
      eexists. rewrite Q in Hb. injection Hb as Hb. symmetry. exact Hb. }
    destruct Em' as [idx Em']. clear Hb. subst m'.
    assert (Hnd' : NoDup (ids_of (kept ++ news))) by (apply (NoDup_cur_news frows fcontent cur kept nf Hw (proj1 Hn) KN KI)).
    assert (Hdisj : forall i, In i (ids_of news) -> ~ In i (ids_of kept)).
    { intros i Hi Hk. apply (fresh_disjoint frows fcontent cur nf i Hw (proj1 Hn) Hi). apply KI. exact Hk. }
    assert (W : wf_manifest (mk_manifest cur (m_schema cur) (kept ++ news) idx)).
    { apply (mk_manifest_wf frows fcontent); [exact Hnd' | | exact Hs]. intros f Hf. apply in_app_or in Hf as [Hf | Hf];
        [exact (KW f Hf) | exact (assigned_wf frows nf _ f Hn Hf)]. }
    split; [exact W | split; [exact KG|]]. eexists. split; [reflexivity|].
    unfold Model_Txn.table_eq, add_frags.
    cbn [Model_Txn.abs t_schema t_maxfid t_config t_live t_cell drop_rows m_schema m_config].
    change (next_id (abs cur)) with (next_of cur). fold news.
    rewrite (max_fragment_id_wf _ (wf_maxfid_of _ W)).
    split; [reflexivity | split; [|split; [reflexivity | split]]].
    - rewrite mk_manifest_maxfid. apply (maxfid_kept_news frows cur kept news Hw KI).
    - intros f o. rewrite live_at_mk by exact Hnd'. unfold Model_Txn.live_at at 1. rewrite (find_kept_news _ _ f Hdisj).
      destruct (find_frag f news) as [fr|]; [reflexivity|]. fold (live_at kept f o). apply KL.
    - intros f o x Hl Hx. rewrite live_at_mk in Hl by exact Hnd'. rewrite cell_at_mk by (try exact Hnd'; apply Hs; exact Hx).
      unfold Model_Txn.live_at in Hl. unfold Model_Txn.cell_at at 1. rewrite (find_kept_news _ _ f Hdisj) in *.
      destruct (find_frag f news) as [fr|]; [reflexivity|]. fold (cell_at kept f o x). apply KC; assumption.
  Qed.


  (* ---------------------------------------------------------------- one writer *)
  Lemma try_new_op : forall frs o aff, rb_op (try_new frs o aff) = o.
  Proof. intros frs o aff. destruct o; try reflexivity; cbn [try_new]; destruct upd; destruct aff; reflexivity. Qed.

  Definition step_post (h h' : history) (oe : option effect) : Prop :=
    HistOk h' /\ match oe with
                 | None => h' = h
                 | Some e => exists cur new t', latest h = Some cur /\ latest h' = Some new
                                                /\ apply_effect e (abs cur) = Some t' /\ table_eq (abs new) t'
                 end.

  Lemma commit_build_post : forall h cur o' m' e, HistOk h -> latest h = Some cur -> gen_op o' ->
    result_ok cur o' m' e -> build_manifest cur o' = Ok m' ->
    step_post h (h ++ [{| v_man := m'; v_op := o' |}]) (Some e).
  Proof.
    intros h cur o' m' e Hh Hl Hg [W [G [t' [A T]]]] Hb. split.
    - apply (HistOk_snoc h cur); [exact Hh | exact Hl | exact W | apply step_build; assumption].
    - exists cur, m', t'. split; [exact Hl | split; [apply latest_snoc | auto]].
  Qed.

  Lemma run_step_ok : forall h st h' oe, HistOk h -> valid_intent h (s_rv st) (s_int st) -> step_in_F14 frows h st = false ->
    run_step h st = (h', oe) -> step_post h h' oe.
  Proof.
    intros h [rv i nd] h' oe Hh Hv HF Hrun. unfold Model_Txn.run_step in Hrun. cbn [s_rv s_int s_newdel] in *.
    unfold step_in_F14 in HF. cbn [s_rv s_int s_newdel] in HF.
    destruct (mk h rv i nd) as [[[o aff] e]|] eqn:Emk; [|inversion Hrun; subst; split; [exact Hh | reflexivity]].
    destruct (commit h rv o aff nd) as [h1 | v |] eqn:Ec; try (inversion Hrun; subst; split; [exact Hh | reflexivity]).
    inversion Hrun; subst h1 oe; clear Hrun.
    destruct (commit_inv _ _ _ _ _ _ Ec) as [mr [cur [rb' [o' [m' [Hr [Hl [Hall [Hfin [Eh Hres]]]]]]]]]]. subst h'.
    assert (Hwr : wf_manifest mr) by (eapply hist_wf; eassumption). assert (Hwc : wf_manifest cur) by (eapply hist_wf; eassumption).
    pose proof (check_all_op _ _ _ _ Hall) as Eop.
    unfold valid_intent in Hv. rewrite Hr in Hv. unfold Model_Txn.mk in Emk. rewrite Hr in Emk.
    destruct i; try contradiction; cbn beta iota in Emk.
    - (* IAppend *)
      inversion Emk; subst o aff e; clear Emk. destruct Hv as [Hn Hcov].
      rewrite try_new_op in Eop. unfold Model_Txn.finish in Hfin. rewrite Eop in Hfin. inversion Hfin; subst o'; clear Hfin.
      destruct Hres as [[v [old [Q _]]] | [_ Hb]]; [discriminate|].
      eapply commit_build_post; [exact Hh | exact Hl | exact I | | exact Hb]. apply eff_append; [exact Hwc | exact Hn | | exact Hb].
      apply (chain_append_schema mr (ops_since h rv) cur frs (hist_chain frows fcontent _ _ _ _ Hh Hr Hl)); [| |exact Hcov].
      + intros ox Hox. destruct (check_all_in _ _ _ Hall ox Hox) as [rb1 [rb2 [C1 C2]]]. rewrite try_new_op in C2.
        unfold check_txn in C1. rewrite C2 in C1. inversion C1. reflexivity.
      + intros ox Hox. destruct ox; try exact I. cbn [Known_C03_append_over_concurrent_merge_nonnull] in HF.
        destruct (covers_nonnull sch frs) eqn:Ecv; [reflexivity|]. exfalso.
        assert (Q : existsb (fun other => match other with Merge _ s => negb (covers_nonnull s frs) | _ => false end) (ops_since h rv) = true).
        { apply existsb_exists. exists (Merge frs0 sch). split; [exact Hox | rewrite Ecv; reflexivity]. }
        congruence.
    - (* IDelete *)
      destruct (mk_deletions frows (m_frags mr) rows nd) as [upd gone] eqn:Emd. inversion Emk; subst o aff e; clear Emk.
      rewrite try_new_op in Eop. unfold Model_Txn.finish in Hfin. rewrite Eop in Hfin.
      pose proof (du_core frows fcontent h rv mr cur rows nd nd upd gone (Delete upd gone) rb' o' (fun u g => Delete u g)
                    Hh Hr Hl Hv Emd (or_introl (conj eq_refl eq_refl)) Hall Hfin) as DR.
      assert (Eo' : exists u g, o' = Delete u g) by (destruct DR as [g2 [fl [E _]]]; eauto).
      destruct Eo' as [u [g Eo']].
      destruct Hres as [[v [old [Q _]]] | [_ Hb]]; [subst o'; discriminate|].
      eapply commit_build_post; [exact Hh | exact Hl | subst o'; exact I | | exact Hb].
      apply (eff_delete cur rows upd gone o' m' Hwc DR Hb).
    - (* IUpdateRows *)
      destruct (mk_deletions frows (m_frags mr) rows nd) as [upd gone] eqn:Emd. inversion Emk; subst o aff e; clear Emk.
      destruct Hv as [Hv Hn].
      rewrite try_new_op in Eop. unfold Model_Txn.finish in Hfin. rewrite Eop in Hfin.
      pose proof (du_core frows fcontent h rv mr cur rows nd nd upd gone _ rb' o'
                    (fun u g => Update g u frs [] (Some RewriteRows) None (schema_ids (m_schema mr)))
                    Hh Hr Hl Hv Emd (or_intror (ex_intro _ frs (ex_intro _ [] (ex_intro _ (Some RewriteRows) (ex_intro _ None
                       (ex_intro _ (schema_ids (m_schema mr)) (conj eq_refl eq_refl))))))) Hall Hfin) as DR.
      assert (Eo' : exists u g, o' = Update g u frs [] (Some RewriteRows) None (schema_ids (m_schema mr))) by (destruct DR as [g2 [fl [E _]]]; eauto).
      destruct Eo' as [u [g Eo']].
      destruct Hres as [[v [old [Q _]]] | [_ Hb]]; [subst o'; discriminate|].
      eapply commit_build_post; [exact Hh | exact Hl | subst o'; exact I | | exact Hb].
      apply (eff_update_rows cur rows upd gone frs _ o' m' Hwc Hn DR Hb).
    - (* IOverwrite *)
      inversion Emk; subst o aff e; clear Emk. destruct Hv as [Hn Hs].
      rewrite try_new_op in Eop. unfold Model_Txn.finish in Hfin. rewrite Eop in Hfin. inversion Hfin; subst o'; clear Hfin.
      destruct Hres as [[v [old [Q _]]] | [_ Hb]]; [discriminate|].
      eapply commit_build_post; [exact Hh | exact Hl | exact I | | exact Hb]. apply eff_overwrite; assumption.
    - (* IRestore *)
      inversion Emk; subst o aff e; clear Emk. destruct Hv as [old0 Hold0].
      rewrite try_new_op in Eop. unfold Model_Txn.finish in Hfin. rewrite Eop in Hfin. inversion Hfin; subst o'; clear Hfin.
      destruct Hres as [[v0 [old [Q [Hold Em']]]] | [Hno _]]; [|exfalso; exact (Hno v eq_refl)].
      inversion Q; subst v0. rewrite Hold. subst m'.
      assert (Hwo : wf_manifest old) by (eapply hist_wf; eassumption).
      destruct (eff_restore cur old v Hwc Hwo) as [W [S [t' [A T]]]]. split.
      + apply (HistOk_snoc h cur); [exact Hh | exact Hl | exact W | exact S].
      + exists cur, (restore_manifest cur old), t'. split; [exact Hl | split; [apply latest_snoc | auto]].
    - (* IReserve *)
      inversion Emk; subst o aff e; clear Emk.
      rewrite try_new_op in Eop. unfold Model_Txn.finish in Hfin. rewrite Eop in Hfin. inversion Hfin; subst o'; clear Hfin.
      destruct Hres as [[v [old [Q _]]] | [_ Hb]]; [discriminate|].
      eapply commit_build_post; [exact Hh | exact Hl | exact I | | exact Hb]. apply eff_reserve; assumption.
    - (* IConfig *)
      inversion Emk; subst o aff e; clear Emk.
      rewrite try_new_op in Eop. unfold Model_Txn.finish in Hfin. rewrite Eop in Hfin. inversion Hfin; subst o'; clear Hfin.
      destruct Hres as [[v [old [Q _]]] | [_ Hb]]; [discriminate|].
      eapply commit_build_post; [exact Hh | exact Hl | exact I | | exact Hb]. apply eff_config; assumption.
    - (* ICreateIndex *)
      inversion Emk; subst o aff e; clear Emk.
      rewrite try_new_op in Eop. unfold Model_Txn.finish in Hfin. rewrite Eop in Hfin. inversion Hfin; subst o'; clear Hfin.
      destruct Hres as [[v [old [Q _]]] | [_ Hb]]; [discriminate|].
      eapply commit_build_post; [exact Hh | exact Hl | exact I | | exact Hb]. apply eff_index; assumption.
  Qed.


  (* ---------------------------------------------------------------- effects respect the equality of tables *)
  Lemma drop_rows_congr : forall a b d, table_eq a b -> table_eq (drop_rows a d) (drop_rows b d).
  Proof.
    intros a b d [H1 [H2 [H3 [H4 H5]]]]. unfold Model_Txn.table_eq, drop_rows. cbn [t_schema t_maxfid t_config t_live t_cell].
    split; [exact H1 | split; [exact H2 | split; [exact H3 | split]]].
    - intros f o. rewrite H4. reflexivity.
    - intros f o x Hl Hx. apply andb_true_iff in Hl as [Hl _]. apply H5; assumption.
  Qed.
  Lemma add_frags_congr : forall a b news, table_eq a b -> table_eq (add_frags frows fcontent a news) (add_frags frows fcontent b news).
  Proof.
    intros a b news [H1 [H2 [H3 [H4 H5]]]]. unfold Model_Txn.table_eq, add_frags. cbn [t_schema t_maxfid t_config t_live t_cell].
    split; [exact H1 | split; [rewrite H2; reflexivity | split; [exact H3 | split]]].
    - intros f o. destruct (find_frag f news); [reflexivity | apply H4].
    - intros f o x Hl Hx. destruct (find_frag f news); [reflexivity | apply H5; assumption].
  Qed.

  Definition eff_supported (e : effect) : Prop :=
    match e with
    | EAppend _ | EDelete _ | EUpdateRows _ _ | EOverwrite _ _ _ | ERestore _ | EReserve _ | EConfig _ | ENone => True
    | _ => False
    end.

  Lemma apply_effect_congr : forall e a b a', eff_supported e -> table_eq a b -> apply_effect e a = Some a' ->
    exists b', apply_effect e b = Some b' /\ table_eq a' b'.
  Proof.
    intros e a b a' Hs Hab Ha. pose proof Hab as [H1 [H2 [H3 [H4 H5]]]].
    destruct e; try contradiction; cbn [Model_Txn.apply_effect] in *.
    - (* EAppend *) rewrite <- H1. destruct (covers_nonnull (t_schema a) frs); [|discriminate]. inversion Ha; subst.
      eexists. split; [reflexivity|]. unfold next_id. rewrite <- H2. apply add_frags_congr. exact Hab.
    - (* EDelete *) inversion Ha; subst. eexists. split; [reflexivity|]. apply drop_rows_congr. exact Hab.
    - (* EUpdateRows *) inversion Ha; subst. eexists. split; [reflexivity|]. unfold next_id. rewrite <- H2.
      apply add_frags_congr. apply drop_rows_congr. exact Hab.
    - (* EOverwrite *) inversion Ha; subst. eexists. split; [reflexivity|].
      unfold Model_Txn.table_eq. cbn [t_schema t_maxfid t_config t_live t_cell]. rewrite H2, H3. repeat split; reflexivity.
    - (* ERestore *) inversion Ha; subst. eexists. split; [reflexivity|].
      unfold Model_Txn.table_eq. cbn [t_schema t_maxfid t_config t_live t_cell]. rewrite H2. repeat split; reflexivity.
    - (* EReserve *) inversion Ha; subst. eexists. split; [reflexivity|].
      unfold Model_Txn.table_eq. cbn [t_schema t_maxfid t_config t_live t_cell]. rewrite H2.
      split; [exact H1 | split; [reflexivity | split; [exact H3 | split; [exact H4 | exact H5]]]].
    - (* EConfig *) inversion Ha; subst. eexists. split; [reflexivity|].
      unfold Model_Txn.table_eq. cbn [t_schema t_maxfid t_config t_live t_cell]. rewrite H3.
      split; [exact H1 | split; [exact H2 | split; [reflexivity | split; [exact H4 | exact H5]]]].
    - (* ENone *) inversion Ha; subst. exists b. split; [reflexivity | exact Hab].
  Qed.

  Lemma mk_eff_supported : forall h rv i nd o aff e, valid_intent h rv i -> mk h rv i nd = Some (o, aff, e) -> eff_supported e.
  Proof.
    intros h rv i nd o aff e Hv Hm. unfold valid_intent in Hv. unfold Model_Txn.mk in Hm.
    destruct (nth_man h rv) as [mr|]; [|contradiction].
    destruct i; try contradiction; cbn beta iota in Hm;
      try (destruct (mk_deletions frows (m_frags mr) rows nd)); inversion Hm; subst; try exact I.
    destruct (nth_man h v); exact I.
  Qed.

  (* ---------------------------------------------------------------- histories *)
  Fixpoint valid_run (h : history) (sts : list step) : Prop :=
    match sts with
    | [] => True
    | st :: r => valid_intent h (s_rv st) (s_int st) /\ step_in_F14 frows h st = false /\ valid_run (fst (run_step h st)) r
    end.

  Lemma run_replay : forall sts h cur t h2 log, HistOk h -> latest h = Some cur -> table_eq (abs cur) t -> valid_run h sts ->
    run h sts = (h2, log) ->
    HistOk h2 /\ exists new t2, latest h2 = Some new /\ replay t log = Some t2 /\ table_eq (abs new) t2.
  Proof.
    induction sts as [|st r IH]; intros h cur t h2 log Hh Hl Ht Hv Hrun; cbn [Model_Txn.run] in Hrun.
    - inversion Hrun; subst. split; [exact Hh|]. exists cur, t. split; [exact Hl | split; [reflexivity | exact Ht]].
    - destruct Hv as [Hv [HF Hvr]]. destruct (run_step h st) as [h1 oe] eqn:Es. cbn [fst] in Hvr.
      destruct (run h1 r) as [h2' log'] eqn:Er. inversion Hrun; subst h2' log; clear Hrun.
      destruct (run_step_ok h st h1 oe Hh Hv HF Es) as [Hh1 Hpost]. destruct oe as [e|].
      + destruct Hpost as [cur' [new [t' [Hl' [Hn [Ha Hte]]]]]]. rewrite Hl in Hl'. inversion Hl'; subst cur'.
        assert (Hsup : eff_supported e).
        { unfold Model_Txn.run_step in Es. destruct (mk h (s_rv st) (s_int st) (s_newdel st)) as [[[o aff] e0]|] eqn:Em; [|inversion Es].
          destruct (Model_Txn.commit frows h (s_rv st) o aff (s_newdel st)); inversion Es; subst. exact (mk_eff_supported _ _ _ _ _ _ _ Hv Em). }
        destruct (apply_effect_congr e (abs cur) t t' Hsup Ht Ha) as [t1 [Ha1 Ht1]].
        destruct (IH h1 new t1 h2 log' Hh1 Hn (table_eq_trans _ _ _ Hte Ht1) Hvr Er) as [Hh2 [new2 [t2 [A [B C]]]]].
        split; [exact Hh2|]. exists new2, t2. split; [exact A | split; [|exact C]]. cbn [Model_Txn.replay]. rewrite Ha1. exact B.
      + subst h1. exact (IH h cur t h2 log' Hh Hl Ht Hvr Er).
  Qed.

  (* C03: any schedule of writers over a well-formed initial table *)
  Theorem serializable : forall m0 o0 sts h log,
    wf_manifest m0 -> valid_run [{| v_man := m0; v_op := o0 |}] sts ->
    run [{| v_man := m0; v_op := o0 |}] sts = (h, log) ->
    exists final t, latest h = Some final /\ replay (abs m0) log = Some t /\ table_eq (abs final) t.
  Proof.
    intros m0 o0 sts h log Hw Hv Hrun.
    assert (Hh : HistOk [{| v_man := m0; v_op := o0 |}]).
    { split; [intros e [E | []]; subst; exact Hw | exact I]. }
    destruct (run_replay sts _ m0 (abs m0) h log Hh eq_refl (table_eq_refl _) Hv Hrun) as [_ [new [t [A [B C]]]]].
    exists new, t. auto.
  Qed.
End Main.
