(* C03 - every committed transaction changes the row-level reading of the table by exactly the effect it computed
   at its read version; histories of commits therefore equal the serial replay of the committed effects. *)
From LanceV Require Import Common.Base Table.Model_Txn Table.Proofs_TxnBase Table.Proofs_TxnFrame Table.Proofs_TxnChain
  Table.Proofs_TxnDU Table.Proofs_TxnAbs.
From Coq Require Import Permutation.
Local Open Scope N_scope.

Ltac break_match_hyp H :=
  repeat match type of H with
         | context [if ?b then _ else _] => destruct b
         | context [match ?x with _ => _ end] => destruct x
         end.

Section Main.
  Variable frows : N -> N.
  Variable fcontent : N -> Z -> N -> option N.
  Notation frag_rows := (frag_rows frows).
  Notation fcell := (fcell fcontent).
  Notation flive := (flive frows).
  Notation wf_frag := (wf_frag frows).
  Notation wf_manifest := (wf_manifest frows).
  Notation Sim := (Sim frows fcontent).
  Notation Chain := (Chain frows).
  Notation HistOk := (HistOk frows).
  Notation abs := (abs frows fcontent).
  Notation live_at := (live_at frows).
  Notation cell_at := (cell_at fcontent).
  Notation apply_effect := (apply_effect frows fcontent).
  Notation commit := (commit frows).
  Notation finish := (finish frows).
  Notation mk := (mk frows).
  Notation run_step := (run_step frows).
  Notation run := (run frows).
  Notation replay := (replay frows fcontent).
  Notation new_frags_ok := (new_frags_ok frows).
  Notation next_of := (next_of).

  (* ---------------------------------------------------------------- the rebase state keeps its operation *)
  Lemma check_du_op : forall rb mw isu o v rb', check_delete_update rb mw isu o = (v, rb') -> rb_op rb' = rb_op rb.
  Proof.
    intros rb mw isu o v rb' H. destruct o; cbn [check_delete_update] in H; try (inversion H; reflexivity);
      unfold check_du_vs_du in H; break_match_hyp H; inversion H; reflexivity.
  Qed.
  Lemma check_txn_op : forall rb o v rb', check_txn rb o = (v, rb') -> rb_op rb' = rb_op rb.
  Proof.
    intros rb o v rb' H. unfold check_txn in H. destruct (rb_op rb) eqn:E; try (inversion H; subst; exact E);
      try (apply check_du_op in H; congruence).
    - (* Rewrite *) unfold check_rewrite in H. destruct o; break_match_hyp H; inversion H; subst; cbn; exact E.
    - (* CreateIndex *) unfold check_create_index in H. destruct o; break_match_hyp H; inversion H; subst; cbn; exact E.
  Qed.
  Lemma check_all_op : forall os rb v rb', check_all rb os = (v, rb') -> rb_op rb' = rb_op rb.
  Proof.
    induction os as [|o r IH]; intros rb v rb' H; cbn [check_all] in H; [inversion H; reflexivity|].
    destruct (check_txn rb o) as [v1 rb1] eqn:E. pose proof (check_txn_op _ _ _ _ E) as E1.
    destruct v1; try (inversion H; subst; exact E1). rewrite <- E1. exact (IH _ _ _ H).
  Qed.
  Lemma check_all_in : forall os rb rb', check_all rb os = (VOk, rb') ->
    forall o, In o os -> exists rb1 rb2, check_txn rb1 o = (VOk, rb2) /\ rb_op rb1 = rb_op rb.
  Proof.
    induction os as [|o r IH]; intros rb rb' H x Hx; [destruct Hx|].
    apply check_all_cons in H as [rb1 [H1 H2]]. destruct Hx as [Hx | Hx].
    - subst. exists rb, rb1. auto.
    - destruct (IH rb1 rb' H2 x Hx) as [a [b [A B]]]. exists a, b. split; [exact A|].
      rewrite B. exact (check_txn_op _ _ _ _ H1).
  Qed.

  (* ---------------------------------------------------------------- commit, unfolded *)
  Lemma commit_inv : forall h rv o aff nd h', commit h rv o aff nd = Committed h' ->
    exists mr cur rb' o' m',
      nth_man h rv = Some mr /\ latest h = Some cur
      /\ check_all (try_new (m_frags mr) o aff) (ops_since h rv) = (VOk, rb')
      /\ finish rb' (m_frags cur) nd = FOk o'
      /\ h' = h ++ [{| v_man := m'; v_op := o' |}]
      /\ ((exists v old, o' = Restore v /\ nth_man h v = Some old /\ m' = restore_manifest cur old)
          \/ ((forall v, o' <> Restore v) /\ build_manifest cur o' = Ok m')).
  Proof.
    intros h rv o aff nd h' H. unfold Model_Txn.commit in H.
    destruct (nth_man h rv) as [mr|]; [|discriminate]. destruct (latest h) as [cur|]; [|discriminate].
    destruct (check_all (try_new (m_frags mr) o aff) (ops_since h rv)) as [v rb'] eqn:Ec.
    destruct v; try discriminate.
    destruct (Model_Txn.finish frows rb' (m_frags cur) nd) as [o'| | |] eqn:Ef; try discriminate.
    exists mr, cur, rb', o'.
    destruct o'; try (destruct (build_manifest cur _) as [m'| |] eqn:Eb; [|discriminate|discriminate]; inversion H; subst;
      exists m'; repeat split; auto; right; split; [intros v0 Q; discriminate | exact Eb]).
    destruct (nth_man h v) as [old|] eqn:En; [|discriminate]. inversion H; subst.
    exists (restore_manifest cur old). repeat split; auto. left. exists v, old. auto.
  Qed.

  Lemma latest_snoc : forall h e, latest (h ++ [e]) = Some (v_man e).
  Proof.
    intros h e. unfold latest, nth_man, version_of. rewrite app_length. cbn [length].
    replace (N.of_nat (length h + 1)) with (N.succ (N.of_nat (length h))) by lia.
    destruct (N.succ (N.of_nat (length h))) eqn:E; [lia|]. rewrite <- E.
    replace (N.to_nat (N.succ (N.of_nat (length h)) - 1)) with (length h) by lia.
    rewrite nth_error_app2 by lia. rewrite Nat.sub_diag. reflexivity.
  Qed.
  Lemma latest_last_entry : forall h cur, latest h = Some cur -> exists e, last h e = e /\ False \/ exists h0 e0, h = h0 ++ [e0] /\ v_man e0 = cur.
  Proof.
    intros h cur H. exists {| v_man := cur; v_op := Clone |}. right.
    destruct (nth_man_some _ _ _ H) as [e [He [Em _]]].
    destruct h as [|a r] using rev_ind; [destruct (N.to_nat _); discriminate|].
    exists h, a. split; [reflexivity|]. unfold version_of in He. rewrite app_length in He. cbn [length] in He.
    replace (N.to_nat (N.of_nat (length h + 1) - 1)) with (length h) in He by lia.
    rewrite nth_error_app2 in He by lia. rewrite Nat.sub_diag in He. cbn in He. inversion He; subst. exact Em.
  Qed.
  Lemma steps_ok_snoc : forall h0 e0 e, steps_ok (h0 ++ [e0]) -> StepOk (v_man e0) (v_op e) (v_man e) ->
    steps_ok ((h0 ++ [e0]) ++ [e]).
  Proof.
    induction h0 as [|a r IH]; intros e0 e Hs Hst; cbn [app steps_ok]; [auto|].
    destruct r as [|b r']; cbn [app] in *.
    - destruct Hs as [H1 _]. split; [exact H1 | split; [exact Hst | exact I]].
    - destruct Hs as [H1 H2]. split; [exact H1|]. apply (IH e0 e H2 Hst).
  Qed.
  Lemma HistOk_snoc : forall h cur e, HistOk h -> latest h = Some cur -> wf_manifest (v_man e) ->
    StepOk cur (v_op e) (v_man e) -> HistOk (h ++ [e]).
  Proof.
    intros h cur e [Hw Hs] Hl Hwe Hst. destruct (latest_last_entry h cur Hl) as [_ [[_ []] | [h0 [e0 [Eh Ec]]]]].
    subst h cur. split.
    - intros x Hx. apply in_app_or in Hx as [Hx | [Hx | []]]; [apply Hw; exact Hx | subst; exact Hwe].
    - apply steps_ok_snoc; assumption.
  Qed.

  (* ---------------------------------------------------------------- validity of an intent at its read version *)
  Definition rows_live (frs : list frag) (rows : list addr) : Prop :=
    forall a, In a rows -> live_at frs (fst a) (snd a) = true.

  Definition valid_intent (h : history) (rv : N) (i : intent) : Prop :=
    match nth_man h rv with
    | None => False
    | Some mr =>
        match i with
        | IAppend frs => new_frags_ok frs /\ covers_nonnull (m_schema mr) frs = true
        | IDelete rows => rows_live (m_frags mr) rows
        | IDeleteAll => True
        | IUpdateRows rows frs => rows_live (m_frags mr) rows /\ new_frags_ok frs
        | IOverwrite frs s _ => new_frags_ok frs /\ wf_schema s
        | IRestore v => exists old, nth_man h v = Some old
        | IReserve _ | IConfig _ | ICreateIndex _ _ => True
        | _ => False
        end
    end.
End Main.
