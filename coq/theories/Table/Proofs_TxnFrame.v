(* C03/C04/C24 - fragment views, well-formedness, and what one build_manifest step does to the fragments it does
   not touch (the "frame" of a committed transaction). *)
From LanceV Require Import Common.Base Table.Model_Txn Table.Proofs_TxnBase.
From Coq Require Import Permutation.
Local Open Scope N_scope.

Lemma dfile_eqb_eq : forall a b, dfile_eqb a b = true <-> a = b.
Proof.
  intros [i1 f1] [i2 f2]. unfold dfile_eqb. cbn [d_id d_fields]. rewrite andb_true_iff, N.eqb_eq.
  rewrite (list_eqb_eq Z.eqb Z.eqb_eq). split; [intros [A B]; subst; reflexivity | intros E; inversion E; auto].
Qed.
Lemma files_eqb_eq : forall a b, files_eqb a b = true <-> a = b.
Proof. apply list_eqb_eq. apply dfile_eqb_eq. Qed.
Lemma delfile_eqb_eq : forall a b, delfile_eqb a b = true <-> a = b.
Proof.
  intros [i1 r1] [i2 r2]. unfold delfile_eqb. cbn [fst snd]. rewrite andb_true_iff, N.eqb_eq.
  rewrite (list_eqb_eq N.eqb N.eqb_eq). split; [intros [A B]; subst; reflexivity | intros E; inversion E; auto].
Qed.
Lemma del_eqb_eq : forall a b, del_eqb a b = true <-> a = b.
Proof.
  intros [a|] [b|]; unfold del_eqb, option_eqb; try (split; [discriminate | intros E; inversion E]); [|tauto].
  rewrite delfile_eqb_eq. split; [intros E; subst; reflexivity | intros E; inversion E; reflexivity].
Qed.

Lemma find_filter_imp {A} : forall (p q : A -> bool) l, (forall d, p d = true -> q d = true) ->
  find p (filter q l) = find p l.
Proof.
  intros p q l H. induction l as [|d r IH]; cbn [filter find]; [reflexivity|].
  destruct (q d) eqn:Eq; cbn [find].
  - destruct (p d); [reflexivity | exact IH].
  - destruct (p d) eqn:Ep; [rewrite (H d Ep) in Eq; discriminate | exact IH].
Qed.

Lemma nth_split {A} : forall (l : list A) p a f, nth_error l p = Some f ->
  ((p < a)%nat -> In f (firstn a l)) /\ ((a <= p)%nat -> In f (skipn a l)).
Proof.
  intros l p a f H.
  assert (Hlen : (p < length l)%nat) by (apply nth_error_Some; congruence).
  pose proof (firstn_skipn a l) as E. split; intros Hc.
  - rewrite <- E in H. rewrite nth_error_app1 in H; [eapply nth_error_In; exact H|].
    rewrite firstn_length. lia.
  - rewrite <- E in H. rewrite nth_error_app2 in H; [eapply nth_error_In; exact H|].
    rewrite firstn_length. lia.
Qed.

Section Frame.
  Variable frows : N -> N.
  Variable fcontent : N -> Z -> N -> option N.
  Notation frag_rows := (frag_rows frows).
  Notation fcell := (fcell fcontent).
  Notation flive := (flive frows).
  Notation build_manifest := (build_manifest).

  (* remove_tombstoned_data_files on one fragment *)
  Definition detomb (f : frag) : frag := set_files f (filter live_file (f_files f)).
  Lemma detomb_id : forall f, f_id (detomb f) = f_id f. Proof. reflexivity. Qed.
  Lemma detomb_del : forall f, f_del (detomb f) = f_del f. Proof. reflexivity. Qed.
  Lemma frag_rows_detomb : forall f, frag_rows (detomb f) = frag_rows f.
  Proof.
    intros f. unfold Model_Txn.frag_rows, detomb. cbn [f_files set_files].
    rewrite (find_filter_imp live_file live_file); [reflexivity | auto].
  Qed.
  Lemma live_file_has : forall d x, x <> (-2)%Z -> memZ x (d_fields d) = true -> live_file d = true.
  Proof.
    intros d x Hx Hm. unfold live_file. apply existsb_exists. exists x. split; [apply memZ_In; exact Hm|].
    apply negb_true_iff. apply Z.eqb_neq. exact Hx.
  Qed.
  Lemma file_of_detomb : forall f x, x <> (-2)%Z -> file_of (detomb f) x = file_of f x.
  Proof.
    intros f x Hx. unfold file_of, detomb. cbn [f_files set_files]. apply find_filter_imp.
    intros d Hd. cbv beta in Hd. exact (live_file_has d x Hx Hd).
  Qed.
  Lemma fcell_detomb : forall f x o, x <> (-2)%Z -> fcell (detomb f) x o = fcell f x o.
  Proof. intros f x o Hx. unfold Model_Txn.fcell. rewrite file_of_detomb by exact Hx. reflexivity. Qed.
  Lemma flive_detomb : forall f o, flive (detomb f) o = flive f o.
  Proof. intros f o. unfold Model_Txn.flive. rewrite frag_rows_detomb. reflexivity. Qed.
  Lemma remove_tombstoned_map : forall l, remove_tombstoned l = map detomb l.
  Proof. reflexivity. Qed.

  (* ---------------------------------------------------------------- well-formedness *)
  Definition wf_frag (f : frag) : Prop :=
    (forall o, In o (dels_of f) -> o < frag_rows f)
    /\ (forall d, In d (f_files f) -> live_file d = true -> frows (d_id d) = frag_rows f).
  Definition wf_schema (s : schema) : Prop := forall x, In x (schema_ids s) -> x <> (-2)%Z.
  Definition wf_maxfid (m : manifest) : Prop :=
    match m_maxfid m with
    | Some M => forall f, In f (m_frags m) -> f_id f <= M
    | None => m_frags m = []
    end.
  Definition wf_manifest (m : manifest) : Prop :=
    NoDup (ids_of (m_frags m)) /\ (forall f, In f (m_frags m) -> wf_frag f) /\ wf_schema (m_schema m) /\ wf_maxfid m.

  Lemma wf_frag_detomb : forall f, wf_frag f -> wf_frag (detomb f).
  Proof.
    intros f [H2 H3]. unfold wf_frag. rewrite frag_rows_detomb. unfold dels_of. rewrite detomb_del.
    split; [exact H2|]. intros d Hd Hl. unfold detomb in Hd. cbn [f_files set_files] in Hd.
    apply filter_In in Hd as [Hd _]. exact (H3 d Hd Hl).
  Qed.
  Lemma wf_frag_set_del : forall f i dv, wf_frag f -> (forall o, In o dv -> o < frag_rows f) ->
    wf_frag (set_del f (Some (i, dv))).
  Proof.
    intros f i dv [_ H3] Hlt. unfold wf_frag. cbn [dels_of set_del f_del snd f_files].
    split; [exact Hlt | exact H3].
  Qed.

  (* max_fragment_id of a well-formed manifest is its stored value *)
  Lemma max_fragment_id_wf : forall m, wf_maxfid m -> max_fragment_id m = m_maxfid m.
  Proof.
    intros m H. unfold max_fragment_id, wf_maxfid in *. destruct (m_maxfid m); [reflexivity|]. rewrite H. reflexivity.
  Qed.
  Lemma wf_maxfid_bound : forall m, wf_maxfid m -> omax (m_maxfid m) (lmax (ids_of (m_frags m))) = m_maxfid m.
  Proof.
    intros m H. unfold wf_maxfid in H. destruct (m_maxfid m) as [M|].
    - apply lmax_bound. intros x Hx. unfold ids_of in Hx. apply in_map_iff in Hx as [f [E Hf]]. subst. exact (H f Hf).
    - rewrite H. reflexivity.
  Qed.

  (* ---------------------------------------------------------------- lookups through mk_manifest *)
  Lemma mk_manifest_frags : forall cur s frs idx,
    m_frags (mk_manifest cur s frs idx) = map detomb (sort_frags frs).
  Proof. reflexivity. Qed.
  Lemma mk_manifest_In : forall cur s frs idx f, In f frs -> In (detomb f) (m_frags (mk_manifest cur s frs idx)).
  Proof.
    intros cur s frs idx f H. rewrite mk_manifest_frags. apply in_map.
    eapply Permutation_in; [apply Permutation_sym; apply sort_frags_perm | exact H].
  Qed.
  Lemma mk_manifest_In_inv : forall cur s frs idx g, In g (m_frags (mk_manifest cur s frs idx)) ->
    exists f, In f frs /\ g = detomb f.
  Proof.
    intros cur s frs idx g H. rewrite mk_manifest_frags in H. apply in_map_iff in H as [f [E Hf]].
    exists f. split; [eapply Permutation_in; [apply sort_frags_perm | exact Hf] | symmetry; exact E].
  Qed.
  Lemma mk_manifest_ids_perm : forall cur s frs idx,
    Permutation (ids_of (m_frags (mk_manifest cur s frs idx))) (ids_of frs).
  Proof.
    intros. rewrite mk_manifest_frags. rewrite (ids_of_map detomb) by (intros; reflexivity).
    unfold ids_of. apply Permutation_map. apply sort_frags_perm.
  Qed.
  Lemma mk_manifest_find : forall cur s frs idx i, NoDup (ids_of frs) ->
    find_frag i (m_frags (mk_manifest cur s frs idx)) = option_map detomb (find_frag i frs).
  Proof.
    intros cur s frs idx i Hnd. rewrite mk_manifest_frags. rewrite find_frag_map by (intros; reflexivity).
    f_equal. apply find_frag_perm; [exact Hnd | apply Permutation_sym; apply sort_frags_perm].
  Qed.
  Lemma mk_manifest_maxfid : forall cur s frs idx,
    m_maxfid (mk_manifest cur s frs idx) = omax (m_maxfid cur) (lmax (ids_of frs)).
  Proof.
    intros. unfold mk_manifest. cbn [m_maxfid]. unfold update_maxfid.
    fold (upd_maxfid_ids (m_maxfid cur) (ids_of (remove_tombstoned (sort_frags frs)))).
    rewrite upd_maxfid_ids_omax. f_equal. apply lmax_perm.
    rewrite remove_tombstoned_map, (ids_of_map detomb) by (intros; reflexivity).
    unfold ids_of. apply Permutation_map. apply sort_frags_perm.
  Qed.
  Lemma mk_manifest_wf_maxfid : forall cur s frs idx, wf_maxfid (mk_manifest cur s frs idx).
  Proof.
    intros. unfold wf_maxfid. rewrite mk_manifest_maxfid.
    destruct (omax (m_maxfid cur) (lmax (ids_of frs))) as [M|] eqn:E.
    - intros g Hg. apply mk_manifest_In_inv in Hg as [f [Hf Eg]]. subst g. rewrite detomb_id.
      assert (Hin : In (f_id f) (ids_of frs)) by (apply in_map; exact Hf).
      destruct (lmax (ids_of frs)) as [mx|] eqn:El.
      + pose proof (lmax_le _ _ El _ Hin) as Hle. destruct (m_maxfid cur); cbn in E; inversion E; subst; lia.
      + apply lmax_none in El. rewrite El in Hin. destruct Hin.
    - destruct (lmax (ids_of frs)) eqn:El; [destruct (m_maxfid cur); cbn in E; discriminate|].
      apply lmax_none in El. unfold ids_of in El. apply map_eq_nil in El. subst. reflexivity.
  Qed.
  Lemma mk_manifest_wf : forall cur s frs idx,
    NoDup (ids_of frs) -> (forall f, In f frs -> wf_frag f) -> wf_schema s -> wf_manifest (mk_manifest cur s frs idx).
  Proof.
    intros cur s frs idx Hnd Hwf Hs. split; [|split; [|split]].
    - eapply Permutation_NoDup; [apply Permutation_sym; apply mk_manifest_ids_perm | exact Hnd].
    - intros g Hg. apply mk_manifest_In_inv in Hg as [f [Hf Eg]]. subst. apply wf_frag_detomb. exact (Hwf f Hf).
    - exact Hs.
    - apply mk_manifest_wf_maxfid.
  Qed.

  (* ---------------------------------------------------------------- what a committed operation touches *)
  Definition proj_files (s : schema) (f : frag) : frag :=
    set_files f (filter (fun d => overlapZ (d_fields d) (schema_ids s)) (f_files f)).
  (* the fragment ids whose entry a build_manifest step may replace or remove; None = every fragment *)
  Definition touched (o : op) : option (list N) :=
    match o with
    | Append _ | CreateIndex _ _ | ReserveFragments _ | UpdateConfig _ _ _ _ | UpdateBases _ | Project _ => Some []
    | Delete upd dids => Some (ids_of upd ++ dids)
    | Update removed upd _ _ _ _ _ => Some (ids_of upd ++ removed)
    | Rewrite groups _ _ => Some (group_old_ids groups)
    | DataReplacement repl => Some (map fst repl)
    | Merge _ _ | Overwrite _ _ _ | UpdateMemWalState _ _ _ | Restore _ | Clone => None
    end.
  (* how an untouched fragment entry is carried into the next manifest (before tombstone removal) *)
  Definition carry (o : op) (f : frag) : frag := match o with Project s => proj_files s f | _ => f end.

  Lemma replace_last_id : forall upd f, f_id (replace_last upd f) = f_id f.
  Proof.
    intros upd. unfold replace_last. induction upd as [|u r IH]; intros f; cbn [fold_left]; [reflexivity|].
    destruct (N.eqb (f_id u) (f_id f)) eqn:E; [rewrite IH; apply N.eqb_eq; exact E | apply IH].
  Qed.
  Lemma replace_last_notin : forall upd f, ~ In (f_id f) (ids_of upd) -> replace_last upd f = f.
  Proof.
    intros upd. unfold replace_last. induction upd as [|u r IH]; intros f H; cbn [fold_left]; [reflexivity|].
    cbn [ids_of map In] in H. destruct (N.eqb (f_id u) (f_id f)) eqn:E.
    - apply N.eqb_eq in E. exfalso. apply H. left. exact E.
    - apply IH. intro Hin. apply H. right. exact Hin.
  Qed.
  (* the replacement is the fragment itself or one of the updated fragments with its id *)
  Lemma replace_last_cases : forall upd f, replace_last upd f = f \/ (In (replace_last upd f) upd).
  Proof.
    intros upd. unfold replace_last. induction upd as [|u r IH]; intros f; cbn [fold_left]; [left; reflexivity|].
    destruct (N.eqb (f_id u) (f_id f)) eqn:E.
    - destruct (IH u) as [H | H]; [right; left; symmetry; exact H | right; right; exact H].
    - destruct (IH f) as [H | H]; [left; exact H | right; right; exact H].
  Qed.
  Lemma replace_first_id : forall upd f, f_id (replace_first upd f) = f_id f.
  Proof.
    intros upd f. unfold replace_first. destruct (find_frag (f_id f) upd) eqn:E; [|reflexivity].
    apply find_frag_some in E as [_ E]. exact E.
  Qed.
  Lemma replace_first_notin : forall upd f, ~ In (f_id f) (ids_of upd) -> replace_first upd f = f.
  Proof.
    intros upd f H. unfold replace_first. apply find_frag_none in H. rewrite H. reflexivity.
  Qed.
  Lemma replace_first_cases : forall upd f, replace_first upd f = f \/ In (replace_first upd f) upd.
  Proof.
    intros upd f. unfold replace_first. destruct (find_frag (f_id f) upd) eqn:E; [|left; reflexivity].
    right. apply find_frag_some in E as [E _]. exact E.
  Qed.

  (* handle_rewrite_fragments keeps every fragment that is not an old fragment of a group *)
  Lemma index_of_nth : forall i l k, index_of i l = Some k -> exists g, nth_error l k = Some g /\ f_id g = i.
  Proof.
    intros i l. induction l as [|f r IH]; intros k H; cbn [index_of] in H; [discriminate|].
    destruct (N.eqb (f_id f) i) eqn:E.
    - inversion H; subst. exists f. split; [reflexivity | apply N.eqb_eq; exact E].
    - destruct (index_of i r) as [k'|] eqn:Ek; [|discriminate]. inversion H; subst.
      destruct (IH k' eq_refl) as [g [Hg Hi]]. exists g. split; [exact Hg | exact Hi].
  Qed.
  Lemma rewrite_group_keeps : forall final next g res next' f,
    rewrite_group final next g = Ok (res, next') -> In f final -> ~ In (f_id f) (ids_of (fst g)) -> In f res.
  Proof.
    intros final next [olds news] res next' f H Hin Hnot. unfold rewrite_group in H. cbn [fst snd] in *.
    destruct olds as [|o0 orest]; [discriminate|].
    destruct (index_of (f_id o0) final) as [start|] eqn:Ei; [|discriminate].
    match type of H with context [match ?w with Ok _ => _ | Err => _ | Panic => _ end] => destruct w as [contig| |] eqn:Ew end;
      try discriminate.
    destruct (assign_ids next news) as [nw nx] eqn:Ea.
    destruct contig.
    - inversion H; subst; clear H.
      (* the replaced range start .. start + |olds| holds exactly the ids of olds *)
      assert (Hseg : forall j g0, (j < length (o0 :: orest))%nat -> nth_error final (start + j) = Some g0 ->
                       In (f_id g0) (ids_of (o0 :: orest))).
      { destruct (index_of_nth _ _ _ Ei) as [g1 [Hg1 Hid1]].
        assert (Hw : forall (olds' : list frag) k, 
                   (fix walk (k : nat) (olds : list frag) {struct olds} : outcome bool :=
                      match olds with
                      | [] => Ok true
                      | o :: t => match nth_error final k with
                                  | None => Panic
                                  | Some f => if N.eqb (f_id f) (f_id o) then walk (S k) t else Ok false
                                  end
                      end) k olds' = Ok true ->
                   forall j g0, (j < length olds')%nat -> nth_error final (k + j) = Some g0 -> In (f_id g0) (ids_of olds')).
        { induction olds' as [|o t IHo]; intros k Hk j g0 Hj Hn; [cbn in Hj; lia|].
          destruct (nth_error final k) as [fk|] eqn:Ek; [|discriminate].
          destruct (N.eqb (f_id fk) (f_id o)) eqn:Eo; [|discriminate].
          destruct j as [|j].
          - rewrite Nat.add_0_r in Hn. rewrite Hn in Ek. inversion Ek; subst. left. symmetry. apply N.eqb_eq. exact Eo.
          - right. apply (IHo (S k) Hk j g0); [cbn in Hj; lia|]. rewrite <- Hn. f_equal. lia. }
        intros j g0 Hj Hn. destruct j as [|j].
        - rewrite Nat.add_0_r in Hn. rewrite Hn in Hg1. inversion Hg1; subst. left. symmetry. exact Hid1.
        - right. apply (Hw orest (S start) Ew j g0); [cbn in Hj; lia|]. rewrite <- Hn. f_equal. lia. }
      apply In_nth_error in Hin as [p Hp].
      apply in_or_app. destruct (Nat.ltb p start) eqn:E1.
      + apply Nat.ltb_lt in E1. left. exact (proj1 (nth_split final p start f Hp) E1).
      + apply Nat.ltb_ge in E1. right. apply in_or_app. right.
        destruct (Nat.ltb p (start + length (o0 :: orest))) eqn:E2.
        * apply Nat.ltb_lt in E2. exfalso. apply Hnot. apply (Hseg (p - start)%nat f); [lia|].
          rewrite <- Hp. f_equal. lia.
        * apply Nat.ltb_ge in E2. exact (proj2 (nth_split final p _ f Hp) E2).
    - inversion H; subst; clear H. apply in_or_app. left. apply filter_In. split; [exact Hin|].
      apply negb_true_iff. apply (proj2 (memN_false (f_id f) (ids_of (o0 :: orest)))). exact Hnot.
  Qed.
  Lemma rewrite_groups_keeps : forall gs final next res f,
    rewrite_groups final next gs = Ok res -> In f final -> ~ In (f_id f) (group_old_ids gs) -> In f res.
  Proof.
    induction gs as [|g r IH]; intros final next res f H Hin Hnot; cbn [rewrite_groups] in H.
    - inversion H; subst. exact Hin.
    - destruct (rewrite_group final next g) as [[final' next']| |] eqn:Eg; try discriminate.
      unfold group_old_ids in Hnot. cbn [flat_map] in Hnot. rewrite in_app_iff in Hnot.
      apply (IH final' next' res f H).
      + apply (rewrite_group_keeps _ _ _ _ _ f Eg Hin). intro Hx. apply Hnot. left. exact Hx.
      + intro Hx. apply Hnot. right. exact Hx.
  Qed.

  Lemma untouched_preserved : forall cur o m' f T,
    build_manifest cur o = Ok m' -> touched o = Some T -> In f (m_frags cur) -> ~ In (f_id f) T ->
    In (detomb (carry o f)) (m_frags m').
  Proof.
    intros cur o m' f T Hb Ht Hin Hnot. destruct o; cbn [touched] in Ht; try discriminate; inversion Ht; subst T; clear Ht;
      cbn [build_manifest carry] in *.
    - (* Append *) inversion Hb; subst. apply mk_manifest_In. apply in_or_app. left. exact Hin.
    - (* Delete *) inversion Hb; subst. apply mk_manifest_In. rewrite in_app_iff in Hnot.
      rewrite <- (replace_last_notin upd f) by tauto. apply in_map. apply filter_In. split; [exact Hin|].
      apply negb_true_iff. apply memN_false. tauto.
    - (* Update *) inversion Hb; subst. apply mk_manifest_In. rewrite in_app_iff in Hnot. apply in_or_app. left.
      rewrite <- (replace_first_notin upd f) by tauto. apply in_map. apply filter_In. split; [exact Hin|].
      apply negb_true_iff. apply memN_false. tauto.
    - (* Rewrite *)
      destruct (rewrite_groups (m_frags cur) _ groups) as [frs| |] eqn:Eg; try discriminate.
      destruct (rewrite_indices (m_indices cur) [] rewritten groups) as [idx|]; [|discriminate].
      inversion Hb; subst. apply mk_manifest_In. exact (rewrite_groups_keeps _ _ _ _ f Eg Hin Hnot).
    - (* Project *) inversion Hb; subst. apply mk_manifest_In. apply in_map_iff. exists f. split; [reflexivity | exact Hin].
    - (* ReserveFragments *) inversion Hb; subst. cbn [with_maxfid m_frags]. apply mk_manifest_In. exact Hin.
    - (* CreateIndex *) inversion Hb; subst. apply mk_manifest_In. exact Hin.
    - (* DataReplacement *)
      destruct (negb (all_same_fields (map snd repl))); [discriminate|].
      destruct (replace_all (m_frags cur) repl) as [changed|]; [|discriminate]. inversion Hb; subst.
      apply mk_manifest_In. apply in_or_app. right. apply filter_In. split; [exact Hin|].
      apply negb_true_iff. apply memN_false. exact Hnot.
    - (* UpdateConfig *) inversion Hb; subst. destruct cu; cbn [with_config m_frags]; apply mk_manifest_In; exact Hin.
    - (* UpdateBases *) inversion Hb; subst. apply mk_manifest_In. exact Hin.
  Qed.


  (* ---------------------------------------------------------------- similarity of a fragment entry with an older one *)
  (* fc (in a later manifest with schema s) shows the same rows as fi: same physical rows, same cells for the fields
     of s, and at least the deletions of fi *)
  Definition Sim (s : schema) (fi fc : frag) : Prop :=
    f_id fc = f_id fi /\ frag_rows fc = frag_rows fi
    /\ (forall x o, In x (schema_ids s) -> fcell fc x o = fcell fi x o)
    /\ incl (dels_of fi) (dels_of fc).
  Lemma Sim_refl : forall s f, Sim s f f.
  Proof. intros s f. repeat split; auto. apply incl_refl. Qed.
  Lemma Sim_detomb : forall s fi fc, wf_schema s -> Sim s fi fc -> Sim s fi (detomb fc).
  Proof.
    intros s fi fc Hs [H1 [H2 [H3 H4]]]. unfold Sim. rewrite detomb_id, frag_rows_detomb. unfold dels_of. rewrite detomb_del.
    repeat split; auto. intros x o Hx. rewrite fcell_detomb by (apply Hs; exact Hx). apply H3. exact Hx.
  Qed.
  Lemma Sim_schema_incl : forall s s' fi fc, incl (schema_ids s') (schema_ids s) -> Sim s fi fc -> Sim s' fi fc.
  Proof.
    intros s s' fi fc Hi [H1 [H2 [H3 H4]]]. repeat split; auto.
  Qed.
  (* same data files: same rows and cells *)
  Lemma same_files_rows : forall a b, f_files a = f_files b -> frag_rows a = frag_rows b.
  Proof. intros a b E. unfold Model_Txn.frag_rows. rewrite E. reflexivity. Qed.
  Lemma same_files_cell : forall a b x o, f_files a = f_files b -> fcell a x o = fcell b x o.
  Proof. intros a b x o E. unfold Model_Txn.fcell, file_of. rewrite E. reflexivity. Qed.

  (* Project keeps a data file of every fragment (a condition on the committed Project operations of a history) *)
  Definition keeps_file (s : schema) (f : frag) : Prop :=
    exists d, In d (f_files f) /\ overlapZ (d_fields d) (schema_ids s) = true.
  Lemma overlap_live : forall s d, wf_schema s -> overlapZ (d_fields d) (schema_ids s) = true -> live_file d = true.
  Proof.
    intros s d Hs Ho. apply overlapZ_true in Ho as [x [Hx Hs']]. apply (live_file_has d x); [apply Hs; exact Hs' | apply memZ_In; exact Hx].
  Qed.
  Lemma find_some_first {A} : forall (p : A -> bool) l, (exists d, In d l /\ p d = true) -> exists d, find p l = Some d /\ In d l /\ p d = true.
  Proof.
    intros p l [d [Hd Hp]]. destruct (find p l) as [e|] eqn:E.
    - exists e. apply find_some in E as [E1 E2]. auto.
    - exfalso. pose proof (find_none _ _ E d Hd) as Q. congruence.
  Qed.
  Lemma frag_rows_proj : forall s f, wf_schema s -> wf_frag f -> keeps_file s f -> frag_rows (proj_files s f) = frag_rows f.
  Proof.
    intros s f Hs [_ Hw] [d [Hd Ho]]. unfold Model_Txn.frag_rows at 1. unfold proj_files. cbn [f_files set_files].
    destruct (find_some_first live_file (filter (fun d0 => overlapZ (d_fields d0) (schema_ids s)) (f_files f))) as [e [E [He Hl]]].
    { exists d. split; [apply filter_In; split; assumption | exact (overlap_live s d Hs Ho)]. }
    rewrite E. apply filter_In in He as [He _]. exact (Hw e He Hl).
  Qed.
  Lemma fcell_proj : forall s f x o, In x (schema_ids s) -> fcell (proj_files s f) x o = fcell f x o.
  Proof.
    intros s f x o Hx. unfold Model_Txn.fcell, file_of, proj_files. cbn [f_files set_files].
    rewrite find_filter_imp; [reflexivity|]. intros d Hd. cbv beta in Hd. apply overlapZ_true. exists x.
    split; [apply memZ_In; exact Hd | exact Hx].
  Qed.
  Lemma wf_frag_proj : forall s f, wf_schema s -> wf_frag f -> keeps_file s f -> wf_frag (proj_files s f).
  Proof.
    intros s f Hs Hw Hk. pose proof (frag_rows_proj s f Hs Hw Hk) as Er. destruct Hw as [H2 H3].
    unfold wf_frag. rewrite Er. split; [exact H2|]. intros d Hd Hl.
    unfold proj_files in Hd. cbn [f_files set_files] in Hd. apply filter_In in Hd as [Hd _]. exact (H3 d Hd Hl).
  Qed.
End Frame.
