(* Table/Model_Manifest.v - the shared CONCRETE MANIFEST model (owner: C05/C18; imported by C07, C13, C17 ...).

   Transcription, branch for branch, of
     rust/lance/src/dataset/transaction.rs   Transaction::build_manifest and its helpers (fragments_with_ids,
                                             assign_row_ids, handle_rewrite_fragments, handle_rewrite_indices,
                                             recalculate_fragment_bitmap, retain_relevant_indices,
                                             prune_updated_fields_from_indices, register_pure_rewrite_rows_update_frags_in_indices,
                                             collect_pure_rewrite_row_update_frags_ids, remove_tombstoned_data_files,
                                             data_storage_format_from_files), validate_operation (+ schema_fragments_valid,
                                             schema_fragments_legacy_valid, merge_fragments_valid)
     rust/lance-table/src/format/manifest.rs Manifest::{new, new_from_previous, max_fragment_id, update_max_fragment_id}
     rust/lance-table/src/format/fragment.rs Fragment::try_infer_version, DataFile::is_legacy_file
     rust/lance-table/src/feature_flags.rs   the FLAG_STABLE_ROW_IDS part of apply_feature_flags
     rust/lance-table/src/rowids/version.rs  build_version_meta
     rust/lance/src/io/commit.rs             fix_schema, check_storage_version, the post-processing of commit_transaction
   Executable definitions only (proofs: Proofs_Manifest.v).

   WHAT IS IN A MODEL MANIFEST.  Everything build_manifest reads or writes that the table-level properties talk
   about.  Two kinds of data are attached to the manifest objects although they live in other files on storage
   (they are what `Dataset::validate` reads back): [df_rows] - the number of rows stored in a data file - and
   [dl_rows] - the decoded content of a deletion file.  Row-id sequences and version sequences are DECODED
   (list of ids / list of versions, one entry per physical row); their segment encoding is property C34's.
   Opaque / not modelled: paths (an identity tag), file sizes, column_indices, config maps, table metadata,
   base paths, tags, timestamps, writer version, the flags other than FLAG_STABLE_ROW_IDS (C37), index details
   (one bit: is it a vector index), MemWAL, Clone, UpdateBases, UpdateMemWalState, Restore (a history-level step,
   see [restore_step]: build_manifest is `unreachable!()` for it).

   DECLARED DOMAIN of the transcription (the harness generates only such inputs):
     D1 a manifest without FLAG_STABLE_ROW_IDS has next_row_id = 0 (m_next_row_id = None stands for both);
     D2 RowIdMeta / version metadata are Inline and decodable;
     D3 Overwrite.initial_bases = None, Update.mem_wal_to_merge = None, UpdateConfig touches no field metadata;
     D4 data_storage_format strings parse, cfg_storage is a resolved version (DataStorageFormat::new resolves);
     D5 the file size of a data file is a function of its path tag (so DataFile equality = equality of the model record);
     D6 fragment ids, row counts and row ids are < 2^64 (u64/usize). *)
From LanceV Require Import Common.Base Meta.Model_Flags.
Local Open Scope N_scope.

(* ---------------------------------------------------------------- helpers *)
Definition mbind {A B} (x : outcome A) (f : A -> outcome B) : outcome B :=
  match x with Ok a => f a | Err => Err | Panic => Panic end.
Notation "'let*' x ':=' e 'in' k" := (mbind e (fun x => k))
  (at level 200, x pattern, e at level 100, k at level 200, right associativity).

Definition n_mem (v : N) (l : list N) : bool := existsb (N.eqb v) l.
Definition z_mem (v : Z) (l : list Z) : bool := existsb (Z.eqb v) l.
Definition len_n {A} (l : list A) : N := N.of_nat (length l).
(* s, s+1, ..., s+n-1  and  n copies of v: also the compact notations the harness prints *)
Definition n_range (s n : N) : list N := map (fun i => s + N.of_nat i) (seq 0 (N.to_nat n)).
Definition n_rep (n v : N) : list N := repeat v (N.to_nat n).
Definition is_some {A} (o : option A) : bool := match o with Some _ => true | None => false end.

Fixpoint nodup_n (l : list N) : bool :=
  match l with [] => true | x :: r => negb (n_mem x r) && nodup_n r end.
Fixpoint nodup_z (l : list Z) : bool :=
  match l with [] => true | x :: r => negb (z_mem x r) && nodup_z r end.
Fixpoint strict_sorted_n (l : list N) : bool :=
  match l with
  | [] => true
  | x :: r => match r with [] => true | y :: _ => (x <? y) && strict_sorted_n r end
  end.
Definition list_max_n (l : list N) : option N :=
  match l with [] => None | x :: r => Some (fold_left N.max r x) end.

(* sets of u32 (RoaringBitmap) as strictly ascending lists *)
Fixpoint set_insert (x : N) (l : list N) : list N :=
  match l with
  | [] => [x]
  | y :: r => if x <? y then x :: l else if x =? y then l else y :: set_insert x r
  end.
Definition set_remove (x : N) (l : list N) : list N := filter (fun y => negb (y =? x)) l.
Definition set_of_list (l : list N) : list N := fold_left (fun acc x => set_insert x acc) l [].

(* ---------------------------------------------------------------- data *)
Definition TOMBSTONE : Z := (-2)%Z.

Record DataFile := mkDataFile {
  df_path : N;            (* identity of the file (path + size), opaque *)
  df_fields : list Z;     (* field ids stored in the file; -2 = tombstoned *)
  df_version : N * N;     (* (file_major_version, file_minor_version) *)
  df_rows : N }.          (* rows stored in the file (storage fact, see header) *)

Record DeletionFile := mkDeletionFile {
  dl_id : N;              (* identity (read_version, id, type), opaque *)
  dl_num : option N;      (* num_deleted_rows metadata *)
  dl_rows : list N }.     (* decoded content, ascending (storage fact) *)

Record Fragment := mkFragment {
  fr_id : N;
  fr_phys : option N;                 (* physical_rows *)
  fr_files : list DataFile;
  fr_deletion : option DeletionFile;
  fr_row_ids : option (list N);       (* decoded row_id_meta; None = no stable row ids *)
  fr_created_at : option (list N);    (* decoded created_at_version_meta, one version per physical row *)
  fr_updated_at : option (list N) }.  (* decoded last_updated_at_version_meta *)

Definition FRAG_REUSE_INDEX_NAME : N := 0.
Definition MEM_WAL_INDEX_NAME : N := 1.
Record Index := mkIndex {
  ix_uuid : N;
  ix_name : N;                        (* 0 / 1 = the two system index names, >= 2 user names *)
  ix_fields : list Z;
  ix_dataset_version : N;
  ix_bitmap : option (list N);        (* fragment_bitmap, ascending *)
  ix_vector : bool }.                 (* index_details.type_url ends with "VectorIndexDetails" *)

Record Manifest := mkManifest {
  m_version : N;
  m_schema : list Z;                  (* schema.fields_pre_order() ids *)
  m_fragments : list Fragment;
  m_max_fragment_id : option N;       (* Option<u32> *)
  m_next_row_id : option N;           (* Some n <-> FLAG_STABLE_ROW_IDS set, n = next_row_id; None = no stable row ids *)
  m_storage : fver;                   (* data_storage_format.lance_file_version() *)
  m_indices : list Index }.           (* the index section (load_indices) *)

Record RewriteGroup := mkRewriteGroup {
  rg_old : list N;                    (* ids of old_fragments (only the ids are read) *)
  rg_new : list Fragment }.

Inductive UpdateMode := RewriteRows | RewriteColumns.

Inductive Operation :=
| Append (fragments : list Fragment)
| Delete (updated_fragments : list Fragment) (deleted_fragment_ids : list N)
| Overwrite (fragments : list Fragment) (schema : list Z) (has_config_upsert : bool)
| CreateIndex (new_indices removed_indices : list Index)
| Rewrite (groups : list RewriteGroup) (rewritten_indices : list (N * N)) (frag_reuse_index : option Index)
| DataReplacement (replacements : list (N * DataFile))
| Merge (fragments : list Fragment) (schema : list Z)
| ReserveFragments (num_fragments : N)
| Update (removed_fragment_ids : list N) (updated_fragments new_fragments : list Fragment)
         (fields_modified fields_for_preserving_frag_bitmap : list N) (update_mode : option UpdateMode)
| Project (schema : list Z)
| UpdateConfig.

Record config := mkConfig {
  cfg_stable : bool;                  (* ManifestWriteConfig.use_stable_row_ids *)
  cfg_storage : option fver }.        (* ManifestWriteConfig.storage_format *)

Definition uses_stable (m : Manifest) : bool := is_some (m_next_row_id m).
Definition frag_ids (l : list Fragment) : list N := map fr_id l.
Definition fr_deleted (f : Fragment) : list N :=
  match fr_deletion f with Some d => dl_rows d | None => [] end.

(* functional record updates *)
Definition set_id (f : Fragment) (i : N) : Fragment :=
  mkFragment i (fr_phys f) (fr_files f) (fr_deletion f) (fr_row_ids f) (fr_created_at f) (fr_updated_at f).
Definition set_files (f : Fragment) (fs : list DataFile) : Fragment :=
  mkFragment (fr_id f) (fr_phys f) fs (fr_deletion f) (fr_row_ids f) (fr_created_at f) (fr_updated_at f).
Definition set_row_ids (f : Fragment) (r : option (list N)) : Fragment :=
  mkFragment (fr_id f) (fr_phys f) (fr_files f) (fr_deletion f) r (fr_created_at f) (fr_updated_at f).
Definition set_versions (f : Fragment) (c u : option (list N)) : Fragment :=
  mkFragment (fr_id f) (fr_phys f) (fr_files f) (fr_deletion f) (fr_row_ids f) c u.
Definition set_bitmap (i : Index) (b : option (list N)) : Index :=
  mkIndex (ix_uuid i) (ix_name i) (ix_fields i) (ix_dataset_version i) b (ix_vector i).
Definition set_uuid (i : Index) (u : N) : Index :=
  mkIndex u (ix_name i) (ix_fields i) (ix_dataset_version i) (ix_bitmap i) (ix_vector i).

(* ---------------------------------------------------------------- boolean equalities (correspondence) *)
Definition ln_eqb := list_eqb N.eqb.
Definition lz_eqb := list_eqb Z.eqb.
Definition oln_eqb := option_eqb ln_eqb.
Definition datafile_eqb (a b : DataFile) : bool :=
  (df_path a =? df_path b) && lz_eqb (df_fields a) (df_fields b)
  && pair_eqb N.eqb N.eqb (df_version a) (df_version b) && (df_rows a =? df_rows b).
Definition deletion_eqb (a b : DeletionFile) : bool :=
  (dl_id a =? dl_id b) && option_eqb N.eqb (dl_num a) (dl_num b) && ln_eqb (dl_rows a) (dl_rows b).
Definition fragment_eqb (a b : Fragment) : bool :=
  (fr_id a =? fr_id b) && option_eqb N.eqb (fr_phys a) (fr_phys b)
  && list_eqb datafile_eqb (fr_files a) (fr_files b)
  && option_eqb deletion_eqb (fr_deletion a) (fr_deletion b)
  && oln_eqb (fr_row_ids a) (fr_row_ids b)
  && oln_eqb (fr_created_at a) (fr_created_at b) && oln_eqb (fr_updated_at a) (fr_updated_at b).
Definition index_eqb (a b : Index) : bool :=
  (ix_uuid a =? ix_uuid b) && (ix_name a =? ix_name b) && lz_eqb (ix_fields a) (ix_fields b)
  && (ix_dataset_version a =? ix_dataset_version b) && oln_eqb (ix_bitmap a) (ix_bitmap b)
  && Bool.eqb (ix_vector a) (ix_vector b).
Definition manifest_eqb (a b : Manifest) : bool :=
  (m_version a =? m_version b) && lz_eqb (m_schema a) (m_schema b)
  && list_eqb fragment_eqb (m_fragments a) (m_fragments b)
  && option_eqb N.eqb (m_max_fragment_id a) (m_max_fragment_id b)
  && option_eqb N.eqb (m_next_row_id a) (m_next_row_id b)
  && fver_eqb (m_storage a) (m_storage b)
  && list_eqb index_eqb (m_indices a) (m_indices b).

(* ---------------------------------------------------------------- fragment ids *)
(* Transaction::fragments_with_ids: `id == 0` is the "not yet assigned" sentinel *)
Fixpoint fragments_with_ids (l : list Fragment) (fragment_id : N) : list Fragment * N :=
  match l with
  | [] => ([], fragment_id)
  | f :: r =>
      if fr_id f =? 0
      then let '(r', n) := fragments_with_ids r (fragment_id + 1) in (set_id f fragment_id :: r', n)
      else let '(r', n) := fragments_with_ids r fragment_id in (f :: r', n)
  end.

(* Manifest::max_fragment_id *)
Definition max_fragment_id (m : Manifest) : option N :=
  match m_max_fragment_id m with
  | Some mx => Some mx
  | None => list_max_n (frag_ids (m_fragments m))
  end.

(* Manifest::update_max_fragment_id, on (fragments, stored max): `.try_into::<u32>().unwrap()` panics *)
Definition update_max_fragment_id (frags : list Fragment) (cur : option N) : outcome (option N) :=
  match list_max_n (frag_ids frags) with
  | None => Ok cur
  | Some mx =>
      if two32 <=? mx then Panic
      else match cur with
           | None => Ok (Some mx)
           | Some c => if c <? mx then Ok (Some mx) else Ok (Some c)
           end
  end.

(* final_fragments.sort_by_key(|frag| frag.id): stable insertion sort *)
Fixpoint insert_frag (f : Fragment) (l : list Fragment) : list Fragment :=
  match l with
  | [] => [f]
  | g :: r => if fr_id g <? fr_id f then g :: insert_frag f r else f :: l
  end.
Definition sort_frags (l : list Fragment) : list Fragment := fold_right insert_frag [] l.

(* Transaction::remove_tombstoned_data_files *)
Definition has_live_field (d : DataFile) : bool := existsb (fun x => negb (x =? TOMBSTONE)%Z) (df_fields d).
Definition remove_tombstoned_data_files (l : list Fragment) : list Fragment :=
  map (fun f => set_files f (filter has_live_field (fr_files f))) l.

(* ---------------------------------------------------------------- row ids and version columns *)
(* Transaction::assign_row_ids: the three cases none / partial / complete.  `*next_row_id + n` panics on
   u64 overflow in debug builds. *)
Fixpoint assign_row_ids (next_row_id : N) (l : list Fragment) : outcome (N * list Fragment) :=
  match l with
  | [] => Ok (next_row_id, [])
  | f :: r =>
      match fr_phys f with
      | None => Err
      | Some physical_rows =>
          match fr_row_ids f with
          | Some ids =>
              let existing := len_n ids in
              if existing =? physical_rows then
                let* (n, r') := assign_row_ids next_row_id r in Ok (n, f :: r')
              else if existing <? physical_rows then
                let remaining := physical_rows - existing in
                if two64 <=? next_row_id + remaining then Panic
                else
                  let f' := set_row_ids f (Some (ids ++ n_range next_row_id remaining)) in
                  let* (n, r') := assign_row_ids (next_row_id + remaining) r in Ok (n, f' :: r')
              else Err
          | None =>
              if two64 <=? next_row_id + physical_rows then Panic
              else
                let f' := set_row_ids f (Some (n_range next_row_id physical_rows)) in
                let* (n, r') := assign_row_ids (next_row_id + physical_rows) r in Ok (n, f' :: r')
          end
      end
  end.

(* lance_table::rowids::version::build_version_meta *)
Definition build_version_meta (f : Fragment) (version : N) : outcome (option (list N)) :=
  match fr_phys f with
  | Some p => if 0 <? p
              then match fr_row_ids f with None => Panic | Some _ => Ok (Some (n_rep p version)) end
              else Ok None
  | None => Ok None
  end.

(* "Add version metadata for all new fragments" (Append / Overwrite arms) *)
Fixpoint stamp_new_fragments (version : N) (l : list Fragment) : outcome (list Fragment) :=
  match l with
  | [] => Ok []
  | f :: r => let* vm := build_version_meta f version in
              let* r' := stamp_new_fragments version r in
              Ok (set_versions f vm vm :: r')
  end.

(* HashMap<u64, &Fragment> built by `.collect()`: the last fragment with a given id wins *)
Definition find_frag_last (id : N) (l : list Fragment) : option Fragment :=
  find (fun f => fr_id f =? id) (rev l).

(* Update arm: created_at of a rewritten row is looked up by reading its ROW ID as an address
   (`row_id >> 32` = fragment, low 32 bits = offset) - transcribed as written (finding F5 is property C17's) *)
Definition created_version_of (existing : list Fragment) (row_id : N) : N :=
  let orig_frag_id := N.shiftr row_id 32 in
  let row_offset := N.land row_id 4294967295 in
  match find_frag_last orig_frag_id existing with
  | Some orig => match fr_created_at orig with
                 | Some versions => nth (N.to_nat row_offset) versions 1
                 | None => 1
                 end
  | None => 1
  end.

Fixpoint stamp_updated_fragments (existing : list Fragment) (version : N) (l : list Fragment)
  : outcome (list Fragment) :=
  match l with
  | [] => Ok []
  | f :: r =>
      let* f' := match fr_row_ids f with
                 | Some ids => let* lu := build_version_meta f version in
                               Ok (set_versions f (Some (map (created_version_of existing) ids)) lu)
                 | None => let* vm := build_version_meta f version in Ok (set_versions f vm vm)
                 end in
      let* r' := stamp_updated_fragments existing version r in
      Ok (f' :: r')
  end.

(* Transaction::collect_pure_rewrite_row_update_frags_ids *)
Fixpoint collect_pure_ids (l : list Fragment) : outcome (list N) :=
  match l with
  | [] => Ok []
  | f :: r =>
      match fr_phys f with
      | None => Err
      | Some p =>
          let* r' := collect_pure_ids r in
          match fr_row_ids f with
          | Some ids => if len_n ids =? p then Ok (fr_id f :: r') else Ok r'
          | None => Ok r'
          end
      end
  end.

(* ---------------------------------------------------------------- indices *)
Definition is_system_index (i : Index) : bool :=
  (ix_name i =? FRAG_REUSE_INDEX_NAME) || (ix_name i =? MEM_WAL_INDEX_NAME).

(* `index.fields.iter().any(|id| set.contains(&u32::try_from(id).unwrap()))`: panics on a negative id reached
   before the first hit *)
Fixpoint any_field_in (fields : list Z) (set : list N) : outcome bool :=
  match fields with
  | [] => Ok false
  | x :: r => if (x <? 0)%Z then Panic
              else if n_mem (Z.to_N x) set then Ok true else any_field_in r set
  end.

(* Transaction::prune_updated_fields_from_indices *)
Fixpoint prune_updated_fields_from_indices (indices : list Index) (updated : list Fragment)
  (fields_modified : list N) : outcome (list Index) :=
  match fields_modified with
  | [] => Ok indices
  | _ =>
      match indices with
      | [] => Ok []
      | i :: r =>
          let* hit := any_field_in (ix_fields i) fields_modified in
          let i' := if hit
                    then match ix_bitmap i with
                         | Some b => set_bitmap i (Some (fold_left (fun acc f => set_remove (wrap32 (fr_id f)) acc) updated b))
                         | None => i
                         end
                    else i in
          let* r' := prune_updated_fields_from_indices r updated fields_modified in
          Ok (i' :: r')
      end
  end.

(* Transaction::register_pure_rewrite_rows_update_frags_in_indices *)
Fixpoint register_pure_frags (indices : list Index) (pure_ids original_ids fields_preserving : list N)
  : outcome (list Index) :=
  match pure_ids with
  | [] => Ok indices
  | _ =>
      match indices with
      | [] => Ok []
      | i :: r =>
          let* covers := any_field_in (ix_fields i) fields_preserving in
          let i' := if covers then i
                    else match ix_bitmap i with
                         | Some b => if forallb (fun id => n_mem (wrap32 id) b) original_ids
                                     then set_bitmap i (Some (fold_left (fun acc id => set_insert (wrap32 id) acc) pure_ids b))
                                     else i
                         | None => i
                         end in
          let* r' := register_pure_frags r pure_ids original_ids fields_preserving in
          Ok (i' :: r')
      end
  end.

(* IndexMetadata::effective_fragment_bitmap(..).is_none_or(|b| b.is_empty()) *)
Definition index_is_empty (existing_ids : list N) (i : Index) : bool :=
  match ix_bitmap i with
  | None => true
  | Some b => negb (existsb (fun x => n_mem x existing_ids) b)
  end.

(* sort_by_key(dataset_version) then first(): the first index of minimal dataset_version *)
Fixpoint oldest_index (l : list Index) : option Index :=
  match l with
  | [] => None
  | i :: r => match oldest_index r with
              | Some j => if ix_dataset_version j <? ix_dataset_version i then Some j else Some i
              | None => Some i
              end
  end.

(* Transaction::retain_relevant_indices *)
Definition retain_relevant_indices (indices : list Index) (schema : list Z) (fragments : list Fragment)
  : list Index :=
  let indices := filter (fun i => forallb (fun x => z_mem x schema) (ix_fields i) || is_system_index i) indices in
  let existing := map (fun f => wrap32 (fr_id f)) fragments in
  let named := filter (fun i => negb (ix_name i =? FRAG_REUSE_INDEX_NAME)) indices in
  let keep_of_group (g : list Index) : list N :=
    match g with
    | [] => []
    | [i] => if negb (index_is_empty existing i) || negb (ix_vector i) then [ix_uuid i] else []
    | _ =>
        let non_empty := filter (fun i => negb (index_is_empty existing i)) g in
        match non_empty with
        | [] => match oldest_index g with
                | Some o => if ix_vector o then [] else [ix_uuid o]
                | None => []
                end
        | _ => map ix_uuid non_empty
        end
    end in
  let uuids_to_keep :=
    flat_map (fun i => keep_of_group (filter (fun j => ix_name j =? ix_name i) named)) named in
  filter (fun i => (ix_name i =? FRAG_REUSE_INDEX_NAME) || n_mem (ix_uuid i) uuids_to_keep) indices.

(* Transaction::recalculate_fragment_bitmap: note it reads the ids of group.new_fragments AS GIVEN in the
   transaction (before fragments_with_ids) *)
Fixpoint recalculate_fragment_bitmap (old new_bitmap : list N) (groups : list RewriteGroup) : outcome (list N) :=
  match groups with
  | [] => Ok new_bitmap
  | g :: r =>
      let any_in := existsb (fun id => n_mem (wrap32 id) old) (rg_old g) in
      let all_in := forallb (fun id => n_mem (wrap32 id) old) (rg_old g) in
      if any_in then
        if all_in then
          let b := fold_left (fun acc id => set_remove (wrap32 id) acc) (rg_old g) new_bitmap in
          let b := fold_left (fun acc f => set_insert (wrap32 (fr_id f)) acc) (rg_new g) b in
          recalculate_fragment_bitmap old b r
        else Err
      else recalculate_fragment_bitmap old new_bitmap r
  end.

Fixpoint recalc_all_bitmaps (indices : list Index) (groups : list RewriteGroup) : outcome (list Index) :=
  match indices with
  | [] => Ok []
  | i :: r =>
      let* i' := match ix_bitmap i with
                 | Some b => let* b' := recalculate_fragment_bitmap b b groups in Ok (set_bitmap i (Some b'))
                 | None => Ok i
                 end in
      let* r' := recalc_all_bitmaps r groups in
      Ok (i' :: r')
  end.

Fixpoint replace_first_index (uuid : N) (i' : Index) (l : list Index) : list Index :=
  match l with
  | [] => []
  | i :: r => if ix_uuid i =? uuid then i' :: r else i :: replace_first_index uuid i' r
  end.

(* Transaction::handle_rewrite_indices; `seen` = modified_indices *)
Fixpoint handle_rewrite_indices (indices : list Index) (rewritten : list (N * N)) (groups : list RewriteGroup)
  (seen : list N) : outcome (list Index) :=
  match rewritten with
  | [] => Ok indices
  | (old_id, new_id) :: r =>
      if n_mem old_id seen then Err
      else match find (fun i => ix_uuid i =? old_id) indices with
           | None => Err
           | Some i =>
               match ix_bitmap i with
               | None => Err
               | Some b =>
                   let* b' := recalculate_fragment_bitmap b b groups in
                   handle_rewrite_indices
                     (replace_first_index old_id (set_uuid (set_bitmap i (Some b')) new_id) indices)
                     r groups (old_id :: seen)
               end
           end
  end.

(* ---------------------------------------------------------------- Rewrite *)
(* position of the first fragment with the given id *)
Fixpoint position_of (id : N) (l : list Fragment) : option nat :=
  match l with
  | [] => None
  | f :: r => if fr_id f =? id then Some O
              else match position_of id r with Some k => Some (S k) | None => None end
  end.

(* the `loop` verifying that old_fragments matches a contiguous range; `final_fragments[start + i]` panics
   when it runs past the end.  Some true = contiguous, Some false = not, None = index out of bounds *)
Fixpoint contiguous_from (l : list Fragment) (old_rest : list N) : option bool :=
  match old_rest with
  | [] => Some true
  | id :: r => match l with
               | [] => None
               | f :: l' => if fr_id f =? id then contiguous_from l' r else Some false
               end
  end.

(* Transaction::handle_rewrite_fragments *)
Fixpoint handle_rewrite_fragments (final : list Fragment) (groups : list RewriteGroup) (fragment_id : N)
  : outcome (list Fragment * N) :=
  match groups with
  | [] => Ok (final, fragment_id)
  | g :: rest =>
      match rg_old g with
      | [] => Panic                                            (* group.old_fragments[0] *)
      | first :: old_rest =>
          match position_of first final with
          | None => Err                                        (* CommitConflict *)
          | Some start =>
              match contiguous_from (skipn (S start) final) old_rest with
              | None => Panic
              | Some contiguous =>
                  let '(new_fragments, fid) := fragments_with_ids (rg_new g) fragment_id in
                  let final' :=
                    if contiguous
                    then firstn start final ++ new_fragments ++ skipn (start + length (rg_old g)) final
                    else filter (fun f => negb (n_mem (fr_id f) (rg_old g))) final ++ new_fragments in
                  handle_rewrite_fragments final' rest fid
              end
          end
      end
  end.

(* ---------------------------------------------------------------- DataReplacement *)
Definition all_fields (f : Fragment) : list Z := flat_map df_fields (fr_files f).

Definition replace_in_fragment (frag : Fragment) (new_file : DataFile) : outcome Fragment :=
  let files := map (fun file =>
                      if lz_eqb (df_fields file) (df_fields new_file)
                         && pair_eqb N.eqb N.eqb (df_version file) (df_version new_file)
                      then mkDataFile (df_path new_file) (df_fields file) (df_version file) (df_rows new_file)
                      else file) (fr_files frag) in
  let covered := all_fields frag in
  let* files :=
    if negb (existsb (fun x => z_mem x covered) (df_fields new_file)) then
      match try_from_major_minor (fst (df_version new_file)) (snd (df_version new_file)) with
      | None => Panic                                          (* .expect("Expected valid file version") *)
      | Some v => Ok (files ++ [mkDataFile (df_path new_file) (df_fields new_file) (to_numbers v) (df_rows new_file)])
      end
    else Ok files in
  let new_frag := set_files frag files in
  if fragment_eqb new_frag frag then Err else Ok new_frag.

Fixpoint replace_all (existing : list Fragment) (repl : list (N * DataFile)) : outcome (list Fragment) :=
  match repl with
  | [] => Ok []
  | (id, new_file) :: r =>
      match find (fun f => fr_id f =? id) existing with
      | None => Err
      | Some frag => let* nf := replace_in_fragment frag new_file in
                     let* r' := replace_all existing r in
                     Ok (nf :: r')
      end
  end.

(* `.map(|f| f.fields.clone()).collect::<HashSet<_>>().len() > 1` *)
Definition fields_all_same (repl : list (N * DataFile)) : bool :=
  match repl with
  | [] => true
  | (_, d) :: r => forallb (fun p => lz_eqb (df_fields (snd p)) (df_fields d)) r
  end.

(* ---------------------------------------------------------------- storage version *)
Definition file_fver (d : DataFile) : option fver := try_from_major_minor (fst (df_version d)) (snd (df_version d)).

(* Fragment::try_infer_version: Ok None = no data files, Err = unknown or mixed versions *)
Definition try_infer_version (l : list Fragment) : outcome (option fver) :=
  match find (fun f => negb (match fr_files f with [] => true | _ => false end)) l with
  | None => Ok None
  | Some f =>
      match fr_files f with
      | [] => Ok None
      | sample :: _ =>
          match file_fver sample with
          | None => Err
          | Some v =>
              if forallb (fun f => forallb (fun d => match file_fver d with Some w => fver_eqb v w | None => false end)
                                           (fr_files f)) l
              then Ok (Some v) else Err
          end
      end
  end.

(* Transaction::data_storage_format_from_files *)
Definition data_storage_format_from_files (l : list Fragment) (user_requested : option fver) : outcome fver :=
  let* inferred := try_infer_version l in
  match inferred with
  | Some file_version =>
      match user_requested with
      | Some u => if fver_eqb u file_version then Ok (resolve file_version) else Err
      | None => Ok (resolve file_version)
      end
  | None => match user_requested with Some u => Ok (resolve u) | None => Ok V2_0 end
  end.

(* Fragment::num_rows computes `len - num_deleted_rows` on usize: panics (debug) when the metadata claims more
   deleted rows than the fragment has *)
Definition num_rows_underflows (f : Fragment) : bool :=
  match fr_phys f, fr_deletion f with
  | Some len, Some d => match dl_num d with Some n => len <? n | None => false end
  | _, _ => false
  end.

(* ---------------------------------------------------------------- build_manifest *)
Definition with_existing (cur : option Manifest) : outcome (list Fragment) :=
  match cur with Some m => Ok (m_fragments m) | None => Err end.

Definition stamp_if_stable (cur : option Manifest) (next_row_id : option N) (l : list Fragment)
  : outcome (list Fragment * option N) :=
  match next_row_id with
  | Some n =>
      let* (n', l') := assign_row_ids n l in
      let new_version := match cur with Some m => m_version m + 1 | None => 1 end in
      let* l'' := stamp_new_fragments new_version l' in
      Ok (l'', Some n')
  | None => Ok (l, None)
  end.

(* build_manifest is cut in four pieces (same order of evaluation as the Rust function):
   op_schema / start_next_row_id (the preamble), build_arm (the `match &self.operation`), finish_manifest
   (sort, tombstone removal, Manifest::new*, feature flags, max_fragment_id, ReserveFragments, next_row_id). *)
Definition op_schema (cur : option Manifest) (op : Operation) : outcome (list Z) :=
  match op with
  | Overwrite _ s _ => Ok s
  | Merge _ s => Ok s
  | Project s => Ok s
  | _ => match cur with Some m => Ok (m_schema m) | None => Err end
  end.

Definition start_fragment_id (cur : option Manifest) (op : Operation) : N :=
  match op with
  | Overwrite _ _ _ => 0
  | _ => match cur with
         | Some m => match max_fragment_id m with Some id => id + 1 | None => 0 end
         | None => 0
         end
  end.

Definition start_next_row_id (cur : option Manifest) (cfg : config) : outcome (option N) :=
  match cur, cfg_stable cfg with
  | Some m, st => match m_next_row_id m with
                  | Some n => Ok (Some n)
                  | None => if st then Err else Ok None
                  end
  | None, true => Ok (Some 0)
  | None, false => Ok None
  end.

Definition cur_indices (cur : option Manifest) : list Index := match cur with Some m => m_indices m | None => [] end.
Definition next_version (cur : option Manifest) : N := match cur with Some m => m_version m + 1 | None => 1 end.

Definition apply_updates_last (updated : list Fragment) (f : Fragment) : Fragment :=
  fold_left (fun acc u => if fr_id u =? fr_id acc then u else acc) updated f.
Definition apply_updates_first (removed : list N) (updated : list Fragment) (f : Fragment) : list Fragment :=
  if n_mem (fr_id f) removed then []
  else match find (fun uf => fr_id uf =? fr_id f) updated with
       | Some u => [u]
       | None => [f]
       end.
Definition project_files (schema : list Z) (f : Fragment) : Fragment :=
  set_files f (filter (fun d => existsb (fun x => z_mem x schema) (df_fields d)) (fr_files f)).

Definition build_arm (cur : option Manifest) (op : Operation) (cfg : config) (schema : list Z)
  (fragment_id : N) (indices : list Index) (next_row_id : option N)
  : outcome (list Fragment * list Index * option N) :=
  let new_version := next_version cur in
  match op with
  | Append fragments =>
      let* existing := with_existing cur in
      let new_fragments := fst (fragments_with_ids fragments fragment_id) in
      let* (new_fragments, nri) := stamp_if_stable cur next_row_id new_fragments in
      Ok (existing ++ new_fragments, indices, nri)
  | Delete updated_fragments deleted_fragment_ids =>
      let* existing := with_existing cur in
      let kept := filter (fun f => negb (n_mem (fr_id f) deleted_fragment_ids)) existing in
      let final := map (apply_updates_last updated_fragments) kept in
      Ok (final, retain_relevant_indices indices schema final, next_row_id)
  | Update removed_fragment_ids updated_fragments new_fragments fields_modified fields_preserving update_mode =>
      let* existing := with_existing cur in
      let updated_frags := flat_map (apply_updates_first removed_fragment_ids updated_fragments) existing in
      let* indices := prune_updated_fields_from_indices indices updated_fragments fields_modified in
      let new_fragments := fst (fragments_with_ids new_fragments fragment_id) in
      let* (new_fragments, next_row_id) :=
        match next_row_id with
        | Some n => let* (n', l) := assign_row_ids n new_fragments in
                    let* l := stamp_updated_fragments existing new_version l in
                    Ok (l, Some n')
        | None => Ok (new_fragments, None)
        end in
      let* indices :=
        if cfg_stable cfg && match update_mode with Some RewriteRows => true | _ => false end then
          let* pure := collect_pure_ids new_fragments in
          register_pure_frags indices pure (removed_fragment_ids ++ frag_ids updated_fragments) fields_preserving
        else Ok indices in
      let* (new_fragments, next_row_id) :=
        match next_row_id with
        | Some n => let* (n', l) := assign_row_ids n new_fragments in Ok (l, Some n')
        | None => Ok (new_fragments, None)
        end in
      let final := updated_frags ++ new_fragments in
      Ok (final, retain_relevant_indices indices schema final, next_row_id)
  | Overwrite fragments _ _ =>
      let new_fragments := fst (fragments_with_ids fragments fragment_id) in
      let* (new_fragments, nri) := stamp_if_stable cur next_row_id new_fragments in
      Ok (new_fragments, [], nri)
  | Rewrite groups rewritten_indices frag_reuse_index =>
      let* existing := with_existing cur in
      let* (final, _) := handle_rewrite_fragments existing groups fragment_id in
      let* indices :=
        match next_row_id with
        | Some _ => match rewritten_indices with
                    | [] => recalc_all_bitmaps indices groups
                    | _ => Panic                             (* debug_assert!(rewritten_indices.is_empty()) *)
                    end
        | None => handle_rewrite_indices indices rewritten_indices groups []
        end in
      let indices := match frag_reuse_index with
                     | Some fri => filter (fun i => negb (ix_name i =? ix_name fri)) indices ++ [fri]
                     | None => indices
                     end in
      Ok (final, indices, next_row_id)
  | CreateIndex new_indices removed_indices =>
      let* existing := with_existing cur in
      let kept := filter (fun e => negb (existsb (fun n => ix_name n =? ix_name e) new_indices)
                                   && negb (existsb (fun o => ix_uuid o =? ix_uuid e) removed_indices)) indices in
      Ok (existing, kept ++ new_indices, next_row_id)
  | ReserveFragments _ | UpdateConfig =>
      let* existing := with_existing cur in
      Ok (existing, indices, next_row_id)
  | Merge fragments _ =>
      Ok (fragments, retain_relevant_indices indices schema fragments, next_row_id)
  | Project _ =>
      let* existing := with_existing cur in
      let final := map (project_files schema) existing in
      Ok (final, retain_relevant_indices indices schema final, next_row_id)
  | DataReplacement replacements =>
      if negb (fields_all_same replacements) then Err else
      let* existing := with_existing cur in
      let* replaced := replace_all existing replacements in
      let changed := map fst replacements in
      Ok (replaced ++ filter (fun f => negb (n_mem (fr_id f) changed)) existing, indices, next_row_id)
  end.

Definition finish_manifest (cur : option Manifest) (op : Operation) (cfg : config) (schema : list Z)
  (final_fragments : list Fragment) (final_indices : list Index) (next_row_id : option N) : outcome Manifest :=
  let final_fragments := remove_tombstoned_data_files (sort_frags final_fragments) in
  let* (version, prev_max, storage) :=
    match cur with
    | Some m =>
        let storage := match cfg_storage cfg, op with
                       | Some u, Overwrite _ _ _ => resolve u
                       | _, _ => m_storage m
                       end in
        Ok (m_version m + 1, m_max_fragment_id m, storage)
    | None =>
        let* storage := data_storage_format_from_files final_fragments (cfg_storage cfg) in
        Ok (1, None, storage)
    end in
  (* Manifest::new / new_from_previous -> compute_fragment_offsets -> Fragment::num_rows: `len - num_deleted_rows` *)
  if existsb num_rows_underflows final_fragments then Panic else
  (* apply_feature_flags (auto_set_feature_flags = true): the FLAG_STABLE_ROW_IDS part *)
  let has_row_ids := existsb (fun f => is_some (fr_row_ids f)) final_fragments in
  let* stable :=
    if has_row_ids || cfg_stable cfg then
      if forallb (fun f => is_some (fr_row_ids f)) final_fragments then Ok true else Err
    else Ok false in
  let* max_id := update_max_fragment_id final_fragments prev_max in
  let* max_id :=
    match op with
    | ReserveFragments n =>
        let v := match max_id with Some x => x | None => 0 end + n in
        if two32 <=? v then Panic else Ok (Some v)
    | _ => Ok max_id
    end in
  let raw_next_row_id := match next_row_id with Some n => n | None => 0 end in   (* D1 *)
  Ok (mkManifest version schema final_fragments max_id
                 (if stable then Some raw_next_row_id else None) storage final_indices).

Definition build_manifest (cur : option Manifest) (op : Operation) (cfg : config) : outcome Manifest :=
  if cfg_stable cfg && match cur with Some m => negb (uses_stable m) | None => false end then Err else
  let* schema := op_schema cur op in
  let* next_row_id := start_next_row_id cur cfg in
  let* (final_fragments, final_indices, next_row_id) :=
    build_arm cur op cfg schema (start_fragment_id cur op) (cur_indices cur) next_row_id in
  finish_manifest cur op cfg schema final_fragments final_indices next_row_id.

(* ---------------------------------------------------------------- validate_operation *)
Definition schema_fragments_legacy_valid (schema : list Z) (l : list Fragment) : bool :=
  forallb (fun f => forallb (fun x => z_mem x (all_fields f)) schema) l.

Definition schema_fragments_valid (cur : option Manifest) (schema : list Z) (l : list Fragment) : bool :=
  match cur with
  | Some m => if fver_eqb (m_storage m) Legacy then schema_fragments_legacy_valid schema l
              else forallb (fun f => forallb (fun d => negb (match df_fields d with [] => true | _ => false end)) (fr_files f)) l
  | None => forallb (fun f => forallb (fun d => negb (match df_fields d with [] => true | _ => false end)) (fr_files f)) l
  end.

Definition merge_fragments_valid (m : Manifest) (new_fragments : list Fragment) : bool :=
  (length (m_fragments m) <=? length new_fragments)%nat
  && forallb (fun o => match find_frag_last (fr_id o) new_fragments with
                       | Some n => option_eqb N.eqb (fr_phys o) (fr_phys n)
                       | None => false
                       end) (m_fragments m).

(* true = Ok(()), false = Err *)
Definition validate_operation (cur : option Manifest) (op : Operation) : bool :=
  match cur with
  | None => match op with
            | Overwrite fragments schema _ => schema_fragments_valid None schema fragments
            | _ => false
            end
  | Some m =>
      match op with
      | Append fragments => schema_fragments_valid cur (m_schema m) fragments
      | Project schema => schema_fragments_valid cur schema (m_fragments m)
      | Merge fragments schema => merge_fragments_valid m fragments && schema_fragments_valid cur schema fragments
      | Overwrite fragments schema false => schema_fragments_valid cur schema fragments
      | Update _ updated_fragments new_fragments _ _ _ =>
          schema_fragments_valid cur (m_schema m) updated_fragments
          && schema_fragments_valid cur (m_schema m) new_fragments
      | _ => true
      end
  end.

(* ---------------------------------------------------------------- commit post-processing (io/commit.rs) *)
Definition z_max_list (l : list Z) : option Z :=
  match l with [] => None | x :: r => Some (fold_left Z.max r x) end.
Definition max_field_id (m : Manifest) : Z :=
  let s := match z_max_list (m_schema m) with Some x => x | None => (-1)%Z end in
  let f := match z_max_list (flat_map all_fields (m_fragments m)) with Some x => x | None => (-1)%Z end in
  Z.max s f.

(* ids >= 0 seen twice inside one fragment *)
Fixpoint dup_fields_of (fields seen : list Z) : list Z :=
  match fields with
  | [] => []
  | x :: r => if (0 <=? x)%Z && z_mem x seen then x :: dup_fields_of r seen
              else dup_fields_of r (x :: seen)
  end.
Fixpoint z_insert (x : Z) (l : list Z) : list Z :=
  match l with
  | [] => [x]
  | y :: r => if (x <? y)%Z then x :: l else if (x =? y)%Z then l else y :: z_insert x r
  end.
Definition z_sort_dedup (l : list Z) : list Z := fold_left (fun acc x => z_insert x acc) l [].
Definition z_assoc (x : Z) (mp : list (Z * Z)) : option Z :=
  match find (fun p => (fst p =? x)%Z) mp with Some p => Some (snd p) | None => None end.

(* remap the first occurrence (files in reverse order, fields in file order) of every duplicated id *)
Fixpoint remap_fields (fields : list Z) (mp : list (Z * Z)) (seen : list Z) : list Z * list Z :=
  match fields with
  | [] => ([], seen)
  | x :: r => match z_assoc x mp with
              | Some y => if z_mem x seen
                          then let '(r', s) := remap_fields r mp seen in (x :: r', s)
                          else let '(r', s) := remap_fields r mp (x :: seen) in (y :: r', s)
              | None => let '(r', s) := remap_fields r mp seen in (x :: r', s)
              end
  end.
Fixpoint remap_files_rev (files_rev : list DataFile) (mp : list (Z * Z)) (seen : list Z) : list DataFile :=
  match files_rev with
  | [] => []
  | d :: r => let '(fs, seen') := remap_fields (df_fields d) mp seen in
              mkDataFile (df_path d) fs (df_version d) (df_rows d) :: remap_files_rev r mp seen'
  end.

(* mut_field_by_id(old).id = new: the first schema field carrying the id *)
Fixpoint z_replace_first (old new : Z) (l : list Z) : list Z :=
  match l with
  | [] => []
  | x :: r => if (x =? old)%Z then new :: r else x :: z_replace_first old new r
  end.

(* fix_schema: `mut_field_by_id(old).unwrap()` panics when a duplicated id is not a schema field *)
Definition fix_schema (m : Manifest) : outcome Manifest :=
  if forallb (fun f => (length (fr_files f) <=? 1)%nat) (m_fragments m) then Ok m else
  let dups := z_sort_dedup (flat_map (fun f => dup_fields_of (all_fields f) []) (m_fragments m)) in
  match dups with
  | [] => Ok m
  | _ =>
      let seed := (max_field_id m + 1)%Z in
      let mp := combine dups (map (fun i => (seed + Z.of_nat i)%Z) (seq 0 (length dups))) in
      let frags := map (fun f => set_files f (rev (remap_files_rev (rev (fr_files f)) mp []))) (m_fragments m) in
      if negb (forallb (fun x => z_mem x (m_schema m)) dups) then Panic else
      let schema := fold_left (fun s p => z_replace_first (fst p) (snd p) s) mp (m_schema m) in
      let frags := map (fun f => set_files f (filter (fun d => existsb (fun x => z_mem x schema) (df_fields d)) (fr_files f))) frags in
      Ok (mkManifest (m_version m) schema frags (m_max_fragment_id m) (m_next_row_id m) (m_storage m) (m_indices m))
  end.

(* check_storage_version *)
Definition check_storage_version (m : Manifest) : outcome Manifest :=
  if fver_eqb (m_storage m) Legacy then
    match try_infer_version (m_fragments m) with
    | Ok (Some actual) =>
        if fver_rank (m_storage m) <? fver_rank actual
        then Ok (mkManifest (m_version m) (m_schema m) (m_fragments m) (m_max_fragment_id m) (m_next_row_id m)
                            (resolve actual) (m_indices m))
        else Ok m
    | Ok None => Ok m
    | _ => Err
    end
  else
    let* inferred := try_infer_version (m_fragments m) in
    match inferred with
    | Some actual => if fver_eqb actual (m_storage m) then Ok m else Err
    | None => Ok m
    end.

(* One successful call of commit_transaction on the latest version (after the rebase, which yields the
   transaction that is then written to the transaction file): validate (CommitBuilder::execute), build against
   the latest manifest, fix_schema, check_storage_version.  migrate_manifest is the identity on manifests whose
   fragments carry physical_rows.  [use_stable] is ManifestWriteConfig.use_stable_row_ids: CommitBuilder passes
   latest.uses_stable_row_ids(); Dataset::apply_commit (schema evolution, index and config commits, restore,
   ReserveFragments of compaction) passes ManifestWriteConfig::default(), i.e. false. *)
Definition commit_step (latest : Manifest) (op : Operation) (use_stable : bool) (storage : option fver)
  : outcome Manifest :=
  if negb (validate_operation (Some latest) op) then Err else
  let* m := build_manifest (Some latest) op (mkConfig use_stable storage) in
  let* m := fix_schema m in
  check_storage_version m.

(* Creating the table (do_commit_new_dataset): no fix_schema / check_storage_version there *)
Definition create_step (op : Operation) (cfg : config) : outcome Manifest :=
  if negb (validate_operation None op) then Err else build_manifest None op cfg.

(* Operation::Restore in commit_transaction (Dataset::restore commits through apply_commit, i.e. with
   ManifestWriteConfig::default()): the old manifest, re-versioned; next_row_id and max_fragment_id never go
   down; write_manifest_file recomputes the feature flags from the fragments (use_stable_row_ids = false) *)
Definition opt_max (a b : option N) : option N :=
  match a, b with
  | Some x, Some y => Some (N.max x y)
  | Some x, None => Some x
  | None, o => o
  end.
Definition restore_step (latest old : Manifest) : Manifest :=
  let raw (m : Manifest) := match m_next_row_id m with Some n => n | None => 0 end in
  let stable := existsb (fun f => is_some (fr_row_ids f)) (m_fragments old) in
  mkManifest (m_version latest + 1) (m_schema old) (m_fragments old)
             (opt_max (max_fragment_id old) (max_fragment_id latest))
             (if stable then Some (N.max (raw old) (raw latest)) else None)
             (m_storage old) (m_indices old).

(* ---------------------------------------------------------------- well-formedness (property C05) *)
Definition live_fields (f : Fragment) : list Z := filter (fun x => negb (x =? TOMBSTONE)%Z) (all_fields f).
Definition deletion_ok (p : N) (d : option DeletionFile) : bool :=
  match d with
  | None => true
  | Some d => forallb (fun r => r <? p) (dl_rows d) && strict_sorted_n (dl_rows d)
              && match dl_num d with Some k => k =? len_n (dl_rows d) | None => true end
  end.
Definition row_ids_ok (stable : bool) (p : N) (r : option (list N)) : bool :=
  match r with
  | Some ids => stable && (len_n ids =? p)
  | None => negb stable
  end.
Definition versions_ok (p : N) (v : option (list N)) : bool :=
  match v with Some l => len_n l =? p | None => true end.

(* an internally consistent fragment of a table with / without stable row ids *)
Definition frag_consistent (stable : bool) (f : Fragment) : bool :=
  match fr_phys f with
  | None => false
  | Some p =>
      forallb (fun d => df_rows d =? p) (fr_files f)
      && nodup_z (live_fields f) && forallb (fun x => (0 <=? x)%Z) (live_fields f)
      && deletion_ok p (fr_deletion f)
      && row_ids_ok stable p (fr_row_ids f)
      && versions_ok p (fr_created_at f) && versions_ok p (fr_updated_at f)
  end.
(* ... in which, moreover, every data file still stores a live field (as in every manifest build_manifest returns) *)
Definition wf_fragment (stable : bool) (f : Fragment) : bool :=
  frag_consistent stable f && forallb has_live_field (fr_files f).

Definition index_ok (schema : list Z) (i : Index) : bool :=
  forallb (fun x => z_mem x schema) (ix_fields i) || is_system_index i.

Definition max_ok (mx : option N) (l : list Fragment) : bool :=
  match mx with
  | Some x => forallb (fun f => fr_id f <=? x) l && (x <? two32)
  | None => match l with [] => true | _ => false end
  end.

Definition schema_ok (schema : list Z) : bool := nodup_z schema && forallb (fun x => (0 <=? x)%Z) schema.

Definition wf_manifest (m : Manifest) : bool :=
  schema_ok (m_schema m)
  && forallb (wf_fragment (uses_stable m)) (m_fragments m)
  && strict_sorted_n (frag_ids (m_fragments m))
  && max_ok (m_max_fragment_id m) (m_fragments m)
  && forallb (index_ok (m_schema m)) (m_indices m).

(* ---------------------------------------------------------------- what the writers guarantee (hypothesis of C05) *)
(* a fragment as a writer hands it to a transaction before ids / row ids are assigned: row ids absent, partial
   (merge_insert: the ids of the rewritten rows come first) or complete *)
Definition new_fragment_ok (stable : bool) (f : Fragment) : bool :=
  match fr_phys f with
  | None => false
  | Some p =>
      forallb (fun d => df_rows d =? p) (fr_files f)
      && nodup_z (live_fields f) && forallb (fun x => (0 <=? x)%Z) (live_fields f)
      && deletion_ok p (fr_deletion f)
      && match fr_row_ids f with Some ids => stable && (len_n ids <=? p) | None => true end
      && (stable || (versions_ok p (fr_created_at f) && versions_ok p (fr_updated_at f)))
  end.
Definition unassigned_ok (stable : bool) (l : list Fragment) : bool :=
  forallb (fun f => (fr_id f =? 0) && new_fragment_ok stable f) l.

(* [op_ok stable cur op]: the fragments / schema / indices carried by the operation are internally consistent
   and respect the `id = 0 <=> unassigned` convention; `stable` is the table's stable-row-id setting *)
Definition op_ok (stable : bool) (cur : option Manifest) (op : Operation) : bool :=
  let existing := match cur with Some m => m_fragments m | None => [] end in
  let schema := match cur with Some m => m_schema m | None => [] end in
  match op with
  | Append fragments => unassigned_ok stable fragments
  | Overwrite fragments schema _ => unassigned_ok stable fragments && schema_ok schema
  | Delete updated _ => forallb (frag_consistent stable) updated
  | Update _ updated new_fragments _ _ _ =>
      forallb (frag_consistent stable) updated && unassigned_ok stable new_fragments
  | Rewrite groups _ fri =>
      let all_new := flat_map rg_new groups in
      let reserved := filter (fun i => negb (i =? 0)) (frag_ids all_new) in
      forallb (frag_consistent stable) all_new
      && nodup_n reserved
      && forallb (fun i => negb (n_mem i (frag_ids existing))
                           && match cur with
                              | Some m => match max_fragment_id m with Some mx => i <=? mx | None => false end
                              | None => false
                              end) reserved
      && match fri with Some i => index_ok schema i | None => true end
  | CreateIndex new_indices _ => forallb (index_ok schema) new_indices
  | Merge fragments schema => forallb (frag_consistent stable) fragments && nodup_n (frag_ids fragments) && schema_ok schema
  | Project schema => schema_ok schema
  | DataReplacement replacements =>
      nodup_n (map fst replacements)
      && forallb (fun r => match find (fun f => fr_id f =? fst r) existing with
                           | Some f => option_eqb N.eqb (fr_phys f) (Some (df_rows (snd r)))
                           | None => true
                           end
                           && nodup_z (filter (fun x => negb (x =? TOMBSTONE)%Z) (df_fields (snd r)))
                           && forallb (fun x => (0 <=? x)%Z) (filter (fun x => negb (x =? TOMBSTONE)%Z) (df_fields (snd r)))) replacements
  | ReserveFragments _ | UpdateConfig => true
  end.

(* ---------------------------------------------------------------- Dataset::validate, the manifest-only part *)
(* FileFragment::validate, first loop: tombstoned fields (-2) are skipped (repo commit 77d5a8a); `let last = -1;`
   is never updated, so the test `*field_id <= last` rejects exactly the other negative ids; then every id
   must be new in the fragment *)
Fixpoint validate_field_ids (fields seen : list Z) : option (list Z) :=
  match fields with
  | [] => Some seen
  | x :: r => if (x =? TOMBSTONE)%Z then validate_field_ids r seen
              else if (x <=? -1)%Z then None else if z_mem x seen then None else validate_field_ids r (x :: seen)
  end.
Fixpoint validate_files (files : list DataFile) (seen : list Z) : bool :=
  match files with
  | [] => true
  | d :: r => match validate_field_ids (df_fields d) seen with Some seen' => validate_files r seen' | None => false end
  end.
(* Dataset::validate: fragment ids unique and non-decreasing, then every fragment's field ids *)
Fixpoint sorted_n (l : list N) : bool :=
  match l with [] => true | x :: r => match r with [] => true | y :: _ => (x <=? y) && sorted_n r end end.
Definition is_legacy_file (d : DataFile) : bool := (fst (df_version d) =? 0) && (snd (df_version d) <? 3).
Fixpoint strict_sorted_z (l : list Z) : bool :=
  match l with
  | [] => true
  | x :: r => match r with [] => true | y :: _ => (x <? y)%Z && strict_sorted_z r end
  end.
(* DataFile::validate: a legacy file must list its field ids strictly increasing (for the other files
   fields.len() == column_indices.len(), not modelled) *)
Definition validate_data_file (d : DataFile) : bool :=
  if is_legacy_file d then strict_sorted_z (df_fields d) else true.
(* FileFragment::validate on the manifest entry plus the storage facts it reads back (file lengths, deletion
   vector) *)
Definition validate_fragment (schema : list Z) (f : Fragment) : bool :=
  validate_files (fr_files f) []
  && Bool.eqb (existsb is_legacy_file (fr_files f)) (forallb is_legacy_file (fr_files f))
  && forallb validate_data_file (fr_files f)
  (* open_reader: a data file without any field of the dataset schema is an error *)
  && forallb (fun d => existsb (fun x => z_mem x schema) (df_fields d)) (fr_files f)
  && (let expected := match fr_files f with d :: _ => df_rows d | [] => 0 end in
      forallb (fun d => df_rows d =? expected) (fr_files f)
      && match fr_phys f with Some p => p =? expected | None => true end
      && match fr_deletion f with
         | Some d => match dl_num d with Some n => n =? len_n (dl_rows d) | None => true end
                     && forallb (fun o => o <? expected) (dl_rows d)
         | None => true
         end).
(* detect_overlapping_fragments: per index name, no fragment id in two bitmaps *)
Definition indices_disjoint (l : list Index) : bool :=
  forallb (fun i => nodup_n (flat_map (fun j => match ix_bitmap j with Some b => b | None => [] end)
                                      (filter (fun j => ix_name j =? ix_name i) l))) l.
(* Dataset::validate (without the fragment-reuse remapping done by load_indices) *)
Definition validate_dataset (m : Manifest) : bool :=
  nodup_n (frag_ids (m_fragments m)) && sorted_n (frag_ids (m_fragments m))
  && forallb (validate_fragment (m_schema m)) (m_fragments m)
  && nodup_n (map ix_uuid (m_indices m)) && indices_disjoint (m_indices m).

(* some data file still lists a tombstoned field (regression: Dataset::validate used to reject these) *)
Definition has_tombstone (f : Fragment) : bool := existsb (fun d => z_mem TOMBSTONE (df_fields d)) (fr_files f).

(* Known finding (C05) validate_rejects_tombstone_in_legacy_file: a LEGACY (0.1) data file that lists a
   tombstoned field: DataFile::validate still requires strictly increasing field ids for legacy files, and
   -2 in the middle of the list breaks that *)
Definition Known_C05_validate_rejects_tombstone_in_legacy_file (m : Manifest) : bool :=
  existsb (fun f => existsb (fun d => is_legacy_file d && z_mem TOMBSTONE (df_fields d)) (fr_files f)) (m_fragments m).

(* Known finding (C05) stable_rowids_deferred_remap_unassigned_fragment_ids: a Rewrite that carries a
   fragment-reuse index (compaction with defer_index_remap) on a table with stable row ids while its new
   fragments still have the unassigned id 0: the bitmaps are computed from the id 0 *)
Definition Known_C05_stable_rowids_deferred_remap_unassigned_fragment_ids (cur : Manifest) (op : Operation) : bool :=
  uses_stable cur &&
  match op with
  | Rewrite groups _ (Some _) => existsb (fun f => fr_id f =? 0) (flat_map rg_new groups)
  | _ => false
  end.

(* ---------------------------------------------------------------- live rows (properties C18, C07, C13, C17) *)
(* the physical positions of a fragment that are not deleted, with their row ids (when stable) *)
Definition row_address (frag_id offset : N) : N := frag_id * two32 + offset.
Definition live_offsets (f : Fragment) : list N :=
  match fr_phys f with
  | Some p => filter (fun o => negb (n_mem o (fr_deleted f))) (n_range 0 p)
  | None => []
  end.
(* (row id, row address) of every live row of the fragment, in position order: walk the row id sequence with a
   position counter; a position is live when it is < physical_rows and not in the deletion vector *)
Fixpoint live_rows_from (frag_id phys : N) (deleted : list N) (pos : N) (ids : list N) : list (N * N) :=
  match ids with
  | [] => []
  | rid :: r =>
      (if (pos <? phys) && negb (n_mem pos deleted) then [(rid, row_address frag_id pos)] else [])
      ++ live_rows_from frag_id phys deleted (pos + 1) r
  end.
Definition live_rows_of (f : Fragment) : list (N * N) :=
  match fr_row_ids f, fr_phys f with
  | Some ids, Some p => live_rows_from (fr_id f) p (fr_deleted f) 0 ids
  | _, _ => []
  end.
Definition live_rows (m : Manifest) : list (N * N) := flat_map live_rows_of (m_fragments m).
Definition live_ids (m : Manifest) : list N := map fst (live_rows m).
Definition all_row_ids (m : Manifest) : list N :=
  flat_map (fun f => match fr_row_ids f with Some ids => ids | None => [] end) (m_fragments m).

(* ---------------------------------------------------------------- correspondence checkers *)
(* unit arm: the real Transaction::build_manifest (via the verif hook) on a generated manifest/transaction *)
Definition chk_build (i : option Manifest * Operation * (bool * option fver)) (o : outcome Manifest) : bool :=
  let '(cur, op, (st, sf)) := i in
  outcome_eqb manifest_eqb (build_manifest cur op (mkConfig st sf)) o.

Definition chk_validate (i : option Manifest * Operation) (o : bool) : bool :=
  let '(cur, op) := i in Bool.eqb (validate_operation cur op) o.

(* e2e arm: a real commit (previous manifest, the committed transaction, storage format) -> the manifest read back *)
Definition chk_commit (i : Manifest * Operation * option fver) (o : Manifest) : bool :=
  let '(latest, op, sf) := i in
  outcome_eqb manifest_eqb (commit_step latest op (uses_stable latest) sf) (Ok o)
  || outcome_eqb manifest_eqb (commit_step latest op false sf) (Ok o).
Definition chk_create (i : Operation * (bool * option fver)) (o : Manifest) : bool :=
  let '(op, (st, sf)) := i in
  outcome_eqb manifest_eqb (create_step op (mkConfig st sf)) (Ok o).
Definition chk_restore (i : Manifest * Manifest) (o : Manifest) : bool :=
  let '(latest, old) := i in manifest_eqb (restore_step latest old) o.

(* e2e arm: the exported real manifest is well formed; `o` is the verdict of Dataset::validate() *)
Definition chk_wf (m : Manifest) (o : bool) : bool := Bool.eqb (wf_manifest m) o.

(* e2e arm: the transaction a real writer committed satisfies the hypotheses of C05_build_preserves_wf *)
Definition chk_op_ok (i : option Manifest * Operation * bool) (o : bool) : bool :=
  let '(cur, op, stable) := i in Bool.eqb (op_ok stable cur op) o.

(* e2e arm: the verdict of the real Dataset::validate() on a committed version *)
Definition chk_dataset_validate (m : Manifest) (o : bool) : bool := Bool.eqb (validate_dataset m) o.

(* e2e arm: the scan of (_rowid, _rowaddr) in order is the model's live row list *)
Definition chk_live_rows (m : Manifest) (o : list (N * N)) : bool :=
  list_eqb (pair_eqb N.eqb N.eqb) (live_rows m) o.
