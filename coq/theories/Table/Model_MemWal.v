(* Model of the MemWAL index state machine (C39).
     rust/lance-index/src/mem_wal.rs            MemWal, MemWalIndex::new (map region -> BTreeMap gen -> MemWal)
     rust/lance/src/index/mem_wal.rs            advance / append / seal / flush / merged / update_owner / trim,
                                                update_mem_wal_index_in_indices_list
     rust/lance/src/dataset/write/merge_insert.rs  MergeInsertBuilder::mark_mem_wal_as_merged (pre-check only)
     rust/lance/src/io/commit/conflict_resolver.rs check_update_mem_wal_state_txn,
                                                check_update_mem_wal_state_not_modify_same_mem_wal,
                                                the UpdateMemWalState arm of check_update_txn
     rust/lance/src/io/commit.rs                commit_transaction (check against every transaction committed
                                                since the read version, oldest first; apply to the latest manifest)
   Executable definitions only (+ chk_* correspondence checkers).
   Strings (region, MemTable location, WAL location, owner id) are compared for equality only: they are
   numbered tokens (N).  wal_entries is the decoded U64Segment (strictly increasing list of entry ids). *)
From LanceV Require Import Common.Base.
Local Open Scope N_scope.

(* ------------------------------------------------------------------ data *)
Inductive wstate := Open | Sealed | Flushed | Merged.
Definition wstate_rank (s : wstate) : N :=
  match s with Open => 0 | Sealed => 1 | Flushed => 2 | Merged => 3 end.
Definition wstate_eqb (a b : wstate) : bool := wstate_rank a =? wstate_rank b.
Definition wstate_le (a b : wstate) : Prop := wstate_rank a <= wstate_rank b.

Record memwal := MkMemWal {
  mw_region : N;
  mw_gen : N;
  mw_memtable : N;
  mw_wal : N;
  mw_entries : list N;
  mw_state : wstate;
  mw_owner : N;
  mw_luv : N           (* last_updated_dataset_version *) }.

Definition mwid := (N * N)%type.
Definition mw_id (m : memwal) : mwid := (mw_region m, mw_gen m).
Definition id_eqb (a b : mwid) : bool := (fst a =? fst b) && (snd a =? snd b).
Definition ids (l : list memwal) : list mwid := map mw_id l.
Definition id_mem (x : mwid) (l : list mwid) : bool := existsb (id_eqb x) l.

Definition memwal_eqb (a b : memwal) : bool :=
  (mw_region a =? mw_region b) && (mw_gen a =? mw_gen b) && (mw_memtable a =? mw_memtable b) &&
  (mw_wal a =? mw_wal b) && list_eqb N.eqb (mw_entries a) (mw_entries b) &&
  wstate_eqb (mw_state a) (mw_state b) && (mw_owner a =? mw_owner b) && (mw_luv a =? mw_luv b).

Definition set_state (m : memwal) (s : wstate) : memwal :=
  MkMemWal (mw_region m) (mw_gen m) (mw_memtable m) (mw_wal m) (mw_entries m) s (mw_owner m) (mw_luv m).
Definition set_luv (v : N) (m : memwal) : memwal :=
  MkMemWal (mw_region m) (mw_gen m) (mw_memtable m) (mw_wal m) (mw_entries m) (mw_state m) (mw_owner m) v.
Definition set_entries (m : memwal) (e : list N) : memwal :=
  MkMemWal (mw_region m) (mw_gen m) (mw_memtable m) (mw_wal m) e (mw_state m) (mw_owner m) (mw_luv m).
Definition set_owner (m : memwal) (o : N) (mt : option N) : memwal :=
  MkMemWal (mw_region m) (mw_gen m) (match mt with Some t => t | None => mw_memtable m end) (mw_wal m)
           (mw_entries m) (mw_state m) o (mw_luv m).

(* MemWal::new_empty *)
Definition new_empty (region gen mt wal owner : N) : memwal :=
  MkMemWal region gen mt wal [] Open owner 0.

(* ------------------------------------------------------------------ MemWalIndex::new view of a details list *)
(* mem_wal_map.get(region).get(generation): BTreeMap::insert overwrites, so the LAST list entry with the id wins *)
Definition lookup (l : list memwal) (x : mwid) : option memwal :=
  find (fun m => id_eqb (mw_id m) x) (rev l).
Definition has_region (l : list memwal) (r : N) : bool := existsb (fun m => mw_region m =? r) l.
(* generations.values().last(): greatest generation, last inserted among equals *)
Definition latest (l : list memwal) (r : N) : option memwal :=
  fold_left (fun acc m =>
    if mw_region m =? r then
      match acc with
      | None => Some m
      | Some a => if mw_gen a <=? mw_gen m then Some m else acc
      end
    else acc) l None.
(* all values of the map (one per id: the last occurrence) *)
Fixpoint index_values (l : list memwal) : list memwal :=
  match l with
  | [] => []
  | m :: t => if id_mem (mw_id m) (ids t) then index_values t else m :: index_values t
  end.

(* ------------------------------------------------------------------ transactions *)
Inductive okind :=
| KAppend | KDelete | KOverwrite | KCreateIndex | KRewrite | KMerge | KRestore | KReserveFragments
| KProject | KUpdateConfig | KDataReplacement | KClone | KUpdateBases.

Definition okind_code (k : okind) : N :=
  match k with
  | KAppend => 0 | KDelete => 1 | KOverwrite => 2 | KCreateIndex => 3 | KRewrite => 4 | KMerge => 5
  | KRestore => 6 | KReserveFragments => 7 | KProject => 8 | KUpdateConfig => 9 | KDataReplacement => 10
  | KClone => 11 | KUpdateBases => 12
  end.

Inductive txn :=
| TUpd (added updated removed : list memwal)   (* Operation::UpdateMemWalState *)
| TUpdate (mw : option memwal)                 (* Operation::Update touching no pre-existing fragment; mem_wal_to_merge *)
| TOther (k : okind).                          (* any other operation; its own arms are not modelled here *)

Inductive verdict := VOk | VIncompatible | VRetryable | VInternal | VNotSupported.
Definition verdict_code (v : verdict) : N :=
  match v with VOk => 0 | VIncompatible => 1 | VRetryable => 2 | VInternal => 3 | VNotSupported => 4 end.
Definition vseq (v k : verdict) : verdict := match v with VOk => k | e => e end.

Definition isnil {A} (l : list A) : bool := match l with [] => true | _ => false end.

(* check_update_mem_wal_state_not_modify_same_mem_wal(committed, to_commit) *)
Definition not_modify_same (committed to_commit : list memwal) : verdict :=
  match committed with
  | [] => VOk
  | c :: ct =>
    match to_commit with
    | [] => VOk
    | t :: trest =>
      if negb (isnil ct) then VInternal
      else if negb (isnil trest) then VNotSupported
      else if id_eqb (mw_id c) (mw_id t) then VIncompatible
      else VOk
    end
  end.

(* check_update_mem_wal_state_txn: self = UpdateMemWalState{added, updated, _} *)
Definition check_update_mem_wal_state_txn (added updated : list memwal) (other : txn) : verdict :=
  match other with
  | TUpd c_added c_updated _ =>
    if (isnil c_added && isnil c_updated) || (isnil added && isnil updated) then VOk
    else
      vseq (not_modify_same c_added added)
      (vseq (not_modify_same c_added updated)
      (vseq (not_modify_same c_updated added)
            (not_modify_same c_updated updated)))
  | TUpdate mw => match mw with Some _ => VOk | None => VIncompatible end
  | TOther k =>
    match k with
    | KUpdateConfig | KRewrite | KCreateIndex | KReserveFragments | KUpdateBases => VOk
    | KAppend | KOverwrite | KDelete | KDataReplacement | KMerge | KRestore | KClone | KProject => VIncompatible
    end
  end.

Definition opt_slice {A} (o : option A) : list A := match o with Some a => [a] | None => [] end.

(* check_update_txn for an Update whose modified_fragment_ids is empty (inserts only): every fragment-overlap
   test is false; the UpdateMemWalState arm is the MemWAL part. *)
Definition check_update_txn_nofrag (mw : option memwal) (other : txn) : verdict :=
  match other with
  | TOther k =>
    match k with
    | KCreateIndex | KReserveFragments | KProject | KAppend | KClone | KUpdateConfig | KUpdateBases => VOk
    | KRewrite | KDataReplacement | KDelete => VOk
    | KMerge => VRetryable
    | KOverwrite | KRestore => VIncompatible
    end
  | TUpdate _ => VOk
  | TUpd added updated _ =>
    vseq (not_modify_same added (opt_slice mw)) (not_modify_same updated (opt_slice mw))
  end.

(* TransactionRebase::check_txn for the two modelled kinds of self (TOther as self is not modelled: never used) *)
Definition check_txn (self other : txn) : verdict :=
  match self with
  | TUpd a u _ => check_update_mem_wal_state_txn a u other
  | TUpdate mw => check_update_txn_nofrag mw other
  | TOther _ => VOk
  end.

(* ------------------------------------------------------------------ apply: update_mem_wal_index_in_indices_list *)
(* index = None: no index named __lance_mem_wal in the indices list. Result: the new details list. *)
Definition apply_lists (index : option (list memwal)) (new_version : N)
           (added updated removed : list memwal) : outcome (list memwal) :=
  match index with
  | Some l =>
    Ok (filter (fun m => negb (id_mem (mw_id m) (ids removed))) l
        ++ map (set_luv new_version) added ++ map (set_luv new_version) updated)
  | None =>
    if negb (isnil updated) || negb (isnil removed) then Err
    else Ok (map (set_luv new_version) added)
  end.

(* the MemWAL part of Transaction::build_manifest *)
Definition apply_txn (index : option (list memwal)) (new_version : N) (t : txn) : outcome (option (list memwal)) :=
  match t with
  | TUpd a u r =>
    match apply_lists index new_version a u r with Ok l => Ok (Some l) | Err => Err | Panic => Panic end
  | TUpdate (Some mw) =>
    match apply_lists index new_version [] [set_state mw Merged] [mw] with Ok l => Ok (Some l) | Err => Err | Panic => Panic end
  | TUpdate None => Ok index
  | TOther _ => Ok index
  end.

(* ------------------------------------------------------------------ operations against the read version *)
Inductive op :=
| OAdvance (region mt wal : N) (expected : option N) (owner : N)
| OAppend (region gen entry expected : N)
| OSeal (region gen expected : N)
| OFlush (region gen expected : N)
| OMerged (region gen expected : N)
| OOwner (region gen owner : N) (mt : option N)
| OTrim (min_index_version : N)       (* min over the user indices of their dataset_version, u64::MAX if none *)
| OMergeInsert (region gen expected : N).

(* mutate_mem_wal *)
Definition mutate (index : option (list memwal)) (region gen : N) (f : memwal -> outcome memwal) : outcome txn :=
  match index with
  | None => Err
  | Some l =>
    if has_region l region then
      match lookup l (region, gen) with
      | Some m =>
        match f m with
        | Ok m' => Ok (TUpd [] [m'] [m])
        | Err => Err
        | Panic => Panic
        end
      | None => Err
      end
    else Err
  end.

Definition check_state (m : memwal) (s : wstate) : bool := wstate_eqb (mw_state m) s.
Definition check_owner (m : memwal) (o : N) : bool := mw_owner m =? o.

(* U64Segment::with_new_high on the decoded entries *)
Definition with_new_high (entries : list N) (e : N) : outcome (list N) :=
  match rev entries with
  | [] => Ok [e]
  | hi :: _ => if e <=? hi then Err else Ok (entries ++ [e])
  end.

Definition f_append (entry expected : N) (m : memwal) : outcome memwal :=
  if negb (check_state m Open) then Err
  else if negb (check_owner m expected) then Err
  else match with_new_high (mw_entries m) entry with
       | Ok e => Ok (set_entries m e)
       | Err => Err
       | Panic => Panic
       end.
Definition f_move (from to : wstate) (expected : N) (m : memwal) : outcome memwal :=
  if negb (check_state m from) then Err
  else if negb (check_owner m expected) then Err
  else Ok (set_state m to).
Definition f_owner (owner : N) (mt : option N) (m : memwal) : outcome memwal :=
  if owner =? mw_owner m then Err
  else match mt with
       | Some t => if t =? mw_memtable m then Err else Ok (set_owner m owner mt)
       | None => Ok (set_owner m owner mt)
       end.

(* advance_mem_wal_generation *)
Definition advance (index : option (list memwal)) (region mt wal : N) (expected : option N) (owner : N) : outcome txn :=
  match index with
  | Some l =>
    if has_region l region then
      match latest l region with
      | Some lm =>
        if mw_wal lm =? wal then Err
        else match expected with
             | None => Err
             | Some e =>
               if negb (check_owner lm e) then Err
               else if mw_memtable lm =? mt then Err
               else
                 let ur := if wstate_eqb (mw_state lm) Open then ([set_state lm Sealed], [lm]) else ([], []) in
                 if two64 <=? mw_gen lm + 1 then Panic
                 else Ok (TUpd [new_empty region (mw_gen lm + 1) mt wal owner] (fst ur) (snd ur))
             end
      | None => Err   (* "region with an empty list of generations": unreachable *)
      end
    else
      match expected with
      | Some _ => Err
      | None => Ok (TUpd [new_empty region 0 mt wal owner] [] [])
      end
  | None =>
    match expected with
    | Some _ => Err
    | None => Ok (TUpd [new_empty region 0 mt wal owner] [] [])
    end
  end.

(* trim_mem_wal_index *)
Definition trim (index : option (list memwal)) (minv : N) : outcome txn :=
  match index with
  | None => Err
  | Some l =>
    Ok (TUpd [] [] (filter (fun m => wstate_eqb (mw_state m) Merged && (mw_luv m <=? minv)) (index_values l)))
  end.

(* MergeInsertBuilder::mark_mem_wal_as_merged, then the job commits Operation::Update{mem_wal_to_merge} *)
Definition merge_insert (index : option (list memwal)) (region gen expected : N) : outcome txn :=
  match index with
  | None => Err
  | Some l =>
    if has_region l region then
      match lookup l (region, gen) with
      | Some m =>
        if negb (check_state m Flushed) then Err
        else if negb (check_owner m expected) then Err
        else Ok (TUpdate (Some m))
      | None => Err
      end
    else Err
  end.

Definition op_txn (index : option (list memwal)) (o : op) : outcome txn :=
  match o with
  | OAdvance r mt wal e own => advance index r mt wal e own
  | OAppend r g entry e => mutate index r g (f_append entry e)
  | OSeal r g e => mutate index r g (f_move Open Sealed e)
  | OFlush r g e => mutate index r g (f_move Sealed Flushed e)
  | OMerged r g e => mutate index r g (f_move Flushed Merged e)
  | OOwner r g own mt => mutate index r g (f_owner own mt)
  | OTrim minv => trim index minv
  | OMergeInsert r g e => merge_insert index r g e
  end.

(* ------------------------------------------------------------------ histories: commit_transaction *)
(* entry i of a history is dataset version i+1 *)
Record hentry := MkEntry {
  e_rv : nat;                          (* index of the version the transaction was computed against *)
  e_txn : txn;
  e_state : option (list memwal) }.   (* MemWAL index details of this version *)

Record step := MkStep {
  s_rv : nat;           (* index of the writer's (possibly stale) dataset handle version *)
  s_op : op;
  s_frag_ok : bool }.   (* merge_insert only: the fragment/row level checks of the Update pass (C03's part) *)

Definition init_hist (ks : list okind) : list hentry :=
  map (fun k => MkEntry 0 (TOther k) None) ks.

Definition cur_state (h : list hentry) : option (list memwal) :=
  match rev h with e :: _ => e_state e | [] => None end.

(* first non-Ok verdict against the transactions committed since the read version, oldest first *)
Fixpoint first_conflict (t : txn) (others : list txn) : verdict :=
  match others with
  | [] => VOk
  | o :: rest => vseq (check_txn t o) (first_conflict t rest)
  end.

(* result codes: 0 committed, 1 error that is not a commit conflict, 2 CommitConflict,
   3 RetryableCommitConflict, 4 panic *)
Definition exec (h : list hentry) (s : step) : list hentry * N :=
  match nth_error h (s_rv s) with
  | None => (h, 1)
  | Some e =>
    match op_txn (e_state e) (s_op s) with
    | Ok t =>
      match first_conflict t (map e_txn (skipn (S (s_rv s)) h)) with
      | VOk =>
        if s_frag_ok s then
          match apply_txn (cur_state h) (N.of_nat (length h) + 1) t with
          | Ok st => (h ++ [MkEntry (s_rv s) t st], 0)
          | Err => (h, 1)
          | Panic => (h, 4)
          end
        else (h, 3)
      | VIncompatible => (h, 2)
      | VRetryable => (h, 3)
      | VInternal | VNotSupported => (h, 1)
      end
    | Err => (h, 1)
    | Panic => (h, 4)
    end
  end.

Definition run_from (h : list hentry) (steps : list step) : list hentry :=
  fold_left (fun h s => fst (exec h s)) steps h.
Definition run (ks : list okind) (steps : list step) : list hentry := run_from (init_hist ks) steps.

(* ------------------------------------------------------------------ known-finding classes (events at a commit) *)
(* what a transaction writes: the ids it adds or rewrites *)
Definition touch (t : txn) : list mwid :=
  match t with
  | TUpd a u _ => ids a ++ ids u
  | TUpdate (Some m) => [mw_id m]
  | _ => []
  end.
Definition overlaps (a b : list mwid) : bool := existsb (fun x => id_mem x b) a.
Definition since (h : list hentry) (rv : nat) : list hentry := skipn (S rv) h.

Definition maxgen (l : list memwal) (r : N) : option N :=
  fold_right (fun m acc => if mw_region m =? r then
                             match acc with None => Some (mw_gen m) | Some a => Some (N.max a (mw_gen m)) end
                           else acc) None l.
Definition ents (s : option (list memwal)) : list memwal := match s with Some l => l | None => [] end.

(* K3: an UpdateMemWalState/Update writes an id that a trim committed since its read version removed *)
Definition ev_over_trim (h : list hentry) (rv : nat) (t : txn) : bool :=
  existsb (fun e => match e_txn e with
                    | TUpd [] [] r => overlaps (ids r) (touch t)
                    | _ => false end) (since h rv).
(* K4: an UpdateMemWalState writes the MemWAL that an Update{mem_wal_to_merge} committed since its read version merged *)
Definition ev_over_merge_insert (h : list hentry) (rv : nat) (t : txn) : bool :=
  match t with
  | TUpd _ _ _ =>
    existsb (fun e => match e_txn e with
                      | TUpdate (Some m) => id_mem (mw_id m) (touch t)
                      | _ => false end) (since h rv)
  | _ => false
  end.
(* K5: two concurrent Update{mem_wal_to_merge} of the same MemWAL *)
Definition ev_double_merge_insert (h : list hentry) (rv : nat) (t : txn) : bool :=
  match t with
  | TUpdate (Some m') =>
    existsb (fun e => match e_txn e with
                      | TUpdate (Some m) => id_eqb (mw_id m) (mw_id m')
                      | _ => false end) (since h rv)
  | _ => false
  end.
(* K2: a trim removes the latest generation of a region *)
Definition ev_trim_latest (cur : list memwal) (t : txn) : bool :=
  match t with
  | TUpd [] [] r =>
    existsb (fun m => id_mem (mw_id m) (ids r) &&
                      match maxgen cur (mw_region m) with Some g => mw_gen m =? g | None => false end) cur
  | _ => false
  end.
(* K1: a trim removes a generation while an older generation of the region stays *)
Definition ev_trim_hole (cur : list memwal) (t : txn) : bool :=
  match t with
  | TUpd [] [] r =>
    existsb (fun m => id_mem (mw_id m) (ids r) &&
                      existsb (fun m2 => (mw_region m2 =? mw_region m) && (mw_gen m2 <? mw_gen m) &&
                                         negb (id_mem (mw_id m2) (ids r))) cur) cur
  | _ => false
  end.

Inductive kclass := KTrimHole | KTrimLatest | KOverTrim | KOverMergeInsert | KDoubleMergeInsert.
Definition ev (c : kclass) (h : list hentry) (rv : nat) (t : txn) : bool :=
  match c with
  | KTrimHole => ev_trim_hole (ents (cur_state h)) t
  | KTrimLatest => ev_trim_latest (ents (cur_state h)) t
  | KOverTrim => ev_over_trim h rv t
  | KOverMergeInsert => ev_over_merge_insert h rv t
  | KDoubleMergeInsert => ev_double_merge_insert h rv t
  end.

(* does the commit made by step s on history h (if any) fall in class c *)
Definition step_event (c : kclass) (h : list hentry) (s : step) : bool :=
  match exec h s with
  | (h', 0) => match rev h' with e :: _ => ev c h (e_rv e) (e_txn e) | [] => false end
  | _ => false
  end.

Fixpoint known_from (c : kclass) (h : list hentry) (steps : list step) : bool :=
  match steps with
  | [] => false
  | s :: rest => step_event c h s || known_from c (fst (exec h s)) rest
  end.

Definition Known_C39_trim_hole ks steps := known_from KTrimHole (init_hist ks) steps.
Definition Known_C39_trim_latest ks steps := known_from KTrimLatest (init_hist ks) steps.
Definition Known_C39_update_over_trim ks steps := known_from KOverTrim (init_hist ks) steps.
Definition Known_C39_update_over_merge_insert ks steps := known_from KOverMergeInsert (init_hist ks) steps.
Definition Known_C39_double_merge_insert ks steps := known_from KDoubleMergeInsert (init_hist ks) steps.
Definition Known_C39 ks steps : bool :=
  Known_C39_trim_hole ks steps || Known_C39_trim_latest ks steps || Known_C39_update_over_trim ks steps ||
  Known_C39_update_over_merge_insert ks steps || Known_C39_double_merge_insert ks steps.

(* ------------------------------------------------------------------ correspondence checkers *)
Definition wstate_of_N (n : N) : wstate :=
  match n with 0 => Open | 1 => Sealed | 2 => Flushed | _ => Merged end.
(* wire form of a MemWal: ((region, gen), (memtable, wal), entries, (state, owner, luv)) *)
Definition mw_wire := ((N * N) * (N * N) * list N * (N * N * N))%type.
Definition mw_of_wire (w : mw_wire) : memwal :=
  match w with
  | ((r, g), (mt, wal), es, (st, own, luv)) => MkMemWal r g mt wal es (wstate_of_N st) own luv
  end.
(* constructor-style printers used by the harness (cheaper to elaborate than nested pairs) *)
Definition W (r g mt wal : N) (es : list N) (st own luv : N) : mw_wire := ((r, g), (mt, wal), es, (st, own, luv)).
Definition mws (l : list mw_wire) : list memwal := map mw_of_wire l.
Definition mwl_eqb (a b : list memwal) : bool := list_eqb memwal_eqb a b.
Definition count_mw (m : memwal) (l : list memwal) : nat := length (filter (memwal_eqb m) l).
Definition perm_eqb (a b : list memwal) : bool :=
  (length a =? length b)%nat && forallb (fun m => (count_mw m a =? count_mw m b)%nat) a.

(* wire form of a transaction: kind 0 = UpdateMemWalState (added, updated, removed);
   kind 1 = Update (mem_wal_to_merge as a 0/1-element list in the first component);
   kind 2+k = other operation number k *)
Definition txn_wire := (N * (list mw_wire * list mw_wire * list mw_wire))%type.
Definition okind_of_N (n : N) : okind :=
  match n with
  | 0 => KAppend | 1 => KDelete | 2 => KOverwrite | 3 => KCreateIndex | 4 => KRewrite | 5 => KMerge
  | 6 => KRestore | 7 => KReserveFragments | 8 => KProject | 9 => KUpdateConfig | 10 => KDataReplacement
  | 11 => KClone | _ => KUpdateBases
  end.
Definition txn_of_wire (w : txn_wire) : txn :=
  match w with
  | (0, (a, u, r)) => TUpd (mws a) (mws u) (mws r)
  | (1, (a, _, _)) => TUpdate (match a with m :: _ => Some (mw_of_wire m) | [] => None end)
  | (k, _) => TOther (okind_of_N (k - 2))
  end.

Definition TX (k : N) (a u r : list mw_wire) : txn_wire := (k, (a, u, r)).

(* removed lists are compared up to order (trim iterates a HashMap) *)
Definition txn_eqb (a b : txn) : bool :=
  match a, b with
  | TUpd a1 u1 r1, TUpd a2 u2 r2 => mwl_eqb a1 a2 && mwl_eqb u1 u2 && perm_eqb r1 r2
  | TUpdate m1, TUpdate m2 => option_eqb memwal_eqb m1 m2
  | TOther k1, TOther k2 => okind_code k1 =? okind_code k2
  | _, _ => false
  end.

(* unit: TransactionRebase::check_txn(self, other) -> verdict code *)
Definition chk_check_txn (i : txn_wire * txn_wire) (o : N) : bool :=
  verdict_code (check_txn (txn_of_wire (fst i)) (txn_of_wire (snd i))) =? o.

(* unit: build_manifest on (current MemWAL details or none, new version, transaction) -> new details list *)
Definition chk_apply (i : option (list mw_wire) * N * txn_wire) (o : outcome (option (list mw_wire))) : bool :=
  match i with
  | (idx, nv, t) =>
    match apply_txn (option_map mws idx) nv (txn_of_wire t), o with
    | Ok (Some l), Ok (Some l') => mwl_eqb l (mws l')
    | Ok None, Ok None => true
    | Err, Err => true
    | Panic, Panic => true
    | _, _ => false
    end
  end.

(* e2e: a whole history. wire form of an op: (kind, [args]) *)
Definition op_wire := (N * list N)%type.
Definition nth_arg (l : list N) (i : nat) : N := nth i l 0.
Definition opt_arg (l : list N) (i : nat) : option N :=
  match nth i l 0 with 0 => None | n => Some (n - 1) end.   (* optional token: 0 = None, k+1 = Some k *)
Definition op_of_wire (w : op_wire) : op :=
  match w with
  | (0, a) => OAdvance (nth_arg a 0) (nth_arg a 1) (nth_arg a 2) (opt_arg a 3) (nth_arg a 4)
  | (1, a) => OAppend (nth_arg a 0) (nth_arg a 1) (nth_arg a 2) (nth_arg a 3)
  | (2, a) => OSeal (nth_arg a 0) (nth_arg a 1) (nth_arg a 2)
  | (3, a) => OFlush (nth_arg a 0) (nth_arg a 1) (nth_arg a 2)
  | (4, a) => OMerged (nth_arg a 0) (nth_arg a 1) (nth_arg a 2)
  | (5, a) => OOwner (nth_arg a 0) (nth_arg a 1) (nth_arg a 2) (opt_arg a 3)
  | (6, a) => OTrim (nth_arg a 0)
  | (_, a) => OMergeInsert (nth_arg a 0) (nth_arg a 1) (nth_arg a 2)
  end.
Definition step_wire := (N * op_wire)%type.       (* (read version index, op); frag_ok = true *)
Definition step_of_wire (w : step_wire) : step := MkStep (N.to_nat (fst w)) (op_of_wire (snd w)) true.

(* observation after a step: (result code, MemWAL details of the latest version (None: no index),
   the committed transaction when the code is 0) *)
Definition obs_wire := (N * option (list mw_wire) * option txn_wire)%type.

Fixpoint observe (h : list hentry) (steps : list step) : list (N * option (list memwal) * option txn) :=
  match steps with
  | [] => []
  | s :: rest =>
    let (h', code) := exec h s in
    (code, cur_state h',
     if code =? 0 then match rev h' with e :: _ => Some (e_txn e) | [] => None end else None)
    :: observe h' rest
  end.

Definition obs_eqb (m : N * option (list memwal) * option txn) (o : obs_wire) : bool :=
  match m, o with
  | (c, st, t), (c', st', t') =>
    (c =? c') && option_eqb mwl_eqb st (option_map mws st') &&
    option_eqb txn_eqb t (option_map txn_of_wire t')
  end.

Fixpoint obs_list_eqb (a : list (N * option (list memwal) * option txn)) (b : list obs_wire) : bool :=
  match a, b with
  | [], [] => true
  | x :: xs, y :: ys => obs_eqb x y && obs_list_eqb xs ys
  | _, _ => false
  end.

(* input: (kinds of the initial versions, steps) *)
Definition chk_history (i : list N * list step_wire) (o : list obs_wire) : bool :=
  obs_list_eqb (observe (init_hist (map okind_of_N (fst i))) (map step_of_wire (snd i))) o.

(* the model's own classification of a history, compared with the harness's independent one
   (order: trim_hole, trim_latest, update_over_trim, update_over_merge_insert, double_merge_insert) *)
Definition chk_classes (i : list N * list step_wire) (o : list bool) : bool :=
  let ks := map okind_of_N (fst i) in
  let st := map step_of_wire (snd i) in
  list_eqb Bool.eqb
    [Known_C39_trim_hole ks st; Known_C39_trim_latest ks st; Known_C39_update_over_trim ks st;
     Known_C39_update_over_merge_insert ks st; Known_C39_double_merge_insert ks st] o.
